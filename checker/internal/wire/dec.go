package wire

import (
	"fmt"
	"go/token"
	"go/types"
	"sort"
	"strings"

	"golang.org/x/tools/go/ssa"
)

// Guard is a length check on the success path: it establishes Hi <= len(buf).
type Guard struct {
	At   *ssa.If
	Succ *ssa.BasicBlock // successor taken when the check passes
	Hi   Sym
	X    *X
}

// CellStore is a store to a cursor variable held in a captured cell.
type CellStore struct {
	St  *ssa.Store
	Val Sym
	X   *X
}

// Issue is something a structural check of a decoder found.
type Issue struct {
	Kind string // chain | guard | cursor | store | ret | shape
	What string // normalised construct (no line numbers)
	Msg  string
	Pos  token.Pos
}

// Dec is the result of reading a decoder.
type Dec struct {
	X      *X
	Atoms  []Atom // top level, loops folded into repeat atoms
	Guards []Guard
	Stores []CellStore
	// In: the cursor on entry (offset parameter or 0); RetOff: the new offset
	// returned on each success return (when the signature has one).
	In     Sym
	RetOff []Sym
	Rets   []*ssa.Return
	Subs   []*Dec // closures analysed at their call sites
	Probs  []Issue
	// Escapes: where the input buffer (or a view of it) flows into code this
	// extraction did not analyse — an in-module call that was neither read as a
	// codec unit nor analysed at its call site, a closure used as a value, a
	// struct field or other memory. Non-empty means the atoms above may be only
	// PART of what the decoder reads: no mismatch may be reported from them.
	Escapes []string
}

func (x *X) isInput(root ssa.Value) bool {
	p, ok := root.(*ssa.Parameter)
	if !ok || !isByteSeq(p.Type()) {
		return false
	}
	for y := x; y != nil; y = y.Parent {
		if p.Parent() == y.Fn {
			return true
		}
	}
	// a parameter of an enclosing function reached through a captured cell
	for f := x.Fn; f != nil; f = f.Parent() {
		if p.Parent() == f {
			return true
		}
	}
	return false
}

// offsetParam: the int parameter that carries the cursor in
// func(data []byte, offset int) (T, int, error).
func (x *X) offsetParam() *ssa.Parameter {
	sawBuf := false
	for _, p := range x.Fn.Params {
		if isByteSeq(p.Type()) {
			sawBuf = true
			continue
		}
		if b, ok := p.Type().Underlying().(*types.Basic); ok && b.Kind() == types.Int && sawBuf {
			return p
		}
	}
	return nil
}

type rawAtom struct {
	a    Atom
	loop *Loop
}

// Decode reads the function as a decoder.
func (x *X) Decode() *Dec {
	d := &Dec{X: x, In: SymK(0)}
	if p := x.offsetParam(); p != nil {
		d.In = SymT(p)
	}
	if x.Parent == nil {
		x.findViewFields()
	}
	var raws []rawAtom
	add := func(a Atom) {
		raws = append(raws, rawAtom{a, x.LoopOf(a.At.Block())})
	}
	for _, b := range x.Fn.DomPreorder() {
		for _, in := range b.Instrs {
			switch t := in.(type) {
			case *ssa.Call:
				x.decCall(d, t, add)
			case *ssa.UnOp:
				if t.Op != token.MUL {
					continue
				}
				ia, ok := t.X.(*ssa.IndexAddr)
				if !ok {
					continue
				}
				root, off, okr := x.bufRoot(ia.X)
				if !okr || !x.isInput(root) {
					continue
				}
				o := off.Add(x.Sym(ia.Index))
				e := o.AddK(1)
				a := Atom{Kind: "fixed", Width: 1, Val: t, At: t, Pos: t.Pos(), Off: &o, End: &e}
				a.From = x.windowGuarded(ia.X, a.End)
				x.setDest(&a, t)
				add(a)
			case *ssa.Lookup:
				if _, isMap := t.X.Type().Underlying().(*types.Map); isMap {
					continue
				}
				root, off, okr := x.bufRoot(t.X)
				if !okr || !x.isInput(root) {
					continue
				}
				o := off.Add(x.Sym(t.Index))
				e := o.AddK(1)
				a := Atom{Kind: "fixed", Width: 1, Val: t, At: t, Pos: t.Pos(), Off: &o, End: &e}
				x.setDest(&a, t)
				add(a)
			case *ssa.Index:
				if !isByteSeq(t.X.Type()) {
					continue
				}
				root, off, okr := x.bufRoot(t.X)
				if !okr || !x.isInput(root) {
					continue
				}
				o := off.Add(x.Sym(t.Index))
				e := o.AddK(1)
				a := Atom{Kind: "fixed", Width: 1, Val: t, At: t, Pos: t.Pos(), Off: &o, End: &e}
				x.setDest(&a, t)
				add(a)
			case *ssa.Slice:
				root, off, okr := x.bufRoot(t.X)
				if !okr || !x.isInput(root) || !isByteSeq(t.Type()) {
					continue
				}
				if onlyViewed(t) || x.onlyCursorUpdate(t) {
					continue
				}
				if binConsumer(t) != nil {
					continue // read field by field by encoding/binary (decBinDecode)
				}
				lo := off
				if t.Low != nil {
					lo = lo.Add(x.Sym(t.Low))
				}
				a := Atom{Kind: "bytes", Val: t, At: t, Pos: t.Pos(), Off: &lo}
				if t.High != nil {
					hi := off.Add(x.Sym(t.High))
					a.End = &hi
					if k, isK := hi.Sub(lo).Const(); isK {
						a.Width = int(k)
					}
				} else if n, cp, ok := x.copyExtent(t); ok {
					// copy(dst, data[lo:]): reads as many bytes as dst holds, where the
					// copy is (the length check that must precede it is the guard
					// rule's business)
					hi := lo.Add(n)
					a.End = &hi
					a.At = cp
				}
				if a.End != nil {
					a.From = x.windowGuarded(t.X, a.End)
				}
				x.setDest(&a, t)
				add(a)
			case *ssa.If:
				if g, ok := x.guardOf(t); ok {
					d.Guards = append(d.Guards, g)
				}
			case *ssa.Store:
				cell := t.Addr
				if vs := x.view(); vs != nil {
					if cell == vs.base {
						if val := x.wholeStoreView(vs, t); val != nil {
							if root, off, okr := x.bufRoot(val); okr && x.isInput(root) {
								d.Stores = append(d.Stores, CellStore{St: t, Val: off, X: x})
								continue
							}
						}
						x.viewBad = "the cursor object of " + FuncLabel(x.Fn) + " is assigned as a whole from something other than a composite literal over the input"
						continue
					}
					if base, vf, ok := x.viewFieldOf(cell); ok && base == vs.base && vf == vs.fld {
						if root, off, okr := x.bufRoot(t.Val); okr && x.isInput(root) {
							d.Stores = append(d.Stores, CellStore{St: t, Val: off, X: x})
						} else {
							x.viewBad = "the cursor field of " + FuncLabel(x.Fn) + " is set to something that is not a view of the input"
						}
						continue
					}
				}
				switch cell.(type) {
				case *ssa.Alloc, *ssa.FreeVar:
				default:
					continue
				}
				if b, ok := deref(cell.Type()).Underlying().(*types.Basic); !ok || b.Kind() != types.Int {
					continue
				}
				if !isCaptured(cell) {
					continue
				}
				d.Stores = append(d.Stores, CellStore{St: t, Val: x.Sym(t.Val), X: x})
			}
		}
	}
	raws = x.mergeByteReads(raws)
	d.Atoms = x.fold(raws, nil)
	d.Escapes = x.inputEscapes()
	for _, ret := range x.SuccessReturns() {
		d.Rets = append(d.Rets, ret)
		if len(ret.Results) == 3 {
			if b, ok := ret.Results[1].Type().Underlying().(*types.Basic); ok && b.Kind() == types.Int {
				d.RetOff = append(d.RetOff, x.Sym(ret.Results[1]))
			}
		}
	}
	return d
}

// copyExtent: the open-ended view s = data[lo:] is consumed by exactly one
// copy(dst, s) (and otherwise only measured): the bytes read are the first
// len(dst) of it.
func (x *X) copyExtent(s *ssa.Slice) (Sym, *ssa.Call, bool) {
	refs := s.Referrers()
	if refs == nil {
		return Sym{}, nil, false
	}
	var dst ssa.Value
	var cp *ssa.Call
	for _, r := range *refs {
		switch y := r.(type) {
		case *ssa.DebugRef:
		case *ssa.Call:
			b, ok := y.Call.Value.(*ssa.Builtin)
			if !ok {
				return Sym{}, nil, false
			}
			switch b.Name() {
			case "len":
			case "copy":
				if len(y.Call.Args) != 2 || y.Call.Args[1] != ssa.Value(s) || dst != nil {
					return Sym{}, nil, false
				}
				dst, cp = y.Call.Args[0], y
			default:
				return Sym{}, nil, false
			}
		default:
			return Sym{}, nil, false
		}
	}
	if dst == nil {
		return Sym{}, nil, false
	}
	n, ok := x.seqLen(dst, nil, 0)
	return n, cp, ok
}

func (x *X) markHandled(in ssa.Instruction) {
	if x.handled == nil {
		x.handled = map[ssa.Instruction]bool{}
	}
	x.handled[in] = true
}

// onStack: f is the function being read or one of those it was reached from.
func (x *X) onStack(f *ssa.Function) bool {
	for y := x; y != nil; y = y.Parent {
		if y.Fn == f {
			return true
		}
	}
	return false
}

// AllEscapes lists the escapes of this decoder and of every helper / closure
// analysed on its behalf.
func (d *Dec) AllEscapes() []string {
	out := append([]string(nil), d.Escapes...)
	seen := map[string]bool{}
	for _, e := range out {
		seen[e] = true
	}
	for _, s := range d.Subs {
		for _, e := range s.AllEscapes() {
			if !seen[e] {
				seen[e] = true
				out = append(out, e)
			}
		}
	}
	return out
}

// inputEscapes follows the input buffer of this function — its byte-sequence
// parameters that are (bound to) the decoder's input, and captured variables
// holding it — through views, φs and local variables, and reports every place
// where it leaves the code the extractor read.
func (x *X) inputEscapes() []string {
	var out []string
	note := func(f string, a ...any) {
		s := fmt.Sprintf(f, a...)
		for _, o := range out {
			if o == s {
				return
			}
		}
		out = append(out, s)
	}
	fname := FuncLabel(x.Fn)
	seen := map[ssa.Value]bool{}
	var visit func(v ssa.Value)
	// cell: a variable (Alloc, or FreeVar of a closure) that holds the buffer
	var visitCell func(c ssa.Value)
	visitCell = func(c ssa.Value) {
		if seen[c] || c.Referrers() == nil {
			return
		}
		seen[c] = true
		for _, r := range *c.Referrers() {
			switch y := r.(type) {
			case *ssa.UnOp:
				if y.Op == token.MUL {
					visit(y)
				}
			case *ssa.Store, *ssa.DebugRef:
			case *ssa.MakeClosure:
				fn, _ := y.Fn.(*ssa.Function)
				// the closure may only be called, and every call must have been read
				if y.Referrers() != nil {
					for _, rr := range *y.Referrers() {
						switch z := rr.(type) {
						case *ssa.DebugRef:
						case *ssa.Call:
							if z.Call.Value != ssa.Value(y) {
								note("%s: a closure that captures the input buffer is passed to %s", fname, x.exprString(z, 0))
							} else if !x.handled[z] {
								note("%s: a closure that captures the input buffer is called but was not analysed", fname)
							}
						default:
							note("%s: a closure that captures the input buffer is used as a value (%T)", fname, rr)
						}
					}
				}
				_ = fn
			default:
				note("%s: the address of a variable holding the input buffer is used by %T", fname, r)
			}
		}
	}
	visit = func(v ssa.Value) {
		if seen[v] || v.Referrers() == nil {
			return
		}
		seen[v] = true
		for _, r := range *v.Referrers() {
			switch y := r.(type) {
			case *ssa.Slice:
				if y.X == v {
					visit(y)
				}
			case *ssa.ChangeType:
				visit(y)
			case *ssa.Phi:
				visit(y)
			case *ssa.Store:
				if y.Val != v {
					continue
				}
				switch a := y.Addr.(type) {
				case *ssa.Alloc:
					if isByteSeq(deref(a.Type())) {
						visitCell(a)
						continue
					}
					note("%s: the input buffer is stored into %s", fname, x.exprString(a, 0))
				case *ssa.FreeVar:
					visitCell(a)
				case *ssa.FieldAddr:
					if _, _, isView := x.viewFieldOf(a); isView {
						if vs := x.view(); vs != nil {
							x.viewObjectEscapes(vs, note)
							continue
						}
					}
					st, _ := deref(a.X.Type()).Underlying().(*types.Struct)
					fn := "?"
					if st != nil {
						fn = st.Field(a.Field).Name()
					}
					note("%s: (a view of) the input buffer is stored into field %s of a %s", fname, fn, types.TypeString(deref(a.X.Type()), func(p *types.Package) string { return "" }))
				default:
					note("%s: the input buffer is stored into memory (%T)", fname, y.Addr)
				}
			case ssa.CallInstruction:
				cc := y.Common()
				if _, isB := cc.Value.(*ssa.Builtin); isB {
					continue
				}
				if _, isCall := y.(*ssa.Call); !isCall {
					note("%s: the input buffer is handed to a go/defer statement", fname)
					continue
				}
				if kind, _, _ := binCall(y.(*ssa.Call)); kind != "" {
					continue
				}
				if x.handled[y] {
					continue
				}
				f := cc.StaticCallee()
				switch {
				case f == nil && cc.IsInvoke():
					// a method of an interface value: outside the module's codecs
				case f == nil:
					note("%s: the input buffer is passed to a function value", fname)
				case f.Blocks != nil && x.W.P.InModule(f):
					note("%s: the input buffer is passed to %s, which was not analysed", fname, FuncLabel(f))
				}
			}
		}
	}
	if x.viewBad != "" {
		note("%s", x.viewBad)
	}
	if vs := x.view(); vs != nil {
		x.viewObjectEscapes(vs, note)
	}
	if x.Parent == nil || true {
		for _, p := range x.Fn.Params {
			if isByteSeq(p.Type()) {
				if _, isStr := p.Type().Underlying().(*types.Basic); isStr {
					continue
				}
				visit(p)
			}
		}
	}
	for _, fv := range x.Fn.FreeVars {
		if al, ok := CellRoot(fv).(*ssa.Alloc); ok && isByteSeq(deref(al.Type())) {
			if s := singleStore(al); s != nil && x.isInput(s.Val) {
				visitCell(fv)
			}
		}
	}
	return out
}

// viewObjectEscapes: the cursor object may only have its fields addressed and
// be handed to calls that were analysed at their call site.
func (x *X) viewObjectEscapes(vs *viewState, note func(string, ...any)) {
	fname := FuncLabel(x.Fn)
	if vs.base.Referrers() == nil {
		return
	}
	for _, r := range *vs.base.Referrers() {
		switch y := r.(type) {
		case *ssa.FieldAddr, *ssa.DebugRef:
		case *ssa.Store:
			if y.Val == vs.base {
				note("%s: the cursor object is stored into memory", fname)
			}
			// a whole-struct store initialising the object: its view field is set
			// by the composite literal, which findViewFields saw field by field
		case *ssa.UnOp:
			note("%s: the cursor object is copied as a whole", fname)
		case ssa.CallInstruction:
			if !x.handled[y] {
				callee := "a call"
				if f := y.Common().StaticCallee(); f != nil {
					callee = FuncLabel(f)
				}
				note("%s: the cursor object is handed to %s, which was not analysed", fname, callee)
			}
		default:
			note("%s: the cursor object is used by %T", fname, r)
		}
	}
}

// isCaptured: the cell is a FreeVar, or an Alloc bound into a closure.
func isCaptured(cell ssa.Value) bool {
	if _, ok := cell.(*ssa.FreeVar); ok {
		return true
	}
	if cell.Referrers() == nil {
		return false
	}
	for _, r := range *cell.Referrers() {
		if _, ok := r.(*ssa.MakeClosure); ok {
			return true
		}
	}
	return false
}

// onlyViewed: the slice value is used only as the argument of an
// encoding/binary getter or as the base of further views (then the reads made
// through it are the atoms, not the slice itself).
func onlyViewed(s *ssa.Slice) bool {
	refs := s.Referrers()
	if refs == nil || len(*refs) == 0 {
		return true
	}
	for _, r := range *refs {
		switch y := r.(type) {
		case *ssa.Call:
			if kind, _, _ := binCall(y); kind == "get" {
				continue
			}
			if b, ok := y.Call.Value.(*ssa.Builtin); ok && b.Name() == "len" {
				continue
			}
			return false
		case *ssa.Slice, *ssa.IndexAddr, *ssa.DebugRef:
			continue
		default:
			return false
		}
	}
	return true
}

func (x *X) decCall(d *Dec, t *ssa.Call, add func(Atom)) {
	cc := t.Common()
	if kind, w, order := binCall(t); kind == "get" {
		root, off, okr := x.bufRoot(cc.Args[1])
		if !okr || !x.isInput(root) {
			return
		}
		o := off
		e := o.AddK(int64(w))
		a := Atom{Kind: "fixed", Width: w, Order: order, Val: t, At: t, Pos: t.Pos(), Off: &o, End: &e}
		a.From = x.windowGuarded(cc.Args[1], a.End)
		x.setDest(&a, t)
		add(a)
		return
	} else if kind != "" {
		return
	}
	if _, isB := cc.Value.(*ssa.Builtin); isB {
		return
	}
	if x.decBinDecode(t, add) {
		x.markHandled(t)
		return
	}
	// closure called once per section
	if fn := closureOf(cc.Value); fn != nil {
		capturesInput := false
		for _, fv := range fn.FreeVars {
			if al, ok := CellRoot(fv).(*ssa.Alloc); ok {
				if s := singleStore(al); s != nil && x.isInput(s.Val) {
					capturesInput = true
				}
			}
		}
		if !capturesInput {
			return
		}
		child := New(x.W, fn)
		child.Parent = x
		for i, p := range fn.Params {
			if i < len(cc.Args) {
				f, e, _, _ := x.desc(cc.Args[i])
				if f == "" {
					f = e
				}
				child.Names[p] = f
			}
		}
		sub := child.Decode()
		x.markHandled(t)
		// where does result 0 go?
		ret0 := ""
		if t.Referrers() != nil {
			for _, r := range *t.Referrers() {
				if ex, ok := r.(*ssa.Extract); ok && ex.Index == 0 {
					di := x.dest(ex)
					ret0 = di.field
				}
			}
		}
		if ret0 != "" {
			sub.Atoms = substAtoms(sub.Atoms, "ret0", ret0)
		}
		d.Subs = append(d.Subs, sub)
		cur := x.cursorCellOf(fn)
		for _, a := range sub.Atoms {
			a.At = t // position in the caller's program order
			if a.Kind == "repeat" && cur != nil {
				// the cursor the closure sees on entry is the caller's cursor here
				o := x.cellValueAt(cur, t)
				a.Off = &o
			}
			add(a)
		}
		return
	}
	f := cc.StaticCallee()
	if f == nil || !x.W.P.InModule(f) {
		return
	}
	if x.inlineView(d, t, f, add) {
		x.markHandled(t)
		return
	}
	if x.inlineReader(t, f, add) {
		x.markHandled(t)
		return
	}
	if x.inlineCursor(d, t, f, add) {
		x.markHandled(t)
		return
	}
	// func(data, offset) (T, newOffset, error) called on the whole buffer
	var offArg ssa.Value
	whole := false
	for _, a := range cc.Args {
		if isByteSeq(a.Type()) {
			root, off, okr := x.bufRoot(a)
			if okr && x.isInput(root) {
				if k, isK := off.Const(); isK && k == 0 {
					if _, isSlice := StripConv(a).(*ssa.Slice); !isSlice {
						whole = true
					}
				}
			}
			continue
		}
		if b, ok := a.Type().Underlying().(*types.Basic); ok && b.Kind() == types.Int && whole && offArg == nil {
			offArg = a
		}
	}
	if !whole || offArg == nil {
		return
	}
	o := x.Sym(offArg)
	if x.isUnit(f) || x.onStack(f) || x.root().Units == nil {
		// a codec unit compared as a whole (or the decoder calling itself): the
		// call is accounted for by the nested atom
		x.markHandled(t)
	}
	a := Atom{Kind: "nested", Callee: f, Val: t, At: t, Pos: t.Pos(), Off: &o}
	if t.Referrers() != nil {
		for _, r := range *t.Referrers() {
			ex, ok := r.(*ssa.Extract)
			if !ok {
				continue
			}
			if b, isB := ex.Type().Underlying().(*types.Basic); isB && b.Kind() == types.Int && a.End == nil {
				e := SymT(ex)
				a.End = &e
			}
			if ex.Index == 0 {
				x.setDest(&a, ex)
			}
		}
	}
	add(a)
}

// closureOf resolves a called value to the anonymous function it was made from.
func closureOf(v ssa.Value) *ssa.Function {
	if mc, ok := v.(*ssa.MakeClosure); ok {
		if fn, ok := mc.Fn.(*ssa.Function); ok {
			return fn
		}
	}
	return nil
}

// cursorCellOf: the captured int cell of a closure (as the caller names it).
func (x *X) cursorCellOf(fn *ssa.Function) ssa.Value {
	for _, b := range x.Fn.Blocks {
		for _, in := range b.Instrs {
			mc, ok := in.(*ssa.MakeClosure)
			if !ok || mc.Fn != ssa.Value(fn) {
				continue
			}
			for _, bd := range mc.Bindings {
				if bt, ok := deref(bd.Type()).Underlying().(*types.Basic); ok && bt.Kind() == types.Int {
					return bd
				}
			}
		}
	}
	return nil
}

// ---------------------------------------------------------------------------
// where a value read from the wire ends up

type destInfo struct {
	field  string
	via    string
	local  bool
	ret    bool // the value is returned as result 0
	retVia string
}

func (x *X) setDest(a *Atom, v ssa.Value) {
	di := x.dest(v)
	a.Field, a.Via = di.field, di.via
	a.ret, a.retVia = di.ret && di.field == "", di.retVia
	a.Local = di.field == "" && di.local && !a.ret
	if a.Field == "" {
		a.Expr = x.exprString(v, 0)
	}
}

func (x *X) dest(v ssa.Value) destInfo {
	var out destInfo
	seen := map[ssa.Value]bool{}
	type item struct {
		v   ssa.Value
		via string
	}
	work := []item{{v, ""}}
	for steps := 0; len(work) > 0 && steps < 100; steps++ {
		it := work[0]
		work = work[1:]
		if seen[it.v] || it.v.Referrers() == nil {
			continue
		}
		seen[it.v] = true
		for _, r := range *it.v.Referrers() {
			switch y := r.(type) {
			case *ssa.Convert:
				work = append(work, item{y, it.via})
			case *ssa.ChangeType:
				work = append(work, item{y, it.via})
			case *ssa.Extract:
				if y.Index == 0 {
					work = append(work, item{y, it.via})
				}
			case *ssa.Store:
				if y.Val != it.v {
					continue
				}
				if p, ok := x.Path(y.Addr); ok {
					if out.field == "" {
						out.field, out.via = p, it.via
					}
					continue
				}
				if ia, ok := y.Addr.(*ssa.IndexAddr); ok {
					if al, ok := ia.X.(*ssa.Alloc); ok {
						if p, ok := x.destOfElem(al); ok && out.field == "" {
							out.field, out.via = p, it.via
						}
					}
				}
			case *ssa.Call:
				cc := y.Common()
				if b, ok := cc.Value.(*ssa.Builtin); ok {
					switch b.Name() {
					case "copy":
						if len(cc.Args) == 2 && cc.Args[1] == it.v {
							if p, ok := x.sliceDest(cc.Args[0]); ok && out.field == "" {
								out.field, out.via = p, it.via
							}
						}
					case "append":
						if len(cc.Args) == 2 && cc.Args[1] == it.v {
							work = append(work, item{y, it.via})
						}
					case "len":
					default:
						out.local = true
					}
					continue
				}
				if kind, _, _ := binCall(y); kind != "" {
					continue
				}
				if copiesBytes(cc.StaticCallee()) {
					work = append(work, item{y, it.via})
					continue
				}
				// an argument of a cursor method (r.take(n)): a local use — what the
				// method reads is described where it is analysed
				if vs := x.view(); vs != nil {
					isCursorCall := false
					for _, a := range cc.Args {
						if a == vs.base {
							isCursorCall = true
						}
					}
					if isCursorCall {
						out.local = true
						continue
					}
				}
				via := it.via
				if f := cc.StaticCallee(); f != nil {
					if via == "" {
						via = f.Name()
					} else {
						via += "," + f.Name()
					}
				}
				work = append(work, item{y, via})
			case *ssa.Return:
				if len(y.Results) > 1 && y.Results[0] == it.v && !out.ret {
					out.ret, out.retVia = true, it.via
				}
			case *ssa.BinOp, *ssa.If, *ssa.IndexAddr, *ssa.Slice, *ssa.MakeSlice, *ssa.Phi:
				out.local = true
			}
		}
	}
	return out
}

// destOfElem: obj holds a value that is appended (as an element) somewhere.
func (x *X) destOfElem(al *ssa.Alloc) (string, bool) {
	seen := map[ssa.Value]bool{}
	work := []ssa.Value{al}
	for steps := 0; len(work) > 0 && steps < 100; steps++ {
		v := work[0]
		work = work[1:]
		if seen[v] || v.Referrers() == nil {
			continue
		}
		seen[v] = true
		for _, r := range *v.Referrers() {
			switch y := r.(type) {
			case *ssa.Slice:
				work = append(work, y)
			case *ssa.Call:
				if b, ok := y.Call.Value.(*ssa.Builtin); ok && b.Name() == "append" {
					work = append(work, y)
				}
			case *ssa.Phi:
				work = append(work, y)
			case *ssa.Store:
				if y.Val == v {
					if p, ok := x.Path(y.Addr); ok {
						// s.F = append(s.G, e): the element lands in F but F loses its own elements
						if app, isApp := v.(*ssa.Call); isApp && len(app.Call.Args) > 0 {
							if bp, okb := x.basePath(app.Call.Args[0]); okb && bp != p {
								return p + "[*](appended to " + bp + ")", true
							}
						}
						return p + "[*]", true
					}
				}
			case *ssa.Return:
				if len(y.Results) > 0 && y.Results[0] == v {
					return "ret0[*]", true
				}
			}
		}
	}
	return "", false
}

// sliceDest: the subject field a destination slice (copy's first argument) is.
func (x *X) sliceDest(dst ssa.Value) (string, bool) {
	switch t := dst.(type) {
	case *ssa.UnOp:
		if t.Op == token.MUL {
			if p, ok := x.Path(t.X); ok {
				return p, true
			}
			rep := x.FI.LoadRep(t)
			if rep != ssa.Value(t) {
				return x.sliceDest(rep)
			}
		}
	case *ssa.Slice:
		if p, ok := x.Path(t.X); ok {
			return p, true
		}
		return x.sliceDest(t.X)
	case *ssa.MakeSlice:
		for _, r := range *t.Referrers() {
			if st, ok := r.(*ssa.Store); ok && st.Val == ssa.Value(t) {
				if p, ok := x.Path(st.Addr); ok {
					return p, true
				}
			}
		}
	}
	return "", false
}

// ---------------------------------------------------------------------------
// guards

func (x *X) guardOf(iff *ssa.If) (Guard, bool) {
	cmp, ok := iff.Cond.(*ssa.BinOp)
	if !ok {
		return Guard{}, false
	}
	b := iff.Block()
	if len(b.Succs) != 2 {
		return Guard{}, false
	}
	e0, e1 := errorExit(b.Succs[0]), errorExit(b.Succs[1])
	if e0 == e1 {
		return Guard{}, false
	}
	failOnTrue := e0
	// X op Y with D = X - Y; D must mention the length L of the input buffer
	// exactly once: D = E - L (then X op Y ⟺ E op L) or D = L - E (⟺ L op E).
	// This covers `off+4 > len(data)`, `len(data) < off+4`, `len(data)-off < 4`
	// and `len(data[off:]) < 4` alike.
	dsym := x.Sym(cmp.X).Sub(x.Sym(cmp.Y))
	var lterm ssa.Value
	for t := range dsym.T {
		if x.isInputLen(t) {
			if lterm != nil {
				return Guard{}, false
			}
			lterm = t
		}
	}
	if lterm == nil {
		return Guard{}, false
	}
	var a Sym
	op := cmp.Op
	switch dsym.Coef(lterm) {
	case -1:
		a = dsym.Add(SymT(lterm))
	case 1:
		a = SymT(lterm).Sub(dsym)
		// len op A  ≡  A op' len
		switch op {
		case token.LSS:
			op = token.GTR
		case token.LEQ:
			op = token.GEQ
		case token.GTR:
			op = token.LSS
		case token.GEQ:
			op = token.LEQ
		}
	default:
		return Guard{}, false
	}
	// now the comparison reads  A op len
	var hi Sym
	if failOnTrue {
		switch op {
		case token.GTR: // A > len fails → A <= len
			hi = a
		case token.GEQ: // A >= len fails → A+1 <= len
			hi = a.AddK(1)
		default:
			return Guard{}, false
		}
	} else {
		switch op {
		case token.LEQ:
			hi = a
		case token.LSS:
			hi = a.AddK(1)
		default:
			return Guard{}, false
		}
	}
	succ := b.Succs[1]
	if !failOnTrue {
		succ = b.Succs[0]
	}
	return Guard{At: iff, Succ: succ, Hi: hi, X: x}, true
}

// ---------------------------------------------------------------------------
// loops and cursors

// fold groups the atoms of each loop into a repeat atom (recursively).
func (x *X) fold(raws []rawAtom, in *Loop) []Atom {
	var out []Atom
	i := 0
	for i < len(raws) {
		r := raws[i]
		// the child loop of `in` that contains this atom
		l := r.loop
		for l != nil && l.Parent != in {
			l = l.Parent
		}
		if r.loop == in || l == nil {
			out = append(out, r.a)
			i++
			continue
		}
		j := i
		var inner []rawAtom
		for j < len(raws) {
			m := raws[j].loop
			for m != nil && m != l {
				m = m.Parent
			}
			if m != l {
				break
			}
			inner = append(inner, raws[j])
			j++
		}
		out = append(out, x.repeatDec(l, x.fold(inner, l)))
		i = j
	}
	return out
}

// repeatDec builds the repeat atom of a decoder loop: bound, cursor, section.
func (x *X) repeatDec(l *Loop, body []Atom) Atom {
	a := Atom{Kind: "repeat", Loop: l, Body: body, Pos: body[0].Pos, At: l.Header.Instrs[0]}
	if bound, _, ok := loopBound(l.Header); ok {
		f, e, _, _ := x.desc(bound)
		if f != "" {
			a.Count = f
		} else {
			a.Count = e
		}
		a.Count += x.iterStart(l.Header)
	}
	a.Over = sectionOf(body)
	hb := l.Header
	var entryPred *ssa.BasicBlock
	var backPreds []int
	entryIdx := -1
	for i, p := range hb.Preds {
		if hb.Dominates(p) {
			backPreds = append(backPreds, i)
		} else {
			entryPred = p
			entryIdx = i
		}
	}
	// φ cursor: an int φ of the header that the body's offsets mention
	for _, in := range hb.Instrs {
		phi, ok := in.(*ssa.Phi)
		if !ok {
			break
		}
		used := false
		for _, b := range Flatten(body) {
			if b.Off != nil && b.Off.Coef(phi) != 0 {
				used = true
			}
		}
		if !used || entryIdx < 0 {
			continue
		}
		a.Cursor = "phi"
		inS := SymT(phi)
		a.In = &inS
		off := x.Sym(phi.Edges[entryIdx])
		a.Off = &off
		end := SymT(phi)
		a.End = &end
		var outS *Sym
		agree := true
		for _, i := range backPreds {
			s := x.Sym(phi.Edges[i])
			if outS == nil {
				outS = &s
			} else if !outS.Equal(s) {
				agree = false
			}
		}
		if agree {
			a.Out = outS
			// a rotated loop (entry test, test at the latch) leaves through a φ that
			// joins the cursor at entry (no iteration) with the cursor at the latch
			if ex := x.exitPhi(l, *a.Off, *outS); ex != nil {
				end := SymT(ex)
				a.End = &end
			}
		}
		return a
	}
	// view cursor: the body starts at the current cursor of a view cell
	if vs := x.view(); vs != nil {
		for _, b := range Flatten(body) {
			if b.Off == nil {
				continue
			}
			if b.Off.Coef(vs.cur) != 1 {
				break
			}
			a.Cursor = "cell"
			inS := SymT(vs.cur)
			a.In = &inS
			if entryPred != nil {
				off := x.viewAt(entryPred.Instrs[len(entryPred.Instrs)-1])
				a.Off = &off
			}
			end := SymT(vs.cur)
			a.End = &end
			var outS *Sym
			agree := len(backPreds) > 0
			for _, i := range backPreds {
				p := hb.Preds[i]
				s := x.viewAt(p.Instrs[len(p.Instrs)-1])
				if outS == nil {
					outS = &s
				} else if !outS.Equal(s) {
					agree = false
				}
			}
			if agree {
				a.Out = outS
			}
			return a
		}
	}
	// cell cursor: the body's first offset is a load of a captured int cell
	for _, b := range Flatten(body) {
		if b.Off == nil {
			continue
		}
		for t := range b.Off.T {
			ld, ok := t.(*ssa.UnOp)
			if !ok || ld.Op != token.MUL {
				continue
			}
			switch ld.X.(type) {
			case *ssa.Alloc, *ssa.FreeVar:
			default:
				continue
			}
			if bt, ok := ld.Type().Underlying().(*types.Basic); !ok || bt.Kind() != types.Int {
				continue
			}
			if !l.Blocks[ld.Block()] {
				continue
			}
			a.Cursor = "cell"
			inS := SymT(ld)
			a.In = &inS
			if entryPred != nil {
				off := x.cellValueAt(ld.X, entryPred.Instrs[len(entryPred.Instrs)-1])
				a.Off = &off
			}
			end := SymT(CellRoot(ld.X))
			a.End = &end
			var outS *Sym
			agree := len(backPreds) > 0
			for _, i := range backPreds {
				p := hb.Preds[i]
				s := x.cellValueAt(ld.X, p.Instrs[len(p.Instrs)-1])
				if outS == nil {
					outS = &s
				} else if !outS.Equal(s) {
					agree = false
				}
			}
			if agree {
				a.Out = outS
			}
			return a
		}
		break
	}
	return a
}

// iterStart: " from k" when the counted loop headed by hb does not start at 0.
func (x *X) iterStart(hb *ssa.BasicBlock) string {
	it, ok := x.Iter(hb)
	if !ok {
		return ""
	}
	if it.From != nil {
		return " from " + x.exprString(it.From, 0)
	}
	if it.FromK != 0 {
		return fmt.Sprintf(" from %d", it.FromK)
	}
	return ""
}

// exitPhi: an int φ outside loop l, in a block the loop exits to, every edge of
// which carries either the cursor on entry (edges from outside the loop) or
// the cursor at the latch (edges from inside).
func (x *X) exitPhi(l *Loop, entry, out Sym) *ssa.Phi {
	for b := range l.Blocks {
		for _, s := range b.Succs {
			if l.Blocks[s] {
				continue
			}
			for _, in := range s.Instrs {
				phi, ok := in.(*ssa.Phi)
				if !ok {
					break
				}
				if bt, isB := phi.Type().Underlying().(*types.Basic); !isB || bt.Kind() != types.Int {
					continue
				}
				good, fromLoop := true, false
				for i, p := range s.Preds {
					v := x.Sym(phi.Edges[i])
					if l.Blocks[p] {
						fromLoop = true
						if !v.Equal(out) {
							good = false
						}
					} else if !v.Equal(entry) {
						good = false
					}
				}
				if good && fromLoop {
					return phi
				}
			}
		}
	}
	return nil
}

// sectionOf: the slice field the elements built by a loop body belong to
// ("Questions" for fields Questions[*].Name, Questions[*]).
func sectionOf(body []Atom) string {
	sec := ""
	for _, b := range Flatten(body) {
		i := strings.Index(b.Field, "[*]")
		if i < 0 {
			continue
		}
		s := b.Field[:i]
		if sec == "" {
			sec = s
		} else if sec != s {
			return sec + "|" + s
		}
	}
	return sec
}

// cellValueAt: the value of a captured int cell at instruction `at`, when the
// nearest store that dominates `at` cannot have been overwritten in between;
// otherwise the opaque "current value of the cell".
func (x *X) cellValueAt(addr ssa.Value, at ssa.Instruction) Sym {
	cur := SymT(CellRoot(addr))
	refs := addr.Referrers()
	if refs == nil {
		return cur
	}
	var stores []*ssa.Store
	for _, r := range *refs {
		if st, ok := r.(*ssa.Store); ok && st.Addr == addr {
			stores = append(stores, st)
		}
	}
	var near *ssa.Store
	for _, st := range stores {
		if x.domI(st, at) && (near == nil || x.domI(near, st)) {
			near = st
		}
	}
	if near == nil {
		return cur
	}
	for _, st := range stores {
		if st == near {
			continue
		}
		if x.pathExists(near, st, near) && x.pathExists(st, at, near) {
			return cur
		}
	}
	// calls that may run a closure of this function tree
	for _, b := range x.Fn.Blocks {
		for _, in := range b.Instrs {
			call, ok := in.(ssa.CallInstruction)
			if !ok {
				continue
			}
			cc := call.Common()
			if _, isB := cc.Value.(*ssa.Builtin); isB {
				continue
			}
			f := cc.StaticCallee()
			if f != nil && f.Parent() == nil {
				continue // a declared function cannot reach a local cell that does not escape
			}
			if x.pathExists(near, in, near) && x.pathExists(in, at, near) {
				return cur
			}
		}
	}
	return x.Sym(near.Val)
}

// ---------------------------------------------------------------------------
// structural checks

// Check verifies, region by region, that the reads are contiguous (each atom
// starts where the previous one ended, the first at the region's cursor), that
// the cursor leaving a loop body / the function is the end of the last atom,
// that every store to a captured cursor is an atom boundary, and that each
// length guard establishes exactly the end of the last read it protects.
// It returns the issues found and the number of (chain links, guards) checked.
func (d *Dec) Check() (issues []Issue, links, guards int) {
	x := d.X
	fnName := FuncLabel(x.Fn)
	issue := func(kind string, pos token.Pos, what, f string, a ...any) {
		issues = append(issues, Issue{Kind: kind, What: fnName + ": " + what, Msg: fmt.Sprintf(f, a...), Pos: pos})
	}
	name := func(a Atom) string {
		if a.Kind == "repeat" {
			return "loop over " + a.Over
		}
		n := a.Field
		if n == "" {
			n = a.Expr
		}
		return n
	}
	var region func(as []Atom, in *Sym, out *Sym, what string)
	region = func(as []Atom, in *Sym, out *Sym, what string) {
		cur := in
		for _, a := range as {
			if a.Kind == "unknown" {
				issue("shape", a.Pos, what+" "+a.Expr, "not decided: %s", a.Expr)
				continue
			}
			if a.Off == nil || a.End == nil {
				issue("shape", a.Pos, what+" "+name(a), "read of %s has no determinable extent", name(a))
				cur = nil
				continue
			}
			if cur != nil {
				links++
				if !cur.Equal(*a.Off) {
					issue("chain", a.Pos, what+" "+name(a), "read of %s starts at %s but the previous read ended at %s (fields are not consumed contiguously)",
						name(a), x.SymString(*a.Off), x.SymString(*cur))
				}
			}
			if a.Kind == "repeat" {
				if a.In == nil {
					issue("cursor", a.Pos, what+" "+name(a), "loop over %s: no cursor (φ or captured variable) could be identified", a.Over)
				} else {
					region(a.Body, a.In, a.Out, what+" "+name(a)+":")
					if a.Out == nil {
						issue("cursor", a.Pos, what+" "+name(a), "loop over %s: the cursor at the back edge could not be determined", a.Over)
					}
				}
			}
			cur = a.End
		}
		if out != nil && cur != nil {
			links++
			if !cur.Equal(*out) {
				issue("cursor", as[len(as)-1].Pos, what+" cursor after "+name(as[len(as)-1]),
					"the cursor leaves with %s but the last read ended at %s", x.SymString(*out), x.SymString(*cur))
			}
		}
	}
	if len(d.Atoms) > 0 {
		var out *Sym
		if len(d.RetOff) == 1 {
			out = &d.RetOff[0]
		}
		region(d.Atoms, &d.In, out, "")
		if len(d.RetOff) > 1 {
			last := d.Atoms[len(d.Atoms)-1]
			for _, r := range d.RetOff {
				links++
				if last.End == nil || !last.End.Equal(r) {
					issue("ret", last.Pos, "returned offset", "a success return yields offset %s, the last read ended at %s", x.SymString(r), symStr(x, last.End))
				}
			}
		}
	}
	// stores to captured cursors must be atom boundaries of their region
	all := d.allAtoms()
	for _, st := range d.allStores() {
		lp := st.X.LoopOf(st.St.Block())
		ok := false
		var bounds []string
		for _, a := range all {
			if a.x != st.X || a.loop != lp {
				continue
			}
			for _, s := range []*Sym{a.a.Off, a.a.End} {
				if s != nil {
					bounds = append(bounds, st.X.SymString(*s))
					if s.Equal(st.Val) {
						ok = true
					}
				}
			}
		}
		links++
		if !ok {
			sort.Strings(bounds)
			issues = append(issues, Issue{Kind: "store", What: fnName + ": cursor store " + st.X.SymString(st.Val),
				Msg: fmt.Sprintf("the cursor is set to %s, which is not the start or end of any read in the same region", st.X.SymString(st.Val)), Pos: st.St.Pos()})
		}
	}
	// guards
	type cov struct {
		g     Guard
		atoms []Atom
	}
	var gs []*cov
	for _, g := range d.allGuards() {
		gs = append(gs, &cov{g: g})
	}
	for _, fa := range all {
		a := fa.a
		if a.Kind != "fixed" && a.Kind != "bytes" {
			continue
		}
		if a.End == nil || a.From != nil {
			continue
		}
		// nearest dominating guard of the same function whose success edge dominates the read
		var near *cov
		for _, c := range gs {
			if c.g.X != fa.x {
				continue
			}
			if !(c.g.Succ == a.At.Block() || c.g.Succ.Dominates(a.At.Block())) {
				continue
			}
			// the check's SUCCESS EDGE must dominate the read, not just its target block: a
			// short-circuit condition (`n > 0 && off >= len`) reaches the same block without
			// the comparison having been made
			if !edgeDominates(c.g.At.Block(), c.g.Succ) {
				continue
			}
			if near == nil || fa.x.domI(near.g.At, c.g.At) {
				near = c
			}
		}
		guards++
		if near == nil {
			issues = append(issues, Issue{Kind: "guard", What: fnName + ": guard for " + name(a),
				Msg: fmt.Sprintf("read of %s up to %s is not preceded by a length check on the success path", name(a), fa.x.SymString(*a.End)), Pos: a.Pos})
			continue
		}
		near.atoms = append(near.atoms, a)
	}
	for _, c := range gs {
		if len(c.atoms) == 0 {
			continue
		}
		// the guard must establish exactly the furthest end it protects
		exact := false
		short := ""
		for _, a := range c.atoms {
			diff := c.g.Hi.Sub(*a.End)
			k, isK := diff.Const()
			if !isK {
				short = fmt.Sprintf("the check establishes %s <= len, which is not comparable with the end %s of the read of %s", c.g.X.SymString(c.g.Hi), c.g.X.SymString(*a.End), name(a))
				continue
			}
			if k < 0 {
				short = fmt.Sprintf("the check establishes only %s <= len but %s is read up to %s", c.g.X.SymString(c.g.Hi), name(a), c.g.X.SymString(*a.End))
			}
			if k == 0 {
				exact = true
			}
		}
		last := c.atoms[len(c.atoms)-1]
		guards++
		switch {
		case short != "":
			issues = append(issues, Issue{Kind: "guard", What: fnName + ": guard before " + name(c.atoms[0]), Msg: short, Pos: c.g.At.Pos()})
		case !exact:
			issues = append(issues, Issue{Kind: "guard", What: fnName + ": guard before " + name(c.atoms[0]),
				Msg: fmt.Sprintf("the check demands %s <= len but the reads it protects end at %s (a valid message that ends there is rejected)", c.g.X.SymString(c.g.Hi), c.g.X.SymString(*last.End)), Pos: c.g.At.Pos()})
		}
	}
	return issues, links, guards
}

func symStr(x *X, s *Sym) string {
	if s == nil {
		return "?"
	}
	return x.SymString(*s)
}

type flatAtom struct {
	a    Atom
	x    *X
	loop *Loop
}

// allAtoms lists the non-repeat atoms of this decoder and its closures with
// the extractor and the loop (region) they belong to.
func (d *Dec) allAtoms() []flatAtom {
	var out []flatAtom
	var walk func(x *X, as []Atom, l *Loop)
	walk = func(x *X, as []Atom, l *Loop) {
		for _, a := range as {
			if a.Kind == "repeat" {
				if a.Loop != nil && a.Loop.Header.Parent() == x.Fn {
					walk(x, a.Body, a.Loop)
				}
				continue
			}
			out = append(out, flatAtom{a, x, l})
		}
	}
	walk(d.X, d.Atoms, nil)
	for _, s := range d.Subs {
		for _, fa := range s.allAtoms() {
			out = append(out, fa)
		}
	}
	// de-duplicate closure atoms analysed at several call sites
	type dkey struct {
		in      ssa.Instruction
		inlined bool
		leaf    string // one call that reads several fields (encoding/binary): the field read
	}
	seen := map[dkey]bool{}
	var uniq []flatAtom
	for _, fa := range out {
		if fa.a.At != nil && fa.a.Kind != "repeat" {
			key := dkey{in: fa.a.At, inlined: fa.a.From != nil}
			if v, ok := fa.a.Val.(ssa.Instruction); ok {
				key.in = v
			} else if fa.a.Val == nil && fa.a.Off != nil {
				key.leaf = fa.a.Field + "@" + fa.x.SymString(*fa.a.Off)
			}
			if seen[key] {
				continue
			}
			seen[key] = true
		}
		uniq = append(uniq, fa)
	}
	return uniq
}

func (d *Dec) allStores() []CellStore {
	out := append([]CellStore(nil), d.Stores...)
	seen := map[*ssa.Store]bool{}
	for _, s := range out {
		seen[s.St] = true
	}
	for _, s := range d.Subs {
		for _, st := range s.allStores() {
			if !seen[st.St] {
				seen[st.St] = true
				out = append(out, st)
			}
		}
	}
	return out
}

func (d *Dec) allGuards() []Guard {
	out := append([]Guard(nil), d.Guards...)
	seen := map[*ssa.If]bool{}
	for _, g := range out {
		seen[g.At] = true
	}
	for _, s := range d.Subs {
		for _, g := range s.allGuards() {
			if !seen[g.At] {
				seen[g.At] = true
				out = append(out, g)
			}
		}
	}
	return out
}

// FuncLabel renders Recv.Method, Func, or Recv.Method$1 for closures.
func FuncLabel(fn *ssa.Function) string {
	if fn.Parent() != nil {
		return FuncLabel(fn.Parent()) + strings.TrimPrefix(fn.Name(), fn.Parent().Name())
	}
	if r := fn.Signature.Recv(); r != nil {
		t := deref(r.Type())
		if n, ok := t.(*types.Named); ok {
			return n.Obj().Name() + "." + fn.Name()
		}
	}
	return fn.Name()
}

// inlineReader: a call to an in-module helper func(data []byte, off int) uintN
// that performs exactly one fixed-width read of data at an offset that is a
// linear form in `off`, and returns the value read (an extracted "get"
// helper), is read as that atom at the caller's offset.
func (x *X) inlineReader(call *ssa.Call, f *ssa.Function, add func(Atom)) bool {
	cc := call.Common()
	if f.Blocks == nil || cc.IsInvoke() || f.Signature.Results().Len() != 1 || len(cc.Args) != len(f.Params) {
		return false
	}
	if _, _, isInt := intBits(f.Signature.Results().At(0).Type()); !isInt {
		return false
	}
	for y := x; y != nil; y = y.Parent {
		if y.Fn == f {
			return false
		}
	}
	bufIdx := -1
	for i, a := range cc.Args {
		if isByteSeq(a.Type()) {
			root, off, okr := x.bufRoot(a)
			if !okr || !x.isInput(root) {
				return false
			}
			if k, isK := off.Const(); !isK || k != 0 {
				return false
			}
			if bufIdx >= 0 {
				return false
			}
			bufIdx = i
		}
	}
	if bufIdx < 0 {
		return false
	}
	child := New(x.W, f)
	d := child.Decode()
	if len(d.Atoms) != 1 || d.Atoms[0].Kind != "fixed" || d.Atoms[0].Off == nil || len(d.Guards) != 0 {
		return false
	}
	rets := child.SuccessReturns()
	if len(rets) != 1 || StripConv(rets[0].Results[0]) != d.Atoms[0].Val {
		return false
	}
	a := d.Atoms[0]
	sub := func(s Sym) (Sym, bool) {
		out := SymK(s.K)
		for t, k := range s.T {
			p, isP := t.(*ssa.Parameter)
			if !isP {
				return out, false
			}
			idx := -1
			for i, q := range f.Params {
				if q == p {
					idx = i
				}
			}
			if idx < 0 {
				return out, false
			}
			out = out.Add(x.Sym(cc.Args[idx]).Scale(k))
		}
		return out, true
	}
	o, ok1 := sub(*a.Off)
	e, ok2 := sub(*a.End)
	if !ok1 || !ok2 {
		return false
	}
	na := Atom{Kind: "fixed", Width: a.Width, Order: a.Order, Val: call, At: call, Pos: call.Pos(), Off: &o, End: &e}
	x.setDest(&na, call)
	add(na)
	return true
}

// root returns the outermost extractor of the tree this one belongs to.
func (x *X) root() *X {
	for x.Parent != nil {
		x = x.Parent
	}
	return x
}

func (x *X) isUnit(f *ssa.Function) bool {
	for y := x; y != nil; y = y.Parent {
		if y.Units != nil {
			return y.Units[f]
		}
	}
	return false
}

// inlineCursor: a call, on the whole input buffer, of an in-module cursor
// helper func(data []byte, off int) (T, newOff int, err error) that is not one
// of the codec units compared as a whole (an extracted "read the name" step)
// is read as the helper's own reads, placed at the caller's cursor: the
// helper is analysed as a decoder, its extents are rewritten over the caller's
// arguments, the value it returns is followed to the field the caller stores
// it into, and the new offset it returns becomes the linear form of the
// caller's result. The helper's length checks are checked in the helper.
func (x *X) inlineCursor(d *Dec, call *ssa.Call, f *ssa.Function, add func(Atom)) bool {
	cc := call.Common()
	if f.Blocks == nil || cc.IsInvoke() || len(cc.Args) != len(f.Params) || x.isUnit(f) || x.root().Units == nil {
		return false
	}
	res := f.Signature.Results()
	// (T, newOff, error): a cursor helper; (T, error): a "peek" helper that reads
	// at offsets it is given and leaves the cursor to its caller
	peek := false
	switch {
	case res.Len() == 3 && types.TypeString(res.At(2).Type(), nil) == "error":
		if b, ok := res.At(1).Type().Underlying().(*types.Basic); !ok || b.Kind() != types.Int {
			return false
		}
	case res.Len() == 2 && types.TypeString(res.At(1).Type(), nil) == "error":
		peek = true
	default:
		return false
	}
	depth := 0
	for y := x; y != nil; y = y.Parent {
		depth++
		if y.Fn == f {
			return false
		}
	}
	if depth > 4 {
		return false
	}
	bufIdx, offIdx := -1, -1
	for i, a := range cc.Args {
		if isByteSeq(a.Type()) {
			root, off, okr := x.bufRoot(a)
			if !okr || !x.isInput(root) || bufIdx >= 0 {
				return false
			}
			if k, isK := off.Const(); !isK || k != 0 {
				return false
			}
			if _, isSlice := StripConv(a).(*ssa.Slice); isSlice {
				return false
			}
			bufIdx = i
			continue
		}
		if b, ok := a.Type().Underlying().(*types.Basic); ok && b.Kind() == types.Int && offIdx < 0 && bufIdx >= 0 {
			offIdx = i
		}
	}
	if bufIdx < 0 || offIdx < 0 {
		return false
	}
	child := newX(x.W, f)
	child.Parent = x
	for i, p := range f.Params {
		if i == bufIdx || i == offIdx {
			continue
		}
		arg := x.res(cc.Args[i])
		switch deref(p.Type()).Underlying().(type) {
		case *types.Struct:
			if bp, ok := x.basePath(arg); ok {
				child.Roots[p] = bp
				continue
			}
		}
		fd, e, _, _ := x.desc(arg)
		if fd == "" {
			fd = e
		}
		child.Names[p] = fd
	}
	child.findRoots()
	sub := child.Decode()
	if len(sub.Atoms) == 0 {
		return false
	}
	if !peek {
		if len(sub.RetOff) == 0 || len(sub.RetOff) != len(sub.Rets) {
			return false
		}
		for _, r := range sub.RetOff[1:] {
			if !r.Equal(sub.RetOff[0]) {
				return false
			}
		}
	}
	for _, a := range sub.Atoms {
		switch a.Kind {
		case "fixed", "bytes", "repeat":
			if a.Off == nil || a.End == nil {
				return false
			}
		case "nested":
			// a unit called at an offset read from the wire (a compression
			// pointer) need not hand back where it stopped
			if a.Off == nil || (a.End == nil && !peek) {
				return false
			}
		default:
			return false
		}
	}
	sigma := func(s Sym) Sym {
		out := SymK(s.K)
		for t, k := range s.T {
			if p, isP := t.(*ssa.Parameter); isP && p.Parent() == f {
				for i, q := range f.Params {
					if q == p {
						out = out.Add(x.Sym(cc.Args[i]).Scale(k))
					}
				}
				continue
			}
			out = out.Add(SymT(t).Scale(k))
		}
		return out
	}
	// where the caller puts result 0
	var valDest destInfo
	if call.Referrers() != nil {
		for _, r := range *call.Referrers() {
			ex, ok := r.(*ssa.Extract)
			if !ok {
				continue
			}
			switch ex.Index {
			case 0:
				valDest = x.dest(ex)
			case 1:
				if !peek {
					x.symOf[ex] = sigma(sub.RetOff[0])
				}
			}
		}
	}
	atoms := sub.Atoms
	if valDest.field != "" {
		atoms = substAtoms(atoms, "ret0", valDest.field)
	}
	for i, a := range atoms {
		na := a
		o := sigma(*a.Off)
		na.Off = &o
		if a.End != nil {
			e := sigma(*a.End)
			na.End = &e
		}
		na.At = call
		na.From = sub.X
		if sub.Atoms[i].ret {
			na.Field = valDest.field
			na.Via = a.retVia
			if valDest.via != "" {
				if na.Via != "" {
					na.Via += ","
				}
				na.Via += valDest.via
			}
			na.Local = false
			if na.Field == "" {
				na.Local = valDest.local
			}
		}
		add(na)
	}
	d.Subs = append(d.Subs, sub)
	return true
}

// stdName renders a callee as "pkgpath.Name" (the generic origin for an
// instantiation), "" for methods and closures.
func stdName(f *ssa.Function) string {
	if f == nil {
		return ""
	}
	if o := f.Origin(); o != nil {
		f = o
	}
	if f.Pkg == nil || f.Signature.Recv() != nil {
		return ""
	}
	return f.Pkg.Pkg.Path() + "." + f.Name()
}

// copiesBytes: the function returns a copy of (or the very) byte sequence it
// is given: the bytes on the wire pass through unchanged.
func copiesBytes(f *ssa.Function) bool {
	switch stdName(f) {
	case "bytes.Clone", "slices.Clone", "strings.Clone", "slices.Clip", "slices.Grow":
		return true
	}
	return false
}

// byteContribution: the single byte value b is widened, optionally shifted
// left by a constant, and OR-ed (or added) with others: returns the root of
// that OR tree and the shift b enters it with.
func byteContribution(b ssa.Value) (root ssa.Value, shift int64, ok bool) {
	only := func(v ssa.Value) ssa.Instruction {
		var one ssa.Instruction
		if v.Referrers() == nil {
			return nil
		}
		for _, r := range *v.Referrers() {
			if _, isDbg := r.(*ssa.DebugRef); isDbg {
				continue
			}
			if one != nil {
				return nil
			}
			one = r
		}
		return one
	}
	v := b
	for d := 0; d < 4; d++ {
		cv, isC := only(v).(*ssa.Convert)
		if !isC || !valuePreserving(cv.X.Type(), cv.Type()) {
			break
		}
		v = cv
	}
	if sh, isB := only(v).(*ssa.BinOp); isB && sh.Op == token.SHL && sh.X == v {
		k, isK := constI(sh.Y)
		if !isK || k < 0 || k%8 != 0 {
			return nil, 0, false
		}
		shift = k
		v = sh
	}
	joined := false
	for d := 0; d < 8; d++ {
		bo, isB := only(v).(*ssa.BinOp)
		if !isB || (bo.Op != token.OR && bo.Op != token.ADD) {
			break
		}
		v = bo
		joined = true
	}
	if !joined {
		return nil, 0, false
	}
	return v, shift, true
}

// orLeaves counts the leaves of the OR/ADD tree rooted at v.
func orLeaves(v ssa.Value, d int) int {
	if bo, ok := v.(*ssa.BinOp); ok && (bo.Op == token.OR || bo.Op == token.ADD) && d < 10 {
		return orLeaves(bo.X, d+1) + orLeaves(bo.Y, d+1)
	}
	return 1
}

// mergeByteReads folds k single-byte reads at consecutive offsets that are
// assembled by shifts and ORs into one integer — uint16(b[o])<<8 | uint16(b[o+1])
// — into the one fixed-width read binary.{Big,Little}Endian.UintN would be.
func (x *X) mergeByteReads(raws []rawAtom) []rawAtom {
	var out []rawAtom
	for i := 0; i < len(raws); i++ {
		r := raws[i]
		a := r.a
		if a.Kind != "fixed" || a.Width != 1 || a.Val == nil || a.Off == nil || a.Field != "" {
			out = append(out, r)
			continue
		}
		root, s0, ok := byteContribution(a.Val)
		if !ok {
			out = append(out, r)
			continue
		}
		k := orLeaves(root, 0)
		if k < 2 || k > 8 || i+k > len(raws) {
			out = append(out, r)
			continue
		}
		order := ""
		switch s0 {
		case int64(8 * (k - 1)):
			order = "BE"
		case 0:
			order = "LE"
		}
		good := order != ""
		for j := 1; j < k && good; j++ {
			b := raws[i+j]
			if b.loop != r.loop || b.a.Kind != "fixed" || b.a.Width != 1 || b.a.Val == nil || b.a.Off == nil || b.a.From != a.From {
				good = false
				break
			}
			if !b.a.Off.Equal(a.Off.AddK(int64(j))) {
				good = false
				break
			}
			rj, sj, ok := byteContribution(b.a.Val)
			want := int64(8 * (k - 1 - j))
			if order == "LE" {
				want = int64(8 * j)
			}
			if !ok || rj != root || sj != want {
				good = false
			}
		}
		at, isInstr := root.(ssa.Instruction)
		if !good || !isInstr {
			out = append(out, r)
			continue
		}
		o := *a.Off
		e := o.AddK(int64(k))
		// the read happens where its last byte is loaded (that is what the length
		// check must dominate)
		lastAt := raws[i+k-1].a.At
		na := Atom{Kind: "fixed", Width: k, Order: order, Val: root, At: lastAt, Pos: a.Pos, Off: &o, End: &e, From: a.From}
		_ = at
		x.setDest(&na, root)
		out = append(out, rawAtom{na, r.loop})
		i += k - 1
	}
	return out
}

// edgeDominates: every way into `to` is the edge from `from` or a back edge
// from inside the region `to` dominates.
func edgeDominates(from, to *ssa.BasicBlock) bool {
	for _, p := range to.Preds {
		if p != from && !to.Dominates(p) {
			return false
		}
	}
	return true
}
