package wire

import (
	"go/constant"
	"go/token"
	"go/types"

	"golang.org/x/tools/go/ssa"
	"golang.org/x/tools/go/ssa/ssautil"
)

// consteval.go: the contents of a read-only package-level integer table.
//
// A codec refactored to look-up tables keeps them in package-level variables:
//
//	var rev = func() (t [256]int8) { for i := range t { t[i] = -1 }; …; return t }()
//
// Such a variable is a constant as far as the codec is concerned when it is
// unexported, assigned only by its package's initialiser, and otherwise only
// read. Its value is obtained by running the initialiser's code on a small
// concrete machine that knows integers, arrays of integers, constant strings
// and structured control flow — and nothing else; anything else makes the
// table "not constant" (ok=false), never a guess.

var constTables = map[*ssa.Global]*constTable{}

type constTable struct {
	vals []int64
	ok   bool
}

var pkgFuncs = map[*ssa.Package][]*ssa.Function{}

func funcsOf(pkg *ssa.Package) []*ssa.Function {
	if fs, ok := pkgFuncs[pkg]; ok {
		return fs
	}
	var out []*ssa.Function
	for fn := range ssautil.AllFunctions(pkg.Prog) {
		root := fn
		for root.Parent() != nil {
			root = root.Parent()
		}
		if root.Pkg == pkg && fn.Blocks != nil {
			out = append(out, fn)
		}
	}
	pkgFuncs[pkg] = out
	return out
}

// ConstTable returns the elements of g when g is an unexported package-level
// array of integers that only its package initialiser writes.
func ConstTable(g *ssa.Global) ([]int64, bool) {
	if t, ok := constTables[g]; ok {
		return t.vals, t.ok
	}
	t := &constTable{}
	constTables[g] = t
	if g.Pkg == nil || g.Object() == nil || g.Object().Exported() {
		return nil, false
	}
	arr, ok := deref(g.Type()).Underlying().(*types.Array)
	if !ok || arr.Len() > 1<<16 {
		return nil, false
	}
	if _, _, isInt := intBits(arr.Elem()); !isInt {
		return nil, false
	}
	// every use of g outside init only reads it
	var initFn *ssa.Function
	var whole []*ssa.Store
	type elemStore struct {
		st  *ssa.Store
		idx ssa.Value
	}
	var elems []elemStore
	for _, fn := range funcsOf(g.Pkg) {
		isInit := fn.Name() == "init" && fn.Synthetic != "" && fn.Parent() == nil
		for _, b := range fn.Blocks {
			for _, in := range b.Instrs {
				var ops []*ssa.Value
				uses := false
				for _, op := range in.Operands(ops) {
					if *op == ssa.Value(g) {
						uses = true
					}
				}
				if !uses {
					continue
				}
				switch y := in.(type) {
				case *ssa.DebugRef:
				case *ssa.UnOp:
					if y.Op != token.MUL {
						return nil, false
					}
				case *ssa.Store:
					if y.Addr != ssa.Value(g) || !isInit {
						return nil, false
					}
					whole = append(whole, y)
					initFn = fn
				case *ssa.IndexAddr:
					if y.X != ssa.Value(g) {
						return nil, false
					}
					for _, r := range *y.Referrers() {
						switch z := r.(type) {
						case *ssa.UnOp:
							if z.Op != token.MUL {
								return nil, false
							}
						case *ssa.DebugRef:
						case *ssa.Store:
							if z.Addr != ssa.Value(y) || !isInit {
								return nil, false
							}
							elems = append(elems, elemStore{z, y.Index})
							initFn = fn
						default:
							return nil, false
						}
					}
				case *ssa.Slice:
					// a view g[:] that is only read
					if !readOnlyView(y, 0) {
						return nil, false
					}
				default:
					return nil, false
				}
			}
		}
	}
	vals := make([]int64, arr.Len())
	switch {
	case len(whole) == 1 && len(elems) == 0:
		m := &cmachine{budget: 2_000_000}
		v, ok := m.valueIn(initFn, whole[0].Val)
		a, isArr := v.(*carr)
		if !ok || !isArr || int64(len(a.e)) != arr.Len() {
			return nil, false
		}
		for i, e := range a.e {
			k, isK := e.(int64)
			if !isK {
				return nil, false
			}
			vals[i] = k
		}
	case len(whole) == 0:
		// a composite literal: constant element stores made by init, in one block
		for _, e := range elems {
			i, ok1 := constI(e.idx)
			k, ok2 := constI(e.st.Val)
			if !ok1 || !ok2 || i < 0 || i >= arr.Len() {
				return nil, false
			}
			vals[i] = k
		}
	default:
		return nil, false
	}
	t.vals, t.ok = vals, true
	return vals, true
}

func readOnlyView(v ssa.Value, d int) bool {
	if d > 4 || v.Referrers() == nil {
		return false
	}
	for _, r := range *v.Referrers() {
		switch y := r.(type) {
		case *ssa.DebugRef:
		case *ssa.IndexAddr:
			for _, rr := range *y.Referrers() {
				if u, ok := rr.(*ssa.UnOp); ok && u.Op == token.MUL {
					continue
				}
				if _, ok := rr.(*ssa.DebugRef); ok {
					continue
				}
				return false
			}
		case *ssa.Slice:
			if !readOnlyView(y, d+1) {
				return false
			}
		case *ssa.Call:
			if b, ok := y.Call.Value.(*ssa.Builtin); !ok || (b.Name() != "len" && b.Name() != "cap") {
				return false
			}
		default:
			return false
		}
	}
	return true
}

// ---------------------------------------------------------------------------
// the machine

type carr struct{ e []any }

type ccell struct{ v any }

// cptr points at a cell, or at element i of the array held by a cell.
type cptr struct {
	c    *ccell
	elem bool
	i    int64
}

type cmachine struct {
	budget int
	fail   bool
	depth  int
}

func (m *cmachine) stop() any { m.fail = true; return nil }

func zeroOf(t types.Type) (any, bool) {
	switch u := t.Underlying().(type) {
	case *types.Basic:
		if u.Info()&types.IsInteger != 0 {
			return int64(0), true
		}
		if u.Info()&types.IsBoolean != 0 {
			return false, true
		}
	case *types.Array:
		if u.Len() > 1<<16 {
			return nil, false
		}
		a := &carr{e: make([]any, u.Len())}
		for i := range a.e {
			z, ok := zeroOf(u.Elem())
			if !ok {
				return nil, false
			}
			a.e[i] = z
		}
		return a, true
	}
	return nil, false
}

func copyVal(v any) any {
	if a, ok := v.(*carr); ok {
		n := &carr{e: make([]any, len(a.e))}
		for i, e := range a.e {
			n.e[i] = copyVal(e)
		}
		return n
	}
	return v
}

func wrapInt(k int64, t types.Type) (int64, bool) {
	bits, signed, ok := intBits(t)
	if !ok {
		return 0, false
	}
	if bits >= 64 {
		return k, true
	}
	mask := int64(1)<<uint(bits) - 1
	k &= mask
	if signed && k >= int64(1)<<uint(bits-1) {
		k -= int64(1) << uint(bits)
	}
	return k, true
}

// valueIn evaluates v, a value computed by straight-line code of fn (the
// package initialiser): a call of a niladic function literal, or a constant.
func (m *cmachine) valueIn(fn *ssa.Function, v ssa.Value) (any, bool) {
	switch y := v.(type) {
	case *ssa.Call:
		callee := y.Call.StaticCallee()
		if callee == nil || callee.Blocks == nil || len(y.Call.Args) != 0 || len(callee.FreeVars) != 0 {
			return nil, false
		}
		r := m.run(callee, nil)
		return r, !m.fail && r != nil
	case *ssa.UnOp:
		// *t where t is a local array built by constant element stores in init
		if al, ok := y.X.(*ssa.Alloc); ok && y.Op == token.MUL {
			z, okz := zeroOf(deref(al.Type()))
			a, isArr := z.(*carr)
			if !okz || !isArr {
				return nil, false
			}
			for _, r := range *al.Referrers() {
				switch ia := r.(type) {
				case *ssa.IndexAddr:
					i, ok1 := constI(ia.Index)
					for _, rr := range *ia.Referrers() {
						st, isSt := rr.(*ssa.Store)
						if !isSt {
							return nil, false
						}
						k, ok2 := constI(st.Val)
						if !ok1 || !ok2 || i < 0 || i >= int64(len(a.e)) {
							return nil, false
						}
						a.e[i] = k
					}
				case *ssa.UnOp, *ssa.DebugRef:
				default:
					return nil, false
				}
			}
			return a, true
		}
	}
	return nil, false
}

func (m *cmachine) run(fn *ssa.Function, args []any) any {
	env := map[ssa.Value]any{}
	for i, p := range fn.Params {
		if i < len(args) {
			env[p] = args[i]
		}
	}
	get := func(v ssa.Value) any {
		if k, ok := v.(*ssa.Const); ok {
			if k.Value == nil {
				return m.stop()
			}
			switch k.Value.Kind() {
			case constant.Int:
				i, ok := constant.Int64Val(k.Value)
				if !ok {
					return m.stop()
				}
				return i
			case constant.String:
				return constant.StringVal(k.Value)
			case constant.Bool:
				return constant.BoolVal(k.Value)
			}
			return m.stop()
		}
		r, ok := env[v]
		if !ok {
			return m.stop()
		}
		return r
	}
	var prev *ssa.BasicBlock
	b := fn.Blocks[0]
	for {
		// φs read their operands simultaneously
		phis := map[*ssa.Phi]any{}
		for _, in := range b.Instrs {
			phi, ok := in.(*ssa.Phi)
			if !ok {
				break
			}
			idx := -1
			for i, p := range b.Preds {
				if p == prev {
					idx = i
				}
			}
			if idx < 0 {
				return m.stop()
			}
			phis[phi] = get(phi.Edges[idx])
		}
		for phi, v := range phis {
			env[phi] = v
		}
		for _, in := range b.Instrs {
			m.budget--
			if m.budget < 0 || m.fail {
				return m.stop()
			}
			switch y := in.(type) {
			case *ssa.Phi, *ssa.DebugRef:
			case *ssa.Alloc:
				z, ok := zeroOf(deref(y.Type()))
				if !ok {
					return m.stop()
				}
				env[y] = cptr{c: &ccell{v: z}}
			case *ssa.IndexAddr:
				p, ok := get(y.X).(cptr)
				i, ok2 := get(y.Index).(int64)
				if !ok || !ok2 || p.elem {
					return m.stop()
				}
				a, isArr := p.c.v.(*carr)
				if !isArr || i < 0 || i >= int64(len(a.e)) {
					return m.stop()
				}
				env[y] = cptr{c: p.c, elem: true, i: i}
			case *ssa.Store:
				p, ok := get(y.Addr).(cptr)
				v := get(y.Val)
				if !ok || m.fail {
					return m.stop()
				}
				if p.elem {
					p.c.v.(*carr).e[p.i] = copyVal(v)
				} else {
					p.c.v = copyVal(v)
				}
			case *ssa.UnOp:
				switch y.Op {
				case token.MUL:
					p, ok := get(y.X).(cptr)
					if !ok {
						return m.stop()
					}
					if p.elem {
						env[y] = copyVal(p.c.v.(*carr).e[p.i])
					} else {
						env[y] = copyVal(p.c.v)
					}
				case token.SUB:
					k, ok := get(y.X).(int64)
					if !ok {
						return m.stop()
					}
					w, ok := wrapInt(-k, y.Type())
					if !ok {
						return m.stop()
					}
					env[y] = w
				case token.NOT:
					k, ok := get(y.X).(bool)
					if !ok {
						return m.stop()
					}
					env[y] = !k
				case token.XOR:
					k, ok := get(y.X).(int64)
					if !ok {
						return m.stop()
					}
					w, ok := wrapInt(^k, y.Type())
					if !ok {
						return m.stop()
					}
					env[y] = w
				default:
					return m.stop()
				}
			case *ssa.Convert:
				k, ok := get(y.X).(int64)
				if !ok {
					return m.stop()
				}
				// the source value is already in range of its own type
				w, ok := wrapInt(k, y.Type())
				if !ok {
					return m.stop()
				}
				env[y] = w
			case *ssa.ChangeType:
				env[y] = get(y.X)
			case *ssa.Index:
				i, ok := get(y.Index).(int64)
				if !ok {
					return m.stop()
				}
				switch base := get(y.X).(type) {
				case string:
					if i < 0 || i >= int64(len(base)) {
						return m.stop()
					}
					env[y] = int64(base[i])
				case *carr:
					if i < 0 || i >= int64(len(base.e)) {
						return m.stop()
					}
					env[y] = copyVal(base.e[i])
				default:
					return m.stop()
				}
			case *ssa.Lookup:
				s, ok := get(y.X).(string)
				i, ok2 := get(y.Index).(int64)
				if !ok || !ok2 || i < 0 || i >= int64(len(s)) {
					return m.stop()
				}
				env[y] = int64(s[i])
			case *ssa.Call:
				bi, ok := y.Call.Value.(*ssa.Builtin)
				if !ok {
					// a call of a function with a body and no captured variables
					// (a predicate split into two helpers): run it on the same
					// machine, the budget bounds the recursion
					callee := y.Call.StaticCallee()
					if callee == nil || callee.Blocks == nil || y.Call.IsInvoke() || len(callee.FreeVars) != 0 || callee.Signature.Results().Len() != 1 || m.depth > 8 {
						return m.stop()
					}
					cargs := make([]any, len(y.Call.Args))
					for i, a := range y.Call.Args {
						cargs[i] = get(a)
					}
					if m.fail {
						return m.stop()
					}
					m.depth++
					rv := m.run(callee, cargs)
					m.depth--
					if m.fail || rv == nil {
						return m.stop()
					}
					env[y] = rv
					continue
				}
				if bi.Name() != "len" || len(y.Call.Args) != 1 {
					return m.stop()
				}
				switch a := get(y.Call.Args[0]).(type) {
				case string:
					env[y] = int64(len(a))
				case *carr:
					env[y] = int64(len(a.e))
				case cptr:
					arr, isArr := a.c.v.(*carr)
					if !isArr || a.elem {
						return m.stop()
					}
					env[y] = int64(len(arr.e))
				default:
					return m.stop()
				}
			case *ssa.BinOp:
				xa, ya := get(y.X), get(y.Y)
				if m.fail {
					return m.stop()
				}
				xi, okx := xa.(int64)
				yi, oky := ya.(int64)
				if !okx || !oky {
					return m.stop()
				}
				var r int64
				isCmp := false
				var cr bool
				switch y.Op {
				case token.ADD:
					r = xi + yi
				case token.SUB:
					r = xi - yi
				case token.MUL:
					r = xi * yi
				case token.AND:
					r = xi & yi
				case token.OR:
					r = xi | yi
				case token.XOR:
					r = xi ^ yi
				case token.AND_NOT:
					r = xi &^ yi
				case token.SHL:
					if yi < 0 || yi > 63 {
						return m.stop()
					}
					r = xi << uint(yi)
				case token.SHR:
					if yi < 0 || yi > 63 {
						return m.stop()
					}
					// operands are kept in range of their type: a logical shift of an
					// unsigned value and an arithmetic shift of a signed one coincide
					r = xi >> uint(yi)
				case token.QUO:
					if yi == 0 {
						return m.stop()
					}
					r = xi / yi
				case token.REM:
					if yi == 0 {
						return m.stop()
					}
					r = xi % yi
				case token.LSS:
					isCmp, cr = true, xi < yi
				case token.LEQ:
					isCmp, cr = true, xi <= yi
				case token.GTR:
					isCmp, cr = true, xi > yi
				case token.GEQ:
					isCmp, cr = true, xi >= yi
				case token.EQL:
					isCmp, cr = true, xi == yi
				case token.NEQ:
					isCmp, cr = true, xi != yi
				default:
					return m.stop()
				}
				if isCmp {
					env[y] = cr
				} else {
					// uint64 arithmetic is not modelled beyond 63 bits
					if bits, signed, ok := intBits(y.Type()); ok && bits == 64 && !signed && r < 0 {
						return m.stop()
					}
					w, ok := wrapInt(r, y.Type())
					if !ok {
						return m.stop()
					}
					env[y] = w
				}
			case *ssa.If:
				c, ok := get(y.Cond).(bool)
				if !ok {
					return m.stop()
				}
				prev = b
				if c {
					b = b.Succs[0]
				} else {
					b = b.Succs[1]
				}
			case *ssa.Jump:
				prev = b
				b = b.Succs[0]
			case *ssa.Return:
				if len(y.Results) != 1 {
					return m.stop()
				}
				return get(y.Results[0])
			default:
				return m.stop()
			}
		}
		if m.fail {
			return nil
		}
	}
}
