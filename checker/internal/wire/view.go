package wire

import (
	"go/token"
	"go/types"

	"golang.org/x/tools/go/ssa"
)

// view.go: decoders that walk the input with a CURSOR TYPE instead of an
// index — a small struct holding the not-yet-decoded tail of the buffer,
//
//	type reader struct{ rest []byte }
//	func (r *reader) take(n int) ([]byte, bool) { …; head := r.rest[:n]; r.rest = r.rest[n:]; return head, true }
//
// with methods built on one another (name() calls take(), records() loops over
// name() and take()). The field is a VIEW CELL: a memory location that always
// holds data[cur:] for a cursor `cur` that the methods advance. It is read
// exactly like the captured integer cursor of the closure style:
//
//   - a load of the cell is the input buffer at offset cur, where cur is the
//     value given by the nearest store / analysed call that dominates the load
//     and cannot have been overtaken, the cursor on entry of the function
//     (term viewEntry) when nothing precedes it, or the opaque "current
//     cursor" (term viewCur) otherwise;
//   - a method that receives the struct is analysed at its call site
//     (inlineView): its reads are placed at the caller's cursor, the cursor it
//     leaves with becomes the caller's cursor after the call, and a view it
//     returns (take's head) is a window of the input whose own length check
//     lives in the method;
//   - every store to the cell must be the start or end of a read of its region
//     (Dec.Check, as for captured cursors), and a loop whose body starts at the
//     current cursor is a repeat with that cursor.

// symTerm is a synthetic term of a Sym (it is never an instruction).
type symTerm struct {
	name string
}

func (t *symTerm) Name() string                  { return t.name }
func (t *symTerm) String() string                { return t.name }
func (t *symTerm) Type() types.Type              { return types.Typ[types.Int] }
func (t *symTerm) Parent() *ssa.Function         { return nil }
func (t *symTerm) Referrers() *[]ssa.Instruction { return nil }
func (t *symTerm) Pos() token.Pos                { return token.NoPos }

type viewField struct {
	typ   *types.Named
	field int
}

// viewWindow: a []byte value returned by an analysed method that is a window
// [off, end) of the input; from is the extractor that checked its length guard.
type viewWindow struct {
	off, end Sym
	from     *X
}

type viewState struct {
	// base: the struct (address) whose field is the cell, in this function
	base ssa.Value
	fld  viewField
	// entry / cur: the cursor on entry of this function / at a point where it is
	// not known
	entry, cur *symTerm
	after      map[ssa.Instruction]Sym // cursor after an analysed call
	busy       bool
}

func namedStruct(t types.Type) *types.Named {
	n, ok := deref(t).(*types.Named)
	if !ok {
		return nil
	}
	if _, isSt := n.Underlying().(*types.Struct); !isSt {
		return nil
	}
	return n
}

// viewFieldOf: addr is &base.f for a field registered as a view cell.
func (x *X) viewFieldOf(addr ssa.Value) (base ssa.Value, vf viewField, ok bool) {
	fa, isFA := addr.(*ssa.FieldAddr)
	if !isFA {
		return nil, viewField{}, false
	}
	n := namedStruct(fa.X.Type())
	if n == nil {
		return nil, viewField{}, false
	}
	vf = viewField{n, fa.Field}
	if !x.root().viewFields[vf] {
		return nil, viewField{}, false
	}
	return fa.X, vf, true
}

// findViewFields registers the struct fields the decoder stores (a view of)
// its input into. Called once, on the outermost extractor.
func (x *X) findViewFields() {
	if x.viewFields != nil {
		return
	}
	x.viewFields = map[viewField]bool{}
	for _, b := range x.Fn.Blocks {
		for _, in := range b.Instrs {
			st, ok := in.(*ssa.Store)
			if !ok || !isByteSeq(st.Val.Type()) {
				continue
			}
			fa, ok := st.Addr.(*ssa.FieldAddr)
			if !ok {
				continue
			}
			n := namedStruct(fa.X.Type())
			if n == nil {
				continue
			}
			if _, isAlloc := fa.X.(*ssa.Alloc); !isAlloc {
				continue // only a local cursor object
			}
			if _, isSl := st.Val.Type().Underlying().(*types.Slice); !isSl {
				continue
			}
			root, _, okr := x.bufRoot(st.Val)
			if okr && x.isInput(root) {
				x.viewFields[viewField{n, fa.Field}] = true
			}
		}
	}
}

// inputParam: the byte-slice parameter of the outermost decoder.
func (x *X) inputParam() ssa.Value {
	for _, p := range x.root().Fn.Params {
		if _, isSl := p.Type().Underlying().(*types.Slice); isSl && isByteSeq(p.Type()) {
			return p
		}
	}
	return nil
}

// view returns the state of the view cell of this function (nil: none).
func (x *X) view() *viewState {
	if x.vs != nil || x.vsDone {
		return x.vs
	}
	x.vsDone = true
	if len(x.root().viewFields) == 0 {
		return nil
	}
	var vs *viewState
	consider := func(base ssa.Value) bool {
		n := namedStruct(base.Type())
		if n == nil {
			return true
		}
		if _, isPtr := base.Type().Underlying().(*types.Pointer); !isPtr {
			return true
		}
		var vf viewField
		found := 0
		for f := range x.root().viewFields {
			if f.typ == n {
				vf = f
				found++
			}
		}
		if found == 0 {
			return true
		}
		if al, isA := base.(*ssa.Alloc); isA && complitInit(al) != nil {
			return true // the temporary of a composite literal: see complitInit
		}
		if found > 1 {
			x.viewBad = "a cursor type with two view fields is used in " + FuncLabel(x.Fn)
			return false
		}
		if vs == nil {
			vs = &viewState{base: base, fld: vf, after: map[ssa.Instruction]Sym{}}
		} else if vs.base != base {
			// two cursor objects in one function: not modelled
			x.viewBad = "two cursor objects are used in " + FuncLabel(x.Fn)
			return false
		}
		return true
	}
	for _, p := range x.Fn.Params {
		if !consider(p) {
			return nil
		}
	}
	for _, b := range x.Fn.Blocks {
		for _, in := range b.Instrs {
			if al, ok := in.(*ssa.Alloc); ok {
				if !consider(al) {
					return nil
				}
			}
		}
	}
	if vs == nil {
		return nil
	}
	switch vs.base.(type) {
	case *ssa.Alloc, *ssa.Parameter:
	default:
		x.viewBad = "the cursor object of " + FuncLabel(x.Fn) + " is neither a local variable nor a parameter"
		return nil
	}
	// the cursor object's whole state must be the view: a second field that is
	// read or written (an index kept next to the buffer, a mode flag) is state
	// this model does not have
	for _, b := range x.Fn.Blocks {
		for _, in := range b.Instrs {
			if fa, ok := in.(*ssa.FieldAddr); ok && fa.X == vs.base && fa.Field != vs.fld.field {
				fn := "?"
				if st, isSt := vs.fld.typ.Underlying().(*types.Struct); isSt && fa.Field < st.NumFields() {
					fn = st.Field(fa.Field).Name()
				}
				x.viewBad = "the cursor type " + vs.fld.typ.Obj().Name() + " keeps more state than the unread tail of the buffer (field " + fn + " is used in " + FuncLabel(x.Fn) + ")"
				return nil
			}
		}
	}
	name := "cursor"
	if st, ok := vs.fld.typ.Underlying().(*types.Struct); ok {
		name = vs.fld.typ.Obj().Name() + "." + st.Field(vs.fld.field).Name()
	}
	vs.entry = &symTerm{"entry(" + name + ")"}
	vs.cur = &symTerm{"cur(" + name + ")"}
	x.vs = vs
	return vs
}

// viewEvents: the instructions of this function that set the cursor: stores
// to the cell and calls that receive the cursor object.
func (x *X) viewEvents(vs *viewState) []ssa.Instruction {
	if x.vsEvents != nil {
		return x.vsEvents
	}
	out := []ssa.Instruction{}
	for _, b := range x.Fn.Blocks {
		for _, in := range b.Instrs {
			switch y := in.(type) {
			case *ssa.Store:
				if base, vf, ok := x.viewFieldOf(y.Addr); ok && base == vs.base && vf == vs.fld {
					out = append(out, y)
				} else if y.Addr == vs.base {
					out = append(out, y) // r = T{rest: …}
				}
			case ssa.CallInstruction:
				for _, a := range y.Common().Args {
					if a == vs.base {
						out = append(out, y)
						break
					}
				}
			}
		}
	}
	x.vsEvents = out
	return out
}

// viewAt: the cursor just before instruction `at`.
func (x *X) viewAt(at ssa.Instruction) Sym {
	vs := x.view()
	if vs == nil {
		return SymK(0)
	}
	evs := x.viewEvents(vs)
	var near ssa.Instruction
	for _, e := range evs {
		if e != at && x.domI(e, at) && (near == nil || x.domI(near, e)) {
			near = e
		}
	}
	for _, e := range evs {
		if e == near {
			continue
		}
		// another event may run between `near` (or the entry) and `at`
		if near == nil {
			if e != at && x.pathExists(e, at, nil) {
				return SymT(vs.cur)
			}
			if e == at && x.pathExists(at, at, nil) {
				return SymT(vs.cur)
			}
			continue
		}
		if x.pathExists(near, e, near) && (e == at || x.pathExists(e, at, near)) && e != at {
			return SymT(vs.cur)
		}
		if e == at && x.pathExists(at, at, near) {
			return SymT(vs.cur) // `at` is itself an event inside a loop that does not pass `near` again
		}
	}
	if near == nil {
		if _, isParam := vs.base.(*ssa.Parameter); isParam {
			return SymT(vs.entry)
		}
		return SymT(vs.cur)
	}
	switch y := near.(type) {
	case *ssa.Store:
		if vs.busy {
			return SymT(vs.cur)
		}
		vs.busy = true
		defer func() { vs.busy = false }()
		val := y.Val
		if y.Addr == vs.base {
			// a whole-struct store: the value is a composite literal's temporary
			val = x.wholeStoreView(vs, y)
			if val == nil {
				return SymT(vs.cur)
			}
		}
		root, off, okr := x.bufRoot(val)
		if okr && x.isInput(root) {
			return off
		}
		return SymT(vs.cur)
	default:
		if s, ok := vs.after[near]; ok {
			return s
		}
	}
	return SymT(vs.cur)
}

// viewLoad: ld loads the view cell: the input buffer at the current cursor.
func (x *X) viewLoad(ld *ssa.UnOp) (ssa.Value, Sym, bool) {
	vs := x.view()
	if vs == nil {
		return nil, Sym{}, false
	}
	base, vf, ok := x.viewFieldOf(ld.X)
	if !ok || base != vs.base || vf != vs.fld {
		return nil, Sym{}, false
	}
	in := x.inputParam()
	if in == nil {
		return nil, Sym{}, false
	}
	return in, x.viewAt(ld), true
}

// windowOf: v is (a view of) a window returned by an analysed method.
func (x *X) windowOf(v ssa.Value) (*viewWindow, bool) {
	for d := 0; d < 8; d++ {
		if w, ok := x.windows[v]; ok {
			return w, true
		}
		switch t := v.(type) {
		case *ssa.Slice:
			v = t.X
		case *ssa.ChangeType:
			v = t.X
		default:
			return nil, false
		}
	}
	return nil, false
}

// windowGuarded: the read [_, end) made through value v lies inside a window
// whose length was checked by the method that returned it.
func (x *X) windowGuarded(v ssa.Value, end *Sym) *X {
	w, ok := x.windowOf(v)
	if !ok || end == nil {
		return nil
	}
	if k, isK := w.end.Sub(*end).Const(); isK && k >= 0 {
		return w.from
	}
	return nil
}

// onlyViewedValue: the slice value is used only as the argument of
// encoding/binary getters, for element reads, or as the base of further views.
func onlyViewedValue(v ssa.Value) bool {
	refs := v.Referrers()
	if refs == nil || len(*refs) == 0 {
		return true
	}
	for _, r := range *refs {
		switch y := r.(type) {
		case *ssa.Call:
			if kind, _, _ := binCall(y); kind == "get" {
				continue
			}
			if b, ok := y.Call.Value.(*ssa.Builtin); ok && b.Name() == "len" {
				continue
			}
			return false
		case *ssa.IndexAddr:
			for _, rr := range *y.Referrers() {
				switch z := rr.(type) {
				case *ssa.UnOp:
					if z.Op != token.MUL {
						return false
					}
				case *ssa.DebugRef:
				default:
					return false
				}
			}
		case *ssa.Slice:
			if !onlyViewedValue(y) && !onlyViewed(y) {
				return false
			}
		case *ssa.DebugRef:
		default:
			return false
		}
	}
	return true
}

// inlineView: a call that hands the cursor object to an in-module method (or
// function) is read as that method's own reads, placed at the caller's cursor.
func (x *X) inlineView(d *Dec, call *ssa.Call, f *ssa.Function, add func(Atom)) bool {
	vs := x.view()
	cc := call.Common()
	if vs == nil || f.Blocks == nil || cc.IsInvoke() || len(cc.Args) != len(f.Params) || x.isUnit(f) {
		return false
	}
	baseIdx := -1
	for i, a := range cc.Args {
		if a == vs.base {
			if baseIdx >= 0 {
				return false
			}
			baseIdx = i
		}
	}
	if baseIdx < 0 {
		return false
	}
	if _, isPtr := f.Params[baseIdx].Type().Underlying().(*types.Pointer); !isPtr {
		return false // passed by value: the callee works on a copy
	}
	depth := 0
	for y := x; y != nil; y = y.Parent {
		depth++
		if y.Fn == f {
			return false
		}
	}
	if depth > 5 {
		return false
	}
	res := f.Signature.Results()
	hasErr := res.Len() > 0 && (types.TypeString(res.At(res.Len()-1).Type(), nil) == "error" || types.TypeString(res.At(res.Len()-1).Type(), nil) == "bool")
	child := newX(x.W, f)
	child.Parent = x
	for i, p := range f.Params {
		if i == baseIdx {
			continue
		}
		arg := x.res(cc.Args[i])
		switch deref(p.Type()).Underlying().(type) {
		case *types.Struct:
			if bp, ok := x.basePath(arg); ok {
				child.Roots[p] = bp
				continue
			}
		}
		if isByteSeq(p.Type()) {
			continue
		}
		fd, e, _, _ := x.desc(arg)
		if fd == "" {
			fd = e
		}
		child.Names[p] = fd
	}
	child.findRoots()
	cvs := child.view()
	if cvs == nil || cvs.base != ssa.Value(f.Params[baseIdx]) {
		return false
	}
	sub := child.Decode()
	// the cursor the method leaves with, on every success return
	rets := child.successReturnsBool()
	if len(rets) == 0 {
		return false
	}
	out := child.viewAt(rets[0])
	for _, r := range rets[1:] {
		if !child.viewAt(r).Equal(out) {
			return false
		}
	}
	for _, a := range sub.Atoms {
		switch a.Kind {
		case "fixed", "bytes", "repeat", "nested":
			if a.Off == nil || a.End == nil {
				return false
			}
		default:
			return false
		}
	}
	entry := x.viewAt(call)
	sigma := func(s Sym) Sym {
		o := SymK(s.K)
		for t, k := range s.T {
			switch {
			case t == ssa.Value(cvs.entry):
				o = o.Add(entry.Scale(k))
			case t == ssa.Value(cvs.cur):
				o = o.Add(SymT(vs.cur).Scale(k))
			default:
				if p, isP := t.(*ssa.Parameter); isP && p.Parent() == f {
					for i, q := range f.Params {
						if q == p {
							o = o.Add(x.Sym(cc.Args[i]).Scale(k))
						}
					}
					continue
				}
				o = o.Add(SymT(t).Scale(k))
			}
		}
		return o
	}
	vs.after[call] = sigma(out)
	// what the caller does with result 0
	var valDest destInfo
	var ex0 *ssa.Extract
	var res0 ssa.Value
	if res.Len() == 1 || (res.Len() >= 1 && !hasErr) {
		res0 = call
	}
	if call.Referrers() != nil {
		for _, r := range *call.Referrers() {
			if ex, ok := r.(*ssa.Extract); ok && ex.Index == 0 {
				ex0 = ex
				res0 = ex
			}
		}
	}
	if res0 != nil && (res.Len() > 1 || !hasErr) {
		valDest = x.dest(res0)
	}
	// a window of the input handed back (take's head)
	dropRet := false
	if res0 != nil && isByteSeq(res.At(0).Type()) {
		var win *viewWindow
		agree := true
		for _, r := range rets {
			root, off, okr := child.bufRoot(r.Results[0])
			n, okn := child.seqLen(r.Results[0], nil, 0)
			if !okr || !okn || !child.isInput(root) {
				agree = false
				break
			}
			w := &viewWindow{off: sigma(off), end: sigma(off.Add(n)), from: sub.X}
			if win != nil && (!win.off.Equal(w.off) || !win.end.Equal(w.end)) {
				agree = false
			}
			win = w
		}
		if agree && win != nil {
			if x.windows == nil {
				x.windows = map[ssa.Value]*viewWindow{}
			}
			x.windows[res0] = win
			if onlyViewedValue(res0) {
				dropRet = true // the reads made through the window are the atoms
			}
		}
	}
	atoms := sub.Atoms
	if valDest.field != "" {
		atoms = substAtoms(atoms, "ret0", valDest.field)
	}
	for i, a := range atoms {
		if sub.Atoms[i].ret && dropRet {
			continue
		}
		na := a
		o, e := sigma(*a.Off), sigma(*a.End)
		na.Off, na.End = &o, &e
		na.At = call
		na.From = sub.X
		if sub.Atoms[i].ret {
			na.Field = valDest.field
			na.Via = a.retVia
			more := valDest.via
			if valDest.field == "" && valDest.ret {
				more = valDest.retVia
			}
			if more != "" {
				if na.Via != "" {
					na.Via += ","
				}
				na.Via += more
			}
			na.Local = false
			na.ret = valDest.ret && valDest.field == ""
			na.retVia = ""
			if na.ret {
				na.retVia = na.Via
			}
			if na.Field == "" {
				na.Local = valDest.local && !na.ret
			}
		}
		add(na)
	}
	_ = ex0
	d.Subs = append(d.Subs, sub)
	return true
}

// successReturnsBool: returns whose last result is a nil error, or — for a
// (T, bool) helper — the constant true; all returns when there is neither.
func (x *X) successReturnsBool() []*ssa.Return {
	var out []*ssa.Return
	for _, b := range x.Fn.Blocks {
		ret, ok := b.Instrs[len(b.Instrs)-1].(*ssa.Return)
		if !ok {
			continue
		}
		if n := len(ret.Results); n > 0 {
			last := ret.Results[n-1]
			switch types.TypeString(last.Type(), nil) {
			case "error":
				if k, isK := last.(*ssa.Const); !isK || k.Value != nil {
					continue
				}
			case "bool":
				if k, isK := last.(*ssa.Const); isK && k.Value != nil && k.Value.ExactString() == "false" {
					continue
				}
			}
		}
		out = append(out, ret)
	}
	return out
}

// complitInit: al is the temporary of a composite literal — its fields are
// stored once each, it is loaded once as a whole, and that value is stored
// into another variable. Returns that store.
func complitInit(al *ssa.Alloc) *ssa.Store {
	if al.Referrers() == nil {
		return nil
	}
	var ld *ssa.UnOp
	for _, r := range *al.Referrers() {
		switch y := r.(type) {
		case *ssa.DebugRef:
		case *ssa.FieldAddr:
			for _, rr := range *y.Referrers() {
				if st, ok := rr.(*ssa.Store); !ok || st.Addr != ssa.Value(y) {
					if _, isDbg := rr.(*ssa.DebugRef); !isDbg {
						return nil
					}
				}
			}
		case *ssa.UnOp:
			if y.Op != token.MUL || ld != nil {
				return nil
			}
			ld = y
		default:
			return nil
		}
	}
	if ld == nil || ld.Referrers() == nil {
		return nil
	}
	var st *ssa.Store
	for _, r := range *ld.Referrers() {
		switch y := r.(type) {
		case *ssa.DebugRef:
		case *ssa.Store:
			if y.Val != ssa.Value(ld) || st != nil {
				return nil
			}
			st = y
		default:
			return nil
		}
	}
	return st
}

// wholeStoreView: st stores a composite literal into the cursor object;
// returns the value the literal gives the view field (nil: not of that form).
func (x *X) wholeStoreView(vs *viewState, st *ssa.Store) ssa.Value {
	ld, ok := st.Val.(*ssa.UnOp)
	if !ok || ld.Op != token.MUL {
		return nil
	}
	lit, ok := ld.X.(*ssa.Alloc)
	if !ok || complitInit(lit) != st {
		return nil
	}
	var val ssa.Value
	for _, r := range *lit.Referrers() {
		fa, ok := r.(*ssa.FieldAddr)
		if !ok || fa.Field != vs.fld.field {
			continue
		}
		for _, rr := range *fa.Referrers() {
			if s2, ok := rr.(*ssa.Store); ok && s2.Addr == ssa.Value(fa) {
				if val != nil {
					return nil
				}
				val = s2.Val
			}
		}
	}
	return val
}

// onlyCursorUpdate: the slice value only becomes the new content of the view
// cell (r.rest = r.rest[n:]): that advances the cursor, it reads nothing.
func (x *X) onlyCursorUpdate(s *ssa.Slice) bool {
	vs := x.view()
	if vs == nil || s.Referrers() == nil {
		return false
	}
	n := 0
	for _, r := range *s.Referrers() {
		switch y := r.(type) {
		case *ssa.DebugRef:
		case *ssa.Store:
			base, vf, ok := x.viewFieldOf(y.Addr)
			if !ok || vf != vs.fld || y.Val != ssa.Value(s) {
				return false
			}
			if base != vs.base {
				// the temporary of the composite literal that initialises the object
				lit, isA := base.(*ssa.Alloc)
				if !isA {
					return false
				}
				if st := complitInit(lit); st == nil || st.Addr != vs.base {
					return false
				}
			}
			n++
		default:
			return false
		}
	}
	return n > 0
}
