package wire

import (
	"go/constant"
	"go/token"

	"golang.org/x/tools/go/ssa"
)

// evalpure.go: evaluation of a pure integer / boolean expression for concrete
// values of some of its leaves.
//
// A decoder's decision on a byte it has read (is it a terminator, a
// compression pointer, a label length?) is a function of that byte alone. Rules
// that must know WHICH byte values take a branch do not match the syntax of the
// test (b&0xC0 == 0xC0, b >= 0xC0, b>>6 == 3, isPointer(b), a switch …): they
// evaluate the branch condition for each of the 256 values. The evaluator
// knows constants, conversions, arithmetic, comparisons, boolean negation and
// calls of functions with a body that the concrete machine of consteval.go can
// run (integers and structured control flow only). Anything else is "not
// evaluable" (ok=false), never a guess.

// EvalPure evaluates v with the values of env substituted. Booleans are
// returned as 0/1 with isBool set. callOK decides which callees may be run.
func EvalPure(v ssa.Value, env map[ssa.Value]int64, callOK func(*ssa.Function) bool) (val int64, isBool bool, ok bool) {
	r, ok := evalPure(v, env, callOK, 0)
	if !ok {
		return 0, false, false
	}
	switch t := r.(type) {
	case int64:
		return t, false, true
	case bool:
		if t {
			return 1, true, true
		}
		return 0, true, true
	}
	return 0, false, false
}

func evalPure(v ssa.Value, env map[ssa.Value]int64, callOK func(*ssa.Function) bool, d int) (any, bool) {
	if d > 40 {
		return nil, false
	}
	if k, ok := env[v]; ok {
		if w, okw := wrapInt(k, v.Type()); okw {
			return w, true
		}
		return k, true
	}
	switch t := v.(type) {
	case *ssa.Const:
		if t.Value == nil {
			return nil, false
		}
		switch t.Value.Kind() {
		case constant.Int:
			i, ok := constant.Int64Val(t.Value)
			return i, ok
		case constant.Bool:
			return constant.BoolVal(t.Value), true
		}
		return nil, false
	case *ssa.Convert:
		x, ok := evalPure(t.X, env, callOK, d+1)
		k, isI := x.(int64)
		if !ok || !isI {
			return nil, false
		}
		w, okw := wrapInt(k, t.Type())
		return w, okw
	case *ssa.ChangeType:
		return evalPure(t.X, env, callOK, d+1)
	case *ssa.UnOp:
		x, ok := evalPure(t.X, env, callOK, d+1)
		if !ok {
			return nil, false
		}
		switch t.Op {
		case token.NOT:
			b, isB := x.(bool)
			return !b, isB
		case token.SUB:
			k, isI := x.(int64)
			if !isI {
				return nil, false
			}
			w, okw := wrapInt(-k, t.Type())
			return w, okw
		case token.XOR:
			k, isI := x.(int64)
			if !isI {
				return nil, false
			}
			w, okw := wrapInt(^k, t.Type())
			return w, okw
		}
		return nil, false
	case *ssa.BinOp:
		xa, ok1 := evalPure(t.X, env, callOK, d+1)
		ya, ok2 := evalPure(t.Y, env, callOK, d+1)
		if !ok1 || !ok2 {
			return nil, false
		}
		if xb, isB := xa.(bool); isB {
			yb, isB2 := ya.(bool)
			if !isB2 {
				return nil, false
			}
			switch t.Op {
			case token.EQL:
				return xb == yb, true
			case token.NEQ:
				return xb != yb, true
			}
			return nil, false
		}
		xi, okx := xa.(int64)
		yi, oky := ya.(int64)
		if !okx || !oky {
			return nil, false
		}
		var r int64
		switch t.Op {
		case token.ADD:
			r = xi + yi
		case token.SUB:
			r = xi - yi
		case token.MUL:
			r = xi * yi
		case token.AND:
			r = xi & yi
		case token.OR:
			r = xi | yi
		case token.XOR:
			r = xi ^ yi
		case token.AND_NOT:
			r = xi &^ yi
		case token.SHL:
			if yi < 0 || yi > 63 {
				return nil, false
			}
			r = xi << uint(yi)
		case token.SHR:
			if yi < 0 || yi > 63 {
				return nil, false
			}
			r = xi >> uint(yi)
		case token.QUO:
			if yi == 0 {
				return nil, false
			}
			r = xi / yi
		case token.REM:
			if yi == 0 {
				return nil, false
			}
			r = xi % yi
		case token.LSS:
			return xi < yi, true
		case token.LEQ:
			return xi <= yi, true
		case token.GTR:
			return xi > yi, true
		case token.GEQ:
			return xi >= yi, true
		case token.EQL:
			return xi == yi, true
		case token.NEQ:
			return xi != yi, true
		default:
			return nil, false
		}
		if bits, signed, ok := intBits(t.Type()); ok && bits == 64 && !signed && r < 0 {
			return nil, false
		}
		w, okw := wrapInt(r, t.Type())
		return w, okw
	case *ssa.Call:
		f := t.Call.StaticCallee()
		if f == nil || f.Blocks == nil || t.Call.IsInvoke() || len(f.FreeVars) != 0 || callOK == nil || !callOK(f) {
			return nil, false
		}
		if f.Signature.Results().Len() != 1 {
			return nil, false
		}
		args := make([]any, len(t.Call.Args))
		for i, a := range t.Call.Args {
			x, ok := evalPure(a, env, callOK, d+1)
			if !ok {
				return nil, false
			}
			args[i] = x
		}
		m := &cmachine{budget: 20000}
		r := m.run(f, args)
		if m.fail || r == nil {
			return nil, false
		}
		switch r.(type) {
		case int64, bool:
			return r, true
		}
		return nil, false
	}
	return nil, false
}

// DependsOn reports whether v is computed from one of the values in set
// (through operators, conversions, φs and call arguments).
func DependsOn(v ssa.Value, set map[ssa.Value]bool) bool {
	seen := map[ssa.Value]bool{}
	var walk func(v ssa.Value, d int) bool
	walk = func(v ssa.Value, d int) bool {
		if v == nil || seen[v] || d > 40 {
			return false
		}
		seen[v] = true
		if set[v] {
			return true
		}
		in, ok := v.(ssa.Instruction)
		if !ok {
			return false
		}
		switch in.(type) {
		case *ssa.BinOp, *ssa.UnOp, *ssa.Convert, *ssa.ChangeType, *ssa.Phi, *ssa.Call, *ssa.Extract, *ssa.Lookup, *ssa.Index, *ssa.IndexAddr:
		default:
			return false
		}
		for _, op := range in.Operands(nil) {
			if op != nil && *op != nil && walk(*op, d+1) {
				return true
			}
		}
		return false
	}
	return walk(v, 0)
}

// OnlyOf reports whether v is computed from the values in set, constants and
// package-level variables alone (operators, conversions, table look-ups and
// calls whose arguments are again of that kind) — i.e. whether v is a function
// of those values and nothing else the function has at hand.
func OnlyOf(v ssa.Value, set map[ssa.Value]bool) bool {
	var walk func(v ssa.Value, d int) bool
	walk = func(v ssa.Value, d int) bool {
		if d > 40 || v == nil {
			return false
		}
		if set[v] {
			return true
		}
		switch t := v.(type) {
		case *ssa.Const, *ssa.Global, *ssa.Function, *ssa.Builtin:
			return true
		case *ssa.BinOp:
			return walk(t.X, d+1) && walk(t.Y, d+1)
		case *ssa.UnOp:
			return walk(t.X, d+1)
		case *ssa.Convert:
			return walk(t.X, d+1)
		case *ssa.ChangeType:
			return walk(t.X, d+1)
		case *ssa.IndexAddr:
			return walk(t.X, d+1) && walk(t.Index, d+1)
		case *ssa.Index:
			return walk(t.X, d+1) && walk(t.Index, d+1)
		case *ssa.Lookup:
			return walk(t.X, d+1) && walk(t.Index, d+1)
		case *ssa.Extract:
			return walk(t.Tuple, d+1)
		case *ssa.Call:
			if t.Call.IsInvoke() {
				return false
			}
			if !walk(t.Call.Value, d+1) {
				return false
			}
			for _, a := range t.Call.Args {
				if !walk(a, d+1) {
					return false
				}
			}
			return true
		}
		return false
	}
	return walk(v, 0)
}
