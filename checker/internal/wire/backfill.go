package wire

import (
	"go/token"
	"go/types"

	"golang.org/x/tools/go/ssa"
)

// backfill.go: a byte that is appended as a placeholder and overwritten once
// what follows it has been written.
//
//	lengthAt := len(buf)
//	buf = append(buf, 0)                    // placeholder
//	buf, err = name.appendFirstLevel(buf)   // what the byte describes
//	buf[lengthAt] = byte(len(buf) - lengthAt - 1)
//
// The layout is read backwards from the returned slice through the chain of
// appends; a store through an index into the slice is not part of that chain.
// Ignoring it would make the extraction report the placeholder constant where
// the finished packet has the stored value, so every `append(B, elems…)` is
// checked for such stores:
//
//   - the index is len(B) + k for the very slice value B the append extends
//     (written as len(B), or len(B)+k with a constant k, possibly through a
//     variable), k inside the bytes this append adds;
//   - the slice indexed descends from this append's result (append, AppendUintN,
//     in-module appenders, re-slices, non-loop φs);
//   - the store is executed exactly once on every path from the append to the
//     end of the iteration (or to a success return): it dominates that end and
//     is dominated by the append, in the same loop.
//
// Then the atom at offset k becomes the stored value. When the stored value is
// len(B') - len(B) - (k+1) for a descendant B' and exactly ONE atom lies
// between the placeholder's append and B', the atom is the length prefix of
// that atom (LenOf). A store that matches the index but not these conditions
// makes the atom `unknown` (the layout is incomplete there, never guessed).

// lenOfCall: v is len(B) (conversions stripped); returns B.
func (x *X) lenOfCall(v ssa.Value) (ssa.Value, bool) {
	c, ok := StripConv(x.res(v)).(*ssa.Call)
	if !ok {
		return nil, false
	}
	if b, isB := c.Call.Value.(*ssa.Builtin); !isB || b.Name() != "len" || len(c.Call.Args) != 1 {
		return nil, false
	}
	return x.res(c.Call.Args[0]), true
}

// lenForm: v as Σ coef·len(B) + K over ADD/SUB of len calls and constants.
func (x *X) lenForm(v ssa.Value, d int) (map[ssa.Value]int64, int64, bool) {
	if d > 12 {
		return nil, 0, false
	}
	v = x.res(v)
	if k, ok := constI(v); ok {
		return map[ssa.Value]int64{}, k, true
	}
	if b, ok := x.lenOfCall(v); ok {
		return map[ssa.Value]int64{b: 1}, 0, true
	}
	switch t := v.(type) {
	case *ssa.Convert:
		if valuePreserving(t.X.Type(), t.Type()) {
			return x.lenForm(t.X, d+1)
		}
	case *ssa.BinOp:
		if t.Op != token.ADD && t.Op != token.SUB {
			return nil, 0, false
		}
		a, ka, ok1 := x.lenForm(t.X, d+1)
		b, kb, ok2 := x.lenForm(t.Y, d+1)
		if !ok1 || !ok2 {
			return nil, 0, false
		}
		sign := int64(1)
		if t.Op == token.SUB {
			sign = -1
		}
		for k, c := range b {
			a[k] += sign * c
			if a[k] == 0 {
				delete(a, k)
			}
		}
		return a, ka + sign*kb, true
	}
	return nil, 0, false
}

// descendants: slice values that extend or view the buffer value v.
func (x *X) descendants(v ssa.Value) map[ssa.Value]bool {
	out := map[ssa.Value]bool{}
	var walk func(v ssa.Value, d int)
	walk = func(v ssa.Value, d int) {
		if out[v] || d > 40 || v.Referrers() == nil {
			return
		}
		out[v] = true
		for _, r := range *v.Referrers() {
			switch y := r.(type) {
			case *ssa.Call:
				cc := y.Common()
				if b, ok := cc.Value.(*ssa.Builtin); ok {
					if b.Name() == "append" && cc.Args[0] == v {
						walk(y, d+1)
					}
					continue
				}
				if kind, _, _ := binCall(y); kind == "append" && cc.Args[1] == v {
					walk(y, d+1)
					continue
				}
				if binAppendCall(y) && cc.Args[0] == v {
					walk(y, d+1)
					continue
				}
				if f := cc.StaticCallee(); f != nil && x.W.P.InModule(f) {
					// an in-module appender: its result 0 extends the argument
					walk(y, d+1)
				}
			case *ssa.Extract:
				if y.Index == 0 && isByteSeq(y.Type()) {
					walk(y, d+1)
				}
			case *ssa.Slice:
				if y.X == v && y.Low == nil {
					walk(y, d+1)
				}
			case *ssa.Phi:
				isHeader := false
				for _, p := range y.Block().Preds {
					if y.Block().Dominates(p) {
						isHeader = true
					}
				}
				if !isHeader {
					walk(y, d+1)
				}
			case *ssa.ChangeType:
				walk(y, d+1)
			}
		}
	}
	walk(v, 0)
	return out
}

// backfilled: el are the atoms `app` (a call of the append builtin) adds to
// its first argument; returns them with back-filled bytes replaced.
func (x *X) backfilled(app *ssa.Call, el []Atom) []Atom {
	base := x.res(app.Call.Args[0])
	// is there any store through an index of the form len(base)+k at all?
	type hit struct {
		st *ssa.Store
		ia *ssa.IndexAddr
		k  int64
	}
	var hits []hit
	for _, b := range x.Fn.Blocks {
		for _, in := range b.Instrs {
			st, ok := in.(*ssa.Store)
			if !ok {
				continue
			}
			ia, ok := st.Addr.(*ssa.IndexAddr)
			if !ok {
				continue
			}
			if _, isSl := ia.X.Type().Underlying().(*types.Slice); !isSl || !isByteSeq(ia.X.Type()) {
				continue
			}
			form, k, ok := x.lenForm(ia.Index, 0)
			if !ok || len(form) != 1 || form[base] != 1 {
				continue
			}
			hits = append(hits, hit{st, ia, k})
		}
	}
	if len(hits) == 0 {
		return el
	}
	// offsets of the atoms this append adds
	total := int64(0)
	offs := make([]int64, len(el))
	for i, a := range el {
		offs[i] = total
		if a.Width <= 0 || (a.Kind != "fixed" && a.Kind != "const" && a.Kind != "pad") {
			total = -1
			break
		}
		total += int64(a.Width)
	}
	out := append([]Atom(nil), el...)
	desc := x.descendants(app)
	for _, h := range hits {
		if h.k < 0 {
			continue // before this append's bytes: another append's business
		}
		if total >= 0 && h.k >= total {
			continue
		}
		fail := func(why string) []Atom {
			return unknown(h.st.Pos(), "a byte appended to %s is overwritten later (%s)", x.exprString(base, 0), why)
		}
		if total < 0 {
			return fail("the bytes appended there do not have fixed widths")
		}
		idx := -1
		for i := range el {
			if offs[i] == h.k && el[i].Width == 1 {
				idx = i
			}
		}
		if idx < 0 {
			return fail("the store does not hit a single-byte atom")
		}
		if !desc[h.ia.X] {
			return fail("the slice stored into is not derived from that append")
		}
		if !x.domI(app, h.st) || x.LoopOf(app.Block()) != x.LoopOf(h.st.Block()) {
			return fail("the store is not made once in the same iteration after the append")
		}
		// the store lies on every path from the append to the end of the
		// iteration / a success return
		var ends []ssa.Instruction
		if l := x.LoopOf(app.Block()); l != nil {
			ends = append(ends, l.Header.Instrs[0])
		}
		for _, ret := range x.SuccessReturns() {
			ends = append(ends, ret)
		}
		for _, e := range ends {
			if x.pathExists(app, e, h.st) {
				return fail("the store is conditional")
			}
		}
		a := x.valueAtom(h.st.Val, 1, "", h.st)
		// length of what follows, up to a descendant buffer?
		if form, k, ok := x.lenForm(StripConv(h.st.Val), 0); ok && len(form) == 2 && form[base] == -1 && k == -(h.k+1) && offs[idx]+1 == total {
			for b3, c := range form {
				if b3 == base || c != 1 || !desc[b3] {
					continue
				}
				tail := x.minusPrefix(b3, app)
				if len(tail) == 1 && tail[0].Val != nil {
					a.LenOf = tail[0].Val
					if ex, isEx := b3.(*ssa.Extract); isEx && ex.Tuple == tail[0].Val {
						a.LenOf = ex
					}
					a.Expr = "len(" + tail[0].Field + ")"
					if _, narrowing := StripConv(h.st.Val).(*ssa.BinOp); narrowing {
						a.Narrow = true
					}
				} else {
					return fail("the stored value is the length of several atoms, which a length prefix of one atom cannot express")
				}
			}
		}
		a.Kind = "fixed"
		out[idx] = a
	}
	return out
}
