package prove

import (
	"go/token"
	"go/types"
	"sort"
	"strings"

	"golang.org/x/tools/go/callgraph/cha"
	"golang.org/x/tools/go/callgraph/vta"
	"golang.org/x/tools/go/ssa"
	"golang.org/x/tools/go/ssa/ssautil"

	"manticheck/internal/load"
)

// World holds whole-program facts shared by all function analyses: static
// call graph (+CHA for interface calls inside the module), mod-sets.
type World struct {
	P       *load.Program
	Funcs   []*ssa.Function // module source functions (incl. anonymous)
	callees map[*ssa.Function][]*ssa.Function
	modset  map[*ssa.Function]map[string]bool // transitive
	direct  map[*ssa.Function]map[string]bool
	methods map[string][]*ssa.Function // method name → module methods
	fi      map[*ssa.Function]*FuncInfo
	invoke  map[ssa.CallInstruction][]*ssa.Function
	cells   map[*ssa.Alloc]cellState
	nonNeg  map[string]int
	Axioms  []func(c *Ctx, in ssa.Instruction)
	// Contracts
	Requires map[string]string // function name → textual contract (evidence)
	// entry facts inferred from call sites (entry.go)
	calls     *callIndex
	entryC    map[*ssa.Function][]entryFact
	EntryUsed map[string]int
	lenRelC   map[string][]lenRel
	intLenC map[string][]int
	elemC   map[elemKey]*elemBound
	condC     map[string][]condFact
	constMaps map[*ssa.Global]*constMapInfo
	condBusy  int // conditional postconditions being computed (entry facts found meanwhile are not cached)
}

func NewWorld(p *load.Program) *World {
	w := &World{P: p, callees: map[*ssa.Function][]*ssa.Function{}, modset: map[*ssa.Function]map[string]bool{},
		direct: map[*ssa.Function]map[string]bool{}, methods: map[string][]*ssa.Function{}, fi: map[*ssa.Function]*FuncInfo{},
		Requires: map[string]string{}, entryC: map[*ssa.Function][]entryFact{}, EntryUsed: map[string]int{}}
	w.Funcs = p.SrcFuncs()
	// VTA call graph: used to resolve interface invokes precisely
	cg := vta.CallGraph(ssautil.AllFunctions(p.SSA), cha.CallGraph(p.SSA))
	w.invoke = map[ssa.CallInstruction][]*ssa.Function{}
	for _, n := range cg.Nodes {
		for _, e := range n.Out {
			if e.Site != nil && e.Site.Common().IsInvoke() {
				w.invoke[e.Site] = append(w.invoke[e.Site], e.Callee.Func)
			}
		}
	}
	for _, fn := range w.Funcs {
		if fn.Signature.Recv() != nil {
			w.methods[fn.Name()] = append(w.methods[fn.Name()], fn)
		}
	}
	for _, fn := range w.Funcs {
		w.scan(fn)
	}
	w.closeModsets()
	return w
}

// FieldKey names a struct field for type-based aliasing.
func FieldKey(structT types.Type, idx int) string {
	st, _ := structT.Underlying().(*types.Struct)
	name := "?"
	if st != nil && idx < st.NumFields() {
		name = st.Field(idx).Name()
	}
	return types.TypeString(structT, nil) + "." + name
}

func derefT(t types.Type) types.Type {
	if p, ok := t.Underlying().(*types.Pointer); ok {
		return p.Elem()
	}
	return t
}

// storeKey classifies the location a store writes.
func storeKey(addr ssa.Value) string {
	switch a := addr.(type) {
	case *ssa.FieldAddr:
		return "F:" + FieldKey(derefT(a.X.Type()), a.Field)
	case *ssa.IndexAddr:
		return "I:" + types.TypeString(derefT(a.Type()), nil)
	case *ssa.Alloc, *ssa.FreeVar, *ssa.Global:
		return "C:" + a.Name() + "@" + posKey(a)
	}
	return "P:" + types.TypeString(derefT(addr.Type()), nil)
}

func posKey(v ssa.Value) string {
	switch x := v.(type) {
	case *ssa.Alloc:
		return x.Parent().String() + ":" + x.Name()
	case *ssa.FreeVar:
		return x.Parent().String() + ":" + x.Name()
	case *ssa.Global:
		return x.String()
	}
	return ""
}

// CalleesOf returns possible in-module callees of a call (static, closures,
// CHA by method name and signature for interface invokes).
func (w *World) CalleesOf(c ssa.CallInstruction) []*ssa.Function {
	cc := c.Common()
	if cc.IsInvoke() {
		var out []*ssa.Function
		for _, f := range w.invoke[c] {
			if f.Synthetic != "" {
				if o, ok := f.Object().(*types.Func); ok {
					if d := w.P.SSA.FuncValue(o); d != nil && d.Blocks != nil {
						f = d
					}
				}
			}
			out = append(out, f)
		}
		return out
	}
	if f := cc.StaticCallee(); f != nil {
		if f.Synthetic != "" && w.P.InModule(f) {
			// wrapper/bound/thunk: resolve to the declared function when possible
			if o, ok := f.Object().(*types.Func); ok {
				if d := w.P.SSA.FuncValue(o); d != nil && d.Blocks != nil {
					return []*ssa.Function{d}
				}
			}
		}
		return []*ssa.Function{f}
	}
	// dynamic function value: closures created in the same function
	var out []*ssa.Function
	if mc, ok := cc.Value.(*ssa.MakeClosure); ok {
		out = append(out, mc.Fn.(*ssa.Function))
	}
	return out
}

func (w *World) scan(fn *ssa.Function) {
	d := map[string]bool{}
	seen := map[*ssa.Function]bool{}
	for _, b := range fn.Blocks {
		for _, in := range b.Instrs {
			switch x := in.(type) {
			case *ssa.Store:
				d[storeKey(x.Addr)] = true
			case *ssa.MapUpdate:
				d["M:"+types.TypeString(x.Map.Type(), nil)] = true
			case *ssa.MakeClosure:
				f := x.Fn.(*ssa.Function)
				if !seen[f] {
					seen[f] = true
					w.callees[fn] = append(w.callees[fn], f)
				}
			case ssa.CallInstruction:
				for _, f := range w.CalleesOf(x) {
					if !seen[f] {
						seen[f] = true
						w.callees[fn] = append(w.callees[fn], f)
					}
				}
				// function values passed as arguments may be called by the callee
				for _, a := range x.Common().Args {
					if f, ok := a.(*ssa.Function); ok && !seen[f] {
						seen[f] = true
						w.callees[fn] = append(w.callees[fn], f)
					}
				}
			}
		}
	}
	w.direct[fn] = d
}

func (w *World) closeModsets() {
	for _, fn := range w.Funcs {
		m := map[string]bool{}
		for k := range w.direct[fn] {
			m[k] = true
		}
		w.modset[fn] = m
	}
	for changed := true; changed; {
		changed = false
		for _, fn := range w.Funcs {
			m := w.modset[fn]
			for _, c := range w.callees[fn] {
				for k := range w.modset[c] {
					if strings.HasPrefix(k, "C:") {
						// cells are local to the defining function tree: propagate only within it
						if !sameTree(fn, c) {
							continue
						}
					}
					if !m[k] {
						m[k] = true
						changed = true
					}
				}
			}
		}
	}
}

func root(fn *ssa.Function) *ssa.Function {
	for fn.Parent() != nil {
		fn = fn.Parent()
	}
	return fn
}
func sameTree(a, b *ssa.Function) bool { return root(a) == root(b) }

// ModSet returns the transitive store set of fn (nil for functions outside the module).
func (w *World) ModSet(fn *ssa.Function) map[string]bool { return w.modset[fn] }

// Reachable returns the module functions reachable from the entries.
func (w *World) Reachable(entries []*ssa.Function, skip func(*ssa.Function) bool) []*ssa.Function {
	seen := map[*ssa.Function]bool{}
	var out []*ssa.Function
	var visit func(f *ssa.Function)
	visit = func(f *ssa.Function) {
		if seen[f] || f.Blocks == nil || !w.P.InModule(f) {
			return
		}
		if skip != nil && skip(f) {
			return
		}
		seen[f] = true
		out = append(out, f)
		for _, c := range w.callees[f] {
			visit(c)
		}
	}
	for _, e := range entries {
		visit(e)
	}
	sort.Slice(out, func(i, j int) bool { return out[i].Pos() < out[j].Pos() })
	return out
}

func isIntType(t types.Type) (bits int, signed bool, ok bool) {
	b, isb := t.Underlying().(*types.Basic)
	if !isb {
		return 0, false, false
	}
	switch b.Kind() {
	case types.Int8:
		return 8, true, true
	case types.Int16:
		return 16, true, true
	case types.Int32:
		return 32, true, true
	case types.Int64, types.Int, types.UntypedInt:
		return 64, true, true
	case types.Uint8:
		return 8, false, true
	case types.Uint16:
		return 16, false, true
	case types.Uint32:
		return 32, false, true
	case types.Uint64, types.Uint, types.Uintptr:
		return 64, false, true
	case types.UntypedRune:
		return 32, true, true
	}
	return 0, false, false
}

func isCmp(op token.Token) bool {
	switch op {
	case token.LSS, token.LEQ, token.GTR, token.GEQ, token.EQL, token.NEQ:
		return true
	}
	return false
}
