package prove

// E1 "overflow mode" (C15): for an arithmetic instruction the exact
// mathematical result, computed from the linear forms of the OPERANDS, must lie
// in the range of the result type on every execution reaching it. Lin() already
// turns a possibly-wrapping operation into an opaque term, so the goals here
// are always posed on operand forms, never on the result value itself.

import (
	"fmt"
	"go/constant"
	"go/token"
	"go/types"
	"math/big"
	"sort"
	"strings"
	"time"

	"golang.org/x/tools/go/ssa"

	"manticheck/internal/lin"
)

// OvSite is one instruction the overflow rule is bound to.
type OvSite struct {
	In   ssa.Instruction
	Kind string // add sub mul shl neg convert timepre timetotal timesat
}

// time.Time accessors whose result is "undefined" when the instant is not
// representable in the result unit: scale = units per second.
var timeUnitCalls = map[string]int64{
	"(time.Time).UnixNano":  1_000_000_000,
	"(time.Time).UnixMicro": 1_000_000,
	"(time.Time).UnixMilli": 1_000,
}

// time functions that are total and exact for every argument value.
var timeTotalCalls = map[string]bool{
	"time.Unix": true, "time.UnixMilli": true, "time.UnixMicro": true,
	"(time.Time).Unix": true, "(time.Time).Nanosecond": true, "(time.Time).Year": true,
}

// time functions that saturate (time.Duration is int64 nanoseconds: ±292 years).
var timeSaturating = map[string]bool{
	"(time.Time).Sub": true, "time.Since": true, "time.Until": true,
}

// OverflowSites enumerates, from go/ssa, every instruction of fn the overflow
// rule is bound to: + - * << and unary minus on 64-bit integers, every
// narrowing or sign-changing integer conversion, and the calls into package
// time that carry a representability pre-condition (or saturate).
func (w *World) OverflowSites(fn *ssa.Function) []OvSite {
	var out []OvSite
	for _, b := range fn.Blocks {
		for _, in := range b.Instrs {
			switch x := in.(type) {
			case *ssa.BinOp:
				bits, _, ok := isIntType(x.Type())
				if !ok || bits != 64 || !x.Pos().IsValid() {
					continue
				}
				switch x.Op {
				case token.ADD:
					out = append(out, OvSite{in, "add"})
				case token.SUB:
					out = append(out, OvSite{in, "sub"})
				case token.MUL:
					out = append(out, OvSite{in, "mul"})
				case token.SHL:
					out = append(out, OvSite{in, "shl"})
				case token.QUO:
					// only MinInt64 / -1 can overflow
					if k, ok := constInt(x.Y); ok && k.Cmp(big.NewInt(-1)) == 0 {
						out = append(out, OvSite{in, "neg"})
					}
				}
			case *ssa.UnOp:
				if x.Op != token.SUB {
					continue
				}
				if bits, _, ok := isIntType(x.Type()); ok && bits == 64 {
					out = append(out, OvSite{in, "neg"})
				}
			case *ssa.Convert:
				_, _, okD := isIntType(x.Type())
				if !okD {
					continue
				}
				if _, _, okS := isIntType(x.X.Type()); !okS {
					if b, isB := x.X.Type().Underlying().(*types.Basic); isB && b.Info()&types.IsFloat != 0 {
						out = append(out, OvSite{in, "convert"})
					}
					continue
				}
				if _, isK := x.X.(*ssa.Const); isK {
					continue // the compiler rejects constant conversions that do not fit
				}
				sl, sh, _ := typeRange(x.X.Type())
				dl, dh, _ := typeRange(x.Type())
				if sl.Cmp(dl) >= 0 && sh.Cmp(dh) <= 0 {
					continue // widening
				}
				out = append(out, OvSite{in, "convert"})
			case *ssa.Call:
				n := staticName(x.Common())
				switch {
				case timeUnitCalls[n] != 0:
					out = append(out, OvSite{in, "timepre"})
				case timeSaturating[n]:
					out = append(out, OvSite{in, "timesat"})
				case n == "time.Unix" || n == "time.UnixMilli" || n == "time.UnixMicro":
					out = append(out, OvSite{in, "timetotal"})
				}
			}
		}
	}
	return out
}

// resolveVal follows store→load forwarding so that `dt.Time = time.Now()`
// followed by a load of dt.Time is the time.Now() call.
func (fi *FuncInfo) resolveVal(v ssa.Value) ssa.Value {
	for i := 0; i < 8; i++ {
		switch x := v.(type) {
		case *ssa.UnOp:
			if x.Op == token.MUL {
				r := fi.loadRep(x)
				if r == v {
					return v
				}
				v = r
				continue
			}
		case *ssa.ChangeType:
			v = x.X
			continue
		}
		return v
	}
	return v
}

func (fi *FuncInfo) sameVal(a, b ssa.Value) bool {
	return fi.resolveVal(a) == fi.resolveVal(b)
}

func isTimeNow(v ssa.Value) bool {
	c, ok := v.(*ssa.Call)
	return ok && staticName(c.Common()) == "time.Now"
}

// isNow: the instant is the clock reading — a time.Now() call, or a parameter
// of an UNEXPORTED helper that receives time.Now() (possibly through one more
// such helper) at every one of its call sites: "timestamp computation moved
// into fileTimeOf(t time.Time), called with time.Now()".
func (fi *FuncInfo) isNow(v ssa.Value) bool { return fi.isNowDepth(v, 0) }

func (fi *FuncInfo) isNowDepth(v ssa.Value, depth int) bool {
	v = fi.resolveVal(v)
	if isTimeNow(v) {
		return true
	}
	p, ok := v.(*ssa.Parameter)
	if !ok || depth > 2 {
		return false
	}
	fn := fi.Fn
	if p.Parent() != fn || fn.Parent() != nil || fn.Object() == nil || fn.Object().Exported() {
		return false
	}
	pi := -1
	for i, q := range fn.Params {
		if q == p {
			pi = i
		}
	}
	calls, ok := fi.W.staticCallsOf(fn)
	if !ok || len(calls) == 0 || pi < 0 {
		return false
	}
	for _, call := range calls {
		args := call.Common().Args
		if pi >= len(args) || !fi.W.Info(call.Parent()).isNowDepth(args[pi], depth+1) {
			return false
		}
	}
	return true
}

// staticCallsOf: every reference to fn in the module is a static call of it
// (ok=false when it escapes as a value, is deferred or go'd).
func (w *World) staticCallsOf(fn *ssa.Function) ([]*ssa.Call, bool) {
	var calls []*ssa.Call
	for _, g := range w.Funcs {
		for _, b := range g.Blocks {
			for _, in := range b.Instrs {
				for _, op := range in.Operands(nil) {
					if op == nil || *op != ssa.Value(fn) {
						continue
					}
					call, ok := in.(*ssa.Call)
					if !ok || call.Common().IsInvoke() || call.Common().Value != ssa.Value(fn) {
						return nil, false
					}
					for _, a := range call.Common().Args {
						if a == ssa.Value(fn) {
							return nil, false
						}
					}
					calls = append(calls, call)
				}
			}
		}
	}
	return calls, true
}

// nowUsed records the contexts in which the clock-range assumption was used
// (Ctx is declared in prove.go, which this file does not touch).
var nowUsed = map[*Ctx]bool{}

func markNow(c *Ctx) { nowUsed[c] = true }

// NowAssumption is printed by rules that rely on seedFacts' clock range.
const NowAssumption = "time.Now() lies in [1970-01-01, 2262-04-11] (0 <= Unix() <= 9223372035, UnixNano() representable); a time.Time parameter of an unexported function that receives time.Now() at every call site is the same clock reading"

var (
	maxI64     = new(big.Int).SetInt64(1<<63 - 1)
	minI64     = new(big.Int).SetInt64(-1 << 63)
	nowMaxSecs = big.NewInt(9223372035)
)

// constTime evaluates time.Date / time.Unix calls whose integer arguments are
// all constants (the location argument is ignored: ±1 day of slack is applied
// by the caller). No repository code is executed: this is the checker's own
// use of package time on literal arguments.
func (fi *FuncInfo) constTime(v ssa.Value) (sec int64, ok bool) {
	c, isCall := fi.resolveVal(v).(*ssa.Call)
	if !isCall {
		return 0, false
	}
	a := c.Common().Args
	get := func(i int) (int64, bool) {
		k, ok := constInt(a[i])
		if !ok || !k.IsInt64() {
			return 0, false
		}
		return k.Int64(), true
	}
	switch staticName(c.Common()) {
	case "time.Date":
		var n [7]int64
		for i := 0; i < 7; i++ {
			x, ok := get(i)
			if !ok || x < -400000 || x > 400000 && i != 6 {
				return 0, false
			}
			n[i] = x
		}
		t := time.Date(int(n[0]), time.Month(n[1]), int(n[2]), int(n[3]), int(n[4]), int(n[5]), int(n[6]), time.UTC)
		return t.Unix(), true
	case "time.Unix":
		s, ok1 := get(0)
		ns, ok2 := get(1)
		if !ok1 || !ok2 {
			return 0, false
		}
		return time.Unix(s, ns).Unix(), true
	}
	return 0, false
}

// seedConsts makes integer-typed constants written as floating literals
// (`x * 1e7`) constants for Lin, which only recognises constant.Int values.
func (c *Ctx) seedConsts() {
	for _, b := range c.FI.Fn.Blocks {
		for _, in := range b.Instrs {
			for _, op := range in.Operands(nil) {
				if op == nil || *op == nil {
					continue
				}
				if k, ok := (*op).(*ssa.Const); ok {
					if _, done := c.linC[k]; !done {
						if v, ok := floatKindInt(k); ok {
							c.linC[k] = lin.KB(v)
						}
					}
				}
			}
		}
	}
}

// seedFacts adds facts Lin() does not know: truncated division / remainder by
// a constant for operands of either sign, and the ranges of time accessors.
func (c *Ctx) seedFacts(upto ssa.Instruction) { c.seedFactsPlan(upto, nil) }

// seedFactsPlan also binds the planned pure helpers (overflow_inline.go): each
// call when the walk reaches it, the calls off the dominating path afterwards.
func (c *Ctx) seedFactsPlan(upto ssa.Instruction, pl *helperPlan) {
	fi := c.FI
	for _, b := range fi.Fn.Blocks {
		if upto != nil && !(b == upto.Block() || b.Dominates(upto.Block())) {
			continue
		}
		for _, in := range b.Instrs {
			if in == upto {
				break
			}
			if call, ok := in.(*ssa.Call); ok && pl != nil {
				c.bindCall(pl, call)
			}
			c.seedInstr(in)
		}
	}
	if pl != nil {
		for _, call := range pl.order {
			c.bindCall(pl, call)
		}
	}
}

// seedInstr adds the facts of one defining instruction (see seedFacts).
func (c *Ctx) seedInstr(in ssa.Instruction) {
	fi := c.FI
	switch x := in.(type) {
	case *ssa.BinOp:
		if x.Op != token.QUO && x.Op != token.REM {
			return
		}
		if _, _, ok := isIntType(x.Type()); !ok {
			return
		}
		k, ok := constIntAny(x.Y)
		if !ok || k.Sign() == 0 {
			return
		}
		ak := new(big.Int).Abs(k)
		km1 := lin.KB(new(big.Int).Sub(ak, big.NewInt(1)))
		o := c.Lin(x)
		a := c.Lin(x.X)
		if x.Op == token.REM {
			// |r| <= |k|-1, sign(r) = sign(a)
			c.add(lin.LE(o, km1), lin.GE(o, km1.Neg()))
			if c.Entails(lin.GE0(a)) {
				c.add(lin.GE0(o), lin.LE(o, a))
			} else if c.Entails(lin.LE(a, lin.K(0))) {
				c.add(lin.LE(o, lin.K(0)), lin.GE(o, a))
			}
			return
		}
		if k.Sign() < 0 {
			return
		}
		// q = trunc(a/k): k·q-(k-1) <= a <= k·q+(k-1)
		kq := o.Scale(k)
		c.add(lin.LE(kq.Sub(km1), a), lin.LE(a, kq.Add(km1)))
		if c.Entails(lin.GE0(a)) {
			c.add(lin.GE0(o), lin.LE(kq, a))
		} else if c.Entails(lin.LE(a, lin.K(0))) {
			c.add(lin.LE(o, lin.K(0)), lin.GE(kq, a))
		}
	case *ssa.Call:
		n := staticName(x.Common())
		switch n {
		case "(time.Time).Nanosecond":
			o := c.Lin(x)
			c.add(lin.GE0(o), lin.LE(o, lin.K(999_999_999)))
		case "(time.Time).Unix":
			if fi.isNow(x.Common().Args[0]) {
				o := c.Lin(x)
				c.add(lin.GE0(o), lin.LE(o, lin.KB(nowMaxSecs)))
				markNow(c)
			}
		case "(time.Time).UnixNano", "(time.Time).UnixMicro", "(time.Time).UnixMilli":
			if fi.isNow(x.Common().Args[0]) {
				o := c.Lin(x)
				c.add(lin.GE0(o), lin.LE(o, lin.KB(maxI64)))
				markNow(c)
			}
		case "(time.Time).Year":
			if fi.isNow(x.Common().Args[0]) {
				o := c.Lin(x)
				c.add(lin.GE(o, lin.K(1970)), lin.LE(o, lin.K(2262)))
				markNow(c)
			}
		}
	}
}

// floatKindInt: an integer-typed SSA constant whose value is held as a
// floating constant (the literal 1e7 converted to int64).
func floatKindInt(k *ssa.Const) (*big.Int, bool) {
	if k.Value == nil || k.Value.Kind() != constant.Float {
		return nil, false
	}
	if _, _, isInt := isIntType(k.Type()); !isInt {
		return nil, false
	}
	iv := constant.ToInt(k.Value)
	if iv.Kind() != constant.Int {
		return nil, false
	}
	return new(big.Int).SetString(iv.ExactString(), 10)
}

func constIntAny(v ssa.Value) (*big.Int, bool) {
	if b, ok := constInt(v); ok {
		return b, true
	}
	if k, ok := v.(*ssa.Const); ok {
		return floatKindInt(k)
	}
	return nil, false
}

// bitwiseOnly: every use of v is a bitwise combination, a comparison-free
// store of the pattern, or a conversion — i.e. v is a bit lane being placed,
// not a number being scaled.
func bitwiseOnly(v ssa.Value) bool {
	refs := v.Referrers()
	if refs == nil || len(*refs) == 0 {
		return false
	}
	for _, r := range *refs {
		switch y := r.(type) {
		case *ssa.BinOp:
			switch y.Op {
			case token.OR, token.XOR, token.AND, token.AND_NOT:
			default:
				return false
			}
		case *ssa.DebugRef:
		default:
			return false
		}
	}
	return true
}

// laneSplit: the narrowing conversion uintN(x) keeps the low N bits while the
// same x is also shifted right by N (the high lane is kept elsewhere).
func laneSplit(x *ssa.Convert) bool {
	bits, signed, ok := isIntType(x.Type())
	if !ok || signed {
		return false
	}
	// go/ssa has no CSE: uint64(v) written twice is two Convert instructions
	fn := x.Parent()
	if fn == nil {
		return false
	}
	for _, blk := range fn.Blocks {
		for _, in := range blk.Instrs {
			if b, ok := in.(*ssa.BinOp); ok && b.Op == token.SHR && sameConv(b.X, x.X, 0) {
				if k, ok := constInt(b.Y); ok && k.IsInt64() && k.Int64() == int64(bits) {
					return true
				}
			}
		}
	}
	return false
}

// sameConv: a and b are the same value, or the same integer conversion of the same value.
func sameConv(a, b ssa.Value, d int) bool {
	if a == b {
		return true
	}
	if d > 3 {
		return false
	}
	ca, ok1 := a.(*ssa.Convert)
	cb, ok2 := b.(*ssa.Convert)
	if ok1 && ok2 && types.Identical(ca.Type(), cb.Type()) {
		if _, isParamOrConst := ca.X.(*ssa.Parameter); isParamOrConst || ca.X == cb.X {
			return sameConv(ca.X, cb.X, d+1)
		}
	}
	return false
}

// patternReinterpret: a same-width, sign-changing conversion whose operand is
// a BIT-LANE ASSEMBLY — zero-extended narrower values placed by constant
// shifts and combined with | or ^ — is the reinterpretation of a 64-bit
// pattern, not the conversion of a number: int64(uint64(hi)<<32 | uint64(lo))
// has exactly the bits of int64(hi)<<32 | int64(lo), which the shift rule
// above already judges as lane placement ("reaching the sign bit is a
// reinterpretation of the pattern, not a wrap"). Every shift inside the
// assembly remains an overflow site of its own (no bit may be shifted out),
// and the converted value is an opaque full-range integer for every later
// arithmetic site. A bare parameter, load or call result (int64(ticks)) is NOT
// an assembly and stays a numeric conversion.
func patternReinterpret(x *ssa.Convert) bool {
	db, ds, ok1 := isIntType(x.Type())
	sb, ss, ok2 := isIntType(x.X.Type())
	if !ok1 || !ok2 || db != sb || ds == ss {
		return false
	}
	top, ok := x.X.(*ssa.BinOp)
	if !ok {
		return false
	}
	switch top.Op {
	case token.OR, token.XOR, token.SHL:
	default:
		return false
	}
	placed := false // at least one lane is placed by a shift
	var lane func(v ssa.Value, depth int) bool
	lane = func(v ssa.Value, depth int) bool {
		if depth > 12 {
			return false
		}
		switch y := v.(type) {
		case *ssa.Const:
			return true
		case *ssa.Convert:
			// zero extension of a narrower unsigned value: a lane
			yb, ysg, ok := isIntType(y.X.Type())
			zb, _, ok2 := isIntType(y.Type())
			return ok && ok2 && !ysg && yb < zb
		case *ssa.ChangeType:
			return lane(y.X, depth+1)
		case *ssa.BinOp:
			switch y.Op {
			case token.OR, token.XOR:
				return lane(y.X, depth+1) && lane(y.Y, depth+1)
			case token.SHL:
				if _, ok := constInt(y.Y); !ok {
					return false
				}
				if lane(y.X, depth+1) {
					placed = true
					return true
				}
				return false
			case token.SHR:
				_, ok := constInt(y.Y)
				return ok
			case token.AND:
				_, okx := constInt(y.X)
				_, oky := constInt(y.Y)
				return okx || oky
			}
		}
		return false
	}
	return lane(top, 0) && placed
}

// OverflowOutcome extends Outcome with a witness and the assumptions used.
type OverflowOutcome struct {
	Outcome
	Witness string
	UsedNow bool
	How     string // short description of the discharge argument
}

// ProveOverflow decides one overflow site.
func (w *World) ProveOverflow(s OvSite) OverflowOutcome {
	fi := w.Info(s.In.Parent())
	// same construction as ctxBefore, with the float-kind integer constants
	// (the literal 1e7 used as an int64) known to Lin before any guard is read
	c := fi.newCtx()
	c.Block = s.In.Block()
	c.seedConsts()
	c.addDominating(c.Block)
	c.successIn(c.Block, s.In)
	pl := c.planHelpers(w.P.InModule) // pure arithmetic helpers (overflow_inline.go)
	c.seedFactsPlan(s.In, pl)
	c.helperTruth(pl)
	var res OverflowOutcome
	// Lin() bounds loop-carried 64-bit integers by ±2^62 (an assumption made
	// for the bounds prover); it is not admissible when the question is
	// overflow itself.
	for _, op := range s.In.Operands(nil) {
		if op != nil && *op != nil && reachesLoopPhi(*op, 0, map[ssa.Value]bool{}) {
			res.Failed = "operand depends on a loop-carried 64-bit value: range not decided in overflow mode"
			res.Goals = []string{res.Failed}
			return res
		}
	}
	finish := func(goals []lin.Con, how string) OverflowOutcome {
		res.Outcome = fi.prove(c, goals)
		res.How = how
		res.UsedNow = nowUsed[c]
		if !res.Proved {
			if n, ok := w.reposeAtCallers(fi, goals); ok {
				res.Proved = true
				res.Failed = ""
				res.How = fmt.Sprintf("%s, re-posed on the arguments at the %d call sites of this unexported helper", how, n)
				return res
			}
		}
		if !res.Proved {
			for _, g := range goals {
				if !c.Prove(g) {
					res.Witness = c.witness(g)
					break
				}
			}
		}
		return res
	}
	inRange := func(r lin.Form, t types.Type) []lin.Con {
		lo, hi, _ := typeRange(t)
		return []lin.Con{lin.GE(r, lin.KB(lo)), lin.LE(r, lin.KB(hi))}
	}
	switch x := s.In.(type) {
	case *ssa.BinOp:
		a, b := c.Lin(x.X), c.Lin(x.Y)
		switch x.Op {
		case token.ADD:
			out := finish(inRange(a.Add(b), x.Type()), "exact sum in range")
			if pa, pb, ok := c.preImages(x.X, x.Y); ok && !out.Proved {
				if m := finish(inRange(pa.Add(pb), x.Type()), modularHow+"sum of the operands before their same-width conversion to the unsigned type is in range, so the wrapped sum is that exact value"); m.Proved {
					return m
				}
			}
			return out
		case token.SUB:
			out := finish(inRange(a.Sub(b), x.Type()), "exact difference in range")
			if pa, pb, ok := c.preImages(x.X, x.Y); ok && !out.Proved {
				if m := finish(inRange(pa.Sub(pb), x.Type()), modularHow+"difference of the operands before their same-width conversion to the unsigned type is in range, so the wrapped difference is that exact value"); m.Proved {
					return m
				}
			}
			return out
		case token.QUO:
			return finish(inRange(a.Neg(), x.Type()), "exact negation in range")
		case token.MUL:
			if k, ok := a.ConstVal(); ok {
				return finish(inRange(b.Scale(k), x.Type()), "exact product in range")
			}
			if k, ok := b.ConstVal(); ok {
				return finish(inRange(a.Scale(k), x.Type()), "exact product in range")
			}
			res.Failed = "product of two non-constant operands: no linear bound"
			res.Goals = []string{res.Failed}
			return res
		case token.SHL:
			k, ok := constInt(x.Y)
			if !ok || !k.IsInt64() || k.Int64() < 0 || k.Int64() > 63 {
				res.Failed = "shift by a non-constant count"
				res.Goals = []string{res.Failed}
				return res
			}
			n := uint(k.Int64())
			if bitwiseOnly(x) {
				// lane placement: no bit may be shifted out; reaching the sign
				// bit is a reinterpretation of the pattern, not a wrap
				bits, _, _ := isIntType(x.Type())
				lim := new(big.Int).Lsh(big.NewInt(1), uint(bits)-n)
				return finish([]lin.Con{lin.GE0(a), lin.LT(a, lin.KB(lim))}, "bit-lane placement: no bit shifted out")
			}
			return finish(inRange(a.Scale(new(big.Int).Lsh(big.NewInt(1), n)), x.Type()), "exact shifted value in range")
		}
	case *ssa.UnOp:
		a := c.Lin(x.X)
		out := finish(inRange(a.Neg(), x.Type()), "exact negation in range")
		if pa, _, ok := c.preImages(x.X, nil); ok && !out.Proved {
			if m := finish(inRange(pa.Neg(), x.Type()), modularHow+"negation of the operand before its same-width conversion to the unsigned type is in range, so the wrapped negation is that exact value"); m.Proved {
				return m
			}
		}
		return out
	case *ssa.Convert:
		if _, _, ok := isIntType(x.X.Type()); !ok {
			res.Failed = "conversion from a floating-point value: range not decided"
			res.Goals = []string{res.Failed}
			return res
		}
		if laneSplit(x) {
			res.Proved = true
			res.How = "lane split: the bits dropped here are kept by the sibling right shift of the same value"
			res.Goals = []string{"low lane of " + valName(x.X)}
			return res
		}
		if patternReinterpret(x) {
			res.Proved = true
			res.How = "bit-pattern reinterpretation: the operand is assembled from zero-extended lanes by constant shifts and |, the same-width view keeps every bit (each shift is judged on its own as lane placement)"
			res.Goals = []string{"64-bit pattern " + valName(x.X) + " viewed as " + x.Type().String()}
			return res
		}
		out := finish(inRange(c.Lin(x.X), x.Type()), "source value fits the destination type")
		if !out.Proved {
			// decide the operand where it is produced: joined saturation
			// branches, a helper's return values, a helper's call sites
			lo, hi, _ := typeRange(x.Type())
			if ok, how := w.ProveValueRange(s.In.Parent(), s.In, x.X, lo, hi); ok {
				out.Proved, out.Failed, out.Witness = true, "", ""
				out.How = "source value fits the destination type, " + how
			}
		}
		if !out.Proved {
			if n, ok := w.consumedExactly(x); ok {
				out.Proved, out.Failed, out.Witness = true, "", ""
				out.How = fmt.Sprintf("the possibly wrapped pattern is consumed only where it is exact: each of its %d uses is modular arithmetic proved exact on the pre-conversion operands, or sits where the source value is proved to fit", n)
			}
		}
		return out
	case *ssa.Call:
		n := staticName(x.Common())
		if scale := timeUnitCalls[n]; scale != 0 {
			lo := new(big.Int).Quo(minI64, big.NewInt(scale))
			hi := new(big.Int).Sub(new(big.Int).Quo(maxI64, big.NewInt(scale)), big.NewInt(1))
			ok, how := c.timeWithin(x, x.Common().Args[0], lo, hi)
			res.UsedNow = nowUsed[c]
			res.Goals = []string{fmt.Sprintf("%s <= Unix() of the receiver <= %s (documented pre-condition of %s)", lo, hi, n)}
			if ok {
				res.Proved = true
				res.How = how
				return res
			}
			res.Failed = res.Goals[0] + ": no dominating guard on the time.Time bounds it"
			return res
		}
		if timeSaturating[n] {
			res.Failed = n + " saturates at ±292 years (time.Duration): not exact over the property's domain"
			res.Goals = []string{res.Failed}
			return res
		}
		res.Proved = true
		res.How = n + " is total: seconds and nanoseconds are normalised in arbitrary-range arithmetic"
		res.Goals = []string{n + " total"}
		return res
	}
	res.Failed = "unrecognised overflow site"
	return res
}

// timeWithin: is the instant t known to satisfy lo <= t.Unix() <= hi here?
func (c *Ctx) timeWithin(at ssa.Instruction, t ssa.Value, lo, hi *big.Int) (bool, string) {
	fi := c.FI
	rt := fi.resolveVal(t)
	if fi.isNow(rt) {
		markNow(c)
		return true, "receiver is time.Now() (clock-range assumption)"
	}
	if s, ok := fi.constTime(rt); ok {
		bs := big.NewInt(s)
		if new(big.Int).Sub(bs, big.NewInt(86400)).Cmp(lo) >= 0 && new(big.Int).Add(bs, big.NewInt(86400)).Cmp(hi) <= 0 {
			return true, "receiver is a constant instant inside the range"
		}
		return false, ""
	}
	// (a) integer guards on Unix()/Year() of the same instant
	for _, b := range fi.Fn.Blocks {
		if !(b == at.Block() || b.Dominates(at.Block())) {
			continue
		}
		for _, in := range b.Instrs {
			if in == at {
				break
			}
			call, ok := in.(*ssa.Call)
			if !ok {
				continue
			}
			n := staticName(call.Common())
			if n != "(time.Time).Unix" && n != "(time.Time).Year" {
				continue
			}
			if !fi.sameVal(call.Common().Args[0], t) {
				continue
			}
			f := c.Lin(call)
			if n == "(time.Time).Unix" {
				if c.Prove(lin.GE(f, lin.KB(lo))) && c.Prove(lin.LE(f, lin.KB(hi))) {
					return true, "dominating guard on Unix() of the same instant"
				}
			} else {
				// year y ⇒ Unix() in [secs(y-01-01), secs((y+1)-01-01))
				yl := yearOfSec(lo) + 1
				yh := yearOfSec(hi) - 1
				if c.Prove(lin.GE(f, lin.K(yl))) && c.Prove(lin.LE(f, lin.K(yh))) {
					return true, "dominating guard on Year() of the same instant"
				}
			}
		}
	}
	// (b) Before/After against constant instants
	var gotLo, gotHi bool
	for v, truth := range c.boolTrue {
		call, ok := v.(*ssa.Call)
		if !ok {
			continue
		}
		n := staticName(call.Common())
		if n != "(time.Time).Before" && n != "(time.Time).After" {
			continue
		}
		a0, a1 := call.Common().Args[0], call.Common().Args[1]
		less := n == "(time.Time).Before" // a0 < a1 when true; After: a0 > a1
		var other ssa.Value
		tIsFirst := false
		switch {
		case fi.sameVal(a0, t):
			other, tIsFirst = a1, true
		case fi.sameVal(a1, t):
			other = a0
		default:
			continue
		}
		s, ok := fi.constTime(other)
		if !ok {
			continue
		}
		// normalise to "t < C" / "t > C" / "t >= C" / "t <= C"
		tLess := less == tIsFirst // the relation, when true, says t < C
		bs := big.NewInt(s)
		upper := tLess == truth // true: t < C or t <= C ; false: t > C or t >= C
		if upper {
			if new(big.Int).Add(bs, big.NewInt(86400)).Cmp(hi) <= 0 {
				gotHi = true
			}
		} else {
			if new(big.Int).Sub(bs, big.NewInt(86400)).Cmp(lo) >= 0 {
				gotLo = true
			}
		}
	}
	if gotLo && gotHi {
		return true, "dominating Before/After guards against constant instants"
	}
	return false, ""
}

func yearOfSec(s *big.Int) int64 {
	if !s.IsInt64() {
		if s.Sign() < 0 {
			return -1 << 40
		}
		return 1 << 40
	}
	v := s.Int64()
	if v > 1<<55 || v < -(1<<55) {
		if v < 0 {
			return -1 << 40
		}
		return 1 << 40
	}
	return int64(time.Unix(v, 0).UTC().Year())
}

// witness proposes an assignment of the goal's terms, taken from their
// single-term bounds, under which the goal fails; it is checked against every
// fact that mentions only assigned terms.
func (c *Ctx) witness(g lin.Con) string {
	lo := map[lin.Term]*big.Int{}
	hi := map[lin.Term]*big.Int{}
	for _, f := range c.Facts {
		if len(f.F.Coef) != 1 {
			continue
		}
		for t, k := range f.F.Coef {
			// k·t + C >= 0
			nc := new(big.Int).Neg(f.F.C)
			if k.Sign() > 0 { // t >= ceil(-C/k)
				q, m := new(big.Int).DivMod(nc, k, new(big.Int))
				if m.Sign() != 0 {
					q.Add(q, big.NewInt(1))
				}
				if lo[t] == nil || q.Cmp(lo[t]) > 0 {
					lo[t] = q
				}
			} else { // t <= floor(C/|k|)
				ak := new(big.Int).Neg(k)
				q := new(big.Int).Div(f.F.C, ak)
				if hi[t] == nil || q.Cmp(hi[t]) < 0 {
					hi[t] = q
				}
			}
		}
	}
	asg := map[lin.Term]*big.Int{}
	val := new(big.Int).Set(g.F.C)
	var parts []string
	for _, t := range g.F.Terms() {
		k := g.F.Coef[t]
		var v *big.Int
		if k.Sign() > 0 {
			v = lo[t]
		} else {
			v = hi[t]
		}
		if v == nil {
			return ""
		}
		asg[t] = v
		val.Add(val, new(big.Int).Mul(k, v))
		parts = append(parts, fmt.Sprintf("%s = %s", c.FI.TermName(t), v))
	}
	if val.Sign() >= 0 {
		return ""
	}
	// feasibility against facts over assigned terms only
	for _, f := range c.Facts {
		all := true
		for t := range f.F.Coef {
			if asg[t] == nil {
				all = false
				break
			}
		}
		if !all || len(f.F.Coef) == 0 {
			continue
		}
		s := new(big.Int).Set(f.F.C)
		for t, k := range f.F.Coef {
			s.Add(s, new(big.Int).Mul(k, asg[t]))
		}
		if s.Sign() < 0 {
			return ""
		}
	}
	sort.Strings(parts)
	return strings.Join(parts, ", ")
}

func reachesLoopPhi(v ssa.Value, depth int, seen map[ssa.Value]bool) bool {
	if depth > 40 || seen[v] {
		return false
	}
	seen[v] = true
	switch x := v.(type) {
	case *ssa.Phi:
		if bits, _, ok := isIntType(x.Type()); ok && bits == 64 && isLoopPhi(x) {
			return true
		}
		for _, e := range x.Edges {
			if reachesLoopPhi(e, depth+1, seen) {
				return true
			}
		}
	case *ssa.BinOp:
		return reachesLoopPhi(x.X, depth+1, seen) || reachesLoopPhi(x.Y, depth+1, seen)
	case *ssa.UnOp:
		if x.Op != token.MUL {
			return reachesLoopPhi(x.X, depth+1, seen)
		}
	case *ssa.Convert:
		return reachesLoopPhi(x.X, depth+1, seen)
	case *ssa.ChangeType:
		return reachesLoopPhi(x.X, depth+1, seen)
	}
	return false
}

// reposeAtCallers: a goal of an UNEXPORTED helper that mentions only the
// helper's parameters is re-posed, with the actual arguments substituted, in
// the context of every call site (all of which must be static calls inside
// the module). This is what keeps "guard in the caller, arithmetic in an
// extracted helper" silent. One level only.
func (w *World) reposeAtCallers(fi *FuncInfo, goals []lin.Con) (int, bool) {
	fn := fi.Fn
	if fn.Parent() != nil || fn.Object() == nil || fn.Object().Exported() {
		return 0, false
	}
	// go/ssa keeps no referrers for package-level functions: scan the module
	calls, ok := w.staticCallsOf(fn)
	if !ok {
		return 0, false // escapes as a value, deferred, or go'd
	}
	if len(calls) == 0 {
		return 0, false
	}
	pidx := map[ssa.Value]int{}
	for i, p := range fn.Params {
		pidx[p] = i
	}
	for _, g := range goals {
		for t := range g.F.Coef {
			ti := fi.terms[t]
			if _, isParam := pidx[ti.v]; !isParam || ti.kind != tVal {
				return 0, false
			}
		}
	}
	for _, call := range calls {
		cfi := w.Info(call.Parent())
		cc := cfi.newCtx()
		cc.Block = call.Block()
		cc.seedConsts()
		cc.addDominating(cc.Block)
		cc.successIn(cc.Block, call)
		cc.seedFacts(call)
		args := call.Common().Args
		for _, g := range goals {
			f := lin.KB(g.F.C)
			for t, k := range g.F.Coef {
				i := pidx[fi.terms[t].v]
				if i >= len(args) {
					return 0, false
				}
				f = f.Add(cc.Lin(args[i]).Scale(k))
			}
			if !cc.Prove(lin.Con{F: f}) {
				return 0, false
			}
		}
	}
	return len(calls), true
}

// ---------------------------------------------------------------------------
// Range of a value, decided where the value is PRODUCED.

// ProveValueRange: does lo <= v <= hi hold (lo may be nil) whenever `at`, an
// instruction of fn that uses v, executes? The context before `at` is tried
// first; when that fails the question is moved to where the value comes from:
//
//   - a φ-join: every incoming value at the end of its predecessor;
//   - an integer conversion that is the identity on [lo, hi]: its operand;
//   - the result of a static call of an in-module function: every return
//     value of the callee (transitively) — "the arithmetic and the clamp live
//     in a helper";
//   - a parameter of an unexported function: the argument at every call site
//     — "the store lives in a helper".
//
// how describes the argument on success and names the failing source on
// failure.
func (w *World) ProveValueRange(fn *ssa.Function, at ssa.Instruction, v ssa.Value, lo, hi *big.Int) (ok bool, how string) {
	return w.valueRange(fn, at, v, lo, hi, 0)
}

func rangeName(lo, hi *big.Int) string {
	name := hi.String()
	for _, k := range []uint{31, 32, 60, 63, 64} {
		if new(big.Int).Add(hi, big.NewInt(1)).Cmp(new(big.Int).Lsh(big.NewInt(1), k)) == 0 {
			name = fmt.Sprintf("2^%d-1", k)
		}
	}
	if lo == nil {
		return "<= " + name
	}
	return "in [" + lo.String() + ", " + name + "]"
}

func (w *World) valueRange(fn *ssa.Function, at ssa.Instruction, v ssa.Value, lo, hi *big.Int, depth int) (bool, string) {
	p := w.P
	fi := w.Info(fn)
	if reachesLoopPhi(v, 0, map[ssa.Value]bool{}) {
		// Lin() bounds loop-carried 64-bit integers by assumption: not
		// admissible when the range itself is the question
		return false, " (the value depends on a loop-carried 64-bit integer)"
	}
	ctx := fi.ctxBefore(at)
	ctx.seedConsts()
	f := ctx.Lin(v)
	if ctx.Prove(lin.LE(f, lin.KB(hi))) && (lo == nil || ctx.Prove(lin.GE(f, lin.KB(lo)))) {
		return true, "proved " + rangeName(lo, hi)
	}
	if depth > 3 {
		return false, ""
	}
	for {
		if ct, ok := v.(*ssa.ChangeType); ok {
			v = ct.X
			continue
		}
		break
	}
	var call *ssa.Call
	idx := 0
	switch x := v.(type) {
	case *ssa.Call:
		call = x
	case *ssa.Extract:
		if cl, ok := x.Tuple.(*ssa.Call); ok {
			call, idx = cl, x.Index
		}
	case *ssa.Convert:
		// the conversion is the identity on [lo, hi] when that interval lies
		// in both types (Lin keeps a conversion opaque unless the fit is
		// immediate)
		slo, shi, ok1 := typeRange(x.X.Type())
		dlo, dhi, ok2 := typeRange(x.Type())
		if !ok1 || !ok2 {
			return false, ""
		}
		// x in [a, b] with [a, b] inside both types and inside [lo, hi]
		// gives conv(x) = x in [lo, hi]
		a, b := new(big.Int).Set(slo), new(big.Int).Set(shi)
		for _, l := range []*big.Int{dlo, lo} {
			if l != nil && l.Cmp(a) > 0 {
				a = l
			}
		}
		for _, h := range []*big.Int{dhi, hi} {
			if h.Cmp(b) < 0 {
				b = h
			}
		}
		if a.Cmp(b) > 0 {
			return false, ""
		}
		min, hi := a, b
		return w.valueRange(fn, at, x.X, min, hi, depth+1)
	case *ssa.Phi:
		if isLoopPhi(x) {
			return false, ""
		}
		for i, e := range x.Edges {
			pred := x.Block().Preds[i]
			if len(pred.Instrs) == 0 {
				return false, ""
			}
			if ok, _ := w.valueRange(fn, pred.Instrs[len(pred.Instrs)-1], e, lo, hi, depth+1); !ok {
				return false, fmt.Sprintf(" (value arriving from block %d)", pred.Index)
			}
		}
		return true, fmt.Sprintf("proved %s on each of the %d joined values", rangeName(lo, hi), len(x.Edges))
	case *ssa.Parameter:
		if fn.Parent() != nil || fn.Object() == nil || fn.Object().Exported() {
			return false, " (it is a parameter of an exported function: any caller may pass a value outside the range)"
		}
		pi := -1
		for i, q := range fn.Params {
			if q == x {
				pi = i
			}
		}
		calls, ok := w.staticCallsOf(fn)
		if !ok || len(calls) == 0 || pi < 0 {
			return false, " (the helper's call sites cannot be enumerated)"
		}
		for _, cl := range calls {
			args := cl.Common().Args
			if pi >= len(args) {
				return false, ""
			}
			if ok, _ := w.valueRange(cl.Parent(), cl, args[pi], lo, hi, depth+1); !ok {
				return false, " (argument at the call in " + p.FuncName(cl.Parent()) + ")"
			}
		}
		return true, fmt.Sprintf("proved %s on the argument at each of the %d call sites of %s", rangeName(lo, hi), len(calls), p.FuncName(fn))
	}
	if call == nil || call.Common().IsInvoke() {
		return false, ""
	}
	callee := call.Common().StaticCallee()
	if callee == nil || callee.Blocks == nil || !p.InModule(callee) {
		return false, ""
	}
	nret := 0
	for _, b := range callee.Blocks {
		for _, in := range b.Instrs {
			ret, ok := in.(*ssa.Return)
			if !ok {
				continue
			}
			if idx >= len(ret.Results) {
				return false, ""
			}
			nret++
			if ok, _ := w.valueRange(callee, ret, ret.Results[idx], lo, hi, depth+1); !ok {
				return false, " (return value of " + p.FuncName(callee) + " at " + p.Rel(ret.Pos()) + ")"
			}
		}
	}
	if nret == 0 {
		return false, ""
	}
	return true, fmt.Sprintf("proved %s on each of the %d return values of %s", rangeName(lo, hi), nret, p.FuncName(callee))
}


const modularHow = "modular arithmetic: the "

// preImages: the operands of an unsigned add/sub/neg as the values they had
// before a same-width signed→unsigned conversion (uint64(a) + uint64(b) is
// a + b modulo 2^64, so when a + b lies in the unsigned range the wrapped
// result IS a + b). ok only when at least one operand is such a conversion.
func (c *Ctx) preImages(x, y ssa.Value) (lin.Form, lin.Form, bool) {
	any := false
	pre := func(v ssa.Value) lin.Form {
		if v == nil {
			return lin.K(0)
		}
		if cv, ok := v.(*ssa.Convert); ok {
			db, ds, okD := isIntType(cv.Type())
			sb, ss, okS := isIntType(cv.X.Type())
			if okD && okS && db == sb && !ds && ss {
				any = true
				return c.Lin(cv.X)
			}
		}
		return c.Lin(v)
	}
	a, b := pre(x), pre(y)
	return a, b, any
}

// consumedExactly: every use of the same-width signed→unsigned conversion x is
// (a) an unsigned add/sub/neg proved exact on the pre-conversion operands, or
// (b) placed (for a φ: on the incoming edge) where the source value is proved
// to lie in the destination range. The wrapped pattern is then never observed.
func (w *World) consumedExactly(x *ssa.Convert) (int, bool) {
	db, ds, okD := isIntType(x.Type())
	sb, ss, okS := isIntType(x.X.Type())
	if !okD || !okS || db != sb || ds || !ss || x.Referrers() == nil {
		return 0, false
	}
	fi := w.Info(x.Parent())
	lo, hi, _ := typeRange(x.Type())
	fitsAt := func(c *Ctx) bool {
		c.seedConsts()
		f := c.Lin(x.X)
		return c.Prove(lin.GE(f, lin.KB(lo))) && c.Prove(lin.LE(f, lin.KB(hi)))
	}
	n := 0
	for _, r := range *x.Referrers() {
		switch u := r.(type) {
		case *ssa.DebugRef:
			continue
		case *ssa.BinOp:
			if (u.Op == token.ADD || u.Op == token.SUB) && types.Identical(u.Type(), x.Type()) {
				if o := w.ProveOverflow(OvSite{In: u}); o.Proved && strings.HasPrefix(o.How, modularHow) {
					n++
					continue
				}
			}
		case *ssa.UnOp:
			if u.Op == token.SUB {
				if o := w.ProveOverflow(OvSite{In: u}); o.Proved && strings.HasPrefix(o.How, modularHow) {
					n++
					continue
				}
			}
		case *ssa.Phi:
			ok := true
			for i, e := range u.Edges {
				if e != ssa.Value(x) {
					continue
				}
				if !fitsAt(fi.CtxEdge(u.Block().Preds[i], u.Block())) {
					ok = false
				}
			}
			if ok {
				n++
				continue
			}
			return 0, false
		}
		if !fitsAt(fi.ctxBefore(r)) {
			return 0, false
		}
		n++
	}
	return n, n > 0
}
