package prove

import (
	"go/token"
	"go/types"
	"math/big"

	"golang.org/x/tools/go/ssa"

	"manticheck/internal/lin"
)

// Entry facts about the ELEMENTS of a slice-of-struct parameter of an
// unexported function: when every call site passes a slice literal whose
// elements are struct literals with constant integer fields (a layout table),
// an integer field read from an element inside the function lies between the
// least and the greatest constant of that field over all tables.
//
//	decodeFields(raw, []field{{"A", 2, …}, {"B", 4, …}})   …   for _, f := range fields { raw[off:off+f.size] }

type elemBound struct {
	lo, hi *big.Int
}

// elemFieldBounds: bounds of integer field #fieldIdx of the elements of slice
// parameter #param of fn, or ok=false.
func (w *World) elemFieldBounds(fn *ssa.Function, param, fieldIdx int) (elemBound, bool) {
	if w.elemC == nil {
		w.elemC = map[elemKey]*elemBound{}
	}
	key := elemKey{fn, param, fieldIdx}
	if b, ok := w.elemC[key]; ok {
		if b == nil {
			return elemBound{}, false
		}
		return *b, true
	}
	w.elemC[key] = nil
	if fn.Blocks == nil || !unexportedFunc(fn) || !w.P.InModule(fn) {
		return elemBound{}, false
	}
	ci := w.callIdx()
	sites := ci.sites[fn]
	if len(sites) == 0 || ci.escaped[fn] {
		return elemBound{}, false
	}
	var lo, hi *big.Int
	for _, site := range sites {
		args := site.Common().Args
		if param >= len(args) {
			return elemBound{}, false
		}
		sl, ok := args[param].(*ssa.Slice)
		if !ok || sl.Low != nil || sl.High != nil {
			return elemBound{}, false
		}
		al, ok := sl.X.(*ssa.Alloc)
		if !ok || al.Referrers() == nil {
			return elemBound{}, false
		}
		arr, ok := derefT(al.Type()).Underlying().(*types.Array)
		if !ok {
			return elemBound{}, false
		}
		seen := map[int64]bool{}
		for _, r := range *al.Referrers() {
			switch x := r.(type) {
			case *ssa.Slice:
				if x != sl {
					return elemBound{}, false
				}
			case *ssa.IndexAddr:
				idx, isK := constInt(x.Index)
				if !isK || x.Referrers() == nil {
					return elemBound{}, false
				}
				for _, rr := range *x.Referrers() {
					fa, isFA := rr.(*ssa.FieldAddr)
					if !isFA {
						if _, isDbg := rr.(*ssa.DebugRef); isDbg {
							continue
						}
						// the element literal is built in a temporary and stored whole: *elem = *tmp
						if st, isSt := rr.(*ssa.Store); isSt && st.Addr == ssa.Value(x) {
							if k, ok := litField(st.Val, fieldIdx); ok {
								seen[idx.Int64()] = true
								if lo == nil || k.Cmp(lo) < 0 {
									lo = k
								}
								if hi == nil || k.Cmp(hi) > 0 {
									hi = k
								}
								continue
							}
						}
						return elemBound{}, false
					}
					if fa.Field != fieldIdx || fa.Referrers() == nil {
						continue
					}
					for _, r3 := range *fa.Referrers() {
						st, isSt := r3.(*ssa.Store)
						if !isSt || st.Addr != ssa.Value(fa) {
							return elemBound{}, false
						}
						k, isK := constInt(st.Val)
						if !isK {
							return elemBound{}, false
						}
						seen[idx.Int64()] = true
						if lo == nil || k.Cmp(lo) < 0 {
							lo = k
						}
						if hi == nil || k.Cmp(hi) > 0 {
							hi = k
						}
					}
				}
			case *ssa.DebugRef:
			default:
				return elemBound{}, false
			}
		}
		// elements whose field is never stored hold the zero value
		if int64(len(seen)) < arr.Len() {
			z := big.NewInt(0)
			if lo == nil || z.Cmp(lo) < 0 {
				lo = z
			}
			if hi == nil || z.Cmp(hi) > 0 {
				hi = z
			}
		}
	}
	if lo == nil || hi == nil {
		return elemBound{}, false
	}
	b := &elemBound{lo, hi}
	w.elemC[key] = b
	return *b, true
}

type elemKey struct {
	fn           *ssa.Function
	param, field int
}

// elemFieldOf: v reads integer field #f of an element of slice parameter #p of
// the function: params[p][i].f, as a Field of a loaded element or a load of a
// FieldAddr of an element address.
func elemFieldOf(fn *ssa.Function, v ssa.Value) (param, field int, ok bool) {
	var ia *ssa.IndexAddr
	switch x := v.(type) {
	case *ssa.Field:
		ld, isLd := x.X.(*ssa.UnOp)
		if !isLd || ld.Op != token.MUL {
			return 0, 0, false
		}
		ia, _ = ld.X.(*ssa.IndexAddr)
		field = x.Field
	case *ssa.UnOp:
		if x.Op != token.MUL {
			return 0, 0, false
		}
		fa, isFA := x.X.(*ssa.FieldAddr)
		if !isFA {
			return 0, 0, false
		}
		ia, _ = fa.X.(*ssa.IndexAddr)
		field = fa.Field
		if ia == nil {
			// the range variable: a local that receives a copy of the element and is only read
			if al, isAl := fa.X.(*ssa.Alloc); isAl && al.Referrers() != nil {
				var src *ssa.IndexAddr
				stores := 0
				for _, r := range *al.Referrers() {
					switch y := r.(type) {
					case *ssa.Store:
						if y.Addr == ssa.Value(al) {
							stores++
							if ld, isLd := y.Val.(*ssa.UnOp); isLd && ld.Op == token.MUL {
								src, _ = ld.X.(*ssa.IndexAddr)
							}
						}
					case *ssa.FieldAddr:
						if y.Referrers() != nil {
							for _, rr := range *y.Referrers() {
								if st, isSt := rr.(*ssa.Store); isSt && st.Addr == ssa.Value(y) {
									return 0, 0, false
								}
							}
						}
					}
				}
				if stores == 1 {
					ia = src
				}
			}
		}
	}
	if ia == nil {
		return 0, 0, false
	}
	prm, isP := ia.X.(*ssa.Parameter)
	if !isP {
		return 0, 0, false
	}
	for i, q := range fn.Params {
		if q == prm {
			// the parameter must not be written through in this function
			if prm.Referrers() != nil {
				for _, r := range *prm.Referrers() {
					if x, isIA := r.(*ssa.IndexAddr); isIA && x.Referrers() != nil {
						for _, rr := range *x.Referrers() {
							if st, isSt := rr.(*ssa.Store); isSt && st.Addr == ssa.Value(x) {
								return 0, 0, false
							}
							if fa, isFA := rr.(*ssa.FieldAddr); isFA && fa.Referrers() != nil {
								for _, r3 := range *fa.Referrers() {
									if st, isSt := r3.(*ssa.Store); isSt && st.Addr == ssa.Value(fa) {
										return 0, 0, false
									}
								}
							}
						}
					}
				}
			}
			return i, field, true
		}
	}
	return 0, 0, false
}

// elemFacts adds the table bounds for a freshly introduced term, if v is such a read.
func (c *Ctx) elemFacts(v ssa.Value, f lin.Form) {
	p, fld, ok := elemFieldOf(c.FI.Fn, v)
	if !ok {
		return
	}
	if b, ok := c.FI.W.elemFieldBounds(c.FI.Fn, p, fld); ok {
		c.add(lin.GE(f, lin.KB(b.lo)), lin.LE(f, lin.KB(b.hi)))
	}
}

// litField: v is the value of a struct literal built in a temporary (a load of
// that temporary); returns the constant stored into its field #f (zero if the
// literal does not set it).
func litField(v ssa.Value, f int) (*big.Int, bool) {
	ld, ok := v.(*ssa.UnOp)
	if !ok || ld.Op != token.MUL {
		return nil, false
	}
	tmp, ok := ld.X.(*ssa.Alloc)
	if !ok || tmp.Referrers() == nil {
		return nil, false
	}
	val := big.NewInt(0)
	for _, r := range *tmp.Referrers() {
		switch x := r.(type) {
		case *ssa.FieldAddr:
			if x.Field != f || x.Referrers() == nil {
				continue
			}
			for _, rr := range *x.Referrers() {
				st, isSt := rr.(*ssa.Store)
				if !isSt || st.Addr != ssa.Value(x) {
					return nil, false
				}
				k, isK := constInt(st.Val)
				if !isK {
					return nil, false
				}
				val = k
			}
		case *ssa.Store:
			if x.Addr == ssa.Value(tmp) {
				return nil, false
			}
		}
	}
	return val, true
}
