package prove

import "manticheck/internal/lin"

// Infeasible reports whether the facts of the context are contradictory,
// re-examining the disequalities recorded while branch conditions were assumed
// (a != b is a contradiction as soon as the facts — possibly added later with
// AddFact — entail a == b). A false answer means "not proved infeasible".
func (c *Ctx) Infeasible() bool {
	if lin.Infeasible(c.Facts, fmLimit) {
		return true
	}
	for _, p := range c.neq {
		if c.Entails(lin.GE(p[0], p[1])) && c.Entails(lin.LE(p[0], p[1])) {
			return true
		}
	}
	return false
}
