package prove

import (
	"fmt"
	"go/token"
	"go/types"
	"math/big"

	"golang.org/x/tools/go/ssa"

	"manticheck/internal/lin"
)

// Outcome of one proof attempt.
type Outcome struct {
	Proved  bool
	Goals   []string // rendered goals
	Failed  string   // first goal that could not be entailed
	Facts   []string // facts connected to the failed goal
	Note    string
	Skipped bool // not an obligation (e.g. map lookup)
	// Beyond: set when the unproved goal depends on state this prover does not
	// model: a value loaded from a field of an object of an unexported type that
	// the function receives through a pointer (a cursor/reader whose state is
	// carried on the heap between method calls), a captured variable, or the
	// parameter of a function literal (entered through a function value).
	Beyond string
}

func (fi *FuncInfo) prove(c *Ctx, goals []lin.Con) Outcome {
	var o Outcome
	o.Proved = true
	for _, g := range goals {
		o.Goals = append(o.Goals, c.Describe(g))
	}
	for _, g := range goals {
		if !c.Prove(g) {
			o.Proved = false
			o.Failed = c.Describe(g)
			o.Facts = c.FactStrings(g, 24)
			o.Beyond = fi.beyond(g)
			break
		}
	}
	return o
}

// ctxBefore: facts valid immediately before instruction in (dominating
// conditions; definitions are added on demand by Lin).
func (fi *FuncInfo) ctxBefore(in ssa.Instruction) *Ctx {
	c := fi.CtxAt(in.Block())
	c.successIn(in.Block(), in)
	return c
}

// Success facts: every index/slice/fixed-width-accessor instruction that is
// executed before the program point on every path (it sits in a dominating
// block, or earlier in the same block) did not panic, so its own bounds held.
// This keeps one missing guard from being reported again at every later site.
func (c *Ctx) successIn(b *ssa.BasicBlock, upto ssa.Instruction) {
	for _, in := range b.Instrs {
		if in == upto {
			break
		}
		switch y := in.(type) {
		case *ssa.IndexAddr, *ssa.Index, *ssa.Slice, *ssa.Lookup:
			if goals, ok := c.FI.BoundsGoals(c, y); ok {
				c.add(goals...)
			}
		case *ssa.Call:
			if pre, ok := StdPre[staticName(y.Common())]; ok {
				c.add(lin.GE(c.LenOf(y.Common().Args[pre.Arg]), lin.K(pre.Min)))
			}
		}
	}
}

// BoundsGoals returns the in-bounds goals of an index/slice instruction.
func (fi *FuncInfo) BoundsGoals(c *Ctx, in ssa.Instruction) (goals []lin.Con, ok bool) {
	switch x := in.(type) {
	case *ssa.Index:
		n := c.LenOf(x.X)
		i := c.Lin(x.Index)
		return []lin.Con{lin.GE0(i), lin.LT(i, n)}, true
	case *ssa.IndexAddr:
		n := c.LenOf(x.X)
		i := c.Lin(x.Index)
		return []lin.Con{lin.GE0(i), lin.LT(i, n)}, true
	case *ssa.Lookup:
		if _, isMap := x.X.Type().Underlying().(*types.Map); isMap {
			return nil, false
		}
		n := c.LenOf(x.X)
		i := c.Lin(x.Index)
		return []lin.Con{lin.GE0(i), lin.LT(i, n)}, true
	case *ssa.Slice:
		n := c.LenOf(x.X)
		var lo, hi lin.Form
		lo = lin.K(0)
		if x.Low != nil {
			lo = c.Lin(x.Low)
			goals = append(goals, lin.GE0(lo))
		}
		if x.High != nil {
			hi = c.Lin(x.High)
			goals = append(goals, lin.LE(lo, hi), lin.LE(hi, n))
		} else {
			goals = append(goals, lin.LE(lo, n))
		}
		if x.Max != nil {
			mx := c.Lin(x.Max)
			if x.High != nil {
				goals = append(goals, lin.LE(hi, mx))
			}
			goals = append(goals, lin.LE(mx, n))
		}
		return goals, true
	}
	return nil, false
}

// ProveBounds proves an index/slice instruction in bounds for every execution.
func (w *World) ProveBounds(in ssa.Instruction) Outcome {
	fi := w.Info(in.Parent())
	c := fi.ctxBefore(in)
	for _, ax := range w.Axioms {
		ax(c, in)
	}
	goals, ok := fi.BoundsGoals(c, in)
	if !ok {
		return Outcome{Proved: true, Skipped: true}
	}
	return fi.prove(c, goals)
}

// StdPre: minimum argument lengths demanded by standard-library callees whose
// inlined bodies index their argument.
var StdPre = map[string]struct {
	Arg int
	Min int64
}{
	"(encoding/binary.littleEndian).Uint16":    {1, 2},
	"(encoding/binary.littleEndian).Uint32":    {1, 4},
	"(encoding/binary.littleEndian).Uint64":    {1, 8},
	"(encoding/binary.bigEndian).Uint16":       {1, 2},
	"(encoding/binary.bigEndian).Uint32":       {1, 4},
	"(encoding/binary.bigEndian).Uint64":       {1, 8},
	"(encoding/binary.littleEndian).PutUint16": {1, 2},
	"(encoding/binary.littleEndian).PutUint32": {1, 4},
	"(encoding/binary.littleEndian).PutUint64": {1, 8},
	"(encoding/binary.bigEndian).PutUint16":    {1, 2},
	"(encoding/binary.bigEndian).PutUint32":    {1, 4},
	"(encoding/binary.bigEndian).PutUint64":    {1, 8},
}

// StdTotal: standard-library callees that accept every argument value without
// panicking (their inlined bodies may still leave compiler-residual checks
// that rest on the library's own invariants).
var StdTotal = map[string]bool{
	"(*bytes.Buffer).Bytes": true, "(*bytes.Buffer).Len": true, "(*bytes.Buffer).Write": true, "(*bytes.Buffer).WriteByte": true,
	"(*bytes.Buffer).WriteString": true, "(*bytes.Buffer).String": true,
	"encoding/hex.EncodeToString": true, "encoding/hex.DecodeString": true,
	"(encoding/binary.littleEndian).AppendUint16": true, "(encoding/binary.littleEndian).AppendUint32": true, "(encoding/binary.littleEndian).AppendUint64": true,
	"(encoding/binary.bigEndian).AppendUint16": true, "(encoding/binary.bigEndian).AppendUint32": true, "(encoding/binary.bigEndian).AppendUint64": true,
	"strings.ToUpper": true, "strings.ToLower": true, "strings.TrimSpace": true, "strings.Split": true, "strings.SplitN": true,
	"strings.Contains": true, "strings.HasPrefix": true, "strings.HasSuffix": true, "strings.Join": true, "strings.Replace": true, "strings.ReplaceAll": true,
	"strings.Trim": true, "strings.TrimRight": true, "strings.TrimLeft": true, "strings.TrimPrefix": true, "strings.TrimSuffix": true, "strings.Index": true,
	"strings.Fields": true, "strings.EqualFold": true, "strings.Count": true, "strings.IndexByte": true, "strings.LastIndex": true,
	"bytes.Equal": true, "bytes.Index": true, "bytes.IndexByte": true, "bytes.TrimRight": true, "bytes.Contains": true, "bytes.HasPrefix": true,
	"unicode/utf16.Encode": true, "unicode/utf16.Decode": true, "unicode/utf8.RuneLen": true,
	"strconv.Itoa": true, "strconv.Atoi": true, "strconv.ParseUint": true, "strconv.ParseInt": true, "strconv.FormatInt": true, "strconv.FormatUint": true,
	"fmt.Sprintf": true, "fmt.Errorf": true, "fmt.Sprint": true, "errors.New": true,
	"(*strings.Builder).WriteString": true, "(*strings.Builder).WriteByte": true, "(*strings.Builder).String": true, "(*strings.Builder).WriteRune": true,
	"(*strings.Builder).Len": true, "(*strings.Builder).Grow": false,
	"(*math/big.Int).SetBytes": true, "(*math/big.Int).Bytes": true,
	"crypto/sha256.Sum256": true, "crypto/md5.Sum": true, "crypto/sha1.Sum": true,
	"encoding/base64.(*Encoding).DecodeString": true, "(*encoding/base64.Encoding).DecodeString": true, "(*encoding/base64.Encoding).EncodeToString": true,
	"time.Unix": true, "(time.Time).Unix": true, "(time.Time).UTC": true,
	"net.ParseIP": true, "(net.IP).To4": true, "(net.IP).To16": true, "(net.IP).String": true,
	"crypto/subtle.ConstantTimeByteEq": true, "crypto/subtle.ConstantTimeEq": true, "crypto/subtle.ConstantTimeLessOrEq": true, "crypto/subtle.ConstantTimeSelect": true,
	"regexp.MatchString": true, "(*regexp.Regexp).MatchString": true, "(*regexp.Regexp).FindStringSubmatch": true,
	"encoding/asn1.Unmarshal": true, "encoding/asn1.Marshal": true,
}

// ProveCallPre proves the length pre-condition of a standard-library call.
func (w *World) ProveCallPre(call *ssa.Call) (Outcome, bool) {
	name := staticName(call.Common())
	pre, ok := StdPre[name]
	if !ok {
		return Outcome{}, false
	}
	fi := w.Info(call.Parent())
	c := fi.ctxBefore(call)
	n := c.LenOf(call.Common().Args[pre.Arg])
	return fi.prove(c, []lin.Con{lin.GE(n, lin.K(pre.Min))}), true
}

// ConsumedObligations: for a function of the "consumed count" shape, every
// return that may carry a nil error must satisfy 0 <= n <= len(data)
// (resp. offset <= newOffset <= len(data)).
type RetObl struct {
	Ret     *ssa.Return
	Outcome Outcome
	Ordinal int
}

func errDefinitelyNonNil(c *Ctx, v ssa.Value) bool {
	switch x := v.(type) {
	case *ssa.Const:
		return false
	case *ssa.Call:
		switch staticName(x.Common()) {
		case "fmt.Errorf", "errors.New":
			return true
		}
	case *ssa.MakeInterface:
		return true
	case *ssa.Extract:
		// the error of a call, on the branch where it was tested non-nil
		for bv, truth := range c.boolTrue {
			b, ok := bv.(*ssa.BinOp)
			if !ok {
				continue
			}
			if (b.X == v && isNil(b.Y)) || (b.Y == v && isNil(b.X)) {
				if (b.Op == token.NEQ && truth) || (b.Op == token.EQL && !truth) {
					return true
				}
			}
		}
	}
	return false
}

func (w *World) ConsumedObligations(fn *ssa.Function) (kind string, obls []RetObl) {
	sig := fn.Signature
	fi := w.Info(fn)
	dp, okC := ConsumedShape(sig)
	okO := OffsetShape(sig)
	if !okC && !okO {
		return "", nil
	}
	params := fn.Params
	if sig.Recv() != nil {
		params = params[1:]
	}
	ord := 0
	for _, b := range fn.Blocks {
		ret, ok := b.Instrs[len(b.Instrs)-1].(*ssa.Return)
		if !ok {
			continue
		}
		ord++
		c := fi.ctxBefore(ret)
		errV := ret.Results[len(ret.Results)-1]
		if errDefinitelyNonNil(c, errV) {
			continue
		}
		// `return f(x)`: the returned error IS the callee's; the obligation is
		// about returns with a nil error, and then the callee's success facts hold
		if ex, ok := errV.(*ssa.Extract); ok {
			if call, ok := ex.Tuple.(*ssa.Call); ok && ex.Index == call.Common().Signature().Results().Len()-1 {
				c.successFacts(call)
			}
		}
		var goals []lin.Con
		if okC {
			kind = "consumed"
			n := c.Lin(ret.Results[0])
			goals = []lin.Con{lin.GE0(n), lin.LE(n, c.LenOf(params[dp]))}
		} else {
			kind = "offset"
			n := c.Lin(ret.Results[1])
			goals = []lin.Con{lin.GE(n, c.Lin(params[1])), lin.LE(n, c.LenOf(params[0]))}
		}
		obls = append(obls, RetObl{Ret: ret, Outcome: fi.prove(c, goals), Ordinal: ord})
	}
	return kind, obls
}

// OffsetCallObligation: in-module call sites of functions with an offset
// contract must pass offset >= 0.
func (w *World) OffsetArgGoal(call *ssa.Call, argIdx int) Outcome {
	fi := w.Info(call.Parent())
	c := fi.ctxBefore(call)
	a := c.Lin(call.Common().Args[argIdx])
	return fi.prove(c, []lin.Con{lin.GE0(a)})
}

// DivisorNonZero proves y != 0 for an integer division / remainder.
func (w *World) DivisorNonZero(b *ssa.BinOp) Outcome {
	fi := w.Info(b.Parent())
	c := fi.ctxBefore(b)
	y := c.Lin(b.Y)
	if c.Prove(lin.GE(y, lin.K(1))) || c.Prove(lin.LE(y, lin.K(-1))) {
		return Outcome{Proved: true, Goals: []string{valName(b.Y) + " != 0"}}
	}
	return Outcome{Proved: false, Failed: valName(b.Y) + " != 0", Facts: c.FactStrings(lin.GE(y, lin.K(1)), 16)}
}

// AllocBound proves that a make() size is non-negative and bounded by a
// constant (<= 2^17) or by a small multiple of an input length.
func (w *World) AllocBound(n ssa.Value, at ssa.Instruction, inputs []ssa.Value) Outcome {
	return w.AllocBoundSized(n, at, inputs, 1)
}

// AllocBoundSized bounds the allocation in BYTES: n elements of elemSize bytes.
func (w *World) AllocBoundSized(n ssa.Value, at ssa.Instruction, inputs []ssa.Value, elemSize int64) Outcome {
	if elemSize < 1 {
		elemSize = 1
	}
	fi := w.Info(at.Parent())
	c := fi.ctxBefore(at)
	f := c.Lin(n).ScaleI(elemSize)
	if !c.Prove(lin.GE0(f)) {
		return Outcome{Proved: false, Failed: c.Describe(lin.GE0(f)), Facts: c.FactStrings(lin.GE0(f), 16)}
	}
	lim := new(big.Int).Lsh(big.NewInt(1), 17)
	if c.Prove(lin.LE(f, lin.KB(lim))) {
		return Outcome{Proved: true, Goals: []string{fmt.Sprintf("0 <= %d·%s <= 2^17 bytes", elemSize, valName(n))}}
	}
	sum := lin.K(64)
	for _, in := range inputs {
		sum = sum.Add(c.LenOf(in).ScaleI(8))
	}
	g := lin.LE(f, sum)
	if c.Prove(g) {
		return Outcome{Proved: true, Goals: []string{c.Describe(g)}}
	}
	// proportional to memory that already exists: every len(x) term of the size
	// (a field of the receiver, a result of a call, a local slice — each of which
	// was itself allocated under this rule or handed in by the caller)
	sum2 := sum
	seenT := map[lin.Term]bool{}
	for t := range fi.terms {
		tt := lin.Term(t)
		if fi.terms[t].kind == tLen && c.introduced[tt] && !seenT[tt] {
			seenT[tt] = true
			// 8 × the bytes that slice already occupies (its element size matters: a
			// []string sized after a []*T is twice the memory of the pointers, not 16×)
			sum2 = sum2.Add(lin.V(tt).ScaleI(8 * elemBytes(fi.terms[t].v)))
		}
	}
	if len(seenT) > 0 {
		g2 := lin.LE(f, sum2)
		if c.Prove(g2) {
			return Outcome{Proved: true, Goals: []string{c.Describe(g2) + " (lengths of existing slices)"}}
		}
	}
	return Outcome{Proved: false, Failed: fmt.Sprintf("%d·%s bytes <= 2^17  or  <= 8·Σlen(inputs)+64", elemSize, valName(n)), Facts: c.FactStrings(g, 16)}
}

// AddFact lets a rule-level conditional axiom add a fact (fact 11).
func (c *Ctx) AddFact(cons ...lin.Con) { c.add(cons...) }

// BoolKnown reports the known truth value of a boolean SSA value here.
func (c *Ctx) BoolKnown(v ssa.Value) (truth, known bool) {
	t, ok := c.boolTrue[v]
	return t, ok
}

// StaticName exposes the resolved callee name of a call.
func StaticName(cc *ssa.CallCommon) string { return staticName(cc) }

// ProveArgLen proves len(arg) >= min at a call site (fixed-size helper contracts).
func (w *World) ProveArgLen(call *ssa.Call, arg ssa.Value, min int64) Outcome {
	fi := w.Info(call.Parent())
	c := fi.ctxBefore(call)
	return fi.prove(c, []lin.Con{lin.GE(c.LenOf(arg), lin.K(min))})
}

// IsByteSeq reports whether t is string or []byte.
func IsByteSeq(t types.Type) bool { return isByteSeq(t.Underlying()) }

// CtxBefore exposes the fact context immediately before an instruction.
func (fi *FuncInfo) CtxBefore(in ssa.Instruction) *Ctx { return fi.ctxBefore(in) }

// TermValue returns the SSA value and kind ("val"/"len") behind a term.
func (fi *FuncInfo) TermValue(t lin.Term) (ssa.Value, bool) {
	ti := fi.terms[t]
	return ti.v, ti.kind == tLen
}

// LoadRep exposes the representative of a load (available-load analysis).
func (fi *FuncInfo) LoadRep(u *ssa.UnOp) ssa.Value { return fi.loadRep(u) }

// beyond: see Outcome.Beyond.
func (fi *FuncInfo) beyond(g lin.Con) string {
	unexportedNamed := func(t types.Type) (string, bool) {
		if p, ok := t.Underlying().(*types.Pointer); ok {
			t = p.Elem()
		}
		n, ok := t.(*types.Named)
		if !ok || n.Obj().Exported() {
			return "", false
		}
		if _, isStruct := n.Underlying().(*types.Struct); !isStruct {
			return "", false
		}
		return n.Obj().Name(), true
	}
	for _, t := range g.F.Terms() {
		v := fi.terms[t].v
		// the length of one ELEMENT of a strings.Split / bytes.Split result depends on the
		// contents of the string; E1 has no model of contents. If an in-module predicate
		// was applied to that string (or the string it was derived from) on the way here, the
		// contents were validated by code whose meaning this prover does not read.
		if fi.terms[t].kind == tLen {
			if why := fi.contentValidated(v); why != "" {
				return why
			}
			// only for goals that relate the length to another quantity: a constant
			// minimum length must be established by the predicate in so many words
			if len(g.F.Terms()) >= 2 {
				if why := fi.viewValidated(v, 0); why != "" {
					return why
				}
			}
		}
		// strip len(...) of loads etc.: look at the value itself
		for d := 0; d < 4; d++ {
			if sl, ok := v.(*ssa.Slice); ok {
				v = sl.X
				continue
			}
			break
		}
		switch x := v.(type) {
		case *ssa.UnOp:
			if x.Op != token.MUL {
				continue
			}
			addr := x.X
			for d := 0; d < 4; d++ {
				if fa, ok := addr.(*ssa.FieldAddr); ok {
					base := fa.X
					if ld, ok := base.(*ssa.UnOp); ok && ld.Op == token.MUL {
						base = ld.X // receiver spilled to a cell
						if al, ok := base.(*ssa.Alloc); ok {
							for _, r := range *al.Referrers() {
								if st, ok := r.(*ssa.Store); ok && st.Addr == ssa.Value(al) {
									base = st.Val
								}
							}
						}
					}
					if prm, ok := base.(*ssa.Parameter); ok {
						if name, ok := unexportedNamed(prm.Type()); ok {
							return "the goal depends on a field of *" + name + " (cursor state carried on the heap between calls)"
						}
					}
					if al, ok := base.(*ssa.Alloc); ok {
						// a local cursor object whose methods (pointer receiver) advance it
						if name, ok := unexportedNamed(al.Type()); ok && hasPointerMethodCall(al) {
							return "the goal depends on a field of the local " + name + " object, which is advanced by its own methods between uses"
						}
					}
					addr = fa.X
					continue
				}
				break
			}
		case *ssa.Parameter:
			if fi.Fn.Parent() != nil && closureEscapes(fi.Fn) {
				return "the goal depends on a parameter of a function literal that is stored or passed as a value (entered through a function value, so no call-site facts)"
			}
		}
	}
	return ""
}

func hasPointerMethodCall(al *ssa.Alloc) bool {
	if al.Referrers() == nil {
		return false
	}
	for _, r := range *al.Referrers() {
		if c, ok := r.(ssa.CallInstruction); ok {
			if f := c.Common().StaticCallee(); f != nil && f.Signature.Recv() != nil && len(c.Common().Args) > 0 && c.Common().Args[0] == ssa.Value(al) {
				return true
			}
		}
	}
	return false
}

// closureEscapes: the function literal fn is used as a VALUE somewhere (stored,
// passed, put in a table), not only called directly by name in its parent.
func closureEscapes(fn *ssa.Function) bool {
	par := fn.Parent()
	if par == nil {
		return false
	}
	for _, b := range par.Blocks {
		for _, in := range b.Instrs {
			var val ssa.Value
			switch x := in.(type) {
			case *ssa.MakeClosure:
				if x.Fn == ssa.Value(fn) {
					val = x
				}
			}
			if val == nil {
				// a closure without free variables is referenced as the *ssa.Function itself
				for _, op := range in.Operands(nil) {
					if *op == ssa.Value(fn) {
						if c, ok := in.(ssa.CallInstruction); ok && c.Common().Value == ssa.Value(fn) {
							continue
						}
						return true
					}
				}
				continue
			}
			if val.Referrers() == nil {
				continue
			}
			for _, r := range *val.Referrers() {
				if c, ok := r.(ssa.CallInstruction); ok && c.Common().Value == val {
					continue // called directly
				}
				if _, ok := r.(*ssa.DebugRef); ok {
					continue
				}
				// stored into a local variable that is only ever called is still "direct"
				if st, ok := r.(*ssa.Store); ok {
					if al, ok := st.Addr.(*ssa.Alloc); ok && onlyLoadedAndCalled(al) {
						continue
					}
				}
				return true
			}
		}
	}
	return false
}

func onlyLoadedAndCalled(al *ssa.Alloc) bool {
	if al.Referrers() == nil {
		return true
	}
	for _, r := range *al.Referrers() {
		switch x := r.(type) {
		case *ssa.Store:
			if x.Addr != ssa.Value(al) {
				return false
			}
		case *ssa.UnOp:
			if x.Referrers() != nil {
				for _, rr := range *x.Referrers() {
					if c, ok := rr.(ssa.CallInstruction); !ok || c.Common().Value != ssa.Value(x) {
						if _, isDbg := rr.(*ssa.DebugRef); !isDbg {
							return false
						}
					}
				}
			}
		case *ssa.DebugRef, *ssa.MakeClosure:
		default:
			return false
		}
	}
	return true
}

// elemBytes: size in bytes of one element of the slice / array / string v (1 if unknown).
func elemBytes(v ssa.Value) int64 {
	if v == nil {
		return 1
	}
	var el types.Type
	switch t := v.Type().Underlying().(type) {
	case *types.Slice:
		el = t.Elem()
	case *types.Array:
		el = t.Elem()
	case *types.Pointer:
		if a, ok := t.Elem().Underlying().(*types.Array); ok {
			el = a.Elem()
		}
	}
	if el == nil {
		return 1
	}
	n := types.SizesFor("gc", "amd64").Sizeof(el)
	if n < 1 {
		return 1
	}
	if n > 64 {
		return 64
	}
	return n
}

// SliceToArrayFits proves that a slice-to-array conversion does not panic:
// len(slice) >= N for the array length N.
func (w *World) SliceToArrayFits(x *ssa.SliceToArrayPointer) Outcome {
	fi := w.Info(x.Parent())
	c := fi.ctxBefore(x)
	pt, ok := x.Type().Underlying().(*types.Pointer)
	if !ok {
		return Outcome{Proved: false, Failed: "not a pointer to an array"}
	}
	arr, ok := pt.Elem().Underlying().(*types.Array)
	if !ok {
		return Outcome{Proved: false, Failed: "not a pointer to an array"}
	}
	g := lin.GE(c.LenOf(x.X), lin.K(arr.Len()))
	if c.Prove(g) {
		return Outcome{Proved: true, Goals: []string{c.Describe(g)}}
	}
	return Outcome{Proved: false, Failed: c.Describe(g), Facts: c.FactStrings(g, 16)}
}

// contentValidated: v is an element of a Split result whose source string was
// handed to an in-module function returning bool (a validator) earlier in this
// function; returns a description, or "".
func (fi *FuncInfo) contentValidated(v ssa.Value) string {
	// element load: *(&split[i])
	ld, ok := v.(*ssa.UnOp)
	if !ok || ld.Op != token.MUL {
		return ""
	}
	ia, ok := ld.X.(*ssa.IndexAddr)
	if !ok {
		return ""
	}
	call, ok := ia.X.(*ssa.Call)
	if !ok {
		return ""
	}
	switch staticName(call.Common()) {
	case "strings.Split", "strings.SplitN", "bytes.Split", "bytes.SplitN", "strings.Fields":
	default:
		return ""
	}
	// the string and everything it was derived from by library calls
	srcs := map[ssa.Value]bool{}
	var walk func(x ssa.Value, d int)
	walk = func(x ssa.Value, d int) {
		if x == nil || srcs[x] || d > 6 {
			return
		}
		srcs[x] = true
		if c2, ok := x.(*ssa.Call); ok {
			for _, a := range c2.Common().Args {
				if isSeq(a.Type()) {
					walk(a, d+1)
				}
			}
		}
		if cv, ok := x.(*ssa.Convert); ok {
			walk(cv.X, d+1)
		}
	}
	walk(call.Common().Args[0], 0)
	for _, b := range fi.Fn.Blocks {
		if !b.Dominates(call.Block()) {
			continue
		}
		for _, in := range b.Instrs {
			c2, ok := in.(*ssa.Call)
			if !ok || c2 == call {
				continue
			}
			f := c2.Common().StaticCallee()
			if f == nil || !fi.W.P.InModule(f) || f.Signature.Results().Len() != 1 {
				continue
			}
			if bt, ok := f.Signature.Results().At(0).Type().Underlying().(*types.Basic); !ok || bt.Kind() != types.Bool {
				continue
			}
			for _, a := range c2.Common().Args {
				if srcs[a] {
					return "the goal is about the length of a piece of a string whose contents were validated by " + f.Name() + "(…), an in-module predicate over the string's characters that this prover does not interpret"
				}
			}
		}
	}
	return ""
}

// viewValidated: v is a slice/string parameter of an unexported in-module
// function all of whose call sites pass a value that an in-module predicate
// (a function returning bool that receives the same value) accepted on the
// way there — a "view" type whose accessors rely on a well-formedness test
// made once by the caller (`if !v.wellFormed() { return }; v.field(k)`). What
// that predicate establishes may relate the length to content bytes, which E1
// does not model. Returns a description, or "".
func (fi *FuncInfo) viewValidated(v ssa.Value, depth int) string {
	prm, ok := v.(*ssa.Parameter)
	if !ok || depth > 2 {
		return ""
	}
	fn := prm.Parent()
	if fn == nil || fn.Object() == nil || fn.Object().Exported() || fn.Parent() != nil {
		return ""
	}
	pi := -1
	for i, q := range fn.Params {
		if q == prm {
			pi = i
		}
	}
	calls, ok := fi.W.staticCallsOf(fn)
	if !ok || len(calls) == 0 || pi < 0 {
		return ""
	}
	why := ""
	for _, cl := range calls {
		if pi >= len(cl.Common().Args) {
			return ""
		}
		arg := cl.Common().Args[pi]
		for {
			if ct, isCT := arg.(*ssa.ChangeType); isCT {
				arg = ct.X
				continue
			}
			break
		}
		found := ""
		// a dominating call of a bool-returning in-module function on the same value
		// whose true verdict guards this call site
		caller := cl.Parent()
		for _, b := range caller.Blocks {
			for _, in := range b.Instrs {
				pc, isC := in.(*ssa.Call)
				if !isC || pc == cl {
					continue
				}
				pf := pc.Common().StaticCallee()
				if pf == nil || !fi.W.P.InModule(pf) || pf.Signature.Results().Len() != 1 {
					continue
				}
				if bt, isB := pf.Signature.Results().At(0).Type().Underlying().(*types.Basic); !isB || bt.Kind() != types.Bool {
					continue
				}
				same := false
				for _, a := range pc.Common().Args {
					for {
						if ct, isCT := a.(*ssa.ChangeType); isCT {
							a = ct.X
							continue
						}
						break
					}
					if a == arg {
						same = true
					}
				}
				if !same {
					continue
				}
				cfi := fi.W.Info(caller)
				cx := cfi.ctxBefore(cl)
				if truth, known := cx.BoolKnown(pc); known && truth {
					found = fi.W.P.FuncName(pf)
				}
			}
		}
		if found == "" {
			// the call sits in another accessor of the same view, on that accessor's own parameter
			if q, isP := arg.(*ssa.Parameter); isP {
				found = fi.W.Info(caller).viewValidated(q, depth+1)
			}
		}
		if found == "" {
			return ""
		}
		why = found
	}
	if depth > 0 {
		return why
	}
	return "the goal depends on the length of " + prm.Name() + ", whose well-formedness every caller establishes with the in-module predicate " + why + " (it may relate the length to content bytes, which this prover does not model)"
}
