package prove

import (
	"fmt"
	"os"
	"math/big"
	"regexp/syntax"
	"go/token"
	"go/constant"
	"go/types"
	"strconv"
	"strings"

	"golang.org/x/tools/go/ssa"

	"manticheck/internal/lin"
)

// Callee summaries (fact 7), library contracts (fact 10) and caller contracts
// on parameters (fact 12).

func fullName(f *ssa.Function) string {
	if f == nil {
		return ""
	}
	return f.String()
}

func staticName(cc *ssa.CallCommon) string {
	if cc.IsInvoke() {
		return "invoke " + cc.Method.Name()
	}
	if f := cc.StaticCallee(); f != nil {
		return f.String()
	}
	return ""
}

// ConsumedShape: func(... data []byte ...) (int, error) with exactly one
// byte-sequence parameter → on success 0 <= n <= len(data).
// Returns the index (into Params, receiver included) of the data parameter.
func ConsumedShape(sig *types.Signature) (dataParam int, ok bool) {
	res := sig.Results()
	if res.Len() != 2 {
		return 0, false
	}
	if b, isB := res.At(0).Type().Underlying().(*types.Basic); !isB || b.Kind() != types.Int {
		return 0, false
	}
	if types.TypeString(res.At(1).Type(), nil) != "error" {
		return 0, false
	}
	n := 0
	idx := -1
	for i := 0; i < sig.Params().Len(); i++ {
		if isByteSeq(sig.Params().At(i).Type().Underlying()) {
			n++
			idx = i
		}
	}
	if n != 1 {
		return 0, false
	}
	return idx, true
}

// OffsetShape: func(data []byte, offset int) (T, int, error) → on success
// offset <= newOffset <= len(data).
func OffsetShape(sig *types.Signature) bool {
	res := sig.Results()
	if res.Len() != 3 || sig.Params().Len() != 2 {
		return false
	}
	if !isByteSeq(sig.Params().At(0).Type().Underlying()) {
		return false
	}
	if b, isB := sig.Params().At(1).Type().Underlying().(*types.Basic); !isB || b.Kind() != types.Int {
		return false
	}
	if b, isB := res.At(1).Type().Underlying().(*types.Basic); !isB || b.Kind() != types.Int {
		return false
	}
	return types.TypeString(res.At(2).Type(), nil) == "error"
}

// successFacts: the call's error result is known nil here.
func (c *Ctx) successFacts(call *ssa.Call) {
	c.condCallFacts(call, condNilErr)
	cc := call.Common()
	sig := cc.Signature()
	argOff := 0
	_ = argOff
	args := cc.Args
	if !cc.IsInvoke() && sig.Recv() != nil {
		args = args[1:] // receiver first in Args for static method calls
	}
	inModule := false
	for _, f := range c.FI.W.CalleesOf(call) {
		if c.FI.W.P.InModule(f) {
			inModule = true
		}
	}
	extract := func(i int) ssa.Value {
		for _, r := range *call.Referrers() {
			if ex, ok := r.(*ssa.Extract); ok && ex.Index == i {
				return ex
			}
		}
		return nil
	}
	if dp, ok := ConsumedShape(sig); ok && dp < len(args) {
		trusted := inModule
		name := staticName(cc)
		// io.Reader-style contract from the standard library
		if !inModule && (cc.IsInvoke() && cc.Method.Name() == "Read" || strings.HasSuffix(name, ").Read") || strings.HasSuffix(name, ").Write")) {
			trusted = true
		}
		if cc.IsInvoke() && (cc.Method.Name() == "Read" || cc.Method.Name() == "Write") {
			trusted = true
		}
		if trusted {
			if n := extract(0); n != nil {
				nf := c.Lin(n)
				c.add(lin.GE0(nf), lin.LE(nf, c.LenOf(args[dp])))
				// progress: does every success return of every callee consume at least one byte?
				pos := inModule
				for _, f := range c.FI.W.CalleesOf(call) {
					if !c.FI.W.P.InModule(f) || !c.FI.W.positiveOnSuccess(f) {
						pos = false
					}
				}
				if pos {
					c.add(lin.GE(nf, lin.K(1)))
				}
			}
		}
	}
	if inModule && OffsetShape(sig) && len(args) == 2 {
		if n := extract(1); n != nil {
			nf := c.Lin(n)
			c.add(lin.GE(nf, c.Lin(args[1])), lin.LE(nf, c.LenOf(args[0])))
		}
	}
	switch staticName(cc) {
	case "(*net.UDPConn).ReadFromUDP", "(*net.UDPConn).ReadFrom", "(*net.UDPConn).ReadFromUDPAddrPort":
		if n := extract(0); n != nil {
			nf := c.Lin(n)
			c.add(lin.GE0(nf), lin.LE(nf, c.LenOf(args[0])))
		}
	case "io.ReadFull":
		if n := extract(0); n != nil {
			nf := c.Lin(n)
			c.add(lin.EQ(nf, c.LenOf(cc.Args[1]))...)
		}
	case "encoding/hex.DecodeString":
		if r := extract(0); r != nil {
			// 2·len(result) = len(input)
			c.add(lin.EQ(c.LenOf(r).ScaleI(2), c.LenOf(cc.Args[0]))...)
		}
	}
}

// callFacts: integer result o of a (single-result) call.
func (c *Ctx) callFacts(call *ssa.Call, o lin.Form) {
	switch staticName(call.Common()) {
	case "crypto/subtle.ConstantTimeByteEq", "crypto/subtle.ConstantTimeEq", "crypto/subtle.ConstantTimeCompare":
		c.add(lin.GE0(o), lin.LE(o, lin.K(1)))
	case "crypto/subtle.ConstantTimeSelect":
		a := call.Common().Args
		x, y := c.Lin(a[1]), c.Lin(a[2])
		if c.Entails(lin.GE0(x)) && c.Entails(lin.GE0(y)) {
			c.add(lin.GE0(o), lin.LE(o, x.Add(y)))
		}
	case "crypto/subtle.ConstantTimeLessOrEq":
		// result ∈ {0,1}; result = 1 ⇔ x <= y, provided 0 <= x, y <= 2^31−1
		// (a len() operand is accepted under the stated assumption that decoder
		// inputs are shorter than 2 GiB). Encoded with a big-M term.
		c.add(lin.GE0(o), lin.LE(o, lin.K(1)))
		a := call.Common().Args
		x, y := c.Lin(a[0]), c.Lin(a[1])
		small := func(f lin.Form, v ssa.Value) bool {
			if !c.Entails(lin.GE0(f)) {
				return false
			}
			if c.Entails(lin.LE(f, lin.K(1<<31-1))) {
				return true
			}
			if call, ok := v.(*ssa.Call); ok {
				if b, ok := call.Call.Value.(*ssa.Builtin); ok && b.Name() == "len" {
					return true
				}
			}
			return false
		}
		if small(x, a[0]) && small(y, a[1]) {
			M := lin.KB(two62)
			one := lin.K(1)
			// o = 1 ⇒ x <= y :  x <= y + M·(1−o)
			c.add(lin.LE(x, y.Add(M.Sub(o.Scale(two62)))))
			// o = 0 ⇒ x >= y+1 : x >= y + 1 − M·o
			c.add(lin.GE(x, y.Add(one).Sub(o.Scale(two62))))
		}
	case "strings.Index", "strings.IndexByte", "strings.LastIndex", "bytes.Index", "bytes.IndexByte", "strings.IndexRune", "bytes.LastIndex", "strings.LastIndexByte":
		a := call.Common().Args
		c.add(lin.GE(o, lin.K(-1)), lin.LT(o, c.LenOf(a[0])))
		if isByteSeq(a[1].Type().Underlying()) {
			// index + len(sep) <= len(s)
			c.add(lin.LE(o.Add(c.LenOf(a[1])), c.LenOf(a[0])))
		}
	case "strings.Count", "bytes.Count":
		c.add(lin.GE0(o))
	case "math/bits.Len", "math/bits.Len64", "math/bits.OnesCount", "math/bits.OnesCount64", "math/bits.LeadingZeros", "math/bits.LeadingZeros64", "math/bits.TrailingZeros", "math/bits.TrailingZeros64":
		c.add(lin.GE0(o), lin.LE(o, lin.K(64)))
	case "math/bits.Len32", "math/bits.OnesCount32", "math/bits.LeadingZeros32", "math/bits.TrailingZeros32":
		c.add(lin.GE0(o), lin.LE(o, lin.K(32)))
	case "math/bits.Len16", "math/bits.OnesCount16", "math/bits.LeadingZeros16", "math/bits.TrailingZeros16":
		c.add(lin.GE0(o), lin.LE(o, lin.K(16)))
	case "math/bits.Len8", "math/bits.OnesCount8", "math/bits.LeadingZeros8", "math/bits.TrailingZeros8":
		c.add(lin.GE0(o), lin.LE(o, lin.K(8)))
	case "unicode/utf8.RuneLen", "unicode/utf8.RuneCount", "unicode/utf8.RuneCountInString":
		if staticName(call.Common()) == "unicode/utf8.RuneLen" {
			c.add(lin.GE(o, lin.K(-1)), lin.LE(o, lin.K(4)))
		} else {
			c.add(lin.GE0(o), lin.LE(o, c.LenOf(call.Common().Args[0])))
		}
	case "encoding/hex.EncodedLen":
		c.add(lin.EQ(o, c.Lin(call.Common().Args[0]).ScaleI(2))...)
	case "encoding/hex.DecodedLen":
		// n/2 for n >= 0
		n := c.Lin(call.Common().Args[0])
		c.add(lin.LE(o.ScaleI(2), n), lin.GE(o.ScaleI(2), n.AddK(-1)))
	case "encoding/base64.(*Encoding).DecodedLen", "(*encoding/base64.Encoding).DecodedLen":
		n := c.Lin(call.Common().Args[len(call.Common().Args)-1])
		c.add(lin.GE0(o), lin.LE(o, n))
	case "unicode/utf16.RuneLen":
		// -1 for an invalid rune, else 1 or 2; a rune produced by ranging over a string is
		// always a valid scalar value (invalid bytes yield U+FFFD)
		lo := int64(-1)
		if ex, ok := call.Common().Args[0].(*ssa.Extract); ok {
			if _, isNext := ex.Tuple.(*ssa.Next); isNext && ex.Index == 2 {
				lo = 1
			}
		}
		c.add(lin.GE(o, lin.K(lo)), lin.LE(o, lin.K(2)))
	case "unicode/utf8.RuneLen2":
	// documented ranges of the calendar accessors of time.Time
	case "(time.Time).Nanosecond":
		c.add(lin.GE0(o), lin.LE(o, lin.K(999999999)))
	case "(time.Time).Second", "(time.Time).Minute":
		c.add(lin.GE0(o), lin.LE(o, lin.K(59)))
	case "(time.Time).Hour":
		c.add(lin.GE0(o), lin.LE(o, lin.K(23)))
	case "(time.Time).Day":
		c.add(lin.GE(o, lin.K(1)), lin.LE(o, lin.K(31)))
	case "(time.Time).Month":
		c.add(lin.GE(o, lin.K(1)), lin.LE(o, lin.K(12)))
	case "(time.Time).YearDay":
		c.add(lin.GE(o, lin.K(1)), lin.LE(o, lin.K(366)))
	case "(time.Time).Weekday":
		c.add(lin.GE0(o), lin.LE(o, lin.K(6)))
	}
}

// callLenFacts: slice/string result of a call, f = len(result).
func (c *Ctx) callLenFacts(call *ssa.Call, f lin.Form) {
	cc := call.Common()
	a := cc.Args
	switch staticName(cc) {
	case "strings.Split", "bytes.Split":
		c.add(lin.GE(f, lin.K(1)))
		// s = lit' + t with sep ⊆ lit'  ⇒ at least two parts
		if sepK, ok := a[1].(*ssa.Const); ok && sepK.Value != nil && sepK.Value.Kind() == constant.String {
			sep := constant.StringVal(sepK.Value)
			if sep != "" && c.containsKnown(a[0], sep) {
				c.add(lin.GE(f, lin.K(2)))
			}
		}
	case "strings.SplitN", "bytes.SplitN":
		c.add(lin.GE(f, lin.K(0)))
		if k, ok := constInt(a[2]); ok && k.Sign() > 0 {
			c.add(lin.GE(f, lin.K(1)), lin.LE(f, lin.KB(k)))
		}
	case "strings.Fields":
		c.add(lin.GE0(f))
	case "strings.ToUpper", "strings.ToLower", "strings.TrimSpace", "strings.Trim", "strings.TrimRight", "strings.TrimLeft", "strings.TrimPrefix", "strings.TrimSuffix":
		// length may change (Unicode case mapping) – no fact except for Trim*: not longer
		if strings.HasPrefix(staticName(cc), "strings.Trim") {
			c.add(lin.LE(f, c.LenOf(a[0])))
		}
	case "strings.Repeat", "bytes.Repeat":
		if k, ok := c.LenOf(a[0]).ConstVal(); ok {
			n := c.Lin(a[1])
			if c.Entails(lin.GE0(n)) {
				c.add(lin.EQ(f, n.Scale(k))...)
			}
		}
	case "encoding/hex.EncodeToString":
		c.add(lin.EQ(f, c.LenOf(a[0]).ScaleI(2))...)
	case "unicode/utf16.Encode":
		c.add(lin.LE(f, c.LenOf(a[0]).ScaleI(2)))
	case "unicode/utf16.Decode":
		c.add(lin.LE(f, c.LenOf(a[0])))
	case "bytes.TrimRight", "bytes.TrimLeft", "bytes.Trim", "bytes.TrimSpace":
		c.add(lin.LE(f, c.LenOf(a[0])))
	}
}

// containsKnown: is string value s known to contain sep at this point?
func (c *Ctx) containsKnown(s ssa.Value, sep string) bool {
	// dominating strings.Contains(s, sep) == true
	for v, truth := range c.boolTrue {
		call, ok := v.(*ssa.Call)
		if !ok || !truth {
			continue
		}
		n := staticName(call.Common())
		if n == "strings.Contains" || n == "bytes.Contains" {
			if call.Common().Args[0] == s {
				if k, ok := call.Common().Args[1].(*ssa.Const); ok && k.Value != nil && k.Value.Kind() == constant.String &&
					strings.Contains(constant.StringVal(k.Value), sep) {
					return true
				}
			}
		}
	}
	// φ: every incoming value must contain sep on its own edge
	if phi, ok := s.(*ssa.Phi); ok && !isLoopPhi(phi) {
		all := true
		for i, pred := range phi.Block().Preds {
			ec := c.FI.CtxEdge(pred, phi.Block())
			if !ec.containsKnown(phi.Edges[i], sep) {
				all = false
				break
			}
		}
		if all {
			return true
		}
	}
	// s = lit + t / t + lit
	if b, ok := s.(*ssa.BinOp); ok {
		for _, op := range []ssa.Value{b.X, b.Y} {
			if k, ok := op.(*ssa.Const); ok && k.Value != nil && k.Value.Kind() == constant.String && strings.Contains(constant.StringVal(k.Value), sep) {
				return true
			}
			if c.containsKnown(op, sep) {
				return true
			}
		}
	}
	return false
}

// boolCallFacts: boolean-valued call known true/false.
func (c *Ctx) boolCallFacts(call *ssa.Call, truth bool) {
	cc := call.Common()
	a := cc.Args
	switch staticName(cc) {
	case "strings.HasPrefix", "strings.HasSuffix", "bytes.HasPrefix", "bytes.HasSuffix", "strings.Contains", "bytes.Contains":
		if truth {
			c.add(lin.GE(c.LenOf(a[0]), c.LenOf(a[1])))
		}
	default:
		c.predicateFacts(call, truth)
		// a predicate with several exits: what every return with this verdict establishes
		k := int64(0)
		if truth {
			k = 1
		}
		c.condCallFacts(call, k)
	}
}

// predicateFacts: an in-module predicate helper whose body is a single
// comparison over its parameters, their lengths, fields of a pointer parameter
// and constants (`func (x *T) holds(end uint32) bool { return x.size >= end }`)
// is evaluated in the caller's frame: parameters become the arguments, a field
// read becomes the value the field holds just before the call.
func (c *Ctx) predicateFacts(call *ssa.Call, truth bool) {
	cc := call.Common()
	if cc.IsInvoke() {
		return
	}
	fn := cc.StaticCallee()
	if fn == nil || !c.FI.W.P.InModule(fn) || len(fn.Blocks) != 1 || len(cc.Args) != len(fn.Params) {
		return
	}
	ret, ok := fn.Blocks[0].Instrs[len(fn.Blocks[0].Instrs)-1].(*ssa.Return)
	if !ok || len(ret.Results) != 1 {
		return
	}
	bo, ok := ret.Results[0].(*ssa.BinOp)
	if !ok || !isCmp(bo.Op) {
		return
	}
	var tr func(v ssa.Value, d int) (lin.Form, bool)
	tr = func(v ssa.Value, d int) (lin.Form, bool) {
		if d > 4 {
			return lin.Form{}, false
		}
		if k, ok := constInt(v); ok {
			return lin.KB(k), true
		}
		if _, _, isInt := isIntType(v.Type()); !isInt {
			return lin.Form{}, false
		}
		switch x := v.(type) {
		case *ssa.Parameter:
			for j, p := range fn.Params {
				if p == x {
					return c.Lin(cc.Args[j]), true
				}
			}
		case *ssa.Convert:
			// only value-preserving (widening or same-size unsigned→unsigned) conversions
			sb, ss, ok1 := isIntType(x.X.Type())
			db, ds, ok2 := isIntType(x.Type())
			if ok1 && ok2 && (db > sb && (ds || !ss) || db == sb && ds == ss) {
				return tr(x.X, d+1)
			}
		case *ssa.Call:
			if b, ok := x.Call.Value.(*ssa.Builtin); ok && b.Name() == "len" {
				if p, ok := x.Call.Args[0].(*ssa.Parameter); ok {
					for j, q := range fn.Params {
						if q == p {
							return c.LenOf(cc.Args[j]), true
						}
					}
				}
			}
		case *ssa.UnOp:
			if x.Op == token.MUL {
				if fa, ok := x.X.(*ssa.FieldAddr); ok {
					if p, ok := fa.X.(*ssa.Parameter); ok {
						for j, q := range fn.Params {
							if q == p {
								if val := c.FI.FieldValueAt(cc.Args[j], fa.Field, call); val != nil {
									return c.Lin(val), true
								}
							}
						}
					}
				}
			}
		}
		return lin.Form{}, false
	}
	l, ok1 := tr(bo.X, 0)
	r, ok2 := tr(bo.Y, 0)
	if !ok1 || !ok2 {
		return
	}
	op := bo.Op
	if !truth {
		op = negate(op)
	}
	switch op {
	case token.LSS:
		c.add(lin.LT(l, r))
	case token.LEQ:
		c.add(lin.LE(l, r))
	case token.GTR:
		c.add(lin.GT(l, r))
	case token.GEQ:
		c.add(lin.GE(l, r))
	case token.EQL:
		c.add(lin.EQ(l, r)...)
	}
}

// KnownTrueCall reports whether a call to the named function with the given
// first argument is known to have returned true at this point.
func (c *Ctx) KnownTrueCall(name string, match func(*ssa.Call) bool) bool {
	for v, truth := range c.boolTrue {
		call, ok := v.(*ssa.Call)
		if !ok || !truth {
			continue
		}
		if staticName(call.Common()) == name && match(call) {
			return true
		}
	}
	return false
}

// ParamContract: caller contracts on non-byte parameters (fact 12). Exported
// decoders taking `offset int` are analysed under 0 <= offset <= 2^48; the
// lower bound is an obligation at in-module call sites.
func IsOffsetParam(p *ssa.Parameter) bool {
	fn := p.Parent()
	if fn == nil {
		return false
	}
	b, ok := p.Type().Underlying().(*types.Basic)
	if !ok || b.Kind() != types.Int {
		return false
	}
	if p.Name() != "offset" && p.Name() != "start" && p.Name() != "pos" {
		return false
	}
	// must sit next to a byte-sequence parameter
	for _, q := range fn.Params {
		if isByteSeq(q.Type().Underlying()) {
			return true
		}
	}
	return false
}

func (c *Ctx) paramFacts(p *ssa.Parameter, o lin.Form) {
	if IsOffsetParam(p) {
		c.add(lin.GE0(o), lin.LE(o, lin.KB(two48)))
		c.FI.W.Requires[c.FI.W.P.FuncName(p.Parent())] = "0 <= " + p.Name() + " (valid buffer offset)"
	}
}

// nonNegResult: does in-module function fn return a non-negative value in
// result i at every return? (optimistic for recursion; cached)
func (w *World) nonNegResult(fn *ssa.Function, i int) bool {
	if w.nonNeg == nil {
		w.nonNeg = map[string]int{}
	}
	key := fn.String() + "#" + strconv.Itoa(i)
	switch w.nonNeg[key] {
	case 1:
		return true
	case 2:
		return false
	}
	if fn.Blocks == nil || !w.P.InModule(fn) {
		w.nonNeg[key] = 2
		return false
	}
	w.nonNeg[key] = 1 // assume while checking (recursion)
	fi := w.Info(fn)
	for _, b := range fn.Blocks {
		ret, ok := b.Instrs[len(b.Instrs)-1].(*ssa.Return)
		if !ok || i >= len(ret.Results) {
			continue
		}
		c := fi.ctxBefore(ret)
		if !c.Prove(lin.GE0(c.Lin(ret.Results[i]))) {
			w.nonNeg[key] = 2
			return false
		}
	}
	return true
}

// resultFacts adds summary facts for the integer result (index i) of a call.
func (c *Ctx) resultFacts(call *ssa.Call, i int, o lin.Form) {
	if _, _, ok := isIntType(o2t(call, i)); !ok {
		return
	}
	callees := c.FI.W.CalleesOf(call)
	if len(callees) == 0 {
		return
	}
	nonNeg := true
	for _, f := range callees {
		if !c.FI.W.P.InModule(f) {
			return
		}
		if !c.FI.W.nonNegResult(f, i) {
			nonNeg = false
		}
	}
	if nonNeg {
		c.add(lin.GE0(o))
	}
	// constant upper bound common to all callees
	var hi int64 = -1
	for _, f := range callees {
		k, ok := c.FI.W.resultUpper(f, i)
		if !ok {
			return
		}
		if k > hi {
			hi = k
		}
	}
	if hi >= 0 {
		c.add(lin.LE(o, lin.K(hi)))
	}
}

// resultIntLenFacts: the integer result of a static in-module call is at most
// the length of one of its sequence arguments (an index / a count into it).
func (c *Ctx) resultIntLenFacts(call *ssa.Call, i int, o lin.Form) {
	cc := call.Common()
	if cc.IsInvoke() {
		return
	}
	fn := cc.StaticCallee()
	if fn == nil || !c.FI.W.P.InModule(fn) || fn == c.FI.Fn || len(cc.Args) != len(fn.Params) {
		return
	}
	if _, _, ok := isIntType(o2t(call, i)); !ok {
		return
	}
	for _, j := range c.FI.W.resultIntLen(fn, i) {
		c.add(lin.LE(o, c.LenOf(cc.Args[j])))
	}
}

// resultIntLen: the sequence parameters j of fn with result_i <= len(param_j)
// at every return (cached; nothing while in progress).
func (w *World) resultIntLen(fn *ssa.Function, i int) []int {
	if w.intLenC == nil {
		w.intLenC = map[string][]int{}
	}
	key := fn.String() + "#" + string(rune('0'+i))
	if r, ok := w.intLenC[key]; ok {
		return r
	}
	w.intLenC[key] = nil
	if fn.Blocks == nil {
		return nil
	}
	fi := w.Info(fn)
	var rets []*ssa.Return
	for _, b := range fn.Blocks {
		if ret, ok := b.Instrs[len(b.Instrs)-1].(*ssa.Return); ok && i < len(ret.Results) {
			rets = append(rets, ret)
		}
	}
	if len(rets) == 0 {
		return nil
	}
	var out []int
	for j, p := range fn.Params {
		if !isSeq(p.Type()) {
			continue
		}
		all := true
		for _, ret := range rets {
			c := fi.ctxBefore(ret)
			if !c.Prove(lin.LE(c.Lin(ret.Results[i]), c.LenOf(p))) {
				all = false
				break
			}
		}
		if all {
			out = append(out, j)
		}
	}
	w.intLenC[key] = out
	return out
}

// resultUpper: the least of a few round constants K such that in-module
// function fn returns a value <= K in result i at every return (cached;
// pessimistic for recursion).
func (w *World) resultUpper(fn *ssa.Function, i int) (int64, bool) {
	if w.nonNeg == nil {
		w.nonNeg = map[string]int{}
	}
	key := fn.String() + "#hi" + string(rune('0'+i))
	if v, ok := w.nonNeg[key]; ok {
		if v < 0 {
			return 0, false
		}
		return resultUpperKs[v], true
	}
	w.nonNeg[key] = -1
	if fn.Blocks == nil || !w.P.InModule(fn) {
		return 0, false
	}
	fi := w.Info(fn)
	var rets []*ssa.Return
	for _, b := range fn.Blocks {
		if ret, ok := b.Instrs[len(b.Instrs)-1].(*ssa.Return); ok && i < len(ret.Results) {
			rets = append(rets, ret)
		}
	}
	if len(rets) == 0 {
		return 0, false
	}
	for ki, k := range resultUpperKs {
		all := true
		for _, ret := range rets {
			c := fi.ctxBefore(ret)
			if !c.Prove(lin.LE(c.Lin(ret.Results[i]), lin.K(k))) {
				all = false
				break
			}
		}
		if all {
			w.nonNeg[key] = ki
			return k, true
		}
	}
	return 0, false
}

var resultUpperKs = []int64{1, 255, 65535, 1<<17 - 1, 1<<24 - 1, 1<<31 - 1, 1<<32 - 1}

func o2t(call *ssa.Call, i int) types.Type {
	res := call.Common().Signature().Results()
	if i < res.Len() {
		return res.At(i).Type()
	}
	return types.Typ[types.Invalid]
}

// positiveOnSuccess: fn has the consumed-count shape and returns n >= 1 at
// every return that may carry a nil error.
func (w *World) positiveOnSuccess(fn *ssa.Function) bool {
	if w.nonNeg == nil {
		w.nonNeg = map[string]int{}
	}
	key := fn.String() + "#pos"
	switch w.nonNeg[key] {
	case 1:
		return true
	case 2:
		return false
	}
	if fn.Blocks == nil {
		w.nonNeg[key] = 2
		return false
	}
	w.nonNeg[key] = 1
	fi := w.Info(fn)
	for _, b := range fn.Blocks {
		ret, ok := b.Instrs[len(b.Instrs)-1].(*ssa.Return)
		if !ok || len(ret.Results) != 2 {
			continue
		}
		c := fi.ctxBefore(ret)
		if errDefinitelyNonNil(c, ret.Results[1]) {
			continue
		}
		if !c.Prove(lin.GE(c.Lin(ret.Results[0]), lin.K(1))) {
			w.nonNeg[key] = 2
			return false
		}
	}
	return true
}

// resultLenRel: for in-module function fn and slice/string result i, the
// relations len(result_i) <= len(param_j) - K that hold at every return
// (largest K of a small family; cached; nothing for recursion in progress).
type lenRel struct {
	param int
	k     int64
}

func (w *World) resultLenRel(fn *ssa.Function, i int) []lenRel {
	if w.lenRelC == nil {
		w.lenRelC = map[string][]lenRel{}
	}
	key := fn.String() + "#" + string(rune('0'+i))
	if r, ok := w.lenRelC[key]; ok {
		return r
	}
	w.lenRelC[key] = nil
	if fn.Blocks == nil || !w.P.InModule(fn) {
		return nil
	}
	fi := w.Info(fn)
	var rets []*ssa.Return
	for _, b := range fn.Blocks {
		if ret, ok := b.Instrs[len(b.Instrs)-1].(*ssa.Return); ok && i < len(ret.Results) {
			rets = append(rets, ret)
		}
	}
	if len(rets) == 0 {
		return nil
	}
	var out []lenRel
	for j, p := range fn.Params {
		if !isSeq(p.Type()) {
			continue
		}
		for _, k := range []int64{16, 8, 4, 3, 2, 1, 0} {
			all := true
			for _, ret := range rets {
				c := fi.ctxBefore(ret)
				// a nil / empty constant result has length 0
				if !c.Prove(lin.LE(c.LenOf(ret.Results[i]), c.LenOf(p).AddK(-k))) {
					all = false
					break
				}
			}
			if all {
				out = append(out, lenRel{j, k})
				break
			}
		}
	}
	// len(result) == an integer parameter (take(n) / next(n) style helpers): encoded as param = -1-j, k = 0
	for j, p := range fn.Params {
		if _, _, isInt := isIntType(p.Type()); !isInt {
			continue
		}
		all := true
		for _, ret := range rets {
			c := fi.ctxBefore(ret)
			lf, pf := c.LenOf(ret.Results[i]), c.Lin(p)
			if isNil(ret.Results[i]) {
				all = false
				break
			}
			if !(c.Prove(lin.GE(lf, pf)) && c.Prove(lin.LE(lf, pf))) {
				all = false
				break
			}
		}
		if all {
			out = append(out, lenRel{-1 - j, 0})
		}
	}
	w.lenRelC[key] = out
	return out
}

// resultLenFacts: f = len(result i of call); adds the callee's length relations.
func (c *Ctx) resultLenFacts(call *ssa.Call, i int, f lin.Form) {
	cc := call.Common()
	if cc.IsInvoke() {
		return
	}
	fn := cc.StaticCallee()
	if fn == nil || !c.FI.W.P.InModule(fn) || fn == c.FI.Fn {
		return
	}
	if len(cc.Args) != len(fn.Params) {
		return
	}
	for _, r := range c.FI.W.resultLenRel(fn, i) {
		if r.param < 0 {
			c.add(lin.EQ(f, c.Lin(cc.Args[-1-r.param]))...)
			continue
		}
		c.add(lin.LE(f, c.LenOf(cc.Args[r.param]).AddK(-r.k)))
	}
}

// RegexpPattern resolves the constant pattern of a *regexp.Regexp value: a
// direct regexp.MustCompile/Compile(const) or a load of a package-level
// variable that is stored exactly once in the module, in its package
// initialiser, from such a call.
func (w *World) RegexpPattern(v ssa.Value) (string, bool) {
	if ex, ok := v.(*ssa.Extract); ok {
		v = ex.Tuple
	}
	switch x := v.(type) {
	case *ssa.Call:
		n := staticName(x.Common())
		if n == "regexp.MustCompile" || n == "regexp.Compile" {
			if k, ok := x.Common().Args[0].(*ssa.Const); ok && k.Value != nil && k.Value.Kind() == constant.String {
				return constant.StringVal(k.Value), true
			}
		}
	case *ssa.UnOp:
		g, ok := x.X.(*ssa.Global)
		if !ok || x.Op != token.MUL {
			return "", false
		}
		var pat string
		stores := 0
		scan := func(fn *ssa.Function) {
			for _, b := range fn.Blocks {
				for _, in := range b.Instrs {
					st, ok := in.(*ssa.Store)
					if !ok || st.Addr != ssa.Value(g) {
						continue
					}
					stores++
					if fn.Name() == "init" && fn.Pkg == g.Pkg {
						if p, ok := w.RegexpPattern(st.Val); ok {
							pat = p
						}
					}
				}
			}
		}
		if g.Pkg != nil {
			if ini := g.Pkg.Func("init"); ini != nil {
				scan(ini)
			}
		}
		for _, fn := range w.Funcs {
			if fn.Name() != "init" {
				scan(fn)
			}
		}
		if stores == 1 && pat != "" {
			return pat, true
		}
	}
	return "", false
}

// submatchGroups: call is (*regexp.Regexp).Find(String)Submatch on a regexp with
// a resolvable constant pattern → number of elements of a non-nil result.
func (w *World) submatchGroups(call *ssa.Call) (int, bool) {
	switch staticName(call.Common()) {
	case "(*regexp.Regexp).FindStringSubmatch", "(*regexp.Regexp).FindSubmatch":
	default:
		return 0, false
	}
	pat, ok := w.RegexpPattern(call.Common().Args[0])
	if !ok {
		return 0, false
	}
	re, err := syntax.Parse(pat, syntax.Perl)
	if err != nil {
		return 0, false
	}
	return re.MaxCap() + 1, true
}

// Conditional postconditions: for an in-module helper returning an integer (or
// boolean) "verdict", the parameter-only constraints that hold at every return
// UNDER THE ASSUMPTION that the result equals K. `if validPadding(buf, n) != 1
// { return err }` then gives the caller what the helper established.
// Candidates: p >= 0, p >= 1, p <= len(q), p + 1 <= len(q), len(q) >= 1 over
// integer parameters p and slice/string parameters q.
type condFact struct {
	kind byte // 'n' p>=k ; 's' p+k<=len(q) ; 'l' len(q)>=k ; 'u' p<=k
	p, q int
	k    int64
}

func (w *World) condPost(fn *ssa.Function, resIdx int, K int64) []condFact {
	if w.condC == nil {
		w.condC = map[string][]condFact{}
	}
	key := fn.String() + "#" + string(rune('0'+resIdx)) + "=" + big.NewInt(K).String()
	if r, ok := w.condC[key]; ok {
		return r
	}
	w.condC[key] = nil
	if fn.Blocks == nil || !w.P.InModule(fn) {
		return nil
	}
	w.condBusy++
	defer func() { w.condBusy-- }()
	var ints, seqs []int
	for i, p := range fn.Params {
		if _, _, ok := isIntType(p.Type()); ok {
			ints = append(ints, i)
		} else if isSeq(p.Type()) {
			seqs = append(seqs, i)
		}
	}
	var cands []condFact
	for _, p := range ints {
		cands = append(cands, condFact{'n', p, 0, 0}, condFact{'n', p, 0, 1})
		for _, q := range seqs {
			for _, k := range []int64{0, 1, 2, 3, 4, 8} {
				cands = append(cands, condFact{'s', p, q, k})
			}
		}
	}
	for _, q := range seqs {
		cands = append(cands, condFact{'l', 0, q, 1})
		// len(q) >= k for the constants len(q) is compared with
		seenK := map[int64]bool{1: true}
		for _, b := range fn.Blocks {
			for _, in := range b.Instrs {
				bo, ok := in.(*ssa.BinOp)
				if !ok || !isCmp(bo.Op) {
					continue
				}
				isLenQ := func(v ssa.Value) bool {
					c, ok := v.(*ssa.Call)
					if !ok {
						return false
					}
					bi, isB := c.Common().Value.(*ssa.Builtin)
					return isB && bi.Name() == "len" && c.Common().Args[0] == ssa.Value(fn.Params[q])
				}
				var kv ssa.Value
				if isLenQ(bo.X) {
					kv = bo.Y
				} else if isLenQ(bo.Y) {
					kv = bo.X
				}
				// any small constant of a comparison that involves len(q), also inside a
				// sum (len(q) >= 8+4*n establishes len(q) >= 8 when n >= 0)
				var consts func(v ssa.Value, d int)
				consts = func(v ssa.Value, d int) {
					if v == nil || d > 3 {
						return
					}
					if k, ok := constInt(v); ok && k.IsInt64() && k.Int64() > 0 && k.Int64() < 1<<20 {
						for _, kk := range []int64{k.Int64(), k.Int64() + 1} {
							if !seenK[kk] {
								seenK[kk] = true
								cands = append(cands, condFact{'l', 0, q, kk})
							}
						}
						return
					}
					if b2, ok := v.(*ssa.BinOp); ok && (b2.Op == token.ADD || b2.Op == token.SUB) {
						consts(b2.X, d+1)
						consts(b2.Y, d+1)
					}
				}
				consts(kv, 0)
			}
		}
	}
	// upper bounds p <= k, k taken from the constants p is compared with
	for _, p := range ints {
		seen := map[int64]bool{}
		for _, b := range fn.Blocks {
			for _, in := range b.Instrs {
				bo, ok := in.(*ssa.BinOp)
				if !ok {
					continue
				}
				switch bo.Op {
				case token.LSS, token.LEQ, token.GTR, token.GEQ:
				default:
					continue
				}
				var kv ssa.Value
				if bo.X == ssa.Value(fn.Params[p]) {
					kv = bo.Y
				} else if bo.Y == ssa.Value(fn.Params[p]) {
					kv = bo.X
				}
				if kv == nil {
					continue
				}
				if k, ok := constInt(kv); ok && k.IsInt64() && k.Int64() > 0 && k.Int64() < 1<<40 {
					for _, kk := range []int64{k.Int64() - 1, k.Int64()} {
						if !seen[kk] {
							seen[kk] = true
							cands = append(cands, condFact{'u', p, 0, kk})
						}
					}
				}
			}
		}
	}
	fi := w.Info(fn)
	alive := make([]bool, len(cands))
	for i := range alive {
		alive[i] = true
	}
	nret := 0
	for _, b := range fn.Blocks {
		ret, ok := b.Instrs[len(b.Instrs)-1].(*ssa.Return)
		if !ok || resIdx >= len(ret.Results) {
			continue
		}
		nret++
		c := fi.ctxBefore(ret)
		rv := ret.Results[resIdx]
		if K == condNilErr {
			if errDefinitelyNonNil(c, rv) {
				continue
			}
		} else if bt, isB := rv.Type().Underlying().(*types.Basic); isB && bt.Kind() == types.Bool {
			if bv, isConst := boolConst(rv); isConst && bv != (K != 0) {
				continue // a literal verdict other than the assumed one
			}
			c.assume(rv, K != 0)
		} else {
			rf := c.Lin(rv)
			c.add(lin.EQ(rf, lin.K(K))...)
		}
		if lin.Infeasible(c.Facts, fmLimit) {
			continue // this return cannot produce K
		}
		for i, cd := range cands {
			if !alive[i] {
				continue
			}
			var g lin.Con
			switch cd.kind {
			case 'n':
				g = lin.GE(c.Lin(fn.Params[cd.p]), lin.K(cd.k))
			case 's':
				g = lin.LE(c.Lin(fn.Params[cd.p]).AddK(cd.k), c.LenOf(fn.Params[cd.q]))
			case 'l':
				g = lin.GE(c.LenOf(fn.Params[cd.q]), lin.K(cd.k))
			case 'u':
				g = lin.LE(c.Lin(fn.Params[cd.p]), lin.K(cd.k))
			}
			if !c.Prove(g) {
				alive[i] = false
			}
		}
	}
	var out []condFact
	if nret > 0 {
		for i, cd := range cands {
			if alive[i] {
				out = append(out, cd)
			}
		}
	}
	w.condC[key] = out
	if os.Getenv("MANTICHECK_DEBUG_ENTRY") == "2" {
		fmt.Fprintf(os.Stderr, "condPost %s: %d returns, %d/%d candidates alive %v\n", key, nret, len(out), len(cands), out)
	}
	return out
}

// condNilErr selects "the error result is nil" as the assumption of condPost.
const condNilErr int64 = -1 << 40

// condCallFacts: `call == K` is known to hold here.
func (c *Ctx) condCallFacts(call *ssa.Call, K int64) {
	cc := call.Common()
	if cc.IsInvoke() {
		return
	}
	fn := cc.StaticCallee()
	if fn == nil || !c.FI.W.P.InModule(fn) || fn == c.FI.Fn || len(cc.Args) != len(fn.Params) {
		return
	}
	resIdx := 0
	if K == condNilErr {
		resIdx = fn.Signature.Results().Len() - 1
		if resIdx < 0 || fn.Signature.Results().At(resIdx).Type().String() != "error" {
			return
		}
	}
	for _, cd := range c.FI.W.condPost(fn, resIdx, K) {
		switch cd.kind {
		case 'n':
			c.add(lin.GE(c.Lin(cc.Args[cd.p]), lin.K(cd.k)))
		case 's':
			c.add(lin.LE(c.Lin(cc.Args[cd.p]).AddK(cd.k), c.LenOf(cc.Args[cd.q])))
		case 'l':
			c.add(lin.GE(c.LenOf(cc.Args[cd.q]), lin.K(cd.k)))
		case 'u':
			c.add(lin.LE(c.Lin(cc.Args[cd.p]), lin.K(cd.k)))
		}
	}
}
