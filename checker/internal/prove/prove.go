// Package prove is E1: a linear-fact prover over go/ssa. For an obligation at an
// instruction it gathers facts that hold on every execution reaching it
// (dominating branch conditions, non-wrapping definitions, shape facts,
// intervals, available loads, loop invariants, callee summaries) and asks
// whether they entail the goal (Fourier–Motzkin). No code is executed and no
// path is enumerated.
package prove

import (
	"fmt"
	"go/constant"
	"go/token"
	"go/types"
	"math/big"
	"strings"

	"golang.org/x/tools/go/ssa"

	"manticheck/internal/lin"
)

const fmLimit = 4000

var (
	two48 = new(big.Int).Lsh(big.NewInt(1), 48)
	two62 = new(big.Int).Lsh(big.NewInt(1), 62)
)

func isLoopPhi(p *ssa.Phi) bool {
	b := p.Block()
	for _, pr := range b.Preds {
		if b.Dominates(pr) {
			return true
		}
	}
	return false
}

type termKind int

const (
	tVal termKind = iota
	tLen
)

type termInfo struct {
	kind termKind
	v    ssa.Value
}

// FuncInfo caches per-function analysis state.
type FuncInfo struct {
	W        *World
	Fn       *ssa.Function
	terms    []termInfo
	valTerm  map[ssa.Value]lin.Term
	lenTerm  map[ssa.Value]lin.Term
	idx      map[ssa.Instruction]int
	loadRepC map[*ssa.UnOp]ssa.Value
	invC     map[*ssa.Phi][]invariant
	invBusy  map[ssa.Value]bool
	reachC   map[[2]int]bool
	hdrDone  map[*ssa.BasicBlock]bool
	congC    map[*ssa.Phi]int64
	joinC    map[*ssa.BasicBlock][]lin.Con
	joinBusy map[*ssa.BasicBlock]bool
	invStack []*ssa.BasicBlock
	provisional map[*ssa.BasicBlock][]*ssa.BasicBlock
}

func (w *World) Info(fn *ssa.Function) *FuncInfo {
	if fi := w.fi[fn]; fi != nil {
		return fi
	}
	fi := &FuncInfo{W: w, Fn: fn, valTerm: map[ssa.Value]lin.Term{}, lenTerm: map[ssa.Value]lin.Term{},
		idx: map[ssa.Instruction]int{}, loadRepC: map[*ssa.UnOp]ssa.Value{}, invC: map[*ssa.Phi][]invariant{},
		invBusy: map[ssa.Value]bool{}, reachC: map[[2]int]bool{}, hdrDone: map[*ssa.BasicBlock]bool{}, provisional: map[*ssa.BasicBlock][]*ssa.BasicBlock{}}
	for _, b := range fn.Blocks {
		for i, in := range b.Instrs {
			fi.idx[in] = i
		}
	}
	w.fi[fn] = fi
	return fi
}

func (fi *FuncInfo) term(k termKind, v ssa.Value) lin.Term {
	m := fi.valTerm
	if k == tLen {
		m = fi.lenTerm
	}
	if t, ok := m[v]; ok {
		return t
	}
	t := lin.Term(len(fi.terms))
	fi.terms = append(fi.terms, termInfo{k, v})
	m[v] = t
	return t
}

func (fi *FuncInfo) TermName(t lin.Term) string {
	ti := fi.terms[t]
	s := valName(ti.v)
	if ti.kind == tLen {
		return "len(" + s + ")"
	}
	return s
}

func valName(v ssa.Value) string {
	switch x := v.(type) {
	case *ssa.Parameter:
		return x.Name()
	case *ssa.FreeVar:
		return x.Name()
	case *ssa.Const:
		return x.String()
	case *ssa.UnOp:
		if x.Op == token.MUL {
			return "*" + addrName(x.X)
		}
	case *ssa.Extract:
		return fmt.Sprintf("%s#%d", valName(x.Tuple), x.Index)
	case *ssa.Call:
		return x.Name() + ":" + calleeName(x.Common())
	case *ssa.Convert:
		return types.TypeString(x.Type(), shortQ) + "(" + valName(x.X) + ")"
	case *ssa.ChangeType:
		return valName(x.X)
	}
	return v.Name()
}

func shortQ(p *types.Package) string { return p.Name() }

func addrName(a ssa.Value) string {
	switch x := a.(type) {
	case *ssa.FieldAddr:
		st, _ := derefT(x.X.Type()).Underlying().(*types.Struct)
		n := "?"
		if st != nil {
			n = st.Field(x.Field).Name()
		}
		return addrBase(x.X) + "." + n
	case *ssa.IndexAddr:
		return addrBase(x.X) + "[" + valName(x.Index) + "]"
	case *ssa.Alloc:
		if x.Comment != "" {
			return x.Comment
		}
	}
	return valName(a)
}

func addrBase(v ssa.Value) string {
	if u, ok := v.(*ssa.UnOp); ok && u.Op == token.MUL {
		return addrName(u.X)
	}
	if fa, ok := v.(*ssa.FieldAddr); ok {
		return addrName(fa)
	}
	return valName(v)
}

func calleeName(cc *ssa.CallCommon) string {
	if cc.IsInvoke() {
		return cc.Method.Name()
	}
	if f := cc.StaticCallee(); f != nil {
		return f.Name()
	}
	if b, ok := cc.Value.(*ssa.Builtin); ok {
		return b.Name()
	}
	return "?"
}

// Ctx is the fact set valid at one program point.
type Ctx struct {
	FI         *FuncInfo
	Block      *ssa.BasicBlock
	Facts      []lin.Con
	introduced map[lin.Term]bool
	linC       map[ssa.Value]lin.Form
	lenC       map[ssa.Value]lin.Form
	boolTrue   map[ssa.Value]bool // boolean SSA values known true / false at this point
	depth      int
	noInv      bool
	invAdded   map[*ssa.Phi]bool
	neq        [][2]lin.Form
	lookups    []pendingLookup // lookups of constant tables awaiting a known key (constmap.go)
}

func (fi *FuncInfo) newCtx() *Ctx {
	return &Ctx{FI: fi, introduced: map[lin.Term]bool{}, linC: map[ssa.Value]lin.Form{}, lenC: map[ssa.Value]lin.Form{}, boolTrue: map[ssa.Value]bool{}, invAdded: map[*ssa.Phi]bool{}}
}

// CtxAt builds the facts that hold whenever control is inside block b
// (all dominating branch conditions, top-down).
func (fi *FuncInfo) CtxAt(b *ssa.BasicBlock) *Ctx {
	c := fi.newCtx()
	c.Block = b
	c.addEntryFacts()
	c.addDominating(b)
	return c
}

// CtxEdge builds the facts that hold when the edge from→to is taken.
func (fi *FuncInfo) CtxEdge(from, to *ssa.BasicBlock) *Ctx {
	c := fi.CtxAt(from)
	c.successIn(from, nil)
	c.addEdge(from, to)
	return c
}

func (c *Ctx) addEdge(from, to *ssa.BasicBlock) {
	if iff, ok := from.Instrs[len(from.Instrs)-1].(*ssa.If); ok && len(from.Succs) == 2 && from.Succs[0] != from.Succs[1] {
		if from.Succs[0] == to {
			c.assume(iff.Cond, true)
		} else if from.Succs[1] == to {
			c.assume(iff.Cond, false)
		}
	}
}

func (c *Ctx) addDominating(b *ssa.BasicBlock) {
	// collect chain root→b
	var chain []*ssa.BasicBlock
	for x := b; x != nil; x = x.Idom() {
		chain = append(chain, x)
	}
	for i := len(chain) - 1; i >= 0; i-- {
		x := chain[i]
		d := x.Idom()
		if d == nil {
			continue
		}
		c.successIn(d, nil)
		if len(x.Preds) == 1 && x.Preds[0] == d {
			c.addEdge(d, x)
			continue
		}
		// several predecessors (a short-circuit `v == 2 || v == 3`, a switch case with
		// several values, an if/else that joins): the bounds against constants that
		// hold on EVERY incoming edge hold in x
		c.add(c.FI.joinFacts(x)...)
	}
}

func (c *Ctx) add(cons ...lin.Con) { c.Facts = append(c.Facts, cons...) }

func (c *Ctx) Entails(g lin.Con) bool {
	return lin.Entails(c.Facts, g, fmLimit)
}

func typeRange(t types.Type) (lo, hi *big.Int, ok bool) {
	bits, signed, ok := isIntType(t)
	if !ok {
		return nil, nil, false
	}
	if signed {
		hi = new(big.Int).Lsh(big.NewInt(1), uint(bits-1))
		lo = new(big.Int).Neg(hi)
		hi = new(big.Int).Sub(hi, big.NewInt(1))
	} else {
		lo = big.NewInt(0)
		hi = new(big.Int).Sub(new(big.Int).Lsh(big.NewInt(1), uint(bits)), big.NewInt(1))
	}
	return lo, hi, true
}

// opaque introduces the value as a term with its type range.
func (c *Ctx) opaque(v ssa.Value) lin.Form {
	t := c.FI.term(tVal, v)
	f := lin.V(t)
	if !c.introduced[t] {
		c.introduced[t] = true
		if lo, hi, ok := typeRange(v.Type()); ok {
			c.add(lin.GE(f, lin.KB(lo)), lin.LE(f, lin.KB(hi)))
		}
		c.elemFacts(v, f)
	}
	return f
}

// bounds computes an interval for a form from single-term facts only (cheap).
func (c *Ctx) fits(f lin.Form, t types.Type) bool {
	lo, hi, ok := typeRange(t)
	if !ok {
		return false
	}
	if k, isK := f.ConstVal(); isK {
		return k.Cmp(lo) >= 0 && k.Cmp(hi) <= 0
	}
	return c.Entails(lin.GE(f, lin.KB(lo))) && c.Entails(lin.LE(f, lin.KB(hi)))
}

func constInt(v ssa.Value) (*big.Int, bool) {
	k, ok := v.(*ssa.Const)
	if !ok || k.Value == nil {
		return nil, false
	}
	if k.Value.Kind() != constant.Int {
		return nil, false
	}
	if _, _, isInt := isIntType(k.Type()); !isInt {
		return nil, false
	}
	b, ok := new(big.Int).SetString(k.Value.ExactString(), 10)
	return b, ok
}

// Lin turns an integer SSA value into a linear form valid in this context.
func (c *Ctx) Lin(v ssa.Value) lin.Form {
	if f, ok := c.linC[v]; ok {
		return f
	}
	c.depth++
	var f lin.Form
	if c.depth > 60 {
		f = c.opaque(v)
	} else {
		f = c.lin1(v)
	}
	c.depth--
	c.linC[v] = f
	return f
}

func (c *Ctx) lin1(v ssa.Value) lin.Form {
	if k, ok := constInt(v); ok {
		return lin.KB(k)
	}
	if _, _, ok := isIntType(v.Type()); !ok {
		return c.opaque(v)
	}
	switch x := v.(type) {
	case *ssa.BinOp:
		return c.linBinOp(x)
	case *ssa.Lookup:
		o := c.opaque(v)
		c.noteLookup(x, o)
		return o
	case *ssa.Convert:
		if _, _, ok := isIntType(x.X.Type()); !ok {
			return c.opaque(v)
		}
		src := c.Lin(x.X)
		if c.fits(src, x.Type()) {
			return src
		}
		o := c.opaque(v)
		// fact 9: narrowing of a non-negative value to an unsigned type never grows it
		if _, signed, _ := isIntType(x.Type()); !signed {
			if c.Entails(lin.GE0(src)) {
				c.add(lin.LE(o, src))
			}
		}
		return o
	case *ssa.ChangeType:
		return c.Lin(x.X)
	case *ssa.Call:
		if b, ok := x.Call.Value.(*ssa.Builtin); ok {
			switch b.Name() {
			case "len":
				return c.LenOf(x.Call.Args[0])
			case "cap":
				// cap >= len; only a lower bound is known
				o := c.opaque(v)
				c.add(lin.GE(o, c.LenOf(x.Call.Args[0])))
				return o
			case "copy":
				o := c.opaque(v)
				c.add(lin.GE0(o), lin.LE(o, c.LenOf(x.Call.Args[0])), lin.LE(o, c.LenOf(x.Call.Args[1])))
				return o
			case "min", "max":
				o := c.opaque(v)
				allNonNeg := true
				for _, a := range x.Call.Args {
					af := c.Lin(a)
					if b.Name() == "min" {
						c.add(lin.LE(o, af))
					} else {
						c.add(lin.GE(o, af))
					}
					if !c.Entails(lin.GE0(af)) {
						allNonNeg = false
					}
				}
				// the result is one of the arguments
				if allNonNeg {
					c.add(lin.GE0(o))
				}
				if b.Name() == "max" && len(x.Call.Args) == 2 {
					// max(a,b) <= a+b when both are non-negative
					if allNonNeg {
						c.add(lin.LE(o, c.Lin(x.Call.Args[0]).Add(c.Lin(x.Call.Args[1]))))
					}
				}
				return o
			}
		}
		o := c.opaque(v)
		c.callFacts(x, o)
		c.resultFacts(x, 0, o)
		c.resultIntLenFacts(x, 0, o)
		return o
	case *ssa.UnOp:
		switch x.Op {
		case token.MUL: // load
			rep := c.FI.loadRep(x)
			if rep != ssa.Value(x) {
				return c.Lin(rep)
			}
			o := c.opaque(v)
			c.cellLoadFacts(x, o)
			return o
		case token.SUB:
			src := c.Lin(x.X)
			n := src.Neg()
			if c.fits(n, x.Type()) {
				return n
			}
			return c.opaque(v)
		}
		return c.opaque(v)
	case *ssa.Phi:
		o := c.opaque(v)
		if bits, signed, _ := isIntType(x.Type()); bits == 64 && signed && isLoopPhi(x) {
			// assumption: loop-carried 64-bit signed integers stay within ±2^62
			c.add(lin.GE(o, lin.KB(new(big.Int).Neg(two62))), lin.LE(o, lin.KB(two62)))
		}
		c.addInvariants(x)
		return o
	case *ssa.Extract:
		o := c.opaque(v)
		if call, ok := x.Tuple.(*ssa.Call); ok {
			c.resultFacts(call, x.Index, o)
			c.resultIntLenFacts(call, x.Index, o)
		}
		return o
	case *ssa.Parameter:
		o := c.opaque(v)
		c.paramFacts(x, o)
		return o
	}
	return c.opaque(v)
}

func (c *Ctx) linBinOp(x *ssa.BinOp) lin.Form {
	t := x.Type()
	switch x.Op {
	case token.ADD, token.SUB:
		a, b := c.Lin(x.X), c.Lin(x.Y)
		var r lin.Form
		if x.Op == token.ADD {
			r = a.Add(b)
		} else {
			r = a.Sub(b)
		}
		if c.fits(r, t) {
			return r
		}
		return c.opaque(x)
	case token.MUL:
		a, b := c.Lin(x.X), c.Lin(x.Y)
		var r lin.Form
		if k, ok := a.ConstVal(); ok {
			r = b.Scale(k)
		} else if k, ok := b.ConstVal(); ok {
			r = a.Scale(k)
		} else {
			o := c.opaque(x)
			// product of two non-negatives is non-negative when it cannot wrap: skip
			return o
		}
		if c.fits(r, t) {
			return r
		}
		return c.opaque(x)
	case token.SHL:
		if k, ok := constInt(x.Y); ok && k.IsInt64() && k.Int64() >= 0 && k.Int64() < 63 {
			r := c.Lin(x.X).Scale(new(big.Int).Lsh(big.NewInt(1), uint(k.Int64())))
			if c.fits(r, t) {
				return r
			}
		}
		return c.opaque(x)
	case token.SHR:
		o := c.opaque(x)
		if k, ok := constInt(x.Y); ok && k.IsInt64() && k.Int64() >= 0 && k.Int64() < 63 {
			a := c.Lin(x.X)
			if c.Entails(lin.GE0(a)) {
				p := new(big.Int).Lsh(big.NewInt(1), uint(k.Int64()))
				// p·o <= a <= p·o + p-1
				c.add(lin.GE0(o), lin.LE(o.Scale(p), a), lin.LE(a, o.Scale(p).Add(lin.KB(new(big.Int).Sub(p, big.NewInt(1))))))
			}
		}
		return o
	case token.AND:
		o := c.opaque(x)
		for _, pair := range [][2]ssa.Value{{x.X, x.Y}, {x.Y, x.X}} {
			if k, ok := constInt(pair[1]); ok && k.Sign() >= 0 {
				c.add(lin.GE0(o), lin.LE(o, lin.KB(k)))
				a := c.Lin(pair[0])
				if c.Entails(lin.GE0(a)) {
					c.add(lin.LE(o, a))
				}
				return o
			}
		}
		a, b := c.Lin(x.X), c.Lin(x.Y)
		// two's complement: if either operand is non-negative the result lies in [0, that operand]
		if c.Entails(lin.GE0(a)) {
			c.add(lin.GE0(o), lin.LE(o, a))
		}
		if c.Entails(lin.GE0(b)) {
			c.add(lin.GE0(o), lin.LE(o, b))
		}
		return o
	case token.AND_NOT:
		// clearing bits of a non-negative value keeps it in [0, value]
		o := c.opaque(x)
		a := c.Lin(x.X)
		if c.Entails(lin.GE0(a)) {
			c.add(lin.GE0(o), lin.LE(o, a))
			if k, ok := constInt(x.Y); ok && k.Sign() >= 0 {
				// at most k is removed
				c.add(lin.GE(o, a.Sub(lin.KB(k))))
			}
		}
		return o
	case token.OR, token.XOR:
		o := c.opaque(x)
		a, b := c.Lin(x.X), c.Lin(x.Y)
		if c.Entails(lin.GE0(a)) && c.Entails(lin.GE0(b)) {
			c.add(lin.GE0(o), lin.LE(o, a.Add(b)))
			if x.Op == token.OR {
				c.add(lin.GE(o, a), lin.GE(o, b))
			}
		}
		return o
	case token.REM:
		o := c.opaque(x)
		a := c.Lin(x.X)
		m := c.Lin(x.Y)
		if c.Entails(lin.GE0(a)) && c.Entails(lin.GE(m, lin.K(1))) {
			c.add(lin.GE0(o), lin.LE(o, a), lin.LT(o, m))
		}
		return o
	case token.QUO:
		o := c.opaque(x)
		a := c.Lin(x.X)
		if k, ok := constInt(x.Y); ok && k.Sign() > 0 {
			if c.Entails(lin.GE0(a)) {
				c.add(lin.GE0(o), lin.LE(o.Scale(k), a), lin.LE(a, o.Scale(k).Add(lin.KB(new(big.Int).Sub(k, big.NewInt(1))))))
			}
		}
		return o
	}
	return c.opaque(x)
}

// lenTermOf introduces len(v) as a non-negative term.
func (c *Ctx) lenTermOf(v ssa.Value) lin.Form {
	t := c.FI.term(tLen, v)
	f := lin.V(t)
	if !c.introduced[t] {
		c.introduced[t] = true
		c.add(lin.GE0(f), lin.LE(f, lin.KB(two48)))
	}
	return f
}

// LenOf returns len(v) for a slice, string, array or pointer-to-array value.
func (c *Ctx) LenOf(v ssa.Value) lin.Form {
	if f, ok := c.lenC[v]; ok {
		return f
	}
	c.depth++
	var f lin.Form
	if c.depth > 60 {
		f = c.lenTermOf(v)
	} else {
		f = c.len1(v)
	}
	c.depth--
	c.lenC[v] = f
	return f
}

func arrayLen(t types.Type) (int64, bool) {
	t = t.Underlying()
	if p, ok := t.(*types.Pointer); ok {
		t = p.Elem().Underlying()
	}
	if a, ok := t.(*types.Array); ok {
		return a.Len(), true
	}
	return 0, false
}

func (c *Ctx) len1(v ssa.Value) lin.Form {
	if n, ok := arrayLen(v.Type()); ok {
		return lin.K(n)
	}
	switch x := v.(type) {
	case *ssa.Const:
		if x.Value == nil { // nil slice
			return lin.K(0)
		}
		if x.Value.Kind() == constant.String {
			return lin.K(int64(len(constant.StringVal(x.Value))))
		}
	case *ssa.Slice:
		var lo, hi lin.Form
		if x.Low != nil {
			lo = c.Lin(x.Low)
		} else {
			lo = lin.K(0)
		}
		if x.High != nil {
			hi = c.Lin(x.High)
		} else {
			hi = c.LenOf(x.X)
		}
		return hi.Sub(lo)
	case *ssa.MakeSlice:
		return c.Lin(x.Len)
	case *ssa.Convert:
		// string <-> []byte keeps the length; string(rune)/[]rune do not
		st, dt := x.X.Type().Underlying(), x.Type().Underlying()
		if isByteSeq(st) && isByteSeq(dt) {
			return c.LenOf(x.X)
		}
		// []rune(string): at most one rune per byte
		if isByteSeq(st) {
			if sl, ok := dt.(*types.Slice); ok {
				if b, ok := sl.Elem().Underlying().(*types.Basic); ok && b.Kind() == types.Int32 {
					f := c.lenTermOf(v)
					c.add(lin.LE(f, c.LenOf(x.X)))
					return f
				}
			}
		}
	case *ssa.ChangeType:
		return c.LenOf(x.X)
	case *ssa.UnOp:
		if x.Op == token.MUL {
			rep := c.FI.loadRep(x)
			if rep != ssa.Value(x) {
				return c.LenOf(rep)
			}
		}
	case *ssa.Phi:
		f := c.lenTermOf(v)
		c.addInvariants(x)
		return f
	case *ssa.Call:
		if b, ok := x.Call.Value.(*ssa.Builtin); ok && b.Name() == "append" {
			base := c.LenOf(x.Call.Args[0])
			f := c.lenTermOf(v)
			c.add(lin.GE(f, base))
			if len(x.Call.Args) == 2 {
				if sl, ok := x.Call.Args[1].Type().Underlying().(*types.Slice); ok && sl != nil {
					c.add(lin.EQ(f, base.Add(c.LenOf(x.Call.Args[1])))...)
				} else if isByteSeq(x.Call.Args[1].Type().Underlying()) {
					c.add(lin.EQ(f, base.Add(c.LenOf(x.Call.Args[1])))...)
				}
			}
			return f
		}
		f := c.lenTermOf(v)
		c.callLenFacts(x, f)
		c.resultLenFacts(x, 0, f)
		return f
	case *ssa.BinOp:
		if x.Op == token.ADD { // string concatenation
			return c.LenOf(x.X).Add(c.LenOf(x.Y))
		}
	case *ssa.Extract:
		if call, ok := x.Tuple.(*ssa.Call); ok {
			f := c.lenTermOf(v)
			c.resultLenFacts(call, x.Index, f)
			return f
		}
	}
	return c.lenTermOf(v)
}

func isByteSeq(t types.Type) bool {
	switch u := t.(type) {
	case *types.Basic:
		return u.Info()&types.IsString != 0
	case *types.Slice:
		b, ok := u.Elem().Underlying().(*types.Basic)
		return ok && b.Kind() == types.Uint8
	}
	return false
}

// assume adds the facts implied by boolean value cond being truth.
func (c *Ctx) assume(cond ssa.Value, truth bool) {
	c.boolTrue[cond] = truth
	switch x := cond.(type) {
	case *ssa.UnOp:
		if x.Op == token.NOT {
			c.assume(x.X, !truth)
		}
	case *ssa.BinOp:
		if !isCmp(x.Op) {
			return
		}
		op := x.Op
		if !truth {
			op = negate(op)
		}
		_, _, intX := isIntType(x.X.Type())
		if intX {
			a, b := c.Lin(x.X), c.Lin(x.Y)
			switch op {
			case token.LSS:
				c.add(lin.LT(a, b))
			case token.LEQ:
				c.add(lin.LE(a, b))
			case token.GTR:
				c.add(lin.GT(a, b))
			case token.GEQ:
				c.add(lin.GE(a, b))
			case token.EQL:
				c.add(lin.EQ(a, b)...)
				// verdict helpers: `helper(args) == K` brings the helper's conditional postconditions
				for _, pr := range [][2]ssa.Value{{x.X, x.Y}, {x.Y, x.X}} {
					if call, isCall := pr[0].(*ssa.Call); isCall {
						if k, isK := constInt(pr[1]); isK && k.IsInt64() {
							c.condCallFacts(call, k.Int64())
						}
					}
				}
			case token.NEQ:
				c.neq = append(c.neq, [2]lin.Form{a, b})
				// a != b: usable when one side is already bounded by the other
				if c.Entails(lin.GE(a, b)) {
					c.add(lin.GT(a, b))
				} else if c.Entails(lin.LE(a, b)) {
					c.add(lin.LT(a, b))
				}
			}
			c.congStrengthen(x)
			return
		}
		// err == nil / err != nil on the error result of a call
		if isNil(x.Y) || isNil(x.X) {
			other := x.X
			if isNil(x.X) {
				other = x.Y
			}
			if op == token.EQL {
				c.nilKnown(other, true)
			} else if op == token.NEQ {
				c.nilKnown(other, false)
			}
		}
		// string comparison with a constant: length is known on equality
		if op == token.EQL && isByteSeq(x.X.Type().Underlying()) {
			c.add(lin.EQ(c.LenOf(x.X), c.LenOf(x.Y))...)
		}
	case *ssa.Call:
		c.boolCallFacts(x, truth)
	}
}

func negate(op token.Token) token.Token {
	switch op {
	case token.LSS:
		return token.GEQ
	case token.LEQ:
		return token.GTR
	case token.GTR:
		return token.LEQ
	case token.GEQ:
		return token.LSS
	case token.EQL:
		return token.NEQ
	case token.NEQ:
		return token.EQL
	}
	return op
}

func isNil(v ssa.Value) bool {
	k, ok := v.(*ssa.Const)
	return ok && k.Value == nil
}

// nilKnown: value v (an error) is known nil (isNil=true) or non-nil here.
func (c *Ctx) nilKnown(v ssa.Value, isNilV bool) {
	if !isNilV {
		// a non-nil result of (*regexp.Regexp).Find*Submatch has one element per
		// capture group of the (constant) pattern, plus the whole match
		if call, ok := v.(*ssa.Call); ok {
			if n, ok := c.FI.W.submatchGroups(call); ok {
				c.add(lin.EQ(c.LenOf(v), lin.K(int64(n)))...)
			}
		}
		return
	}
	if ex, ok := v.(*ssa.Extract); ok {
		if call, ok := ex.Tuple.(*ssa.Call); ok {
			c.successFacts(call)
		}
	}
}

// Goal helpers ---------------------------------------------------------

// ProveOrJoin tries to entail g; on failure tries the φ-join (fact 8).
func (c *Ctx) Prove(g lin.Con) bool {
	if len(c.lookups) > 0 {
		c.resolveLookups()
	}
	if c.Entails(g) {
		return true
	}
	return c.phiJoin(g, 0)
}

func (c *Ctx) phiJoin(g lin.Con, depth int) bool {
	if depth >= 3 {
		return false
	}
	fi := c.FI
	// candidate φ terms: those in the goal, then those in facts connected to it
	var cands []lin.Term
	seen := map[lin.Term]bool{}
	addT := func(t lin.Term) {
		if !seen[t] {
			seen[t] = true
			if _, ok := fi.terms[t].v.(*ssa.Phi); ok {
				cands = append(cands, t)
			}
		}
	}
	for _, t := range g.F.Terms() {
		addT(t)
	}
	if depth == 0 {
		for _, f := range c.Facts {
			hit := false
			for t := range f.F.Coef {
				if _, inGoal := g.F.Coef[t]; inGoal {
					hit = true
				}
			}
			if hit {
				for _, t := range f.F.Terms() {
					addT(t)
				}
			}
		}
	}
	for _, t := range cands {
		ti := fi.terms[t]
		phi := ti.v.(*ssa.Phi)
		pb := phi.Block()
		if c.Block == nil || !(pb == c.Block || pb.Dominates(c.Block)) {
			continue
		}
		// all φ terms of the same block take their edge-i values together
		var sibs []lin.Term
		for _, u := range cands {
			if up, ok := fi.terms[u].v.(*ssa.Phi); ok && up.Block() == pb {
				sibs = append(sibs, u)
			}
		}
		all := true
		for i, pred := range pb.Preds {
			ec := fi.CtxEdge(pred, pb)
			repls := map[lin.Term]lin.Form{}
			self := false
			for _, u := range sibs {
				ui := fi.terms[u]
				uphi := ui.v.(*ssa.Phi)
				var repl lin.Form
				if ui.kind == tLen {
					repl = ec.LenOf(uphi.Edges[i])
				} else {
					repl = ec.Lin(uphi.Edges[i])
				}
				repls[u] = repl
			}
			// a self-referential edge (loop) cannot be used for the join
			for _, repl := range repls {
				for _, u := range sibs {
					if _, has := repl.Coef[u]; has {
						self = true
					}
				}
			}
			if self {
				all = false
				break
			}
			substAll := func(g lin.Con) lin.Con {
				for _, u := range sibs {
					if _, has := g.F.Coef[u]; has {
						g = substitute(g, u, repls[u])
					}
				}
				return g
			}
			// facts at the obligation point, specialised to this edge
			for _, f := range c.Facts {
				ec.add(substAll(f))
			}
			vacuous := false
			for _, ne := range c.neq {
				d := substAll(lin.Con{F: ne[0].Sub(ne[1])}).F
				if kv, isK := d.ConstVal(); isK && kv.Sign() == 0 {
					vacuous = true
				}
			}
			if vacuous || lin.Infeasible(ec.Facts, fmLimit) {
				continue
			}
			ng := substAll(g)
			ec.Block = nil // no further joins through facts of another point
			if !(ec.Entails(ng) || ec.phiJoin(ng, depth+1)) {
				all = false
				break
			}
		}
		if all {
			return true
		}
	}
	return false
}

func (c *Ctx) reintroduce(t lin.Term) {
	ti := c.FI.terms[t]
	if c.introduced[t] {
		return
	}
	if ti.kind == tLen {
		c.LenOf(ti.v)
		c.lenTermOf(ti.v)
	} else {
		c.Lin(ti.v)
		c.opaque(ti.v)
	}
}

func substitute(g lin.Con, t lin.Term, repl lin.Form) lin.Con {
	f := g.F.Clone()
	k := f.Coef[t]
	delete(f.Coef, t)
	return lin.Con{F: f.Add(repl.Scale(k))}
}

func definedAbove(v ssa.Value, b *ssa.BasicBlock) bool {
	switch x := v.(type) {
	case *ssa.Parameter, *ssa.Const, *ssa.FreeVar, *ssa.Global, *ssa.Function:
		return true
	case ssa.Instruction:
		db := x.Block()
		return db != b && db.Dominates(b)
	}
	return false
}

func (c *Ctx) Describe(g lin.Con) string {
	return g.String(c.FI.TermName)
}

// FactStrings renders the facts connected with g (for reports).
func (c *Ctx) FactStrings(g lin.Con, max int) []string {
	need := map[lin.Term]bool{}
	for t := range g.F.Coef {
		need[t] = true
	}
	var out []string
	for pass := 0; pass < 2; pass++ {
		for _, f := range c.Facts {
			hit := false
			for t := range f.F.Coef {
				if need[t] {
					hit = true
				}
			}
			if hit {
				for t := range f.F.Coef {
					need[t] = true
				}
			}
		}
	}
	seen := map[string]bool{}
	for _, f := range c.Facts {
		hit := false
		for t := range f.F.Coef {
			if need[t] {
				hit = true
			}
		}
		if hit {
			s := f.String(c.FI.TermName)
			if strings.Contains(s, "281474976710656") || seen[s] {
				continue
			}
			seen[s] = true
			out = append(out, s)
			if len(out) >= max {
				break
			}
		}
	}
	return out
}

// joinFacts: for a block with several predecessors that is not a loop header,
// the facts `v >= k` / `v <= k` (v an integer compared with constants in the
// predecessors' branch conditions, k one of those constants) that are entailed
// on every incoming edge.
func (fi *FuncInfo) joinFacts(x *ssa.BasicBlock) []lin.Con {
	if fi.joinC == nil {
		fi.joinC = map[*ssa.BasicBlock][]lin.Con{}
		fi.joinBusy = map[*ssa.BasicBlock]bool{}
	}
	if f, ok := fi.joinC[x]; ok {
		return f
	}
	if fi.joinBusy[x] || len(x.Preds) < 2 || len(x.Preds) > 8 {
		return nil
	}
	for _, p := range x.Preds {
		if x.Dominates(p) {
			fi.joinC[x] = nil
			return nil // loop header: invariants are inferred elsewhere
		}
	}
	fi.joinBusy[x] = true
	defer func() { fi.joinBusy[x] = false }()
	// candidate (value, constant) pairs from the conditions that lead here
	type cand struct {
		v ssa.Value
		k *big.Int
	}
	var cands []cand
	seen := map[string]bool{}
	addCand := func(v ssa.Value, k *big.Int) {
		if _, _, isInt := isIntType(v.Type()); !isInt {
			return
		}
		key := v.Name() + "/" + k.String()
		if !seen[key] {
			seen[key] = true
			cands = append(cands, cand{v, k})
		}
	}
	for _, p := range x.Preds {
		for y, n := p, 0; y != nil && n < 4; y, n = y.Idom(), n+1 {
			iff, ok := y.Instrs[len(y.Instrs)-1].(*ssa.If)
			if !ok {
				continue
			}
			bo, ok := iff.Cond.(*ssa.BinOp)
			if !ok || !isCmp(bo.Op) {
				continue
			}
			if k, isK := constInt(bo.Y); isK {
				addCand(bo.X, k)
			} else if k, isK := constInt(bo.X); isK {
				addCand(bo.Y, k)
			}
		}
	}
	if len(cands) == 0 || len(cands) > 24 {
		fi.joinC[x] = nil
		return nil
	}
	ctxs := make([]*Ctx, len(x.Preds))
	for i, p := range x.Preds {
		ctxs[i] = fi.CtxEdge(p, x)
	}
	var out []lin.Con
	for _, cd := range cands {
		for _, ge := range []bool{true, false} {
			all := true
			var g lin.Con
			for _, c := range ctxs {
				f := c.Lin(cd.v)
				if ge {
					g = lin.GE(f, lin.KB(cd.k))
				} else {
					g = lin.LE(f, lin.KB(cd.k))
				}
				if !c.Entails(g) {
					all = false
					break
				}
			}
			if all {
				out = append(out, g)
			}
		}
	}
	fi.joinC[x] = out
	return out
}
