package prove

import (
	"go/token"
	"math/big"

	"golang.org/x/tools/go/ssa"

	"manticheck/internal/lin"
)

// Congruence of a slice carried round a loop. E1 is linear, so it cannot see
// that in
//
//	rest := data[8 : 8+4*n]
//	for len(rest) != 0 { binary.LittleEndian.Uint32(rest); rest = rest[4:] }
//
// a non-empty rest has at least 4 bytes. The fact used here: len(φ) is a
// multiple of m whenever its value on every entry edge is a linear form whose
// coefficients and constant are all multiples of m (the terms being integers),
// and every back edge re-slices φ itself from a constant multiple of m. Under
// that invariant, len(φ) >= 1 implies len(φ) >= m.

// lenCong returns the largest modulus m in a small family with len(p) ≡ 0
// (mod m) at the loop header p belongs to, or 0.
func (fi *FuncInfo) lenCong(p *ssa.Phi) int64 {
	if fi.congC == nil {
		fi.congC = map[*ssa.Phi]int64{}
	}
	if m, ok := fi.congC[p]; ok {
		return m
	}
	fi.congC[p] = 0
	if !phiIsLen(p) {
		return 0
	}
	hb := p.Block()
	isLoop := false
	for _, pr := range hb.Preds {
		if hb.Dominates(pr) {
			isLoop = true
		}
	}
	if !isLoop {
		return 0
	}
	best := int64(0)
	for _, m := range []int64{2, 3, 4, 6, 8, 12, 16, 20, 24, 32, 64} {
		ok := true
		for i, pr := range hb.Preds {
			e := p.Edges[i]
			if hb.Dominates(pr) {
				// back edge: φ[K:] (possibly through further φ-free re-slices) with m | K
				if !resliceByMultiple(e, p, m) {
					ok = false
				}
				continue
			}
			c := fi.CtxEdge(pr, hb)
			if !divisible(c.LenOf(e), m) {
				ok = false
			}
			if !ok {
				break
			}
		}
		if ok && m > best {
			best = m
		}
	}
	fi.congC[p] = best
	return best
}

func divisible(f lin.Form, m int64) bool {
	bm := big.NewInt(m)
	z := new(big.Int)
	if z.Mod(f.C, bm).Sign() != 0 {
		return false
	}
	for _, k := range f.Coef {
		if z.Mod(k, bm).Sign() != 0 {
			return false
		}
	}
	return true
}

// resliceByMultiple: v is p, or x[K:] with m | K and x such a value.
func resliceByMultiple(v ssa.Value, p *ssa.Phi, m int64) bool {
	for d := 0; d < 8; d++ {
		if v == ssa.Value(p) {
			return true
		}
		sl, ok := v.(*ssa.Slice)
		if !ok || sl.High != nil || sl.Max != nil || sl.Low == nil {
			return false
		}
		k, isK := constInt(sl.Low)
		if !isK || !k.IsInt64() || k.Int64() < 0 || k.Int64()%m != 0 {
			return false
		}
		v = sl.X
	}
	return false
}

// congStrengthen: after a comparison involving len(φ) was assumed, a length
// known to be positive and a multiple of m is at least m.
func (c *Ctx) congStrengthen(x *ssa.BinOp) {
	for _, side := range []ssa.Value{x.X, x.Y} {
		call, ok := side.(*ssa.Call)
		if !ok {
			continue
		}
		bi, ok := call.Call.Value.(*ssa.Builtin)
		if !ok || bi.Name() != "len" {
			continue
		}
		p, ok := call.Call.Args[0].(*ssa.Phi)
		if !ok {
			continue
		}
		m := c.FI.lenCong(p)
		if m < 2 {
			continue
		}
		l := c.LenOf(p)
		if c.Entails(lin.GE(l, lin.K(1))) {
			c.add(lin.GE(l, lin.K(m)))
		}
	}
}

var _ = token.ADD
