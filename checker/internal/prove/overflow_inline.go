package prove

// Overflow mode: summaries of PURE ARITHMETIC helpers of the module.
//
// "Extract function" applied to a conversion leaves shapes such as
//
//	func splitIntervals(v int64) (int64, int64) { return v / perSecond, v % perSecond }
//	func inRange(s int64) bool                  { return s >= -epoch && s <= limit }
//
// whose results Lin() sees as opaque full-range call results and whose truth
// says nothing to assume(). A helper is summarised here only when its body
// computes and nothing else: integer/boolean parameters, no loads, stores or
// calls (the min/max builtins excepted), no loops. It is then read in the
// caller's context with its parameters bound to the linear forms of the
// arguments:
//
//   - single-block helper with integer results: result_i = the returned
//     expression (an equality fact), with the division/remainder facts of the
//     helper's own instructions;
//   - boolean helper whose truth is known at the site (a dominating branch): if
//     exactly one return / φ-edge can produce that truth value, the comparison
//     it returns and the branch conditions dominating it inside the helper
//     hold (this is `a && b` known true, `a || b` known false, and the
//     early-return spellings of both).
//
// The helper's SSA values are shared by all its calls, so a helper is bound at
// most once per context: when the function under analysis calls it with two
// different argument tuples, no summary is used (the site is then decided without it, never wrongly with
// it). Arithmetic INSIDE the helper stays an overflow site of its own.

import (
	"go/token"
	"go/types"

	"golang.org/x/tools/go/ssa"

	"manticheck/internal/lin"
)

// pureArith: fn only computes on its integer/boolean parameters.
func pureArith(fn *ssa.Function) bool {
	if fn == nil || fn.Blocks == nil || len(fn.FreeVars) != 0 || fn.Recover != nil {
		return false
	}
	okT := func(t types.Type) bool {
		if _, _, ok := isIntType(t); ok {
			return true
		}
		b, ok := t.Underlying().(*types.Basic)
		return ok && b.Kind() == types.Bool
	}
	for _, p := range fn.Params {
		if !okT(p.Type()) {
			return false
		}
	}
	if len(fn.Blocks) > 12 {
		return false
	}
	for _, b := range fn.Blocks {
		for _, s := range b.Succs {
			if s.Index <= b.Index && s.Dominates(b) {
				return false // loop
			}
		}
		for _, in := range b.Instrs {
			switch x := in.(type) {
			case *ssa.BinOp, *ssa.Convert, *ssa.ChangeType, *ssa.Phi, *ssa.If, *ssa.Jump, *ssa.Return, *ssa.DebugRef:
			case *ssa.UnOp:
				if x.Op != token.NOT && x.Op != token.SUB && x.Op != token.XOR {
					return false
				}
			case *ssa.Call:
				bi, ok := x.Call.Value.(*ssa.Builtin)
				if !ok || (bi.Name() != "min" && bi.Name() != "max") {
					return false
				}
			default:
				return false
			}
			if v, ok := in.(ssa.Value); ok {
				if _, isTuple := v.Type().(*types.Tuple); !isTuple && !okT(v.Type()) {
					return false
				}
			}
		}
	}
	return true
}

// helperPlan: the calls of pure helpers that may be summarised in one context.
type helperPlan struct {
	order []*ssa.Call                 // in block/instruction order
	calls map[*ssa.Call]*ssa.Function // bindable call → callee
	done  map[*ssa.Function]bool      // parameters bound
	said  map[*ssa.Call]bool          // results stated
	bound map[*ssa.Function][]*ssa.Call
}

// planHelpers selects the pure helpers the function calls with one argument
// tuple only. Nothing is evaluated yet: a binding reads the linear forms of the
// arguments, which must see the facts of the instructions before the call
// (seedFactsPlan binds each call when the walk reaches it).
func (c *Ctx) planHelpers(inModule func(*ssa.Function) bool) *helperPlan {
	fn := c.FI.Fn
	pl := &helperPlan{calls: map[*ssa.Call]*ssa.Function{}, done: map[*ssa.Function]bool{}, said: map[*ssa.Call]bool{}, bound: map[*ssa.Function][]*ssa.Call{}}
	first := map[*ssa.Function]*ssa.Call{}
	all := map[*ssa.Function][]*ssa.Call{}
	bad := map[*ssa.Function]bool{}
	var callees []*ssa.Function
	for _, b := range fn.Blocks {
		for _, in := range b.Instrs {
			call, ok := in.(*ssa.Call)
			if !ok || call.Common().IsInvoke() {
				continue
			}
			g := call.Common().StaticCallee()
			if g == nil || g == fn {
				continue
			}
			all[g] = append(all[g], call)
			if first[g] == nil {
				first[g] = call
				callees = append(callees, g)
				continue
			}
			// a second call with the very same SSA arguments computes the very
			// same values: it shares the binding
			same := len(call.Common().Args) == len(first[g].Common().Args)
			for i := 0; same && i < len(call.Common().Args); i++ {
				same = call.Common().Args[i] == first[g].Common().Args[i]
			}
			if !same {
				bad[g] = true
			}
		}
	}
	for _, g := range callees {
		if bad[g] || !inModule(g) || !pureArith(g) || len(first[g].Common().Args) != len(g.Params) {
			continue
		}
		for _, call := range all[g] {
			pl.calls[call] = g
		}
		pl.bound[g] = all[g]
	}
	for _, b := range fn.Blocks {
		for _, in := range b.Instrs {
			if call, ok := in.(*ssa.Call); ok && pl.calls[call] != nil {
				pl.order = append(pl.order, call)
			}
		}
	}
	return pl
}

// bindCall binds the helper's parameters to the arguments (first call) and
// states the integer results of a single-block helper for this call.
func (c *Ctx) bindCall(pl *helperPlan, call *ssa.Call) {
	g := pl.calls[call]
	if g == nil || pl.said[call] {
		return
	}
	pl.said[call] = true
	single := len(g.Blocks) == 1
	var ret *ssa.Return
	if single {
		blk := g.Blocks[0]
		ret, _ = blk.Instrs[len(blk.Instrs)-1].(*ssa.Return)
	}
	if !pl.done[g] {
		pl.done[g] = true
		args := call.Common().Args
		for i, p := range g.Params {
			if _, _, ok := isIntType(p.Type()); ok {
				c.linC[p] = c.Lin(args[i])
			}
		}
		if ret != nil {
			for _, in := range g.Blocks[0].Instrs {
				c.seedInstr(in)
			}
		}
	}
	if ret == nil {
		return
	}
	state := func(res ssa.Value, rv ssa.Value) {
		if _, _, ok := isIntType(res.Type()); !ok {
			return
		}
		c.add(lin.EQ(c.Lin(res), c.Lin(rv))...)
	}
	if len(ret.Results) == 1 {
		state(call, ret.Results[0])
	} else if refs := call.Referrers(); refs != nil {
		for _, r := range *refs {
			if ex, ok := r.(*ssa.Extract); ok && ex.Index < len(ret.Results) {
				state(ex, ret.Results[ex.Index])
			}
		}
	}
}

// helperTruth adds what the known truth of a bound boolean helper implies.
func (c *Ctx) helperTruth(pl *helperPlan) {
	bound := pl.bound
	type kt struct {
		call  *ssa.Call
		truth bool
	}
	var todo []kt
	for v, truth := range c.boolTrue {
		call, ok := v.(*ssa.Call)
		if !ok || call.Common().IsInvoke() {
			continue
		}
		g := call.Common().StaticCallee()
		if g == nil {
			continue
		}
		isBound := false
		for _, bc := range bound[g] {
			isBound = isBound || bc == call
		}
		if !isBound {
			continue
		}
		todo = append(todo, kt{call, truth})
	}
	for _, k := range todo {
		g := k.call.Common().StaticCallee()
		// the returns that can produce the known truth value
		var cands []*ssa.Return
		for _, b := range g.Blocks {
			if ret, ok := b.Instrs[len(b.Instrs)-1].(*ssa.Return); ok && len(ret.Results) == 1 {
				if kv, isK := boolConst(ret.Results[0]); isK && kv != k.truth {
					continue
				}
				cands = append(cands, ret)
			}
		}
		if len(cands) != 1 {
			continue
		}
		ret := cands[0]
		c.addDominating(ret.Block())
		c.impliedBy(ret.Results[0], k.truth, 0)
	}
}

func boolConst(v ssa.Value) (val, ok bool) {
	k, isK := v.(*ssa.Const)
	if !isK || k.Value == nil {
		return false, false
	}
	b, isB := k.Type().Underlying().(*types.Basic)
	if !isB || b.Kind() != types.Bool && b.Kind() != types.UntypedBool {
		return false, false
	}
	return k.Value.String() == "true", true
}

// impliedBy: boolean value v (of a bound helper) is known to be `truth`.
func (c *Ctx) impliedBy(v ssa.Value, truth bool, depth int) {
	if depth > 6 {
		return
	}
	switch x := v.(type) {
	case *ssa.Phi:
		idx := -1
		for i, e := range x.Edges {
			if kv, isK := boolConst(e); isK && kv != truth {
				continue
			}
			if idx >= 0 {
				return // two edges can produce it: a disjunction, nothing to add
			}
			idx = i
		}
		if idx < 0 {
			return
		}
		pred := x.Block().Preds[idx]
		c.addDominating(pred)
		c.addEdge(pred, x.Block())
		c.impliedBy(x.Edges[idx], truth, depth+1)
	case *ssa.Const:
	default:
		c.assume(v, truth) // comparisons and !x
	}
}
