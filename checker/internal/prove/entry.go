package prove

import (
	"fmt"
	"os"
	"strings"
	"go/token"
	"go/types"
	"math/big"
	"sort"

	"golang.org/x/tools/go/ssa"

	"manticheck/internal/lin"
)

// Entry facts (fact 13): preconditions of UNEXPORTED functions inferred from
// their call sites. A function whose name is not exported and whose value is
// never taken (it only occurs as the static callee of call/go/defer
// instructions of this module) can be entered only through those call sites;
// a candidate constraint over its parameters that is PROVED in the context of
// every call site therefore holds on entry. Candidates (Houdini family):
//
//	p >= 0                      int parameter p
//	len(q) >= K                 slice/string parameter q, K a constant of the function
//	p + K <= len(q)             int parameter p, slice parameter q, K as above or 0
//	p1 <= p2                    two int parameters
//
// This is what makes a bounds proof survive "extract helper": the guard stays
// in the caller, the read moves into the helper.

type entryFact struct {
	kind  byte // 'n' p>=0, 'l' len(q)>=K, 's' p+K<=len(q), 'o' p1<=p2
	p, q  int  // parameter indices
	k     int64
	descr string
}

type callIndex struct {
	sites   map[*ssa.Function][]ssa.CallInstruction
	escaped map[*ssa.Function]bool
}

func (w *World) callIdx() *callIndex {
	if w.calls != nil {
		return w.calls
	}
	ci := &callIndex{sites: map[*ssa.Function][]ssa.CallInstruction{}, escaped: map[*ssa.Function]bool{}}
	for _, fn := range w.P.SrcFuncs() {
		var visit func(f *ssa.Function)
		visit = func(f *ssa.Function) {
			for _, b := range f.Blocks {
				for _, in := range b.Instrs {
					var callee *ssa.Function
					if c, ok := in.(ssa.CallInstruction); ok {
						callee = c.Common().StaticCallee()
						if callee != nil && !c.Common().IsInvoke() {
							if _, isClosure := c.Common().Value.(*ssa.MakeClosure); !isClosure {
								ci.sites[callee] = append(ci.sites[callee], c)
							}
						}
					}
					for _, op := range in.Operands(nil) {
						if g, ok := (*op).(*ssa.Function); ok {
							if c, isCall := in.(ssa.CallInstruction); isCall && c.Common().Value == ssa.Value(g) && callee == g {
								// the callee position itself; arguments are checked below
								isArg := false
								for _, a := range c.Common().Args {
									if a == ssa.Value(g) {
										isArg = true
									}
								}
								if !isArg {
									continue
								}
							}
							ci.escaped[g] = true
						}
					}
				}
			}
			for _, a := range f.AnonFuncs {
				visit(a)
			}
		}
		visit(fn)
	}
	w.calls = ci
	return ci
}

func unexportedFunc(fn *ssa.Function) bool {
	if fn.Parent() != nil || fn.Synthetic != "" {
		return false
	}
	obj, ok := fn.Object().(*types.Func)
	if !ok || obj == nil {
		return false
	}
	return !obj.Exported()
}

// EntryFacts returns the inferred preconditions of fn (nil for exported
// functions, function values, functions without in-module call sites).
func (w *World) EntryFacts(fn *ssa.Function) []entryFact {
	if ef, ok := w.entryC[fn]; ok {
		return ef
	}
	w.entryC[fn] = nil // in progress / default: nothing (recursion is cut here)
	if fn.Blocks == nil || !unexportedFunc(fn) || !w.P.InModule(fn) {
		return nil
	}
	// examined while a conditional postcondition is still being computed, the call
	// sites see that postcondition as empty: the result is then not cached
	tainted := w.condBusy > 0
	ci := w.callIdx()
	sites := ci.sites[fn]
	if len(sites) == 0 || ci.escaped[fn] {
		return nil
	}
	// constants of the function
	ks := map[int64]bool{0: true, 1: true} // 1: an access at index 0 needs one element
	for _, b := range fn.Blocks {
		for _, in := range b.Instrs {
			for _, op := range in.Operands(nil) {
				if k, ok := (*op).(*ssa.Const); ok {
					if v, ok := constInt(k); ok && v.IsInt64() {
						n := v.Int64()
						if n > 0 && n <= 4096 {
							ks[n] = true
							ks[n+1] = true
						}
					}
				}
			}
			// sums of constant slice bounds: p+K expressions contribute K
			if bo, ok := in.(*ssa.BinOp); ok && bo.Op == token.ADD {
				if v, ok := constInt(bo.Y); ok && v.IsInt64() && v.Int64() > 0 && v.Int64() <= 4096 {
					ks[v.Int64()] = true
				}
			}
		}
	}
	var consts []int64
	for k := range ks {
		consts = append(consts, k)
	}
	sort.Slice(consts, func(i, j int) bool { return consts[i] < consts[j] })
	var ints, seqs []int
	for i, p := range fn.Params {
		if _, signed, ok := isIntType(p.Type()); ok && signed {
			ints = append(ints, i)
		} else if isSeq(p.Type()) {
			seqs = append(seqs, i)
		}
	}
	var cands []entryFact
	for _, p := range ints {
		cands = append(cands, entryFact{kind: 'n', p: p})
		cands = append(cands, entryFact{kind: 'P', p: p}) // p >= 1 (a stride, a width, a count of at least one)
		cands = append(cands, entryFact{kind: 'U', p: p}) // p <= 2^31 (sums with an index cannot overflow)
	}
	for _, q := range seqs {
		for _, k := range consts {
			if k > 0 {
				cands = append(cands, entryFact{kind: 'l', q: q, k: k})
			}
		}
	}
	for _, p := range ints {
		for _, q := range seqs {
			for _, k := range consts {
				cands = append(cands, entryFact{kind: 's', p: p, q: q, k: k})
			}
		}
	}
	for _, p1 := range ints {
		for _, p2 := range ints {
			if p1 != p2 {
				cands = append(cands, entryFact{kind: 'o', p: p1, q: p2})
			}
		}
	}
	for _, q1 := range seqs {
		for _, q2 := range seqs {
			if q1 != q2 {
				cands = append(cands, entryFact{kind: 'L', p: q1, q: q2}) // len(q1) >= len(q2): a destination at least as long as its source
			}
		}
	}
	if len(cands) == 0 {
		return nil
	}
	alive := make([]bool, len(cands))
	for i := range alive {
		alive[i] = true
	}
	for _, site := range sites {
		caller := site.Parent()
		if caller == nil || caller.Blocks == nil {
			return nil
		}
		args := site.Common().Args
		if len(args) != len(fn.Params) {
			return nil
		}
		if _, isGo := site.(*ssa.Go); isGo {
			// arguments are evaluated at the go statement: same treatment
		}
		cfi := w.Info(caller)
		ctx := cfi.ctxBefore(site)
		for i, cd := range cands {
			if !alive[i] {
				continue
			}
			var g lin.Con
			switch cd.kind {
			case 'n':
				g = lin.GE0(ctx.Lin(args[cd.p]))
			case 'P':
				g = lin.GE(ctx.Lin(args[cd.p]), lin.K(1))
			case 'U':
				g = lin.LE(ctx.Lin(args[cd.p]), lin.K(1<<31))
			case 'L':
				g = lin.GE(ctx.LenOf(args[cd.p]), ctx.LenOf(args[cd.q]))
			case 'l':
				g = lin.GE(ctx.LenOf(args[cd.q]), lin.K(cd.k))
			case 's':
				g = lin.LE(ctx.Lin(args[cd.p]).AddK(cd.k), ctx.LenOf(args[cd.q]))
			case 'o':
				g = lin.LE(ctx.Lin(args[cd.p]), ctx.Lin(args[cd.q]))
			}
			if !ctx.Prove(g) {
				alive[i] = false
				if os.Getenv("MANTICHECK_DEBUG_ENTRY") == "2" {
					fmt.Fprintf(os.Stderr, "entry cand %c(p%d) of %s dies at %s: goal %s facts %v\n", cd.kind, cd.p, fn.Name(), caller.Name(), ctx.Describe(g), ctx.FactStrings(g, 14))
				}
			}
		}
	}
	var out []entryFact
	for i, cd := range cands {
		if alive[i] {
			out = append(out, cd)
		}
	}
	// keep only the strongest of each family (largest K)
	w.entryC[fn] = out
	if tainted {
		delete(w.entryC, fn)
		return out
	}
	if len(out) > 0 {
		// while the call sites were being examined, summaries and loop invariants of
		// fn (and of its callers) may have been computed WITHOUT these facts and
		// cached: forget them, they are recomputed with the facts on next use
		w.forget(fn)
		for _, site := range sites {
			if caller := site.Parent(); caller != nil {
				w.forget(caller)
			}
		}
	}
	if os.Getenv("MANTICHECK_DEBUG_ENTRY") != "" {
		fmt.Fprintf(os.Stderr, "entry facts %s: %d sites, %d/%d candidates alive:", fn.String(), len(sites), len(out), len(cands))
		for _, o := range out {
			fmt.Fprintf(os.Stderr, " %c(p%d,q%d,k%d)", o.kind, o.p, o.q, o.k)
		}
		fmt.Fprintln(os.Stderr)
	}
	return out
}

func isSeq(t types.Type) bool {
	switch u := t.Underlying().(type) {
	case *types.Slice:
		return true
	case *types.Basic:
		return u.Info()&types.IsString != 0
	}
	return false
}

// addEntryFacts puts the inferred preconditions of the function into a context.
func (c *Ctx) addEntryFacts() {
	fn := c.FI.Fn
	efs := c.FI.W.EntryFacts(fn)
	if len(efs) == 0 {
		return
	}
	for _, ef := range efs {
		switch ef.kind {
		case 'n':
			c.add(lin.GE0(c.Lin(fn.Params[ef.p])))
		case 'P':
			c.add(lin.GE(c.Lin(fn.Params[ef.p]), lin.K(1)))
		case 'U':
			c.add(lin.LE(c.Lin(fn.Params[ef.p]), lin.K(1<<31)))
		case 'L':
			c.add(lin.GE(c.LenOf(fn.Params[ef.p]), c.LenOf(fn.Params[ef.q])))
		case 'l':
			c.add(lin.GE(c.LenOf(fn.Params[ef.q]), lin.K(ef.k)))
		case 's':
			c.add(lin.LE(c.Lin(fn.Params[ef.p]).AddK(ef.k), c.LenOf(fn.Params[ef.q])))
		case 'o':
			c.add(lin.LE(c.Lin(fn.Params[ef.p]), c.Lin(fn.Params[ef.q])))
		}
	}
	c.FI.W.EntryUsed[c.FI.W.P.FuncName(fn)] = len(efs)
}

var _ = big.NewInt

// forget drops the cached loop invariants of fn and every cached summary keyed
// by fn (sound to drop at any time when fn's invariant computation is not in
// progress: they are recomputed on demand).
func (w *World) forget(fn *ssa.Function) {
	if fi := w.fi[fn]; fi != nil {
		if len(fi.invStack) > 0 {
			return
		}
		fi.invC = map[*ssa.Phi][]invariant{}
		fi.hdrDone = map[*ssa.BasicBlock]bool{}
		fi.provisional = map[*ssa.BasicBlock][]*ssa.BasicBlock{}
		fi.invBusy = map[ssa.Value]bool{}
	}
	pre := fn.String() + "#"
	for k := range w.nonNeg {
		if strings.HasPrefix(k, pre) {
			delete(w.nonNeg, k)
		}
	}
	for k := range w.lenRelC {
		if strings.HasPrefix(k, pre) {
			delete(w.lenRelC, k)
		}
	}
	for k := range w.intLenC {
		if strings.HasPrefix(k, pre) {
			delete(w.intLenC, k)
		}
	}
	for k := range w.condC {
		if strings.HasPrefix(k, pre) {
			delete(w.condC, k)
		}
	}
}
