package prove

import (
	"go/token"
	"go/types"
	"strconv"
	"strings"

	"golang.org/x/tools/go/ssa"
)

// Available loads (fact 5). go/ssa has no CSE: `c.F` is re-loaded at every use.
// loadRep maps a load to a representative value (an earlier load of the same
// location, or the value last stored to it) such that on every path between the
// two no instruction may write the location.

// addrKey gives a canonical name to an address, or "" if it has none.
func (fi *FuncInfo) addrKey(a ssa.Value) string {
	switch x := a.(type) {
	case *ssa.FieldAddr:
		b := fi.baseKey(x.X)
		if b == "" {
			return ""
		}
		return b + ".f" + itoa(x.Field)
	case *ssa.IndexAddr:
		if k, ok := constInt(x.Index); ok {
			b := fi.baseKey(x.X)
			if b == "" {
				return ""
			}
			return b + "[" + k.String() + "]"
		}
		return ""
	case *ssa.Alloc, *ssa.FreeVar, *ssa.Global:
		return "cell:" + a.Name() + "/" + posKey(a)
	}
	return ""
}

func itoa(i int) string { return strconv.Itoa(i) }

func (fi *FuncInfo) baseKey(v ssa.Value) string {
	switch x := v.(type) {
	case *ssa.Parameter:
		return "p:" + x.Name()
	case *ssa.FreeVar:
		return "fv:" + x.Name()
	case *ssa.Alloc:
		return "a:" + x.Name()
	case *ssa.Global:
		return "g:" + x.String()
	case *ssa.FieldAddr:
		return fi.addrKey(x)
	case *ssa.IndexAddr:
		return fi.addrKey(x)
	case *ssa.UnOp:
		if x.Op == token.MUL {
			rep := fi.loadRep(x)
			if rep != ssa.Value(x) {
				return fi.baseKey(rep)
			}
			k := fi.addrKey(x.X)
			if k == "" {
				return "v:" + x.Name()
			}
			return "*(" + k + ")@" + x.Name()
		}
	case *ssa.Call, *ssa.Extract, *ssa.Phi, *ssa.MakeSlice, *ssa.Slice:
		return "v:" + x.Name()
	}
	return ""
}

// killClass describes what would overwrite the location behind address a.
type killClass struct {
	storeKey string // as produced by storeKey()
	cell     ssa.Value
	elemT    types.Type
	structT  types.Type
}

func classify(a ssa.Value) killClass {
	kc := killClass{storeKey: storeKey(a), elemT: derefT(a.Type())}
	switch x := a.(type) {
	case *ssa.FieldAddr:
		kc.structT = derefT(x.X.Type())
	case *ssa.Alloc, *ssa.FreeVar, *ssa.Global:
		kc.cell = a
	}
	return kc
}

// cellEscapes reports whether a local cell's address is used for anything but
// loads, stores to it, and closure capture.
func cellEscapes(cell ssa.Value) bool {
	refs := cell.Referrers()
	if refs == nil {
		return true // globals: assume the worst
	}
	for _, r := range *refs {
		switch x := r.(type) {
		case *ssa.Store:
			if x.Addr != cell {
				return true
			}
		case *ssa.UnOp:
			if x.Op != token.MUL {
				return true
			}
		case *ssa.MakeClosure, *ssa.DebugRef:
		default:
			return true
		}
	}
	return false
}

// mayKill reports whether instruction in may write the location described by kc
// (address a).
func (fi *FuncInfo) mayKill(in ssa.Instruction, a ssa.Value, kc killClass) bool {
	switch x := in.(type) {
	case *ssa.Store:
		if x.Addr == a {
			return true
		}
		sk := storeKey(x.Addr)
		if kc.cell != nil {
			if sk == kc.storeKey {
				return true
			}
			// a store through an arbitrary pointer can hit the cell only if the cell escapes
			if strings.HasPrefix(sk, "P:") && cellEscapes(kc.cell) && types.Identical(derefT(x.Addr.Type()), kc.elemT) {
				return true
			}
			return false
		}
		if sk == kc.storeKey {
			return true
		}
		if strings.HasPrefix(sk, "P:") && types.Identical(derefT(x.Addr.Type()), kc.elemT) {
			return true
		}
		// whole-struct store (*p = T{…}) overwrites the field
		if kc.structT != nil && types.Identical(derefT(x.Addr.Type()), kc.structT) {
			return true
		}
		return false
	case ssa.CallInstruction:
		return fi.callMayKill(x, a, kc)
	}
	return false
}

func (fi *FuncInfo) callMayKill(call ssa.CallInstruction, a ssa.Value, kc killClass) bool {
	cc := call.Common()
	if b, ok := cc.Value.(*ssa.Builtin); ok {
		_ = b
		return false // len, cap, append, copy, … never write struct fields or cells (copy writes elements only)
	}
	if privateLocal(a) {
		return false // a field of a local struct whose address never leaves this function
	}
	callees := fi.W.CalleesOf(call)
	known := len(callees) > 0
	if cc.IsInvoke() && !known {
		// interface method implemented outside the module
		return fi.argsExpose(cc, a, kc)
	}
	if !known {
		// dynamic function value of unknown origin: may run any closure of this tree
		if kc.cell != nil {
			return true
		}
		return true
	}
	for _, f := range callees {
		ms := fi.W.ModSet(f)
		if ms == nil {
			// outside the module (stdlib / dependency)
			if fi.argsExpose(cc, a, kc) {
				return true
			}
			continue
		}
		if kc.cell != nil {
			if ms[kc.storeKey] {
				return true
			}
			if fv, ok := kc.cell.(*ssa.FreeVar); ok {
				// inside a closure: callee (sibling closure or parent) may write the parent's cell; be conservative
				if sameTree(f, fi.Fn) && f != fi.Fn {
					_ = fv
					if anyCellStore(ms) {
						return true
					}
				}
			}
			if cellEscapes(kc.cell) && ms["P:"+types.TypeString(kc.elemT, nil)] {
				return true
			}
			continue
		}
		if ms[kc.storeKey] || ms["P:"+types.TypeString(kc.elemT, nil)] {
			return true
		}
		if kc.structT != nil && ms["P:"+types.TypeString(kc.structT, nil)] {
			return true
		}
	}
	return false
}

func anyCellStore(ms map[string]bool) bool {
	for k := range ms {
		if strings.HasPrefix(k, "C:") {
			return true
		}
	}
	return false
}

// argsExpose: an external callee can write the location only through a pointer
// it is handed.
func (fi *FuncInfo) argsExpose(cc *ssa.CallCommon, a ssa.Value, kc killClass) bool {
	args := cc.Args
	if cc.IsInvoke() {
		args = append([]ssa.Value{cc.Value}, args...)
	}
	for _, arg := range args {
		if mi, ok := arg.(*ssa.MakeInterface); ok {
			arg = mi.X
		}
		if arg == a {
			return true
		}
		t := arg.Type().Underlying()
		switch u := t.(type) {
		case *types.Pointer:
			e := u.Elem()
			if types.Identical(e, kc.elemT) && !isBasicNonPtr(arg, a) {
				return true
			}
			if kc.structT != nil && (types.Identical(e, kc.structT) || containsType(e, kc.structT, 0)) {
				return true
			}
		case *types.Interface:
			// an interface value of unknown dynamic type
			if _, isConst := arg.(*ssa.Const); !isConst {
				if kc.cell != nil && !cellEscapes(kc.cell) {
					continue
				}
				if isErrorLike(arg) {
					continue
				}
				return true
			}
		case *types.Signature:
			if kc.cell != nil {
				return true // a closure passed to the callee may write captured cells
			}
		}
	}
	return false
}

func isBasicNonPtr(arg, a ssa.Value) bool { return false }

func isErrorLike(v ssa.Value) bool {
	return types.TypeString(v.Type(), nil) == "error"
}

func containsType(t, target types.Type, depth int) bool {
	if depth > 4 {
		return false
	}
	if types.Identical(t, target) {
		return true
	}
	if st, ok := t.Underlying().(*types.Struct); ok {
		for i := 0; i < st.NumFields(); i++ {
			if containsType(st.Field(i).Type(), target, depth+1) {
				return true
			}
		}
	}
	return false
}

// reachAvoid: can control go from just after instruction `from` to instruction
// `to` without executing `avoid` in between? Used as: is there a killing
// instruction K with path rep → K → load that does not pass rep again.
func (fi *FuncInfo) pathExists(from, to, avoid ssa.Instruction) bool {
	fb, tb := from.Block(), to.Block()
	fiX, tiX := fi.idx[from], fi.idx[to]
	avB := avoid.Block()
	avI := fi.idx[avoid]
	// same block, forward
	if fb == tb && fiX < tiX {
		if !(avB == fb && avI > fiX && avI < tiX) {
			return true
		}
	}
	// leave from's block (suffix after from must not contain avoid)
	if avB == fb && avI > fiX {
		return false
	}
	seen := map[*ssa.BasicBlock]bool{}
	work := append([]*ssa.BasicBlock(nil), fb.Succs...)
	for len(work) > 0 {
		b := work[len(work)-1]
		work = work[:len(work)-1]
		if seen[b] {
			continue
		}
		seen[b] = true
		limit := len(b.Instrs)
		if b == avB {
			limit = avI
		}
		if b == tb && tiX < limit {
			return true
		}
		if b == avB {
			continue // cannot pass avoid
		}
		work = append(work, b.Succs...)
	}
	return false
}

func dominatesInstr(fi *FuncInfo, a, b ssa.Instruction) bool {
	if a.Block() == b.Block() {
		return fi.idx[a] < fi.idx[b]
	}
	return a.Block().Dominates(b.Block())
}

// loadRep returns the representative value of a load.
func (fi *FuncInfo) loadRep(u *ssa.UnOp) ssa.Value {
	if r, ok := fi.loadRepC[u]; ok {
		return r
	}
	fi.loadRepC[u] = u // provisional (breaks recursion)
	r := fi.loadRep1(u)
	fi.loadRepC[u] = r
	return r
}

func (fi *FuncInfo) loadRep1(u *ssa.UnOp) ssa.Value {
	key := fi.addrKey(u.X)
	if key == "" {
		return u
	}
	if r := fi.valueAt(u.X, key, u, u); r != nil {
		return r
	}
	return u
}

// FieldValueAt: the value that field #field of the object base points to holds
// immediately before instruction at (the value last stored to it, or an earlier
// load of it, with no possible write in between), or nil. Used to evaluate a
// callee's read of a receiver field in the caller's frame.
func (fi *FuncInfo) FieldValueAt(base ssa.Value, field int, at ssa.Instruction) ssa.Value {
	bk := fi.baseKey(base)
	if bk == "" {
		return nil
	}
	key := bk + ".f" + itoa(field)
	// an address expression of this function with that key (for the kill class)
	var addr ssa.Value
	for _, b := range fi.Fn.Blocks {
		for _, in := range b.Instrs {
			if fa, ok := in.(*ssa.FieldAddr); ok && fa.Field == field && fi.addrKey(fa) == key {
				addr = fa
			}
		}
	}
	if addr == nil {
		return nil
	}
	return fi.valueAt(addr, key, at, nil)
}

// valueAt: representative value of location (addr, key) just before `at`;
// self is the load instruction being resolved (excluded from candidates), or nil.
func (fi *FuncInfo) valueAt(addr ssa.Value, key string, at ssa.Instruction, self *ssa.UnOp) ssa.Value {
	u := at
	kc := classify(addr)
	// candidates: earlier loads and stores of the same key that dominate u
	type cand struct {
		in  ssa.Instruction
		val ssa.Value
	}
	var cands []cand
	for _, b := range fi.Fn.Blocks {
		if !(b == u.Block() || b.Dominates(u.Block())) {
			continue
		}
		for _, in := range b.Instrs {
			if in == u {
				break
			}
			switch x := in.(type) {
			case *ssa.UnOp:
				if x.Op == token.MUL && x != self && dominatesInstr(fi, x, u) && fi.addrKey(x.X) == key {
					cands = append(cands, cand{x, x})
				}
			case *ssa.Store:
				if dominatesInstr(fi, x, u) && fi.addrKey(x.Addr) == key {
					cands = append(cands, cand{x, x.Val})
				} else if fa, isF := addr.(*ssa.FieldAddr); isF && x.Addr == fa.X && dominatesInstr(fi, x, u) {
					// whole-object store `*obj = *lit` (a composite literal built in a temporary):
					// the field's value is what the literal's field held at that point
					if ld, isLd := x.Val.(*ssa.UnOp); isLd && ld.Op == token.MUL {
						if src, isAl := ld.X.(*ssa.Alloc); isAl {
							if v := fi.FieldValueAt(src, fa.Field, x); v != nil {
								cands = append(cands, cand{x, v})
							}
						}
					}
				}
			}
		}
	}
	if len(cands) == 0 {
		return nil
	}
	// killers in the function
	var killers []ssa.Instruction
	for _, b := range fi.Fn.Blocks {
		for _, in := range b.Instrs {
			if fi.mayKill(in, addr, kc) {
				killers = append(killers, in)
			}
		}
	}
	// nearest candidate first (latest in dominance order)
	for i := len(cands) - 1; i >= 0; i-- {
		cd := cands[i]
		killed := false
		for _, k := range killers {
			if k == cd.in {
				continue // the store that defines the value
			}
			// is there a path cd → k → u that does not re-execute cd ?
			if fi.pathExists(cd.in, k, cd.in) && fi.pathExists(k, u, cd.in) {
				killed = true
				break
			}
		}
		if !killed {
			if l, ok := cd.val.(*ssa.UnOp); ok && l.Op == token.MUL && cd.in == ssa.Instruction(l) {
				return fi.loadRep(l)
			}
			return cd.val
		}
		// a killed nearest candidate means farther ones are killed too, unless the killer lies before it; keep scanning
	}
	return nil
}

// privateLocal: a is &L.f (possibly nested) for a local variable L whose
// address is used only to load, store and take such field addresses — no call,
// closure or pointer copy can reach it, so no callee can write it.
func privateLocal(a ssa.Value) bool {
	fa, ok := a.(*ssa.FieldAddr)
	if !ok {
		return false
	}
	base := fa.X
	for {
		if f2, ok := base.(*ssa.FieldAddr); ok {
			base = f2.X
			continue
		}
		break
	}
	al, ok := base.(*ssa.Alloc)
	if !ok {
		return false
	}
	var private func(v ssa.Value, d int) bool
	private = func(v ssa.Value, d int) bool {
		refs := v.Referrers()
		if refs == nil || d > 4 {
			return false
		}
		for _, r := range *refs {
			switch x := r.(type) {
			case *ssa.Store:
				if x.Addr != v {
					return false // the address itself is stored somewhere
				}
			case *ssa.UnOp:
				if x.Op != token.MUL {
					return false
				}
			case *ssa.FieldAddr:
				if !private(x, d+1) {
					return false
				}
			case *ssa.DebugRef:
			default:
				return false
			}
		}
		return true
	}
	return private(al, 0)
}
