package prove

import (
	"go/token"
	"go/types"
	"math/big"

	"golang.org/x/tools/go/ssa"

	"manticheck/internal/lin"
)

// Read-only literal maps. A package-level `var tbl = map[K]V{k1: v1, …}` with
// integer keys and values that no function of the module writes (no store of
// the variable outside its initialiser, no m[k] = v, no delete, the map value
// is never handed to a call) is a constant table: in a context that proves
// key == ki, the lookup tbl[key] is vi; a key proved different from every ki
// yields the zero value. The context resolves such lookups after all dominating
// facts are known (the equality usually comes from a switch case deeper in the
// dominator tree than the guard that used the looked-up value).

type constMapInfo struct {
	ok   bool
	keys []*big.Int
	vals []*big.Int
}

func (w *World) constMap(g *ssa.Global) *constMapInfo {
	if w.constMaps == nil {
		w.constMaps = map[*ssa.Global]*constMapInfo{}
	}
	if ci, ok := w.constMaps[g]; ok {
		return ci
	}
	ci := &constMapInfo{}
	w.constMaps[g] = ci
	mt, isMap := g.Type().Underlying().(*types.Pointer).Elem().Underlying().(*types.Map)
	if !isMap {
		return ci
	}
	if _, _, ok := isIntType(mt.Key()); !ok {
		return ci
	}
	if _, _, ok := isIntType(mt.Elem()); !ok {
		return ci
	}
	if g.Pkg == nil {
		return ci
	}
	init := g.Pkg.Func("init")
	if init == nil {
		return ci
	}
	var mk *ssa.MakeMap
	stores := 0
	for _, b := range init.Blocks {
		for _, in := range b.Instrs {
			if st, ok := in.(*ssa.Store); ok && st.Addr == ssa.Value(g) {
				stores++
				mk, _ = st.Val.(*ssa.MakeMap)
			}
		}
	}
	if stores != 1 || mk == nil || mk.Referrers() == nil {
		return ci
	}
	for _, r := range *mk.Referrers() {
		switch y := r.(type) {
		case *ssa.MapUpdate:
			k, okK := constInt(y.Key)
			v, okV := constInt(y.Value)
			if y.Map != ssa.Value(mk) || !okK || !okV {
				return ci
			}
			ci.keys = append(ci.keys, k)
			ci.vals = append(ci.vals, v)
		case *ssa.Store, *ssa.DebugRef:
		default:
			return ci
		}
	}
	// read-only everywhere else
	for _, fn := range w.Funcs {
		if fn == init {
			continue
		}
		for _, b := range fn.Blocks {
			for _, in := range b.Instrs {
				uses := false
				for _, op := range in.Operands(nil) {
					if op != nil && *op == ssa.Value(g) {
						uses = true
					}
				}
				if !uses {
					continue
				}
				ld, isLd := in.(*ssa.UnOp)
				if !isLd || ld.Op != token.MUL || ld.Referrers() == nil {
					return ci
				}
				for _, r := range *ld.Referrers() {
					switch y := r.(type) {
					case *ssa.DebugRef, *ssa.Range:
					case *ssa.Lookup:
						if y.X != ssa.Value(ld) {
							return ci
						}
					case *ssa.Call:
						if b, isB := y.Common().Value.(*ssa.Builtin); !isB || b.Name() != "len" {
							return ci
						}
					default:
						return ci
					}
				}
			}
		}
	}
	ci.ok = len(ci.keys) > 0
	return ci
}

// noteLookup remembers a lookup of a constant table for resolveLookups.
func (c *Ctx) noteLookup(x *ssa.Lookup, o lin.Form) {
	if x.CommaOk {
		return
	}
	ld, ok := x.X.(*ssa.UnOp)
	if !ok || ld.Op != token.MUL {
		return
	}
	g, ok := ld.X.(*ssa.Global)
	if !ok {
		return
	}
	ci := c.FI.W.constMap(g)
	if !ci.ok {
		return
	}
	for _, p := range c.lookups {
		if p.x == x {
			return
		}
	}
	c.lookups = append(c.lookups, pendingLookup{x, o, ci, false})
}

type pendingLookup struct {
	x    *ssa.Lookup
	o    lin.Form
	ci   *constMapInfo
	done bool
}

// resolveLookups: for every noted lookup whose key is now proved equal to a
// literal key (or different from all of them), fix the looked-up value.
func (c *Ctx) resolveLookups() {
	for i := range c.lookups {
		p := &c.lookups[i]
		if p.done {
			continue
		}
		kf := c.Lin(p.x.Index)
		allDiffer := true
		for j, k := range p.ci.keys {
			eq := lin.EQ(kf, lin.KB(k))
			if c.Entails(eq[0]) && c.Entails(eq[1]) {
				c.add(lin.EQ(p.o, lin.KB(p.ci.vals[j]))...)
				p.done = true
				break
			}
			if !(c.Entails(lin.LT(kf, lin.KB(k))) || c.Entails(lin.GT(kf, lin.KB(k)))) {
				allDiffer = false
			}
		}
		if !p.done && allDiffer {
			c.add(lin.EQ(p.o, lin.K(0))...)
			p.done = true
		}
	}
}
