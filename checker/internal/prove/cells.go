package prove

import (
	"go/token"

	"golang.org/x/tools/go/ssa"

	"manticheck/internal/lin"
)

// Captured local cells (go/ssa spills variables captured by closures into heap
// Allocs; closures see them as FreeVars). A flow-insensitive cell invariant
// `cell >= 0` holds if the cell does not escape and every store to it, in the
// defining function and all closures, stores a value >= 0 assuming every load
// of the cell is >= 0.

type cellState int

const (
	cellUnknown cellState = iota
	cellAssumed
	cellOK
	cellBad
)

// cellRoot maps a FreeVar to the Alloc it is bound to (through MakeClosure).
func (w *World) cellRoot(v ssa.Value) *ssa.Alloc {
	switch x := v.(type) {
	case *ssa.Alloc:
		return x
	case *ssa.FreeVar:
		fn := x.Parent()
		idx := -1
		for i, fv := range fn.FreeVars {
			if fv == x {
				idx = i
			}
		}
		if idx < 0 || fn.Parent() == nil {
			return nil
		}
		var root *ssa.Alloc
		for _, b := range fn.Parent().Blocks {
			for _, in := range b.Instrs {
				if mc, ok := in.(*ssa.MakeClosure); ok && mc.Fn == fn {
					r := w.cellRoot(mc.Bindings[idx])
					if r == nil || (root != nil && root != r) {
						return nil
					}
					root = r
				}
			}
		}
		return root
	}
	return nil
}

// cellAliases returns the Alloc plus every FreeVar bound to it in the function tree.
func (w *World) cellAliases(root *ssa.Alloc) []ssa.Value {
	out := []ssa.Value{root}
	var visit func(fn *ssa.Function)
	visit = func(fn *ssa.Function) {
		for _, anon := range fn.AnonFuncs {
			for _, fv := range anon.FreeVars {
				if w.cellRoot(fv) == root {
					out = append(out, fv)
				}
			}
			visit(anon)
		}
	}
	visit(root.Parent())
	return out
}

func (w *World) cellNonNeg(root *ssa.Alloc) bool {
	if w.cells == nil {
		w.cells = map[*ssa.Alloc]cellState{}
	}
	switch w.cells[root] {
	case cellOK, cellAssumed:
		return true
	case cellBad:
		return false
	}
	if _, _, ok := isIntType(derefT(root.Type())); !ok {
		w.cells[root] = cellBad
		return false
	}
	aliases := w.cellAliases(root)
	for _, a := range aliases {
		if cellEscapes(a) {
			w.cells[root] = cellBad
			return false
		}
	}
	w.cells[root] = cellAssumed
	ok := true
	nStores := 0
	for _, a := range aliases {
		for _, r := range *a.Referrers() {
			st, isStore := r.(*ssa.Store)
			if !isStore || st.Addr != a {
				continue
			}
			nStores++
			fi := w.Info(st.Parent())
			c := fi.ctxBefore(st)
			if !c.Prove(lin.GE0(c.Lin(st.Val))) {
				ok = false
			}
		}
	}
	if !ok || nStores == 0 {
		w.cells[root] = cellBad
		// anything concluded under the assumption must be forgotten
		w.fi = map[*ssa.Function]*FuncInfo{}
		for k, v := range w.cells {
			if v == cellOK && k != root {
				delete(w.cells, k)
			}
		}
		return false
	}
	w.cells[root] = cellOK
	return true
}

// cellLoadFacts adds the cell invariant for a load of a captured cell.
func (c *Ctx) cellLoadFacts(u *ssa.UnOp, o lin.Form) {
	if u.Op != token.MUL {
		return
	}
	switch u.X.(type) {
	case *ssa.Alloc, *ssa.FreeVar:
	default:
		return
	}
	root := c.FI.W.cellRoot(u.X)
	if root == nil {
		return
	}
	if c.FI.W.cellNonNeg(root) {
		c.add(lin.GE0(o))
	}
}
