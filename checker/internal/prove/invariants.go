package prove

import (
	"fmt"
	"strings"
	"os"
	"go/token"
	"go/types"
	"math/big"

	"golang.org/x/tools/go/ssa"

	"manticheck/internal/lin"
)

// Loop invariants (fact 6): an optimistic (Houdini-style) fixpoint over a small
// family of candidate invariants for the φ-nodes of each loop header. A
// candidate survives only if it holds on every incoming edge assuming all
// surviving candidates at the header.

type invKind int

const (
	invGE     invKind = iota // φ >= e
	invLE                    // φ <= e
	invGEK                   // φ >= k
	invLELen                 // φ <= len(s)
	invLinear                // s2·(φ − e) = s1·(φ2 − e2)
	invLTLen                 // φ <= len(s) − 1
	invHullLo                // φ >= base + k
	invHullHi                // φ <= base + k
	invTripHi                // φ <= e + k·len(s)   (range-over-string trip bound)
	invTripLo                // φ >= e + k·len(s)   (k <= 0)
	invLEPhi                 // φ <= φ2 + k         (a marker that trails a loop counter)
)

type invariant struct {
	kind   invKind
	phi    *ssa.Phi
	e      ssa.Value
	k      *big.Int
	s      ssa.Value // slice for invLELen
	phi2   *ssa.Phi
	e2     ssa.Value
	s1, s2 *big.Int
	dead   bool
	direct bool // established by a direct argument (trip count), not by induction
}

func phiIsLen(p *ssa.Phi) bool {
	t := p.Type().Underlying()
	if _, ok := t.(*types.Slice); ok {
		return true
	}
	return isByteSeq(t)
}

func phiIsInt(p *ssa.Phi) bool {
	_, _, ok := isIntType(p.Type())
	return ok
}

// value of φ-like operand v in ctx c (integer value or length)
func (c *Ctx) quant(v ssa.Value, isLen bool) lin.Form {
	if isLen {
		return c.LenOf(v)
	}
	return c.Lin(v)
}

func (c *Ctx) phiTerm(p *ssa.Phi) lin.Form {
	if phiIsLen(p) {
		return c.lenTermOf(p)
	}
	return c.opaque(p)
}

// goals returns the constraints the invariant states when φ (and φ2) are
// replaced by the given operand values (nil = the φ itself).
func (iv *invariant) goals(c *Ctx, repl, repl2 ssa.Value) []lin.Con {
	isLen := phiIsLen(iv.phi)
	var x lin.Form
	if repl == nil {
		x = c.phiTerm(iv.phi)
	} else {
		x = c.quant(repl, isLen)
	}
	switch iv.kind {
	case invGE:
		return []lin.Con{lin.GE(x, c.quant(iv.e, isLen))}
	case invLE:
		return []lin.Con{lin.LE(x, c.quant(iv.e, isLen))}
	case invGEK:
		return []lin.Con{lin.GE(x, lin.KB(iv.k))}
	case invLELen:
		return []lin.Con{lin.LE(x, c.LenOf(iv.s))}
	case invLTLen:
		return []lin.Con{lin.LT(x, c.LenOf(iv.s))}
	case invHullLo:
		return []lin.Con{lin.GE(x, c.quant(iv.e, isLen).Add(lin.KB(iv.k)))}
	case invHullHi:
		return []lin.Con{lin.LE(x, c.quant(iv.e, isLen).Add(lin.KB(iv.k)))}
	case invTripHi:
		return []lin.Con{lin.LE(x, c.quant(iv.e, isLen).Add(c.LenOf(iv.s).Scale(iv.k)))}
	case invTripLo:
		return []lin.Con{lin.GE(x, c.quant(iv.e, isLen).Add(c.LenOf(iv.s).Scale(iv.k)))}
	case invLEPhi:
		var y lin.Form
		if repl2 == nil {
			y = c.phiTerm(iv.phi2)
		} else {
			y = c.quant(repl2, phiIsLen(iv.phi2))
		}
		return []lin.Con{lin.LE(x, y.Add(lin.KB(iv.k)))}
	case invLinear:
		isLen2 := phiIsLen(iv.phi2)
		var y lin.Form
		if repl2 == nil {
			y = c.phiTerm(iv.phi2)
		} else {
			y = c.quant(repl2, isLen2)
		}
		l := x.Sub(c.quant(iv.e, isLen)).Scale(iv.s2)
		r := y.Sub(c.quant(iv.e2, isLen2)).Scale(iv.s1)
		return lin.EQ(l, r)
	}
	return nil
}

// addInvariants adds the surviving invariants of φ to the context.
func (c *Ctx) addInvariants(p *ssa.Phi) {
	if c.noInv {
		return
	}
	if c.invAdded[p] {
		return
	}
	c.invAdded[p] = true
	fi := c.FI
	fi.headerInvariants(p.Block())
	for _, iv := range fi.invC[p] {
		if iv.dead {
			continue
		}
		iv := iv
		c.add(iv.goals(c, nil, nil)...)
		if iv.kind == invLinear {
			// the partner's own bounds are useful too
			c.addInvariants(iv.phi2)
			c.addInvariants(iv.phi)
		}
	}
}

func (fi *FuncInfo) headerInvariants(hb *ssa.BasicBlock) {
	if fi.hdrDone[hb] {
		return
	}
	fi.hdrDone[hb] = true
	for _, outer := range fi.invStack {
		fi.provisional[outer] = append(fi.provisional[outer], hb)
	}
	fi.invStack = append(fi.invStack, hb)
	defer func() { fi.invStack = fi.invStack[:len(fi.invStack)-1] }()
	var entries, backs []int
	for i, p := range hb.Preds {
		if hb.Dominates(p) {
			backs = append(backs, i)
		} else {
			entries = append(entries, i)
		}
	}
	isLoop := len(backs) > 0
	var phis []*ssa.Phi
	for _, in := range hb.Instrs {
		p, ok := in.(*ssa.Phi)
		if !ok {
			break
		}
		if phiIsInt(p) || phiIsLen(p) {
			phis = append(phis, p)
		}
	}
	if len(phis) == 0 {
		return
	}
	// slices whose length is taken somewhere in the function and that are defined outside the loop
	var lens []ssa.Value
	seenLen := map[ssa.Value]bool{}
	for _, b := range fi.Fn.Blocks {
		for _, in := range b.Instrs {
			call, ok := in.(*ssa.Call)
			if !ok {
				continue
			}
			if bi, ok := call.Call.Value.(*ssa.Builtin); ok && bi.Name() == "len" {
				a := call.Call.Args[0]
				if !seenLen[a] && definedAbove(a, hb) {
					seenLen[a] = true
					lens = append(lens, a)
				}
			}
		}
	}
	// … and slices/strings that are re-sliced at a loop-carried position without
	// their length ever being spelled out (`f(src[offset:])` in a loop over fields)
	for _, b := range fi.Fn.Blocks {
		for _, in := range b.Instrs {
			sl, ok := in.(*ssa.Slice)
			if !ok || seenLen[sl.X] || !definedAbove(sl.X, hb) || !isSeq(sl.X.Type()) {
				continue
			}
			if !hb.Dominates(sl.Block()) {
				continue
			}
			seenLen[sl.X] = true
			lens = append(lens, sl.X)
		}
	}
	var all []*invariant
	for _, p := range phis {
		var cands []*invariant
		if !isLoop {
			cands = append(cands, fi.hullCands(p)...)
		}
		if !phiIsLen(p) {
			for _, k := range []int64{-1, 0, 1} {
				cands = append(cands, &invariant{kind: invGEK, phi: p, k: big.NewInt(k)})
			}
		}
		if !isLoop {
			// no entry/back distinction
		} else if len(entries) == 1 {
			e := p.Edges[entries[0]]
			cands = append(cands, &invariant{kind: invGE, phi: p, e: e}, &invariant{kind: invLE, phi: p, e: e})
		} else if !phiIsLen(p) {
			// several entries: lower bound by the least constant
			var min *big.Int
			okAll := true
			for _, i := range entries {
				k, ok := constInt(p.Edges[i])
				if !ok {
					okAll = false
					break
				}
				if min == nil || k.Cmp(min) < 0 {
					min = k
				}
			}
			if okAll && min != nil {
				cands = append(cands, &invariant{kind: invGEK, phi: p, k: min})
			}
		}
		if !phiIsLen(p) {
			for _, s := range lens {
				cands = append(cands, &invariant{kind: invLELen, phi: p, s: s}, &invariant{kind: invLTLen, phi: p, s: s})
			}
		}
		if isLoop && !phiIsLen(p) {
			// the loop's own exit test against a loop-invariant bound B:
			// φ < B keeps φ <= B, φ <= B keeps φ <= B+1 (and the mirror images)
			if iff, ok := hb.Instrs[len(hb.Instrs)-1].(*ssa.If); ok {
				if bo, ok := iff.Cond.(*ssa.BinOp); ok {
					op, bound := bo.Op, ssa.Value(nil)
					if bo.X == ssa.Value(p) && definedAbove(bo.Y, hb) {
						bound = bo.Y
					} else if bo.Y == ssa.Value(p) && definedAbove(bo.X, hb) {
						bound = bo.X
						switch op {
						case token.LSS:
							op = token.GTR
						case token.LEQ:
							op = token.GEQ
						case token.GTR:
							op = token.LSS
						case token.GEQ:
							op = token.LEQ
						}
					}
					if bound != nil {
						if _, _, isInt := isIntType(bound.Type()); isInt {
							switch op {
							case token.LSS:
								cands = append(cands, &invariant{kind: invLE, phi: p, e: bound})
							case token.LEQ:
								cands = append(cands, &invariant{kind: invHullHi, phi: p, e: bound, k: big.NewInt(1)})
							case token.GTR:
								cands = append(cands, &invariant{kind: invGE, phi: p, e: bound})
							case token.GEQ:
								cands = append(cands, &invariant{kind: invHullLo, phi: p, e: bound, k: big.NewInt(-1)})
							}
						}
					}
				}
			}
		}
		for _, iv := range cands {
			fi.invC[p] = append(fi.invC[p], *iv)
		}
		all = append(all, cands...)
	}
	// a marker variable that trails a loop counter (start := -1 … start = i+1): p <= q + k
	if isLoop && len(phis) > 1 && len(phis) <= 6 {
		for _, p := range phis {
			for _, q := range phis {
				if p == q || phiIsLen(p) || phiIsLen(q) {
					continue
				}
				for _, k := range []int64{0, 1} {
					iv := &invariant{kind: invLEPhi, phi: p, phi2: q, k: big.NewInt(k)}
					fi.invC[p] = append(fi.invC[p], *iv)
					all = append(all, iv)
				}
			}
		}
	}
	sync := func() {
		for _, p := range phis {
			fi.invC[p] = fi.invC[p][:0]
		}
		for _, iv := range all {
			if !iv.dead {
				fi.invC[iv.phi] = append(fi.invC[iv.phi], *iv)
				if iv.phi2 != nil {
					fi.invC[iv.phi2] = append(fi.invC[iv.phi2], *iv)
				}
			}
		}
	}
	houdini := func() {
		for changed := true; changed; {
			changed = false
			// invariants of other headers computed under this header's (optimistic)
			// candidates are recomputed in every round: joint fixpoint
			for _, ob := range fi.provisional[hb] {
				fi.hdrDone[ob] = false
				for _, in := range ob.Instrs {
					if p, ok := in.(*ssa.Phi); ok {
						delete(fi.invC, p)
					}
				}
			}
			fi.provisional[hb] = nil
			sync()
			// one context per incoming edge, shared by all candidates of this round
			ctxs := make([]*Ctx, len(hb.Preds))
			for i, pred := range hb.Preds {
				ctxs[i] = fi.CtxEdge(pred, hb)
			}
			for _, iv := range all {
				if iv.dead || iv.direct {
					continue
				}
				for i := range hb.Preds {
					ec := ctxs[i]
					var r2 ssa.Value
					if iv.phi2 != nil {
						r2 = iv.phi2.Edges[i]
					}
					ok := true
					for _, g := range iv.goals(ec, iv.phi.Edges[i], r2) {
						if !ec.Entails(g) {
							ok = false
							break
						}
					}
					if !ok {
						iv.dead = true
						changed = true
						if os.Getenv("MANTICHECK_DEBUG_INV") != "" && strings.Contains(fi.Fn.String(), os.Getenv("MANTICHECK_DEBUG_INV")) {
							fmt.Fprintf(os.Stderr, "inv dead: %s hdr %d phi %s kind %d edge from %d\n", fi.Fn.Name(), hb.Index, iv.phi.Name(), iv.kind, hb.Preds[i].Index)
							for _, g := range iv.goals(ec, iv.phi.Edges[i], r2) {
								fmt.Fprintf(os.Stderr, "   goal %s\n   facts %v\n", ec.Describe(g), ec.FactStrings(g, 12))
							}
						}
						break
					}
				}
			}
		}
		sync()
	}
	houdini()
	// shift-counter loops: some φ_a is replaced by φ_a >> k (k >= 1) on every
	// back edge, each of which is only taken with φ_a >= 1; a 64-bit value
	// reaches 0 after at most ⌈64/k⌉ such steps, which bounds the trip count and
	// hence every unit-stride counter of the same loop.
	if isLoop && len(entries) == 1 && len(phis) > 1 {
		var trip *big.Int
		for _, a := range phis {
			if phiIsLen(a) {
				continue
			}
			var k int64 = -1
			ok := true
			for _, i := range backs {
				sh, isSh := a.Edges[i].(*ssa.BinOp)
				if !isSh || sh.Op != token.SHR || sh.X != ssa.Value(a) {
					ok = false
					break
				}
				kk, isK := constInt(sh.Y)
				if !isK || kk.Sign() <= 0 || !kk.IsInt64() || (k >= 0 && k != kk.Int64()) {
					ok = false
					break
				}
				k = kk.Int64()
				ec := fi.CtxEdge(hb.Preds[i], hb)
				if !ec.Entails(lin.GE(ec.phiTerm(a), lin.K(1))) {
					ok = false
					break
				}
			}
			if ok && k > 0 {
				trip = big.NewInt((64+k-1)/k + 1)
			}
		}
		if trip != nil {
			for _, b := range phis {
				if phiIsLen(b) {
					continue
				}
				unit := true
				for _, i := range backs {
					ec := fi.CtxEdge(hb.Preds[i], hb)
					d := ec.Lin(b.Edges[i]).Sub(ec.phiTerm(b))
					kv, isK := d.ConstVal()
					if !isK || kv.Cmp(big.NewInt(1)) != 0 {
						unit = false
						break
					}
				}
				if unit {
					all = append(all, &invariant{kind: invHullHi, phi: b, e: b.Edges[entries[0]], k: trip, direct: true})
				}
			}
			sync()
		}
	}
	// range-over-string loops: every iteration consumes at least one byte of
	// the string, so the body runs at most len(s) times; a counter that every
	// back edge changes by a constant in [lo, hi] stays within
	// entry + min(lo,0)·len(s) .. entry + max(hi,0)·len(s).
	if isLoop && len(entries) == 1 {
		var str ssa.Value
		for _, in := range hb.Instrs {
			if nx, ok := in.(*ssa.Next); ok && nx.IsString {
				if rg, ok := nx.Iter.(*ssa.Range); ok && definedAbove(rg.X, hb) {
					str = rg.X
				}
			}
		}
		if str != nil {
			added := false
			for _, b := range phis {
				if phiIsLen(b) {
					continue
				}
				var lo, hi *big.Int
				ok := true
				for _, i := range backs {
					ec := fi.CtxEdge(hb.Preds[i], hb)
					ec.noInv = true
					d := ec.Lin(b.Edges[i]).Sub(ec.phiTerm(b))
					kv, isK := d.ConstVal()
					if !isK {
						// a step that is not constant but provably within small bounds
						// (units += utf16.RuneLen(r): 1 or 2 per rune)
						var bh, bl *big.Int
						for _, k := range []int64{0, 1, 2, 3, 4, 8, 16, 64, 256} {
							if ec.Entails(lin.LE(d, lin.K(k))) {
								bh = big.NewInt(k)
								break
							}
						}
						for _, k := range []int64{0, -1, -2, -3, -4, -8, -16, -64, -256} {
							if ec.Entails(lin.GE(d, lin.K(k))) {
								bl = big.NewInt(k)
								break
							}
						}
						if bh == nil || bl == nil {
							ok = false
							break
						}
						if lo == nil || bl.Cmp(lo) < 0 {
							lo = bl
						}
						if hi == nil || bh.Cmp(hi) > 0 {
							hi = bh
						}
						continue
					}
					if lo == nil || kv.Cmp(lo) < 0 {
						lo = kv
					}
					if hi == nil || kv.Cmp(hi) > 0 {
						hi = kv
					}
				}
				if !ok || lo == nil {
					continue
				}
				zero := big.NewInt(0)
				if hi.Sign() < 0 {
					hi = zero
				}
				if lo.Sign() > 0 {
					lo = zero
				}
				if hi.BitLen() > 16 || lo.BitLen() > 16 {
					continue
				}
				all = append(all, &invariant{kind: invTripHi, phi: b, e: b.Edges[entries[0]], k: hi, s: str, direct: true},
					&invariant{kind: invTripLo, phi: b, e: b.Edges[entries[0]], k: lo, s: str, direct: true})
				added = true
			}
			if added {
				sync()
			}
		}
	}
	// constant strides → linear relations between pairs of φ
	if isLoop && len(entries) == 1 && len(phis) > 1 {
		stride := map[*ssa.Phi]*big.Int{}
		for _, p := range phis {
			var s *big.Int
			ok := true
			for _, i := range backs {
				ec := fi.CtxEdge(hb.Preds[i], hb)
				d := ec.quant(p.Edges[i], phiIsLen(p)).Sub(ec.phiTerm(p))
				k, isK := d.ConstVal()
				if !isK || (s != nil && s.Cmp(k) != 0) {
					ok = false
					break
				}
				s = k
			}
			if ok && s != nil && s.Sign() != 0 {
				stride[p] = s
			}
		}
		added := false
		for i := 0; i < len(phis); i++ {
			for j := i + 1; j < len(phis); j++ {
				a, b := phis[i], phis[j]
				if stride[a] == nil || stride[b] == nil {
					continue
				}
				all = append(all, &invariant{kind: invLinear, phi: a, e: a.Edges[entries[0]], phi2: b, e2: b.Edges[entries[0]], s1: stride[a], s2: stride[b]})
				added = true
			}
		}
		if added {
			houdini()
		}
	}
}

// hullCands: for a φ that is not a loop header, when every incoming value is
// (common base value) + constant, the φ lies between base+min and base+max.
func (fi *FuncInfo) hullCands(p *ssa.Phi) []*invariant {
	pb := p.Block()
	isLen := phiIsLen(p)
	// try each incoming value (and the values it is derived from by ±const) as base
	var bases []ssa.Value
	for _, e := range p.Edges {
		v := e
		for depth := 0; depth < 4; depth++ {
			if definedAbove(v, pb) {
				bases = append(bases, v)
			}
			b, ok := v.(*ssa.BinOp)
			if !ok {
				break
			}
			if _, isK := constInt(b.Y); isK {
				v = b.X
			} else if _, isK := constInt(b.X); isK {
				v = b.Y
			} else {
				break
			}
		}
	}
	for _, base := range bases {
		if _, isConst := base.(*ssa.Const); isConst {
			continue
		}
		var min, max *big.Int
		ok := true
		for i, pred := range pb.Preds {
			ec := fi.CtxEdge(pred, pb)
			d := ec.quant(p.Edges[i], isLen).Sub(ec.quant(base, isLen))
			k, isK := d.ConstVal()
			if !isK {
				ok = false
				break
			}
			if min == nil || k.Cmp(min) < 0 {
				min = k
			}
			if max == nil || k.Cmp(max) > 0 {
				max = k
			}
		}
		if ok && min != nil {
			return []*invariant{{kind: invHullLo, phi: p, e: base, k: min}, {kind: invHullHi, phi: p, e: base, k: max}}
		}
	}
	// all-constant incomings
	var min, max *big.Int
	for _, e := range p.Edges {
		k, ok := constInt(e)
		if !ok {
			return nil
		}
		if min == nil || k.Cmp(min) < 0 {
			min = k
		}
		if max == nil || k.Cmp(max) > 0 {
			max = k
		}
	}
	if min != nil && !isLen {
		return []*invariant{{kind: invGEK, phi: p, k: min}, {kind: invHullHi, phi: p, e: p.Edges[0], k: new(big.Int).Sub(max, mustConst(p.Edges[0]))}}
	}
	return nil
}

func mustConst(v ssa.Value) *big.Int {
	k, _ := constInt(v)
	return k
}
