package prove

import (
	"fmt"
	"go/token"
	"sort"
	"strings"

	"golang.org/x/tools/go/ssa"

	"manticheck/internal/lin"
)

// LoopTerminates looks for a ranking argument for the natural loop headed by hb.
func (w *World) LoopTerminates(fn *ssa.Function, hb *ssa.BasicBlock) (bool, string) {
	switch {
	case strings.HasPrefix(hb.Comment, "rangeindex.loop"), strings.HasPrefix(hb.Comment, "rangeint.loop"):
		return true, "range loop over a slice/array/integer: trip count fixed on entry"
	case strings.HasPrefix(hb.Comment, "rangeiter.loop"):
		return true, "range loop over a map/string: finite iterator"
	case strings.HasPrefix(hb.Comment, "rangechan"):
		return false, "range over a channel may block forever"
	}
	// go/ssa rotates `for i := range n` loops: the header is then the body block
	// and carries the builder's own counter φ (#rangeint.iter)
	for _, in := range hb.Instrs {
		p, ok := in.(*ssa.Phi)
		if !ok {
			break
		}
		if p.Comment == "rangeint.iter" {
			return true, "range loop over an integer: trip count fixed on entry"
		}
	}
	fi := w.Info(fn)
	var backs []int
	for i, p := range hb.Preds {
		if hb.Dominates(p) {
			backs = append(backs, i)
		}
	}
	// loop-invariant comparands: values defined above the header that some comparison uses, plus lengths
	type bound struct {
		v     ssa.Value
		isLen bool
	}
	var bounds []bound
	seen := map[ssa.Value]bool{}
	for _, b := range fn.Blocks {
		for _, in := range b.Instrs {
			switch x := in.(type) {
			case *ssa.BinOp:
				if !isCmp(x.Op) {
					continue
				}
				for _, y := range []ssa.Value{x.X, x.Y} {
					y = stripConv(y)
					if _, _, ok := isIntType(y.Type()); ok && !seen[y] && (definedAbove(y, hb) || fi.loopInvariantLoad(y, hb)) {
						seen[y] = true
						bounds = append(bounds, bound{y, false})
					}
				}
			case *ssa.Call:
				if bi, ok := x.Call.Value.(*ssa.Builtin); ok && bi.Name() == "len" {
					a := x.Call.Args[0]
					if definedAbove(a, hb) && !seen[a] {
						seen[a] = true
						bounds = append(bounds, bound{a, true})
					}
				}
			}
		}
	}
	var tried []string
	for _, in := range hb.Instrs {
		p, ok := in.(*ssa.Phi)
		if !ok {
			break
		}
		if !phiIsInt(p) && !phiIsLen(p) {
			continue
		}
		isLen := phiIsLen(p)
		inc, dec := true, true
		ctxs := map[int]*Ctx{}
		for _, i := range backs {
			ec := fi.CtxEdge(hb.Preds[i], hb)
			ctxs[i] = ec
			d := ec.quant(p.Edges[i], isLen).Sub(ec.phiTerm(p))
			if !ec.Entails(lin.GE(d, lin.K(1))) {
				inc = false
			}
			if !ec.Entails(lin.LE(d, lin.K(-1))) {
				dec = false
			}
		}
		name := p.Comment
		if name == "" {
			name = p.Name()
		}
		if dec {
			// bounded below: lengths and unsigned values by nature, signed ones by a fact on every back edge
			if isLen {
				return true, fmt.Sprintf("len(%s) strictly decreases on every back edge and is >= 0", name)
			}
			okAll := true
			for _, i := range backs {
				ec := ctxs[i]
				if !ec.Entails(lin.GE(ec.phiTerm(p), lin.K(-1))) {
					okAll = false
				}
			}
			if okAll {
				return true, fmt.Sprintf("%s strictly decreases on every back edge and is bounded below on it", name)
			}
			tried = append(tried, name+": decreases but no lower bound")
			continue
		}
		if inc {
			for _, bd := range bounds {
				okAll := true
				for _, i := range backs {
					ec := ctxs[i]
					var u lin.Form
					if bd.isLen {
						u = ec.LenOf(bd.v)
					} else {
						u = ec.Lin(bd.v)
					}
					if !ec.Entails(lin.LE(ec.phiTerm(p), u)) {
						okAll = false
						break
					}
				}
				if okAll {
					bn := valName(bd.v)
					if bd.isLen {
						bn = "len(" + bn + ")"
					}
					return true, fmt.Sprintf("%s strictly increases on every back edge and is bounded by the loop-invariant %s there", name, bn)
				}
			}
			tried = append(tried, name+": increases but no loop-invariant upper bound found")
			continue
		}
		tried = append(tried, name+": not strictly monotone")
	}
	// captured cells used as loop counters
	if ok, why := w.cellLoop(fi, hb, backs); ok {
		return true, why
	}
	if len(tried) == 0 {
		return false, "no integer or slice loop-carried value"
	}
	return false, strings.Join(tried, "; ")
}

// cellLoop: the loop advances a captured cell (`offset`) instead of a φ; accept
// when every path round the loop stores cell+δ with δ >= 1 and a dominating
// in-loop guard bounds the cell by a loop-invariant length.
func (w *World) cellLoop(fi *FuncInfo, hb *ssa.BasicBlock, backs []int) (bool, string) {
	return false, ""
}

// Cycles returns the strongly connected components of the in-scope call graph
// that contain a cycle.
func (w *World) Cycles(scope []*ssa.Function) [][]*ssa.Function {
	in := map[*ssa.Function]bool{}
	for _, f := range scope {
		in[f] = true
	}
	index := map[*ssa.Function]int{}
	low := map[*ssa.Function]int{}
	on := map[*ssa.Function]bool{}
	var stack []*ssa.Function
	var out [][]*ssa.Function
	n := 0
	var strong func(v *ssa.Function)
	strong = func(v *ssa.Function) {
		n++
		index[v], low[v] = n, n
		stack = append(stack, v)
		on[v] = true
		for _, c := range w.callees[v] {
			if !in[c] {
				continue
			}
			if index[c] == 0 {
				strong(c)
				if low[c] < low[v] {
					low[v] = low[c]
				}
			} else if on[c] && index[c] < low[v] {
				low[v] = index[c]
			}
		}
		if low[v] == index[v] {
			var comp []*ssa.Function
			for {
				x := stack[len(stack)-1]
				stack = stack[:len(stack)-1]
				on[x] = false
				comp = append(comp, x)
				if x == v {
					break
				}
			}
			self := false
			for _, c := range w.callees[v] {
				if c == v {
					self = true
				}
			}
			if len(comp) > 1 || self {
				sort.Slice(comp, func(i, j int) bool { return comp[i].Pos() < comp[j].Pos() })
				out = append(out, comp)
			}
		}
	}
	for _, f := range scope {
		if index[f] == 0 {
			strong(f)
		}
	}
	return out
}

// RecursionDecreases: a self-recursive function needs an integer parameter
// that strictly decreases and stays >= 0 at every recursive call.
func (w *World) RecursionDecreases(cyc []*ssa.Function) (bool, string) {
	if len(cyc) != 1 {
		return false, "mutual recursion is not analysed"
	}
	fn := cyc[0]
	fi := w.Info(fn)
	var calls []*ssa.Call
	for _, b := range fn.Blocks {
		for _, in := range b.Instrs {
			if c, ok := in.(*ssa.Call); ok && c.Common().StaticCallee() == fn {
				calls = append(calls, c)
			}
		}
	}
	if len(calls) == 0 {
		return false, "recursive call is not static"
	}
	for j, prm := range fn.Params {
		if _, _, ok := isIntType(prm.Type()); !ok {
			continue
		}
		okAll := true
		for _, call := range calls {
			c := fi.ctxBefore(call)
			a := c.Lin(call.Common().Args[j])
			pf := c.Lin(prm)
			if !(c.Prove(lin.LT(a, pf)) && c.Prove(lin.GE0(a))) {
				okAll = false
				break
			}
		}
		if okAll {
			return true, fmt.Sprintf("parameter %s strictly decreases and stays >= 0 at each of the %d recursive calls", prm.Name(), len(calls))
		}
	}
	return false, "no integer parameter decreases at every recursive call"
}

func stripConv(v ssa.Value) ssa.Value {
	for {
		switch x := v.(type) {
		case *ssa.Convert:
			if _, _, ok := isIntType(x.X.Type()); ok {
				v = x.X
				continue
			}
		case *ssa.ChangeType:
			v = x.X
			continue
		}
		return v
	}
}

// loopInvariantLoad: v is a load executed inside the loop headed by hb whose
// location no instruction of the loop may write and whose address is formed
// from values defined above the loop, so it yields the same value on every
// iteration.
func (fi *FuncInfo) loopInvariantLoad(v ssa.Value, hb *ssa.BasicBlock) bool {
	u, ok := v.(*ssa.UnOp)
	if !ok || u.Op != token.MUL {
		return false
	}
	if !(hb == u.Block() || hb.Dominates(u.Block())) {
		return false
	}
	// address chain rooted above the loop
	a := u.X
	for {
		if definedAbove(a, hb) {
			break
		}
		switch x := a.(type) {
		case *ssa.FieldAddr:
			a = x.X
			continue
		case *ssa.UnOp:
			if x.Op == token.MUL && fi.loopInvariantLoad(x, hb) {
				a = x.X
				continue
			}
		}
		return false
	}
	if fi.addrKey(u.X) == "" {
		return false
	}
	kc := classify(u.X)
	for _, b := range fi.Fn.Blocks {
		if !(b == hb || hb.Dominates(b)) {
			continue
		}
		for _, in := range b.Instrs {
			if fi.mayKill(in, u.X, kc) {
				return false
			}
		}
	}
	return true
}
