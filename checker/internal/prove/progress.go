package prove

import (
	"fmt"
	"go/token"
	"sort"
	"strings"

	"golang.org/x/tools/go/ssa"

	"manticheck/internal/lin"
)

// LoopTerminates looks for a ranking argument for the natural loop headed by hb.
func (w *World) LoopTerminates(fn *ssa.Function, hb *ssa.BasicBlock) (bool, string) {
	switch {
	case strings.HasPrefix(hb.Comment, "rangeindex.loop"), strings.HasPrefix(hb.Comment, "rangeint.loop"):
		return true, "range loop over a slice/array/integer: trip count fixed on entry"
	case strings.HasPrefix(hb.Comment, "rangeiter.loop"):
		return true, "range loop over a map/string: finite iterator"
	case strings.HasPrefix(hb.Comment, "rangechan"):
		return false, "range over a channel may block forever"
	}
	// go/ssa rotates `for i := range n` loops: the header is then the body block
	// and carries the builder's own counter φ (#rangeint.iter)
	for _, in := range hb.Instrs {
		p, ok := in.(*ssa.Phi)
		if !ok {
			break
		}
		if p.Comment == "rangeint.iter" {
			return true, "range loop over an integer: trip count fixed on entry"
		}
	}
	fi := w.Info(fn)
	var backs []int
	for i, p := range hb.Preds {
		if hb.Dominates(p) {
			backs = append(backs, i)
		}
	}
	// loop-invariant comparands: values defined above the header that some comparison uses, plus lengths
	type bound struct {
		v     ssa.Value
		isLen bool
	}
	var bounds []bound
	seen := map[ssa.Value]bool{}
	for _, b := range fn.Blocks {
		for _, in := range b.Instrs {
			switch x := in.(type) {
			case *ssa.BinOp:
				if !isCmp(x.Op) {
					continue
				}
				for _, y := range []ssa.Value{x.X, x.Y} {
					y = stripConv(y)
					if _, _, ok := isIntType(y.Type()); ok && !seen[y] && (definedAbove(y, hb) || fi.loopInvariantLoad(y, hb)) {
						seen[y] = true
						bounds = append(bounds, bound{y, false})
					}
				}
			case *ssa.Call:
				if bi, ok := x.Call.Value.(*ssa.Builtin); ok && bi.Name() == "len" {
					a := x.Call.Args[0]
					if definedAbove(a, hb) && !seen[a] {
						seen[a] = true
						bounds = append(bounds, bound{a, true})
					}
				}
			}
		}
	}
	var tried []string
	for _, in := range hb.Instrs {
		p, ok := in.(*ssa.Phi)
		if !ok {
			break
		}
		if !phiIsInt(p) && !phiIsLen(p) {
			continue
		}
		isLen := phiIsLen(p)
		inc, dec := true, true
		ctxs := map[int]*Ctx{}
		for _, i := range backs {
			ec := fi.CtxEdge(hb.Preds[i], hb)
			ctxs[i] = ec
			d := ec.quant(p.Edges[i], isLen).Sub(ec.phiTerm(p))
			if !ec.Entails(lin.GE(d, lin.K(1))) {
				inc = false
			}
			if !ec.Entails(lin.LE(d, lin.K(-1))) {
				dec = false
			}
		}
		name := p.Comment
		if name == "" {
			name = p.Name()
		}
		if dec {
			// bounded below: lengths and unsigned values by nature, signed ones by a fact on every back edge
			if isLen {
				return true, fmt.Sprintf("len(%s) strictly decreases on every back edge and is >= 0", name)
			}
			okAll := true
			for _, i := range backs {
				ec := ctxs[i]
				if !ec.Entails(lin.GE(ec.phiTerm(p), lin.K(-1))) {
					okAll = false
				}
			}
			if okAll {
				return true, fmt.Sprintf("%s strictly decreases on every back edge and is bounded below on it", name)
			}
			tried = append(tried, name+": decreases but no lower bound")
			continue
		}
		if inc {
			for _, bd := range bounds {
				okAll := true
				for _, i := range backs {
					ec := ctxs[i]
					var u lin.Form
					if bd.isLen {
						u = ec.LenOf(bd.v)
					} else {
						u = ec.Lin(bd.v)
					}
					if !ec.Entails(lin.LE(ec.phiTerm(p), u)) {
						okAll = false
						break
					}
				}
				if okAll {
					bn := valName(bd.v)
					if bd.isLen {
						bn = "len(" + bn + ")"
					}
					return true, fmt.Sprintf("%s strictly increases on every back edge and is bounded by the loop-invariant %s there", name, bn)
				}
			}
			// a constant bound (the loop test compares with a value of small range,
			// e.g. a count byte returned by an accessor)
			constBound := int64(0)
			for _, cb := range []int64{1 << 8, 1 << 16, 1 << 32} {
				okAll := true
				for _, i := range backs {
					if !ctxs[i].Entails(lin.LE(ctxs[i].phiTerm(p), lin.K(cb))) {
						okAll = false
						break
					}
				}
				if okAll {
					constBound = cb
					break
				}
			}
			if constBound != 0 {
				return true, fmt.Sprintf("%s strictly increases on every back edge and is bounded by the constant %d there", name, constBound)
			}
			tried = append(tried, name+": increases but no loop-invariant upper bound found")
			continue
		}
		tried = append(tried, name+": not strictly monotone")
	}
	// lexicographic pair (p, q): p never increases and is bounded below where it
	// strictly decreases; on the remaining back edges q makes bounded progress
	if ok, why := w.lexLoop(fi, hb, backs, func(ec *Ctx, q *ssa.Phi) bool {
		for _, bd := range bounds {
			var u lin.Form
			if bd.isLen {
				u = ec.LenOf(bd.v)
			} else {
				u = ec.Lin(bd.v)
			}
			if ec.Entails(lin.LE(ec.phiTerm(q), u)) {
				return true
			}
		}
		return false
	}); ok {
		return true, why
	}
	// captured cells used as loop counters
	if ok, why := w.cellLoop(fi, hb, backs); ok {
		return true, why
	}
	if len(tried) == 0 {
		return false, "no integer or slice loop-carried value"
	}
	return false, strings.Join(tried, "; ")
}

// cellLoop: the loop advances a captured cell (`offset`) instead of a φ; accept
// when every path round the loop stores cell+δ with δ >= 1 and a dominating
// in-loop guard bounds the cell by a loop-invariant length.
func (w *World) cellLoop(fi *FuncInfo, hb *ssa.BasicBlock, backs []int) (bool, string) {
	return false, ""
}

// Cycles returns the strongly connected components of the in-scope call graph
// that contain a cycle.
func (w *World) Cycles(scope []*ssa.Function) [][]*ssa.Function {
	in := map[*ssa.Function]bool{}
	for _, f := range scope {
		in[f] = true
	}
	index := map[*ssa.Function]int{}
	low := map[*ssa.Function]int{}
	on := map[*ssa.Function]bool{}
	var stack []*ssa.Function
	var out [][]*ssa.Function
	n := 0
	var strong func(v *ssa.Function)
	strong = func(v *ssa.Function) {
		n++
		index[v], low[v] = n, n
		stack = append(stack, v)
		on[v] = true
		for _, c := range w.callees[v] {
			if !in[c] {
				continue
			}
			if index[c] == 0 {
				strong(c)
				if low[c] < low[v] {
					low[v] = low[c]
				}
			} else if on[c] && index[c] < low[v] {
				low[v] = index[c]
			}
		}
		if low[v] == index[v] {
			var comp []*ssa.Function
			for {
				x := stack[len(stack)-1]
				stack = stack[:len(stack)-1]
				on[x] = false
				comp = append(comp, x)
				if x == v {
					break
				}
			}
			self := false
			for _, c := range w.callees[v] {
				if c == v {
					self = true
				}
			}
			if len(comp) > 1 || self {
				sort.Slice(comp, func(i, j int) bool { return comp[i].Pos() < comp[j].Pos() })
				out = append(out, comp)
			}
		}
	}
	for _, f := range scope {
		if index[f] == 0 {
			strong(f)
		}
	}
	return out
}

// RecursionDecreases: a self-recursive function needs an integer parameter
// that strictly decreases and stays >= 0 at every recursive call.
func (w *World) RecursionDecreases(cyc []*ssa.Function) (bool, string) {
	if len(cyc) == 2 {
		return w.mutualDecreases(cyc[0], cyc[1])
	}
	if len(cyc) != 1 {
		return false, "mutual recursion through more than two functions is not analysed"
	}
	fn := cyc[0]
	fi := w.Info(fn)
	var calls []*ssa.Call
	for _, b := range fn.Blocks {
		for _, in := range b.Instrs {
			if c, ok := in.(*ssa.Call); ok && c.Common().StaticCallee() == fn {
				calls = append(calls, c)
			}
		}
	}
	if len(calls) == 0 {
		return false, "recursive call is not static"
	}
	for j, prm := range fn.Params {
		if _, _, ok := isIntType(prm.Type()); !ok {
			continue
		}
		okAll := true
		for _, call := range calls {
			c := fi.ctxBefore(call)
			a := c.Lin(call.Common().Args[j])
			pf := c.Lin(prm)
			if !(c.Prove(lin.LT(a, pf)) && c.Prove(lin.GE0(a))) {
				okAll = false
				break
			}
		}
		if okAll {
			return true, fmt.Sprintf("parameter %s strictly decreases and stays >= 0 at each of the %d recursive calls", prm.Name(), len(calls))
		}
	}
	return false, "no integer parameter decreases at every recursive call"
}

func stripConv(v ssa.Value) ssa.Value {
	for {
		switch x := v.(type) {
		case *ssa.Convert:
			if _, _, ok := isIntType(x.X.Type()); ok {
				v = x.X
				continue
			}
		case *ssa.ChangeType:
			v = x.X
			continue
		}
		return v
	}
}

// loopInvariantLoad: v is a load executed inside the loop headed by hb whose
// location no instruction of the loop may write and whose address is formed
// from values defined above the loop, so it yields the same value on every
// iteration.
func (fi *FuncInfo) loopInvariantLoad(v ssa.Value, hb *ssa.BasicBlock) bool {
	u, ok := v.(*ssa.UnOp)
	if !ok || u.Op != token.MUL {
		return false
	}
	if !(hb == u.Block() || hb.Dominates(u.Block())) {
		return false
	}
	// address chain rooted above the loop
	a := u.X
	for {
		if definedAbove(a, hb) {
			break
		}
		switch x := a.(type) {
		case *ssa.FieldAddr:
			a = x.X
			continue
		case *ssa.UnOp:
			if x.Op == token.MUL && fi.loopInvariantLoad(x, hb) {
				a = x.X
				continue
			}
		}
		return false
	}
	if fi.addrKey(u.X) == "" {
		return false
	}
	kc := classify(u.X)
	for _, b := range fi.Fn.Blocks {
		if !(b == hb || hb.Dominates(b)) {
			continue
		}
		for _, in := range b.Instrs {
			if fi.mayKill(in, u.X, kc) {
				return false
			}
		}
	}
	return true
}

// mutualDecreases: A calls B, B calls A (and neither calls itself). A measure
// exists when some integer parameter j of A and k of B satisfy: at every call
// A→B the argument for k is <= A's j; at every call B→A the argument for j is
// < B's k and >= 0. Then A's j strictly decreases on every round trip.
func (w *World) mutualDecreases(a, b *ssa.Function) (bool, string) {
	callsTo := func(from, to *ssa.Function) []*ssa.Call {
		var out []*ssa.Call
		for _, bl := range from.Blocks {
			for _, in := range bl.Instrs {
				if c, ok := in.(*ssa.Call); ok && c.Common().StaticCallee() == to {
					out = append(out, c)
				}
			}
		}
		return out
	}
	for _, pair := range [][2]*ssa.Function{{a, b}, {b, a}} {
		A, B := pair[0], pair[1]
		if len(callsTo(A, A)) > 0 || len(callsTo(B, B)) > 0 {
			return false, "a function of the cycle also calls itself"
		}
		ab, ba := callsTo(A, B), callsTo(B, A)
		if len(ab) == 0 || len(ba) == 0 {
			continue
		}
		fa, fb := w.Info(A), w.Info(B)
		for j, pj := range A.Params {
			if _, _, ok := isIntType(pj.Type()); !ok {
				continue
			}
			for k, pk := range B.Params {
				if _, _, ok := isIntType(pk.Type()); !ok {
					continue
				}
				ok := true
				for _, call := range ab {
					c := fa.ctxBefore(call)
					if !c.Prove(lin.LE(c.Lin(call.Common().Args[k]), c.Lin(pj))) {
						ok = false
						break
					}
				}
				if !ok {
					continue
				}
				for _, call := range ba {
					c := fb.ctxBefore(call)
					arg := c.Lin(call.Common().Args[j])
					if !(c.Prove(lin.LT(arg, c.Lin(pk))) && c.Prove(lin.GE0(arg))) {
						ok = false
						break
					}
				}
				if ok {
					return true, fmt.Sprintf("%s's parameter %s is handed to %s as %s (<=) and comes back strictly smaller and >= 0 at each of the %d calls back", A.Name(), pj.Name(), B.Name(), pk.Name(), len(ba))
				}
			}
		}
	}
	return false, "no integer parameter decreases round the two-function cycle"
}

func (w *World) lexLoop(fi *FuncInfo, hb *ssa.BasicBlock, backs []int, boundedAbove func(ec *Ctx, q *ssa.Phi) bool) (bool, string) {
	var phis []*ssa.Phi
	for _, in := range hb.Instrs {
		p, ok := in.(*ssa.Phi)
		if !ok {
			break
		}
		if phiIsInt(p) || phiIsLen(p) {
			phis = append(phis, p)
		}
	}
	ctxs := map[int]*Ctx{}
	for _, i := range backs {
		ctxs[i] = fi.CtxEdge(hb.Preds[i], hb)
	}
	delta := func(p *ssa.Phi, i int) lin.Form {
		ec := ctxs[i]
		return ec.quant(p.Edges[i], phiIsLen(p)).Sub(ec.phiTerm(p))
	}
	for _, p := range phis {
		var rest []int
		ok := true
		for _, i := range backs {
			ec := ctxs[i]
			d := delta(p, i)
			if !ec.Entails(lin.LE(d, lin.K(0))) {
				ok = false
				break
			}
			if ec.Entails(lin.LE(d, lin.K(-1))) {
				// strictly decreasing edge: needs the lower bound
				if !phiIsLen(p) && !ec.Entails(lin.GE(ec.quant(p.Edges[i], false), lin.K(-1))) {
					ok = false
					break
				}
				continue
			}
			rest = append(rest, i)
		}
		if !ok || len(rest) == 0 || len(rest) == len(backs) {
			continue
		}
		for _, q := range phis {
			if q == p {
				continue
			}
			inc, dec := true, true
			for _, i := range rest {
				ec := ctxs[i]
				d := delta(q, i)
				if !(ec.Entails(lin.GE(d, lin.K(1))) && boundedAbove(ec, q)) {
					inc = false
				}
				if !(ec.Entails(lin.LE(d, lin.K(-1))) && (phiIsLen(q) || ec.Entails(lin.GE(ec.phiTerm(q), lin.K(-1))))) {
					dec = false
				}
			}
			if inc || dec {
				pn, qn := p.Comment, q.Comment
				if pn == "" {
					pn = p.Name()
				}
				if qn == "" {
					qn = q.Name()
				}
				return true, fmt.Sprintf("lexicographic measure (%s, %s): %s never increases and strictly decreases (bounded below) on %d back edge(s); on the other %d, %s makes bounded progress", pn, qn, pn, len(backs)-len(rest), len(rest), qn)
			}
		}
	}
	return false, ""
}
