package codec

// Buffers made at their final, non-constant size (added for C08).
//
// A builder may allocate the whole message once,
//
//	msg := make([]byte, 88+len(a)+len(b))
//	binary.LittleEndian.PutUint32(msg[8:12], t) …   // fixed part at constant offsets
//	copy(msg[offA:], a); copy(msg[offB:], b)        // payloads at computed offsets
//
// instead of appending. The content is read off symbolically: every write is
// placed at a linear form over len(·) terms (Sym), the writes are ordered by
// those forms (f <= g when g - f has only non-negative coefficients: lengths
// are non-negative) and must tile [0, len(msg)) exactly — gaps of constant
// size are the zero bytes of the fresh buffer. A copy into an open window
// msg[off:] writes len(src) bytes because the tiling leaves it that much room.
// Every write must dominate every read (a write under a condition yields an
// alternative with zero bytes, as for fixed buffers).

import (
	"fmt"
	"go/token"
	"sort"

	"golang.org/x/tools/go/ssa"

	"manticheck/internal/lin"
)

type symWrite struct {
	at     ssa.Instruction
	off    lin.Form
	width  lin.Form
	pieces []*Piece
}

// formLE: f <= g for all non-negative values of the terms.
func formLE(f, g lin.Form) bool {
	d := g.Sub(f)
	if d.C.Sign() < 0 {
		return false
	}
	for _, t := range d.Terms() {
		if d.Coef[t].Sign() < 0 {
			return false
		}
	}
	return true
}

func (s *Streamer) symBuffer(mk *ssa.MakeSlice) []*Piece {
	opaque := func(why string) []*Piece {
		return []*Piece{{Kind: "bytes", Width: -1, Src: mk, At: mk, Why: why}}
	}
	if s.up != nil {
		return opaque("make with a non-constant length inside a loop")
	}
	z := NewSym()
	total := z.OfIn(mk.Len, s.frame)
	var writes []symWrite
	var readers []ssa.Instruction
	bad := ""
	fail := func(format string, a ...any) {
		if bad == "" {
			bad = fmt.Sprintf(format, a...)
		}
	}
	widthOf := func(ps []*Piece) (lin.Form, bool) {
		w := lin.K(0)
		for _, p := range ps {
			pw, ok := z.WidthOf(p)
			if !ok {
				return w, false
			}
			w = w.Add(pw)
		}
		return w, true
	}
	// a window [off, off+n) of the buffer (open: up to the end of the parent window)
	var visit func(v ssa.Value, off, n lin.Form, open bool, d int)
	visit = func(v ssa.Value, off, n lin.Form, open bool, d int) {
		if v.Referrers() == nil || bad != "" {
			return
		}
		if d > 8 {
			fail("use chain too deep")
			return
		}
		whole := off.Equal(lin.K(0)) && !open && n.Equal(total)
		for _, r := range *v.Referrers() {
			switch x := r.(type) {
			case *ssa.DebugRef:
			case *ssa.ChangeType:
				visit(x, off, n, open, d+1)
			case *ssa.Slice:
				if x.Max != nil {
					fail("three-index slice of the buffer")
					continue
				}
				lo := off
				if x.Low != nil {
					lo = off.Add(z.OfIn(x.Low, s.frame))
				}
				if x.High != nil {
					hi := off.Add(z.OfIn(x.High, s.frame))
					visit(x, lo, hi.Sub(lo), false, d+1)
				} else if open {
					visit(x, lo, lin.K(0), true, d+1)
				} else {
					visit(x, lo, off.Add(n).Sub(lo), false, d+1)
				}
			case *ssa.IndexAddr:
				idx := z.OfIn(x.Index, s.frame)
				for _, rr := range *x.Referrers() {
					switch y := rr.(type) {
					case *ssa.DebugRef:
					case *ssa.UnOp:
						readers = append(readers, y)
					case *ssa.Store:
						if y.Addr != ssa.Value(x) {
							fail("address of a buffer element is stored")
							continue
						}
						writes = append(writes, symWrite{at: y, off: off.Add(idx), width: lin.K(1), pieces: []*Piece{bytePiece(y.Val, y)}})
					default:
						fail("address of a buffer element escapes")
					}
				}
			case *ssa.Store:
				fail("buffer stored into memory")
			case *ssa.Return:
				readers = append(readers, x)
			case *ssa.Phi, *ssa.UnOp, *ssa.MakeInterface:
				fail("the buffer flows into %T", r)
			case ssa.CallInstruction:
				cc := x.Common()
				if b, ok := cc.Value.(*ssa.Builtin); ok {
					switch b.Name() {
					case "len", "cap":
					case "append":
						if cc.Args[0] == v && !whole {
							fail("append to a window of the buffer writes it in place")
						}
						readers = append(readers, x)
					case "copy":
						if cc.Args[0] != v {
							readers = append(readers, x)
							continue
						}
						src := s.Stream(cc.Args[1])
						w, ok := widthOf(src)
						if !ok {
							fail("copy of a source that cannot be read off into the buffer")
							continue
						}
						if !open {
							// a bounded window must be known to hold the source
							if !formLE(w, n) {
								if formLE(n, w) && !n.Equal(w) {
									// observed: the window is never longer than the source and
									// shorter for some inputs — copy() silently truncates
									fail("a copy truncates its source: %s bytes are copied into a window of %s bytes", z.String(w), z.String(n))
									continue
								}
								fail("copy into a window not known to be as long as its source")
								continue
							}
						}
						writes = append(writes, symWrite{at: x, off: off, width: w, pieces: src})
					default:
						fail("buffer passed to builtin %s", b.Name())
					}
					continue
				}
				if kind, w, order := binCall2(cc); kind != "" {
					if kind == "put" && cc.Args[1] == v {
						if !open && !formLE(lin.K(int64(w)), n) {
							fail("PutUint%d into a shorter window", 8*w)
							continue
						}
						writes = append(writes, symWrite{at: x, off: off, width: lin.K(int64(w)),
							pieces: []*Piece{{Kind: "int", Width: w, Order: order, Val: cc.Args[2], At: x}}})
					} else {
						readers = append(readers, x)
					}
					continue
				}
				if f := cc.StaticCallee(); f != nil && (readOnlyCallees[f.String()] || (f.Blocks != nil && paramsReadOnly(f, cc, v))) {
					readers = append(readers, x)
					continue
				}
				if cc.IsInvoke() && cc.Method.Name() == "Write" {
					readers = append(readers, x)
					continue
				}
				fail("buffer passed to %s", calleeStr(cc))
			default:
				fail("buffer used by %T", r)
			}
		}
	}
	visit(mk, lin.K(0), total, false, 0)
	if bad != "" {
		return opaque(bad)
	}
	conditional := map[ssa.Instruction]bool{}
	for _, w := range writes {
		for _, r := range readers {
			if w.at == r || instrBefore(w.at, r) {
				continue
			}
			for _, sc := range w.at.Block().Succs {
				if reaches(sc, w.at.Block()) {
					return opaque("a write to the buffer inside a loop does not dominate a read of it")
				}
			}
			if _, isK := w.width.ConstVal(); !isK {
				return opaque("a variable-length write to the buffer does not dominate a read of it")
			}
			conditional[w.at] = true
		}
	}
	// order the non-empty writes by offset
	var ws []symWrite
	for _, w := range writes {
		if !w.width.Equal(lin.K(0)) {
			ws = append(ws, w)
		}
	}
	comparable := true
	sort.SliceStable(ws, func(i, j int) bool {
		a, b := ws[i].off, ws[j].off
		switch {
		case a.Equal(b):
			return false
		case formLE(a, b):
			return true
		case formLE(b, a):
			return false
		}
		comparable = false
		return false
	})
	if !comparable {
		return opaque("the offsets written in the buffer cannot be ordered")
	}
	var out []*Piece
	zero := func(k int64) {
		if k > 0 {
			out = append(out, &Piece{Kind: "zero", Width: int(k), At: mk})
		}
	}
	pos := lin.K(0)
	for _, w := range ws {
		gap, isK := w.off.Sub(pos).ConstVal()
		if !isK || gap.Sign() < 0 || !gap.IsInt64() {
			return opaque(fmt.Sprintf("the writes do not tile the buffer: one ends at %s, the next starts at %s", z.String(pos), z.String(w.off)))
		}
		zero(gap.Int64())
		if conditional[w.at] {
			k, _ := w.width.ConstVal()
			out = append(out, &Piece{Kind: "alt", Width: int(k.Int64()), At: w.at, Alts: []Alt{
				{Pieces: w.pieces},
				{Pieces: []*Piece{{Kind: "zero", Width: int(k.Int64()), At: mk}}},
			}})
		} else {
			out = append(out, w.pieces...)
		}
		pos = w.off.Add(w.width)
	}
	gap, isK := total.Sub(pos).ConstVal()
	if !isK || gap.Sign() < 0 || !gap.IsInt64() {
		return opaque(fmt.Sprintf("the writes do not fill the buffer: they end at %s, it is %s long", z.String(pos), z.String(total)))
	}
	zero(gap.Int64())
	return out
}

var _ = token.ADD
