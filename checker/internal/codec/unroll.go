package codec

// Counted loops over a local constant table (added for C08).
//
// A builder may write its N descriptors and append its N payloads with
//
//	fields := [][]byte{a, b, c}
//	for _, f := range fields { data = appendDescriptor(data, len(f), off); off += len(f) }
//	for _, f := range fields { data = append(data, f...) }
//
// instead of N copied statements. Such a loop is read by unrolling it
// statically: the trip count must evaluate to a constant from the loop's own
// exit test (the only exit, taken in the header, apart from error returns), and
// iteration k is read in its own activation record (a Frame with Iter set) in
// which
//   - a header φ denotes its entry value for k = 0 and, for k > 0, its
//     back-edge value in iteration k-1;
//   - a load table[i], with i evaluating to the constant k and `table` a local
//     array/slice literal that is written only by its initialising stores and
//     never escapes, denotes the value stored at index k.
//
// Nothing is executed; a loop that does not fit yields an "unknown" piece.

import (
	"fmt"
	"go/constant"
	"go/token"
	"go/types"

	"golang.org/x/tools/go/ssa"
)

const maxUnroll = 64

// Loop is a natural loop with a single back edge whose only non-failing exit is
// the header's test.
type Loop struct {
	Header      *ssa.BasicBlock
	entry, back int // indices into Header.Preds
	N           int // trip count (valid once counted)
	counted     bool
	blocks      map[*ssa.BasicBlock]bool
	outer       *Frame
	frames      []*Frame
}

// Iter identifies one iteration of a Loop: K = 0 … N-1 are the executions of
// the body, K = N is the evaluation of the header that leaves the loop.
type Iter struct {
	Loop *Loop
	K    int
	Prev *Frame
}

func blockOf(v ssa.Value) *ssa.BasicBlock {
	if in, ok := v.(ssa.Instruction); ok {
		return in.Block()
	}
	return nil
}

// loopShape recognises the loop headed by hb (without counting it).
func loopShape(hb *ssa.BasicBlock) (*Loop, string) { return loopShapeF(hb, nil) }

// loopShapeF: isFail (optional) decides which blocks outside the loop count as
// failing exits; by default those from which every path panics or returns a
// non-nil error.
func loopShapeF(hb *ssa.BasicBlock, isFail func(*ssa.BasicBlock, map[*ssa.BasicBlock]bool) bool) (*Loop, string) {
	if isFail == nil {
		isFail = func(b *ssa.BasicBlock, loop map[*ssa.BasicBlock]bool) bool { return failOnly(b, loop, 0) }
	}
	lp := &Loop{Header: hb, entry: -1, back: -1, blocks: map[*ssa.BasicBlock]bool{hb: true}}
	for i, p := range hb.Preds {
		if hb.Dominates(p) {
			if lp.back >= 0 {
				return nil, "the loop has several back edges"
			}
			lp.back = i
		} else {
			if lp.entry >= 0 {
				return nil, "the loop has several entry edges"
			}
			lp.entry = i
		}
	}
	if lp.entry < 0 || lp.back < 0 {
		return nil, "not a loop"
	}
	work := []*ssa.BasicBlock{hb.Preds[lp.back]}
	for len(work) > 0 {
		b := work[len(work)-1]
		work = work[:len(work)-1]
		if lp.blocks[b] {
			continue
		}
		if !hb.Dominates(b) {
			return nil, "irreducible loop"
		}
		lp.blocks[b] = true
		work = append(work, b.Preds...)
	}
	if _, ok := hb.Instrs[len(hb.Instrs)-1].(*ssa.If); !ok || len(hb.Succs) != 2 || lp.blocks[hb.Succs[0]] == lp.blocks[hb.Succs[1]] {
		return nil, "the loop is not left by a test in its header"
	}
	for b := range lp.blocks {
		if b == hb {
			continue
		}
		for _, s := range b.Succs {
			if !lp.blocks[s] && !isFail(s, lp.blocks) {
				return nil, "the loop can be left from its body (break / return of a result)"
			}
		}
	}
	return lp, ""
}

// failOnly: every path from b (outside the loop) ends in a panic or in a return
// whose last result is an error that is not the nil constant.
func failOnly(b *ssa.BasicBlock, loop map[*ssa.BasicBlock]bool, d int) bool {
	if d > 8 || loop[b] {
		return false
	}
	switch x := b.Instrs[len(b.Instrs)-1].(type) {
	case *ssa.Panic:
		return true
	case *ssa.Return:
		if len(x.Results) == 0 {
			return false
		}
		last := x.Results[len(x.Results)-1]
		if !types.Identical(last.Type(), types.Universe.Lookup("error").Type()) {
			return false
		}
		k, isK := last.(*ssa.Const)
		return !isK || k.Value != nil
	}
	if len(b.Succs) == 0 {
		return false
	}
	for _, s := range b.Succs {
		if !failOnly(s, loop, d+1) {
			return false
		}
	}
	return true
}

// frame returns the activation of iteration k.
func (lp *Loop) frame(k int) *Frame {
	for len(lp.frames) <= k {
		i := len(lp.frames)
		var prev *Frame
		if i > 0 {
			prev = lp.frames[i-1]
		}
		lp.frames = append(lp.frames, &Frame{Parent: lp.outer, Iter: &Iter{Loop: lp, K: i, Prev: prev}})
	}
	return lp.frames[k]
}

// count evaluates the header's test for k = 0, 1, … until it leaves the loop.
func (lp *Loop) count() string {
	if lp.counted {
		return ""
	}
	hb := lp.Header
	iff := hb.Instrs[len(hb.Instrs)-1].(*ssa.If)
	for k := 0; k <= maxUnroll; k++ {
		t, ok := evalCond(iff.Cond, lp.frame(k))
		if !ok {
			return "the trip count of the loop is not a constant"
		}
		next := hb.Succs[1]
		if t {
			next = hb.Succs[0]
		}
		if !lp.blocks[next] {
			lp.N, lp.counted = k, true
			return ""
		}
	}
	return fmt.Sprintf("the loop runs more than %d times", maxUnroll)
}

// evalCond decides an integer comparison whose operands evaluate to constants in fr.
func evalCond(cond ssa.Value, fr *Frame) (truth, ok bool) {
	neg := false
	for {
		u, isU := cond.(*ssa.UnOp)
		if !isU || u.Op != token.NOT {
			break
		}
		cond, neg = u.X, !neg
	}
	cmp, isB := cond.(*ssa.BinOp)
	if !isB || !isIntT(cmp.X.Type()) {
		return false, false
	}
	z := NewSym()
	k, isK := z.OfIn(cmp.X, fr).Sub(z.OfIn(cmp.Y, fr)).ConstVal()
	if !isK {
		return false, false
	}
	s := k.Sign()
	switch cmp.Op {
	case token.LSS:
		truth = s < 0
	case token.LEQ:
		truth = s <= 0
	case token.GTR:
		truth = s > 0
	case token.GEQ:
		truth = s >= 0
	case token.EQL:
		truth = s == 0
	case token.NEQ:
		truth = s != 0
	default:
		return false, false
	}
	return truth != neg, true
}

// iterFrame: the iteration activation of the loop headed by hb that fr lies in
// (fr itself or an enclosing iteration of the same function activation).
func (fr *Frame) iterFrame(hb *ssa.BasicBlock) *Frame {
	for f := fr; f != nil && f.Iter != nil; f = f.Parent {
		if f.Iter.Loop.Header == hb {
			return f
		}
	}
	return nil
}

// iterPhi: header φ p, read in an iteration activation, is one of its edges in
// another activation.
func iterPhi(p *ssa.Phi, fr *Frame) (ssa.Value, *Frame, bool) {
	f := fr.iterFrame(p.Block())
	if f == nil {
		return nil, nil, false
	}
	it := f.Iter
	if it.K == 0 {
		return p.Edges[it.Loop.entry], f.Parent, true
	}
	return p.Edges[it.Loop.back], it.Prev, true
}

// InLoopOf: block b lies in one of the unrolled loops fr is an iteration of.
func InLoopOf(b *ssa.BasicBlock, fr *Frame) bool {
	for f := fr; f != nil; f = f.Parent {
		if f.Iter != nil && f.Iter.Loop.blocks[b] {
			return true
		}
	}
	return false
}

// scopeFrame: the activation in which value v (of the function fr belongs to)
// lives: iterations of loops that do not contain v's definition are left.
func scopeFrame(v ssa.Value, fr *Frame) *Frame {
	b := blockOf(v)
	for fr != nil && fr.Iter != nil && !fr.Iter.Loop.blocks[b] {
		fr = fr.Parent
	}
	return fr
}

// tableStores: x is a local array literal (or the whole-array slice of one)
// that is written only by one initialising store per constant index and is
// otherwise only read element-wise.
func tableStores(x ssa.Value) (map[int64]*ssa.Store, bool) {
	out, _, ok := tableStores2(x, 0)
	return out, ok
}

// tableStores2 also accepts a table variable that is initialised by one
// whole-array copy of a literal (fields := [...][]byte{…} when fields is
// indexed by a variable: go/ssa builds the literal in a temporary and copies
// it); ready is that copy (nil when the literal is built in place): the table
// holds its values only after it.
func tableStores2(x ssa.Value, depth int) (map[int64]*ssa.Store, *ssa.Store, bool) {
	out, ready, ok := tableStores1(x, depth)
	return out, ready, ok
}

func tableStores1(x ssa.Value, depth0 int) (map[int64]*ssa.Store, *ssa.Store, bool) {
	var al *ssa.Alloc
	switch t := x.(type) {
	case *ssa.Alloc:
		al = t
	case *ssa.Slice:
		a, ok := t.X.(*ssa.Alloc)
		if !ok || t.Max != nil || t.High != nil {
			return nil, nil, false
		}
		if lo, ok := optConst(t.Low, 0); !ok || lo != 0 {
			return nil, nil, false
		}
		al = a
	default:
		return nil, nil, false
	}
	if _, isArr := derefT(al.Type()).Underlying().(*types.Array); !isArr || al.Referrers() == nil {
		return nil, nil, false
	}
	out := map[int64]*ssa.Store{}
	var ready *ssa.Store
	depth := 0
	var readOnlyElems func(v ssa.Value, stores bool) bool
	readOnlyElems = func(v ssa.Value, stores bool) bool {
		for _, r := range *v.Referrers() {
			switch y := r.(type) {
			case *ssa.DebugRef:
			case *ssa.IndexAddr:
				idx, isK := constI(y.Index)
				for _, rr := range *y.Referrers() {
					switch q := rr.(type) {
					case *ssa.DebugRef:
					case *ssa.UnOp:
						if q.Op != token.MUL {
							return false
						}
					case *ssa.Store:
						if !stores || !isK || q.Addr != ssa.Value(y) {
							return false
						}
						if _, dup := out[idx]; dup {
							return false
						}
						out[idx] = q
					default:
						return false
					}
				}
			case *ssa.Store:
				// the one whole-array copy that initialises the variable from a literal
				if !stores || y.Addr != v || ready != nil || depth0 > 0 {
					return false
				}
				ld, isLd := y.Val.(*ssa.UnOp)
				if !isLd || ld.Op != token.MUL {
					return false
				}
				src, _, ok := tableStores1(ld.X, depth0+1)
				if !ok {
					return false
				}
				for _, st := range src {
					if !instrBefore(st, ld) {
						return false
					}
				}
				for k, st := range src {
					if _, dup := out[k]; dup {
						return false
					}
					out[k] = st
				}
				ready = y
			case *ssa.Slice:
				if !stores {
					return false
				}
				// handled by the caller
			case *ssa.UnOp:
				// the whole array read as a value (range over an array literal)
				if !stores || y.Op != token.MUL || y.Referrers() == nil {
					return false
				}
				for _, rr := range *y.Referrers() {
					switch q := rr.(type) {
					case *ssa.Index, *ssa.DebugRef:
					case *ssa.Store:
						// the temporary literal copied into its variable (checked by the caller)
						if depth0 == 0 || q.Val != ssa.Value(y) {
							return false
						}
					default:
						return false
					}
				}
			case *ssa.Call:
				if b, isB := y.Common().Value.(*ssa.Builtin); isB {
					if b.Name() != "len" && b.Name() != "cap" {
						return false
					}
					continue
				}
				// handed to a function (variadic parts ...[]byte) that only reads its elements
				f := y.Common().StaticCallee()
				if stores || f == nil || f.Blocks == nil || depth > 1 {
					return false
				}
				for i, a := range y.Common().Args {
					if a != v {
						continue
					}
					if i >= len(f.Params) || f.Params[i].Referrers() == nil {
						return false
					}
					depth++
					ok := readOnlyElems(f.Params[i], false)
					depth--
					if !ok {
						return false
					}
				}
			default:
				return false
			}
		}
		return true
	}
	if !readOnlyElems(al, true) {
		return nil, nil, false
	}
	for _, r := range *al.Referrers() {
		sl, ok := r.(*ssa.Slice)
		if !ok {
			continue
		}
		if sl.Max != nil || sl.High != nil || sl.Referrers() == nil {
			return nil, nil, false
		}
		if lo, ok := optConst(sl.Low, 0); !ok || lo != 0 {
			return nil, nil, false
		}
		if !readOnlyElems(sl, false) {
			return nil, nil, false
		}
	}
	if ready != nil && len(out) > 0 {
		// no element of the variable may be stored separately as well
		for _, st := range out {
			if ia, ok := st.Addr.(*ssa.IndexAddr); ok && ia.X == ssa.Value(al) {
				return nil, nil, false
			}
		}
	}
	return out, ready, true
}

// elemLoad: v = *(&table[i]) (or arr[i] of the array value *table) with i a
// constant in fr → the value stored at i.
func elemLoad(v ssa.Value, fr *Frame) (ssa.Value, *Frame, bool) {
	var tblX, index ssa.Value
	var read ssa.Instruction // where the table's memory is read
	switch u := v.(type) {
	case *ssa.UnOp:
		ia, ok := u.X.(*ssa.IndexAddr)
		if !ok || u.Op != token.MUL {
			return nil, nil, false
		}
		tblX, index, read = ia.X, ia.Index, u
	case *ssa.Index:
		ld, ok := u.X.(*ssa.UnOp)
		if !ok || ld.Op != token.MUL {
			return nil, nil, false
		}
		tblX, index, read = ld.X, u.Index, ld
	default:
		return nil, nil, false
	}
	// a table received as a parameter (parts ...[]byte) is the caller's literal;
	// its memory is then read while the call at which it was passed executes
	tfr := fr
	for d := 0; d < 4; d++ {
		p, isP := tblX.(*ssa.Parameter)
		if !isP {
			break
		}
		var cf *Frame
		for f := tfr; f != nil; f = f.Parent {
			if f.Iter == nil {
				cf = f
				break
			}
		}
		arg, pf, ok := tfr.Bind(p)
		if !ok || cf == nil {
			return nil, nil, false
		}
		tblX, tfr, read = arg, pf, cf.Call
	}
	tbl, ready, ok := tableStores2(tblX, 0)
	if !ok || (ready != nil && !instrBefore(ready, read)) {
		return nil, nil, false
	}
	z := NewSym()
	k, isK := z.OfIn(index, fr).ConstVal()
	if !isK || !k.IsInt64() {
		return nil, nil, false
	}
	st := tbl[k.Int64()]
	if st == nil || !instrBefore(st, read) {
		return nil, nil, false
	}
	return st.Val, scopeFrame(st.Val, tfr), true
}

// loopSeparates: base is a header φ of a well-shaped loop and exactly one of the
// two extending calls lies inside that loop. The value that leaves the loop is
// the one the header's test saw, which the body did not extend, so the two
// calls never extend the same dynamic slice.
func loopSeparates(base ssa.Value, a, b *ssa.Call) bool {
	p, ok := base.(*ssa.Phi)
	if !ok || !isLoopHeader(p.Block()) {
		return false
	}
	lp, why := loopShape(p.Block())
	if why != "" {
		return false
	}
	return lp.blocks[a.Block()] != lp.blocks[b.Block()]
}

// loop returns the (counted) loop headed by hb within s's activation.
func (s *Streamer) loop(hb *ssa.BasicBlock) (*Loop, string) {
	if lp, ok := s.loops[hb]; ok {
		return lp, ""
	}
	lp, why := loopShapeF(hb, s.isFail)
	if why != "" {
		return nil, why
	}
	lp.outer = s.frame
	if why := lp.count(); why != "" {
		return nil, why
	}
	if s.loops == nil {
		s.loops = map[*ssa.BasicBlock]*Loop{}
	}
	s.loops[hb] = lp
	return lp, ""
}

func (s *Streamer) iterStreamer(lp *Loop, k int) *Streamer {
	fr := lp.frame(k)
	if t, ok := s.iters[fr]; ok {
		return t
	}
	t := NewStreamer(s.Fn, s.InModule)
	t.depth, t.frame, t.up = s.depth, fr, s
	if s.iters == nil {
		s.iters = map[*Frame]*Streamer{}
	}
	s.iters[fr] = t
	return t
}

// loopState: the content of header φ p on entering iteration k (k = N: on leaving the loop).
func (s *Streamer) loopState(lp *Loop, p *ssa.Phi, k int) []*Piece {
	if k == 0 {
		ps := s.Stream(p.Edges[lp.entry])
		setFrame(ps, s.frame)
		return ps
	}
	return s.iterStreamer(lp, k-1).Stream(p.Edges[lp.back])
}

func (s *Streamer) loopPhi(p *ssa.Phi) []*Piece {
	hb := p.Block()
	// read inside an iteration of this loop: the state on entering that iteration
	for t := s; t != nil && t.up != nil; t = t.up {
		if it := t.frame.Iter; it.Loop.Header == hb {
			return t.up.loopState(it.Loop, p, it.K)
		}
	}
	// read after the loop: the state after its last iteration
	lp, why := s.loop(hb)
	if why != "" {
		return unknown(p, "loop-carried byte slice %s: %s", p.Name(), why)
	}
	if why := readOnly(p, 0); why != "" {
		return unknown(p, "the loop-carried slice %s %s", p.Name(), why)
	}
	return s.loopState(lp, p, lp.N)
}

// bodyLoop: the counted loop of s's activation whose body contains block b,
// provided it is not nested in another loop (so its body runs exactly N times).
func (s *Streamer) bodyLoop(b *ssa.BasicBlock) *Loop {
	if s.up != nil {
		return nil
	}
	var found *Loop
	for h := b; h != nil; h = h.Idom() {
		if !isLoopHeader(h) {
			continue
		}
		if found == nil {
			lp, why := s.loop(h)
			if why != "" {
				if sh, w2 := loopShape(h); w2 == "" && !sh.blocks[b] {
					continue // a loop that b merely follows
				}
				return nil
			}
			if lp.blocks[b] {
				found = lp
			}
			continue
		}
		// an enclosing loop?
		for _, p := range h.Preds {
			if h.Dominates(p) && reaches(found.Header, p) {
				return nil
			}
		}
	}
	return found
}

// LoopGuard is a test in the body of a counted loop over a local table that
// leaves the function with an error (or panics) on one outcome and stays in
// the loop on the other, and that executes in every iteration:
//
//	for _, f := range fields { if len(f) > 0xFFFF { return nil, errTooLong } }
//
// Wherever Exit dominates, Cond had the truth value Stay in each of the
// iterations Frames[0..N-1] (the loop's only non-failing exit is its header
// test after N complete iterations).
type LoopGuard struct {
	Cond   *ssa.BinOp
	Stay   bool
	Frames []*Frame
	Exit   *ssa.BasicBlock
	At     *ssa.If
	// Via is the validating helper call the guard was read through (CallGuards);
	// Exit then is the caller's block entered when the helper reported success.
	Via *ssa.Call
}

// LoopGuards lists the guards of the counted loops of s's function.
func (s *Streamer) LoopGuards() []LoopGuard {
	var out []LoopGuard
	for _, hb := range s.Fn.Blocks {
		if !isLoopHeader(hb) {
			continue
		}
		lp, why := s.loop(hb)
		if why != "" || lp.N == 0 {
			continue
		}
		exit := hb.Succs[0]
		if lp.blocks[exit] {
			exit = hb.Succs[1]
		}
		if len(exit.Preds) != 1 {
			continue
		}
		for b := range lp.blocks {
			if b == hb || !b.Dominates(hb.Preds[lp.back]) {
				continue
			}
			iff, ok := b.Instrs[len(b.Instrs)-1].(*ssa.If)
			if !ok || len(b.Succs) != 2 {
				continue
			}
			in0, in1 := lp.blocks[b.Succs[0]], lp.blocks[b.Succs[1]]
			if in0 == in1 {
				continue
			}
			out0 := b.Succs[0]
			if in0 {
				out0 = b.Succs[1]
			}
			fails := failOnly(out0, lp.blocks, 0)
			if s.isFail != nil {
				fails = s.isFail(out0, lp.blocks)
			}
			if !fails {
				continue
			}
			cond, neg := iff.Cond, false
			for {
				u, isU := cond.(*ssa.UnOp)
				if !isU || u.Op != token.NOT {
					break
				}
				cond, neg = u.X, !neg
			}
			cmp, isB := cond.(*ssa.BinOp)
			if !isB || !isIntT(cmp.X.Type()) {
				continue
			}
			g := LoopGuard{Cond: cmp, Stay: in0 != neg, Exit: exit, At: iff}
			for k := 0; k < lp.N; k++ {
				g.Frames = append(g.Frames, lp.frame(k))
			}
			out = append(out, g)
		}
	}
	return out
}

// boolFail: every path from b (outside the loop) ends in a return of the
// boolean constant `bad` (the verdict of a predicate helper that found an
// offending element).
func boolFail(bad bool) func(*ssa.BasicBlock, map[*ssa.BasicBlock]bool) bool {
	var rec func(b *ssa.BasicBlock, loop map[*ssa.BasicBlock]bool, d int) bool
	rec = func(b *ssa.BasicBlock, loop map[*ssa.BasicBlock]bool, d int) bool {
		if d > 8 || loop[b] {
			return false
		}
		switch x := b.Instrs[len(b.Instrs)-1].(type) {
		case *ssa.Panic:
			return true
		case *ssa.Return:
			if len(x.Results) != 1 {
				return false
			}
			k, ok := x.Results[0].(*ssa.Const)
			return ok && k.Value != nil && k.Value.Kind() == constant.Bool && constant.BoolVal(k.Value) == bad
		}
		if len(b.Succs) == 0 {
			return false
		}
		for _, sc := range b.Succs {
			if !rec(sc, loop, d+1) {
				return false
			}
		}
		return true
	}
	return func(b *ssa.BasicBlock, loop map[*ssa.BasicBlock]bool) bool { return rec(b, loop, 0) }
}

// CallGuards reads the guards a validating helper applies to the caller's
// values (two-phase validate/build):
//
//	if err := checkFieldLengths(a, b, c); err != nil { return nil, err }
//	if anyTooLong(a, b, c) { return nil, errTooLong }
//
// The helper (in-module, returning one error or one bool) is read at its call
// site: its counted loops over the parameter table are unrolled with the
// parameters bound to the arguments; every return that reports success must
// come after each guard loop has run to its end. The facts hold in the caller
// wherever the block entered on the helper's success verdict dominates.
func (s *Streamer) CallGuards() []LoopGuard {
	var out []LoopGuard
	if s.InModule == nil {
		return nil
	}
	errT := types.Universe.Lookup("error").Type()
	for _, b := range s.Fn.Blocks {
		for _, in := range b.Instrs {
			call, ok := in.(*ssa.Call)
			if !ok || call.Common().IsInvoke() {
				continue
			}
			h := call.Common().StaticCallee()
			if h == nil || h.Blocks == nil || !s.InModule(h) || h.Signature.Results().Len() != 1 || call.Referrers() == nil {
				continue
			}
			rt := h.Signature.Results().At(0).Type()
			isErr := types.Identical(rt, errT)
			bt, _ := rt.Underlying().(*types.Basic)
			isBool := bt != nil && bt.Kind() == types.Bool
			if !isErr && !isBool {
				continue
			}
			for _, normal := range []bool{false, true} {
				if isErr && normal {
					break
				}
				// blocks of the caller entered when the helper reported success
				var oks []*ssa.BasicBlock
				for _, r := range *call.Referrers() {
					var iff *ssa.If
					okIdx := -1
					switch x := r.(type) {
					case *ssa.BinOp:
						if !isErr || (x.Op != token.EQL && x.Op != token.NEQ) || x.Referrers() == nil {
							continue
						}
						other := x.Y
						if other == ssa.Value(call) {
							other = x.X
						}
						if k, isK := other.(*ssa.Const); !isK || k.Value != nil {
							continue
						}
						for _, rr := range *x.Referrers() {
							if f, isIf := rr.(*ssa.If); isIf {
								iff = f
							}
						}
						okIdx = 0
						if x.Op == token.NEQ {
							okIdx = 1
						}
					case *ssa.If:
						if !isBool {
							continue
						}
						iff, okIdx = x, 1
						if normal {
							okIdx = 0
						}
					case *ssa.UnOp:
						if !isBool || x.Op != token.NOT || x.Referrers() == nil {
							continue
						}
						for _, rr := range *x.Referrers() {
							if f, isIf := rr.(*ssa.If); isIf {
								iff = f
							}
						}
						okIdx = 0
						if normal {
							okIdx = 1
						}
					}
					if iff == nil || len(iff.Block().Succs) != 2 {
						continue
					}
					okb := iff.Block().Succs[okIdx]
					if len(okb.Preds) == 1 {
						oks = append(oks, okb)
					}
				}
				if len(oks) == 0 {
					continue
				}
				sub := NewStreamer(h, s.InModule)
				sub.depth, sub.frame, sub.caller = s.depth+1, ChildFrame(call, h, s.frame), s
				if isBool {
					sub.isFail = boolFail(!normal)
				}
				gs := sub.LoopGuards()
				if len(gs) == 0 {
					continue
				}
				// every success return of the helper comes after the guard loops
				good := true
				for _, hbk := range h.Blocks {
					ret, isRet := hbk.Instrs[len(hbk.Instrs)-1].(*ssa.Return)
					if !isRet {
						continue
					}
					k, isK := ret.Results[0].(*ssa.Const)
					success := false
					switch {
					case isErr:
						// as in failOnly: only the nil constant reports success
						success = isK && k.Value == nil
					case isBool:
						success = !isK || k.Value == nil || k.Value.Kind() != constant.Bool || constant.BoolVal(k.Value) == normal
					}
					if !success {
						continue
					}
					for _, g := range gs {
						if !g.Exit.Dominates(hbk) {
							good = false
						}
					}
				}
				if !good {
					continue
				}
				for _, g := range gs {
					for _, okb := range oks {
						g2 := g
						g2.Exit, g2.Via = okb, call
						out = append(out, g2)
					}
				}
				break
			}
		}
	}
	return out
}
