package codec

// Local state read through helpers (added for C08, second hardening round).
//
// Two refactorings move a quantity the rules reason about out of the SSA
// def-use chain of the analysed function and into a local memory cell:
//
//  1. A running offset kept in a captured variable or in a small cursor type,
//
//	next := 88
//	place := func(b []byte) int { o := next; next += len(b); return o }
//	lmOff := place(lm); ntOff := place(nt) …
//
//     (equally: type layout struct{ off int }; func (l *layout) place(b []byte) int).
//     The cell group of such a variable is the set of local allocations that
//     the closures / methods involved can touch. Its operations (stores in the
//     owning function, calls of closures capturing it, calls of same-package
//     functions receiving its address) must be totally ordered by dominance and
//     lie outside every cycle; every callee must be one straight-line block
//     that uses the cell only to load and store it. Then the state of every
//     cell before every operation is a linear form, obtained by replaying the
//     operations in order (nothing is executed: the callee's stores are
//     evaluated symbolically with its parameters bound to the arguments).
//     Anything else is "not readable" and the caller gets an opaque term.
//
//  2. A decoded descriptor carried in a struct value,
//
//	type payloadField struct{ length uint16; offset uint32 }
//	func readPayloadField(d []byte) payloadField { return payloadField{length: le16(d[0:2]), offset: le32(d[4:8])} }
//	func (f payloadField) resolve(msg []byte) []byte { … msg[f.offset:end] }
//
//     A load of field i of a local struct that is written only by its
//     initialising stores (one per field, or one whole-struct store of a
//     parameter / helper result) denotes the value stored there; a struct
//     parameter denotes the call's argument; the result of a same-module helper
//     with one return denotes the struct that helper built, in its activation.
//
// Activations of helpers entered this way are interned (ChildFrame), so that
// the same value reached twice is the same symbolic term.

import (
	"go/constant"
	"go/token"
	"go/types"
	"sync"

	"golang.org/x/tools/go/ssa"

	"manticheck/internal/lin"
)

// ---------------------------------------------------------------------------
// interned activations

type frameKey struct {
	call   *ssa.Call
	parent *Frame
}

var (
	frameMu    sync.Mutex
	frameCache = map[frameKey]*Frame{}
)

// ChildFrame returns the activation of callee entered at call from activation
// parent; the same (call, parent) always yields the same *Frame.
func ChildFrame(call *ssa.Call, callee *ssa.Function, parent *Frame) *Frame {
	frameMu.Lock()
	defer frameMu.Unlock()
	k := frameKey{call, parent}
	if f, ok := frameCache[k]; ok && f.Callee == callee {
		return f
	}
	f := &Frame{Call: call, Callee: callee, Parent: parent}
	frameCache[k] = f
	return f
}

// funcFrame: the activation of fr's chain that is a function call (loop
// iterations are skipped); nil for the analysed function itself.
func funcFrame(fr *Frame) *Frame {
	for fr != nil && fr.Iter != nil {
		fr = fr.Parent
	}
	return fr
}

// singleReturn: the only return instruction of f.
func singleReturn(f *ssa.Function) *ssa.Return {
	var ret *ssa.Return
	for _, b := range f.Blocks {
		if r, ok := b.Instrs[len(b.Instrs)-1].(*ssa.Return); ok {
			if ret != nil {
				return nil
			}
			ret = r
		}
	}
	return ret
}

func inCycle(b *ssa.BasicBlock) bool {
	for _, s := range b.Succs {
		if reaches(s, b) {
			return true
		}
	}
	return false
}

// ---------------------------------------------------------------------------
// 2. struct values

func structOf(t types.Type) *types.Struct {
	st, _ := derefT(t).Underlying().(*types.Struct)
	return st
}

// ptrReadOnly: every use of pointer-to-struct value p only reads the struct
// (field loads, whole loads, hand-over to same-shaped read-only parameters).
func ptrReadOnly(p ssa.Value, d int) bool {
	if p.Referrers() == nil {
		return true
	}
	if d > 3 {
		return false
	}
	for _, r := range *p.Referrers() {
		switch x := r.(type) {
		case *ssa.DebugRef:
		case *ssa.UnOp:
			if x.Op != token.MUL {
				return false
			}
		case *ssa.FieldAddr:
			for _, rr := range *x.Referrers() {
				switch y := rr.(type) {
				case *ssa.DebugRef:
				case *ssa.UnOp:
					if y.Op != token.MUL {
						return false
					}
				default:
					return false
				}
			}
		case *ssa.Call:
			f := x.Common().StaticCallee()
			if f == nil || f.Blocks == nil || x.Common().IsInvoke() {
				return false
			}
			for i, a := range x.Common().Args {
				if a != p {
					continue
				}
				if i >= len(f.Params) || !ptrReadOnly(f.Params[i], d+1) {
					return false
				}
			}
		default:
			return false
		}
	}
	return true
}

// allocField: the value of field idx of local struct al when `read` executes
// (read is an instruction of al's function, in activation fr).
func allocField(al *ssa.Alloc, idx int, read ssa.Instruction, fr *Frame, d int) (ssa.Value, *Frame, bool) {
	if structOf(al.Type()) == nil || al.Referrers() == nil || d > 8 {
		return nil, nil, false
	}
	var whole []*ssa.Store
	var field []*ssa.Store
	for _, r := range *al.Referrers() {
		switch x := r.(type) {
		case *ssa.DebugRef:
		case *ssa.UnOp:
			if x.Op != token.MUL {
				return nil, nil, false
			}
		case *ssa.Store:
			if x.Addr != ssa.Value(al) {
				return nil, nil, false // the struct's address is stored
			}
			whole = append(whole, x)
		case *ssa.FieldAddr:
			for _, rr := range *x.Referrers() {
				switch y := rr.(type) {
				case *ssa.DebugRef:
				case *ssa.UnOp:
					if y.Op != token.MUL {
						return nil, nil, false
					}
				case *ssa.Store:
					if y.Addr != ssa.Value(x) {
						return nil, nil, false
					}
					if x.Field == idx {
						field = append(field, y)
					}
				default:
					if x.Field == idx {
						return nil, nil, false // the field's address escapes
					}
				}
			}
		case *ssa.Call:
			// handed to a function that only reads it
			f := x.Common().StaticCallee()
			if f == nil || f.Blocks == nil || x.Common().IsInvoke() {
				return nil, nil, false
			}
			for i, a := range x.Common().Args {
				if a == ssa.Value(al) && (i >= len(f.Params) || !ptrReadOnly(f.Params[i], 0)) {
					return nil, nil, false
				}
			}
		case *ssa.Return:
			// a constructor returning &T{…}: the caller's uses are checked by ptrField
		default:
			return nil, nil, false
		}
	}
	if len(whole)+len(field) == 0 {
		// never written: the zero value (integers only)
		if ft := structOf(al.Type()).Field(idx).Type(); isIntT(ft) {
			return ssa.NewConst(constant.MakeInt64(0), ft), nil, true
		}
		return nil, nil, false
	}
	if len(whole)+len(field) != 1 {
		return nil, nil, false
	}
	if len(field) == 1 {
		st := field[0]
		if !instrBefore(st, read) || inCycle(st.Block()) {
			return nil, nil, false
		}
		return st.Val, scopeFrame(st.Val, fr), true
	}
	st := whole[0]
	if !instrBefore(st, read) || inCycle(st.Block()) {
		return nil, nil, false
	}
	return structField(st.Val, scopeFrame(st.Val, fr), idx, d+1)
}

// structField: field idx of struct value v (activation fr).
func structField(v ssa.Value, fr *Frame, idx int, d int) (ssa.Value, *Frame, bool) {
	if d > 8 {
		return nil, nil, false
	}
	switch x := v.(type) {
	case *ssa.ChangeType:
		return structField(x.X, fr, idx, d+1)
	case *ssa.UnOp:
		if x.Op != token.MUL {
			return nil, nil, false
		}
		return ptrField(x.X, fr, idx, x, d+1)
	case *ssa.Parameter:
		arg, pf, ok := fr.Bind(x)
		if !ok {
			return nil, nil, false
		}
		return structField(arg, pf, idx, d+1)
	case *ssa.Field:
		inner, ifr, ok := structField(x.X, fr, x.Field, d+1)
		if !ok {
			return nil, nil, false
		}
		return structField(inner, ifr, idx, d+1)
	case *ssa.Call:
		f := x.Common().StaticCallee()
		if f == nil || f.Blocks == nil || x.Common().IsInvoke() || f.Signature.Results().Len() != 1 {
			return nil, nil, false
		}
		ret := singleReturn(f)
		if ret == nil {
			return nil, nil, false
		}
		return structField(ret.Results[0], ChildFrame(x, f, fr), idx, d+1)
	case *ssa.Extract:
		call, ok := x.Tuple.(*ssa.Call)
		if !ok {
			return nil, nil, false
		}
		f := call.Common().StaticCallee()
		if f == nil || f.Blocks == nil || call.Common().IsInvoke() {
			return nil, nil, false
		}
		ret := singleReturn(f)
		if ret == nil || x.Index >= len(ret.Results) {
			return nil, nil, false
		}
		return structField(ret.Results[x.Index], ChildFrame(call, f, fr), idx, d+1)
	}
	return nil, nil, false
}

// ptrField: field idx of the struct p points to, when `read` (an instruction of
// the function p lives in; nil = the call that entered activation fr) executes.
func ptrField(p ssa.Value, fr *Frame, idx int, read ssa.Instruction, d int) (ssa.Value, *Frame, bool) {
	if d > 8 {
		return nil, nil, false
	}
	switch x := p.(type) {
	case *ssa.ChangeType:
		return ptrField(x.X, fr, idx, read, d+1)
	case *ssa.Alloc:
		if read == nil {
			return nil, nil, false
		}
		return allocField(x, idx, read, fr, d+1)
	case *ssa.Parameter:
		cf := funcFrame(fr)
		arg, pf, ok := fr.Bind(x)
		if !ok || cf == nil {
			return nil, nil, false
		}
		return ptrField(arg, pf, idx, cf.Call, d+1)
	case *ssa.Call:
		// a constructor: p = newT(…) with one return of a local &T{…}; the pointer
		// must only be read afterwards
		f := x.Common().StaticCallee()
		if f == nil || f.Blocks == nil || x.Common().IsInvoke() || f.Signature.Results().Len() != 1 || !ptrReadOnly(x, 0) {
			return nil, nil, false
		}
		ret := singleReturn(f)
		if ret == nil {
			return nil, nil, false
		}
		return ptrField(ret.Results[0], ChildFrame(x, f, fr), idx, ret, d+1)
	}
	return nil, nil, false
}

// fieldLoad: v is a load of a struct field (or a Field projection of a struct
// value) that denotes one stored value.
func fieldLoad(v ssa.Value, fr *Frame) (ssa.Value, *Frame, bool) {
	switch x := v.(type) {
	case *ssa.UnOp:
		if x.Op != token.MUL {
			return nil, nil, false
		}
		fa, ok := x.X.(*ssa.FieldAddr)
		if !ok {
			return nil, nil, false
		}
		return ptrField(fa.X, scopeFrame(x, fr), fa.Field, x, 0)
	case *ssa.Field:
		return structField(x.X, scopeFrame(x, fr), x.Field, 0)
	}
	return nil, nil, false
}

// freeVarBinding: free variable v of a closure entered at a direct call of a
// closure made in the calling activation denotes the captured value (a captured
// variable that is assigned after its declaration is a cell, i.e. a pointer,
// and stays what it is).
func freeVarBinding(v *ssa.FreeVar, fr *Frame) (ssa.Value, *Frame, bool) {
	cf := funcFrame(fr)
	if cf == nil || cf.Call == nil || cf.Callee != v.Parent() {
		return nil, nil, false
	}
	mc, f := closureOf(cf.Call)
	if mc == nil || f != cf.Callee {
		return nil, nil, false
	}
	for i, q := range f.FreeVars {
		if q == v && i < len(mc.Bindings) {
			if _, isPtr := mc.Bindings[i].Type().Underlying().(*types.Pointer); isPtr {
				if _, isAl := mc.Bindings[i].(*ssa.Alloc); isAl {
					return nil, nil, false
				}
			}
			return mc.Bindings[i], scopeFrame(mc.Bindings[i], cf.Parent), true
		}
	}
	return nil, nil, false
}

// FieldLoad is fieldLoad for clients.
func FieldLoad(v ssa.Value, fr *Frame) (ssa.Value, *Frame, bool) { return fieldLoad(v, fr) }

// ---------------------------------------------------------------------------
// 1. cell groups

type cellKey struct {
	root  *ssa.Alloc
	field int // -1: the allocation itself is the (scalar) cell
}

// wholeStruct as cellKey.field: a store of a whole struct value (c := T{…}).
const wholeStruct = -2

type cellOp struct {
	in     ssa.Instruction
	store  *ssa.Store // a store of the owning function
	key    cellKey    // … to this cell
	call   *ssa.Call  // or a call
	callee *ssa.Function
}

type cellGroup struct {
	owner *ssa.Function
	roots []*ssa.Alloc
	ops   []cellOp
	bad   string
	// states[i]: the cells before ops[i]; states[len(ops)]: after the last
	states []map[cellKey]lin.Form
	done   int // ops replayed so far
	fr     *Frame
}

func isCellType(t types.Type) bool {
	p, ok := t.Underlying().(*types.Pointer)
	if !ok {
		return false
	}
	if isIntT(p.Elem()) {
		return true
	}
	_, isSt := p.Elem().Underlying().(*types.Struct)
	return isSt
}

// closureOf: the call's callee when it is a closure made in the same function.
func closureOf(c *ssa.Call) (*ssa.MakeClosure, *ssa.Function) {
	mc, ok := c.Common().Value.(*ssa.MakeClosure)
	if !ok {
		return nil, nil
	}
	f, _ := mc.Fn.(*ssa.Function)
	if f == nil || f.Blocks == nil {
		return nil, nil
	}
	return mc, f
}

// callRoots: the local cells a call can touch: allocations captured by the
// closure it calls and allocations whose address it passes.
func callRoots(c *ssa.Call) (roots []*ssa.Alloc, callee *ssa.Function) {
	if c.Common().IsInvoke() {
		return nil, nil
	}
	if mc, f := closureOf(c); mc != nil {
		callee = f
		for _, b := range mc.Bindings {
			if al, ok := b.(*ssa.Alloc); ok && isCellType(al.Type()) {
				roots = append(roots, al)
			}
		}
	} else if f := c.Common().StaticCallee(); f != nil && f.Blocks != nil && c.Parent() != nil && f.Pkg == c.Parent().Pkg {
		callee = f
	} else {
		return nil, nil
	}
	for _, a := range c.Common().Args {
		if al, ok := a.(*ssa.Alloc); ok && isCellType(al.Type()) && structOf(al.Type()) != nil {
			roots = append(roots, al)
		}
	}
	return roots, callee
}

// cellGroupOf builds the group containing root.
func (z *Sym) cellGroupOf(root *ssa.Alloc) *cellGroup {
	if g, ok := z.groups[root]; ok {
		return g
	}
	if z.groups == nil {
		z.groups = map[*ssa.Alloc]*cellGroup{}
	}
	g := &cellGroup{owner: root.Parent()}
	seenOp := map[ssa.Instruction]bool{}
	inGroup := map[*ssa.Alloc]bool{}
	work := []*ssa.Alloc{root}
	fail := func(why string) {
		if g.bad == "" {
			g.bad = why
		}
	}
	addCall := func(c *ssa.Call) {
		if seenOp[c] {
			return
		}
		seenOp[c] = true
		roots, callee := callRoots(c)
		if callee == nil {
			fail("the cell is passed to a call that is not followed")
			return
		}
		g.ops = append(g.ops, cellOp{in: c, call: c, callee: callee})
		work = append(work, roots...)
	}
	for len(work) > 0 && g.bad == "" {
		al := work[len(work)-1]
		work = work[:len(work)-1]
		if inGroup[al] {
			continue
		}
		inGroup[al] = true
		g.roots = append(g.roots, al)
		if len(g.roots) > 8 || al.Parent() != g.owner || al.Referrers() == nil {
			fail("too many cells")
			break
		}
		_, scalar := derefT(al.Type()).Underlying().(*types.Basic)
		for _, r := range *al.Referrers() {
			switch x := r.(type) {
			case *ssa.DebugRef:
			case *ssa.UnOp:
				if x.Op != token.MUL {
					fail("cell used by a unary operation")
				}
			case *ssa.Store:
				if x.Addr != ssa.Value(al) {
					fail("the address of the cell is stored")
				} else if !seenOp[x] {
					seenOp[x] = true
					k := cellKey{al, -1}
					if !scalar {
						k.field = wholeStruct
					}
					g.ops = append(g.ops, cellOp{in: x, store: x, key: k})
				}
			case *ssa.FieldAddr:
				for _, rr := range *x.Referrers() {
					switch y := rr.(type) {
					case *ssa.DebugRef:
					case *ssa.UnOp:
						if y.Op != token.MUL {
							fail("cell field used by a unary operation")
						}
					case *ssa.Store:
						if y.Addr != ssa.Value(x) {
							fail("the address of a cell field is stored")
						} else if !seenOp[y] {
							seenOp[y] = true
							g.ops = append(g.ops, cellOp{in: y, store: y, key: cellKey{al, x.Field}})
						}
					default:
						fail("the address of a cell field escapes")
					}
				}
			case *ssa.MakeClosure:
				if x.Referrers() == nil {
					continue
				}
				for _, rr := range *x.Referrers() {
					switch y := rr.(type) {
					case *ssa.DebugRef:
					case *ssa.Call:
						if y.Common().Value != ssa.Value(x) {
							fail("a closure over the cell is passed to a call")
						} else {
							addCall(y)
						}
					default:
						fail("a closure over the cell is stored, deferred or otherwise not called directly")
					}
				}
			case *ssa.Call:
				addCall(x)
			default:
				fail("the cell escapes")
			}
		}
	}
	if g.bad == "" {
		// total order by dominance, no operation in a cycle
		for i := range g.ops {
			if inCycle(g.ops[i].in.Block()) {
				fail("an operation on the cell lies in a loop")
			}
		}
		ops := g.ops
		for i := 1; i < len(ops) && g.bad == ""; i++ { // insertion sort by instrBefore
			for j := i; j > 0; j-- {
				a, b := ops[j-1].in, ops[j].in
				switch {
				case instrBefore(a, b):
				case instrBefore(b, a):
					ops[j-1], ops[j] = ops[j], ops[j-1]
					continue
				default:
					fail("operations on the cell on different branches")
				}
				break
			}
		}
		for i := 1; i < len(ops) && g.bad == ""; i++ {
			if !instrBefore(ops[i-1].in, ops[i].in) {
				fail("operations on the cell are not ordered by dominance")
			}
		}
	}
	for _, al := range g.roots {
		z.groups[al] = g
	}
	return g
}

// cellAddr: address value a (inside activation of f entered for a group
// operation, or in the owner when f == nil) denotes a cell of g.
func (g *cellGroup) cellAddr(a ssa.Value, bind func(ssa.Value) *ssa.Alloc) (cellKey, bool) {
	if al := bind(a); al != nil {
		if _, scalar := derefT(al.Type()).Underlying().(*types.Basic); scalar {
			return cellKey{al, -1}, true
		}
		return cellKey{}, false
	}
	if fa, ok := a.(*ssa.FieldAddr); ok {
		if al := bind(fa.X); al != nil {
			return cellKey{al, fa.Field}, true
		}
	}
	return cellKey{}, false
}

func (g *cellGroup) has(al *ssa.Alloc) bool {
	for _, r := range g.roots {
		if r == al {
			return true
		}
	}
	return false
}

// replay advances the symbolic replay of g's operations up to (not including) n.
func (z *Sym) replay(g *cellGroup, n int, fr *Frame) bool {
	if g.bad != "" {
		return false
	}
	if g.states == nil {
		init := map[cellKey]lin.Form{}
		g.states = []map[cellKey]lin.Form{init}
		g.fr = fr
	}
	if g.fr != fr {
		return false // one replay per Sym, in the owner's activation
	}
	for g.done < n && g.bad == "" {
		op := g.ops[g.done]
		cur := g.states[g.done]
		next := map[cellKey]lin.Form{}
		for k, v := range cur {
			next[k] = v
		}
		if op.store != nil && op.key.field == wholeStruct {
			// c = T{…}: every integer field takes the value the literal gives it
			st := structOf(op.key.root.Type())
			for i := 0; st != nil && i < st.NumFields(); i++ {
				if !isIntT(st.Field(i).Type()) {
					continue
				}
				fv, ff, ok := structField(op.store.Val, scopeFrame(op.store.Val, fr), i, 0)
				if !ok {
					g.bad = "the cursor struct is assigned a value whose fields cannot be read off"
					break
				}
				next[cellKey{op.key.root, i}] = z.in(ff, func() lin.Form { return z.of(fv, 0) })
			}
		} else if op.store != nil {
			next[op.key] = z.in(fr, func() lin.Form { return z.of(op.store.Val, 0) })
		} else {
			ok := z.replayCall(g, op, fr, next)
			if !ok {
				g.bad = "a helper working on the cell is not a straight-line load/store of it"
			}
		}
		g.states = append(g.states, next)
		g.done++
	}
	return g.bad == ""
}

// replayCall evaluates one call of a closure / same-package function on the
// cells: state is updated in place; the loads of the callee are recorded in
// z.over under the callee's activation.
func (z *Sym) replayCall(g *cellGroup, op cellOp, fr *Frame, state map[cellKey]lin.Form) bool {
	f := op.callee
	if len(f.Blocks) != 1 || len(f.Blocks[0].Instrs) == 0 {
		return false
	}
	mc, _ := closureOf(op.call)
	cf := ChildFrame(op.call, f, fr)
	bind := func(a ssa.Value) *ssa.Alloc {
		switch x := a.(type) {
		case *ssa.FreeVar:
			if mc == nil {
				return nil
			}
			for i, fv := range f.FreeVars {
				if fv == x && i < len(mc.Bindings) {
					if al, ok := mc.Bindings[i].(*ssa.Alloc); ok && g.has(al) {
						return al
					}
				}
			}
		case *ssa.Parameter:
			for i, p := range f.Params {
				if p == x && i < len(op.call.Common().Args) {
					if al, ok := op.call.Common().Args[i].(*ssa.Alloc); ok && g.has(al) {
						return al
					}
				}
			}
		}
		return nil
	}
	// the cell pointers may only be loaded / stored through / field-addressed
	check := func(p ssa.Value) bool {
		if p.Referrers() == nil {
			return true
		}
		for _, r := range *p.Referrers() {
			switch x := r.(type) {
			case *ssa.DebugRef:
			case *ssa.UnOp:
				if x.Op != token.MUL {
					return false
				}
			case *ssa.Store:
				if x.Addr != p {
					return false
				}
			case *ssa.FieldAddr:
				for _, rr := range *x.Referrers() {
					switch y := rr.(type) {
					case *ssa.DebugRef:
					case *ssa.UnOp:
						if y.Op != token.MUL {
							return false
						}
					case *ssa.Store:
						if y.Addr != ssa.Value(x) {
							return false
						}
					default:
						return false
					}
				}
			default:
				return false
			}
		}
		return true
	}
	for _, fv := range f.FreeVars {
		if bind(fv) != nil && !check(fv) {
			return false
		}
	}
	for _, p := range f.Params {
		if bind(p) != nil && !check(p) {
			return false
		}
	}
	for _, in := range f.Blocks[0].Instrs {
		switch x := in.(type) {
		case *ssa.UnOp:
			if x.Op != token.MUL {
				continue
			}
			if k, ok := g.cellAddr(x.X, bind); ok {
				v, known := state[k]
				if !known {
					v = lin.K(0) // the zero value of a fresh allocation
				}
				z.setOver(x, cf, v)
			}
		case *ssa.Store:
			if k, ok := g.cellAddr(x.Addr, bind); ok {
				state[k] = z.in(cf, func() lin.Form { return z.of(x.Val, 0) })
			}
		case *ssa.Call:
			if _, isB := x.Common().Value.(*ssa.Builtin); isB {
				continue
			}
			// nested helper calls must not receive a cell
			for _, a := range x.Common().Args {
				if bind(a) != nil {
					return false
				}
			}
			if m, _ := closureOf(x); m != nil {
				return false
			}
		case *ssa.Return, *ssa.DebugRef, *ssa.BinOp, *ssa.Convert, *ssa.ChangeType, *ssa.Slice, *ssa.IndexAddr, *ssa.Index, *ssa.FieldAddr, *ssa.Field, *ssa.Extract, *ssa.MakeSlice, *ssa.Alloc:
		default:
			return false
		}
	}
	return true
}

func (z *Sym) setOver(v ssa.Value, fr *Frame, f lin.Form) {
	if z.over == nil {
		z.over = map[symKey]lin.Form{}
	}
	z.over[symKey{v, fr}] = f
}

// cellCall: the integer result of a call that works on a cell group.
func (z *Sym) cellCall(c *ssa.Call) (lin.Form, bool) {
	if !isIntT(c.Type()) {
		return lin.Form{}, false
	}
	roots, callee := callRoots(c)
	if callee == nil || len(roots) == 0 {
		return lin.Form{}, false
	}
	fr := scopeFrame(c, z.frame)
	if c.Parent() != roots[0].Parent() {
		return lin.Form{}, false
	}
	g := z.cellGroupOf(roots[0])
	idx := -1
	for i, op := range g.ops {
		if op.call == c {
			idx = i
		}
	}
	if idx < 0 || !z.replay(g, idx+1, fr) {
		return lin.Form{}, false
	}
	ret := singleReturn(callee)
	if ret == nil || len(ret.Results) != 1 {
		return lin.Form{}, false
	}
	cf := ChildFrame(c, callee, fr)
	return z.in(cf, func() lin.Form { return z.of(ret.Results[0], 0) }), true
}

// cellLoad: a load, in the owning function, of a cell that helpers work on:
// its value after the operations that dominate the load (none that does not
// dominate it may reach it).
func (z *Sym) cellLoad(u *ssa.UnOp) (lin.Form, bool) {
	if u.Op != token.MUL {
		return lin.Form{}, false
	}
	var key cellKey
	switch a := u.X.(type) {
	case *ssa.Alloc:
		if !isCellType(a.Type()) || structOf(a.Type()) != nil {
			return lin.Form{}, false
		}
		key = cellKey{a, -1}
	case *ssa.FieldAddr:
		al, ok := a.X.(*ssa.Alloc)
		if !ok || !isCellType(al.Type()) {
			return lin.Form{}, false
		}
		key = cellKey{al, a.Field}
	default:
		return lin.Form{}, false
	}
	if !isIntT(u.Type()) || key.root.Parent() != u.Parent() {
		return lin.Form{}, false
	}
	// only cells that some helper call works on (plain locals are go/ssa registers)
	g := z.cellGroupOf(key.root)
	hasCall := false
	for _, op := range g.ops {
		if op.call != nil {
			hasCall = true
		}
	}
	if !hasCall || g.bad != "" {
		return lin.Form{}, false
	}
	n := 0
	for i, op := range g.ops {
		switch {
		case instrBefore(op.in, u):
			n = i + 1
		case op.in.Block() == u.Block() || reaches(op.in.Block(), u.Block()):
			return lin.Form{}, false
		}
	}
	fr := scopeFrame(u, z.frame)
	if !z.replay(g, n, fr) {
		return lin.Form{}, false
	}
	if v, ok := g.states[n][key]; ok {
		return v, true
	}
	return lin.K(0), true
}

// CellNote explains why the cell group a call works on could not be read
// ("" when it could, or when the call works on no cell).
func (z *Sym) CellNote(c *ssa.Call) string {
	roots, callee := callRoots(c)
	if callee == nil || len(roots) == 0 {
		return ""
	}
	return z.cellGroupOf(roots[0]).bad
}

// ---------------------------------------------------------------------------
// 3. integer tables filled by a counted loop
//
//	var offs [6]int
//	for i, f := range fields { offs[i] = running; running += len(f) }
//	… uint32(offs[2]) …
//
// A load offs[k] (k constant in the reading activation) after the loop denotes
// the value stored at index k: by a store at that constant index, or by the
// iteration of a counted loop (unroll.go) whose index evaluates to k. The table
// must be a local array / constant-length make of integers used only through
// element loads and stores; the store found must be the only one that can
// write index k, must execute in every iteration of its loop, and the loop must
// have run to its end before the load.

type symLoopKey struct {
	hb    *ssa.BasicBlock
	outer *Frame
}

func (z *Sym) countedLoop(hb *ssa.BasicBlock, outer *Frame) *Loop {
	if lp, ok := z.loops[symLoopKey{hb, outer}]; ok {
		return lp
	}
	if z.loops == nil {
		z.loops = map[symLoopKey]*Loop{}
	}
	lp, why := loopShape(hb)
	if why == "" {
		lp.outer = outer
		if lp.count() != "" {
			lp = nil
		}
	} else {
		lp = nil
	}
	z.loops[symLoopKey{hb, outer}] = lp
	return lp
}

// innerLoopHeader: the header of the innermost natural loop containing b.
func innerLoopHeader(b *ssa.BasicBlock) *ssa.BasicBlock {
	for h := b; h != nil; h = h.Idom() {
		if !isLoopHeader(h) {
			continue
		}
		for _, p := range h.Preds {
			if h.Dominates(p) && (p == b || reaches(b, p)) && h.Dominates(b) {
				return h
			}
		}
	}
	return nil
}

func (z *Sym) intTableLoad(u *ssa.UnOp) (lin.Form, bool) {
	no := lin.Form{}
	ia, ok := u.X.(*ssa.IndexAddr)
	if !ok || u.Op != token.MUL || !isIntT(u.Type()) {
		return no, false
	}
	base := ia.X
	switch b := base.(type) {
	case *ssa.Alloc:
		if arr, isArr := derefT(b.Type()).Underlying().(*types.Array); !isArr || !isIntT(arr.Elem()) {
			return no, false
		}
	case *ssa.MakeSlice:
		if _, isK := constI(b.Len); !isK {
			return no, false
		}
	default:
		return no, false
	}
	if base.Referrers() == nil {
		return no, false
	}
	fr := scopeFrame(u, z.frame)
	kf, isK := z.in(fr, func() lin.Form { return z.of(ia.Index, 0) }).ConstVal()
	if !isK || !kf.IsInt64() {
		return no, false
	}
	k := kf.Int64()
	outer := funcFrame(fr)
	var found *lin.Form
	cands := 0
	for _, r := range *base.Referrers() {
		switch x := r.(type) {
		case *ssa.DebugRef:
		case *ssa.Call:
			if b, isB := x.Common().Value.(*ssa.Builtin); !isB || (b.Name() != "len" && b.Name() != "cap") {
				return no, false
			}
		case *ssa.IndexAddr:
			for _, rr := range *x.Referrers() {
				switch st := rr.(type) {
				case *ssa.DebugRef:
				case *ssa.UnOp:
					if st.Op != token.MUL {
						return no, false
					}
				case *ssa.Store:
					if st.Addr != ssa.Value(x) {
						return no, false
					}
					hb := innerLoopHeader(st.Block())
					if hb == nil {
						idx, isC := constI(x.Index)
						if !isC {
							return no, false
						}
						if idx != k {
							continue
						}
						if !instrBefore(st, u) {
							return no, false
						}
						cands++
						f := z.in(outer, func() lin.Form { return z.of(st.Val, 0) })
						found = &f
						continue
					}
					lp := z.countedLoop(hb, outer)
					if lp == nil || !st.Block().Dominates(hb.Preds[lp.back]) {
						return no, false
					}
					// the loop is not nested in another one and has finished before the load
					if oh := innerLoopHeader(hb.Preds[lp.entry]); oh != nil {
						return no, false
					}
					exit := hb.Succs[0]
					if lp.blocks[exit] {
						exit = hb.Succs[1]
					}
					if lp.blocks[u.Block()] || !exit.Dominates(u.Block()) || len(exit.Preds) != 1 {
						return no, false
					}
					for j := 0; j < lp.N; j++ {
						fj := lp.frame(j)
						idx, isC := z.in(fj, func() lin.Form { return z.of(x.Index, 0) }).ConstVal()
						if !isC || !idx.IsInt64() {
							return no, false
						}
						if idx.Int64() != k {
							continue
						}
						cands++
						f := z.in(fj, func() lin.Form { return z.of(st.Val, 0) })
						found = &f
					}
				default:
					return no, false
				}
			}
		default:
			return no, false
		}
	}
	if cands != 1 || found == nil {
		return no, false
	}
	return *found, true
}

// ---------------------------------------------------------------------------
// 4. single-assignment cells
//
// A parameter or local that a closure captures lives in memory (go/ssa spills
// it: t0 = new []byte (data); *t0 = data) and every use becomes a load of the
// cell. When the cell is stored exactly once — by its owner, before anything
// else, outside every loop — and neither the owner nor the capturing closures
// store to it again or let its address escape, each load denotes the stored
// value.

func singleStoreCell(al *ssa.Alloc) (*ssa.Store, bool) {
	if al.Referrers() == nil {
		return nil, false
	}
	var st *ssa.Store
	for _, r := range *al.Referrers() {
		switch x := r.(type) {
		case *ssa.DebugRef:
		case *ssa.UnOp:
			if x.Op != token.MUL {
				return nil, false
			}
		case *ssa.Store:
			if x.Addr != ssa.Value(al) || st != nil {
				return nil, false
			}
			st = x
		case *ssa.MakeClosure:
			cf, _ := x.Fn.(*ssa.Function)
			if cf == nil {
				return nil, false
			}
			for i, b := range x.Bindings {
				if b != ssa.Value(al) {
					continue
				}
				if i >= len(cf.FreeVars) || cf.FreeVars[i].Referrers() == nil {
					return nil, false
				}
				for _, rr := range *cf.FreeVars[i].Referrers() {
					switch y := rr.(type) {
					case *ssa.DebugRef:
					case *ssa.UnOp:
						if y.Op != token.MUL {
							return nil, false
						}
					default:
						return nil, false // stored to, re-captured, passed on
					}
				}
			}
		default:
			return nil, false
		}
	}
	if st == nil || inCycle(st.Block()) {
		return nil, false
	}
	return st, true
}

// cellLoadValue: v loads a single-assignment cell (directly in the owner, or
// through the free variable of a closure entered in activation fr).
func cellLoadValue(v ssa.Value, fr *Frame) (ssa.Value, *Frame, bool) {
	u, ok := v.(*ssa.UnOp)
	if !ok || u.Op != token.MUL {
		return nil, nil, false
	}
	switch a := u.X.(type) {
	case *ssa.Alloc:
		st, ok := singleStoreCell(a)
		if !ok || !instrBefore(st, u) {
			return nil, nil, false
		}
		return st.Val, scopeFrame(st.Val, fr), true
	case *ssa.FreeVar:
		cf := funcFrame(fr)
		if cf == nil || cf.Call == nil || cf.Callee != a.Parent() {
			return nil, nil, false
		}
		mc, f := closureOf(cf.Call)
		if mc == nil || f != cf.Callee {
			return nil, nil, false
		}
		for i, q := range f.FreeVars {
			if q != a || i >= len(mc.Bindings) {
				continue
			}
			al, isAl := mc.Bindings[i].(*ssa.Alloc)
			if !isAl {
				return nil, nil, false
			}
			st, ok := singleStoreCell(al)
			if !ok || !instrBefore(st, mc) {
				return nil, nil, false
			}
			return st.Val, scopeFrame(st.Val, cf.Parent), true
		}
	}
	return nil, nil, false
}
