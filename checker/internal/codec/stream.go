package codec

// Value-carrying byte streams (added for C08).
//
// Seq (encode.go) renders an encoder's output as printable atoms. The NTLMSSP
// rules need more: the SSA *values* placed on the wire (so that a descriptor's
// offset can be compared, as a linear form over len(payload) terms, with the
// position the payload really has) and the SSA value of every variable-length
// run. Stream reads the same idioms — append chains, make+PutUintN+append,
// AppendUintN, fixed-offset writes into a constant-size header buffer, element
// stores, copy into a window, bytes.Buffer Write*/binary.Write, φ-joins of
// alternatives, up to two levels of in-module helper, counted loops over a
// local table (unroll.go), buffers made at their final computed size
// (symbuf.go), strings.Builder, local writer objects with append-only methods
// and []byte variables extended by closures (objbuf.go), struct values /
// single-assignment cells / running-offset cells (cells.go) — and returns
// Pieces that carry those values. Nothing is executed.
//
// Soundness notes. A fixed buffer's content is trusted only if every write to
// it dominates every read of it (a write under a condition that executes at
// most once yields the alternative "its bytes | the buffer's zero bytes"; the
// writes of an unrolled loop must execute in every iteration and all reads
// come after the loop); an append result is trusted only if it is not
// written through or retained, and if no two appends that can both execute
// share a base slice (they could share storage). Anything else yields an
// "unknown" piece (or an opaque piece of known width when only the content is
// in doubt), which the client must treat as undecided.

import (
	"fmt"
	"go/constant"
	"go/token"
	"go/types"
	"sort"
	"strings"

	"golang.org/x/tools/go/ssa"
)

// Piece is one contiguous run of output bytes.
type Piece struct {
	Kind   string // int | byte | bytes | zero | const | global | nested | alt | unknown
	Width  int    // bytes; -1 = variable (len(Src)) or unknown
	Order  string // int with Width > 1: LE | BE
	Val    ssa.Value
	Src    ssa.Value // bytes: the slice value; global: the *ssa.Global; nested: the call
	Const  []byte    // const, and global when its initialiser is a constant
	Alts   []Alt     // alt
	Inner  []*Piece  // nested: the callee's own layout
	Callee *ssa.Function
	At     ssa.Instruction // where the bytes are produced / added
	Why    string          // unknown / opaque content: the reason
	// Frame is nil for values of the analysed function itself; pieces read off
	// an inlined helper carry the helper's activation (Val/Src live there).
	Frame    *Frame
	frameSet bool
}

// Alt is one alternative of a join: the pieces added after the common prefix on
// the path that enters the join block from Pred.
type Alt struct {
	Pred   *ssa.BasicBlock
	Join   *ssa.BasicBlock
	Pieces []*Piece
}

func (p *Piece) String() string {
	switch p.Kind {
	case "int":
		return fmt.Sprintf("int%d%s", p.Width, p.Order)
	case "byte":
		return "byte"
	case "bytes":
		if p.Width >= 0 {
			return fmt.Sprintf("bytes[%d]", p.Width)
		}
		return "bytes[len(" + p.Src.Name() + ")]"
	case "zero":
		return fmt.Sprintf("zero[%d]", p.Width)
	case "const":
		return fmt.Sprintf("const%q", string(p.Const))
	case "global":
		if p.Const != nil {
			return fmt.Sprintf("%s=%q", p.Src.Name(), string(p.Const))
		}
		return p.Src.Name()
	case "nested":
		n := "?"
		if p.Callee != nil {
			n = p.Callee.Name()
		}
		return fmt.Sprintf("%s()[%d]", n, p.Width)
	case "alt":
		var as []string
		for _, a := range p.Alts {
			as = append(as, RenderPieces(a.Pieces))
		}
		return fmt.Sprintf("alt[%d]{%s}", p.Width, strings.Join(as, " | "))
	}
	return "?" + p.Why
}

func RenderPieces(ps []*Piece) string {
	var s []string
	for _, p := range ps {
		s = append(s, p.String())
	}
	return strings.Join(s, " ")
}

// ConstWidth sums the widths of ps; ok=false if any is variable.
func ConstWidth(ps []*Piece) (int, bool) {
	n := 0
	for _, p := range ps {
		if p.Width < 0 || p.Kind == "unknown" {
			return 0, false
		}
		n += p.Width
	}
	return n, true
}

// Streamer extracts Pieces from one function.
type Streamer struct {
	Fn       *ssa.Function
	InModule func(*ssa.Function) bool
	memo     map[ssa.Value][]*Piece
	busy     map[ssa.Value]bool
	bufMemo  map[*ssa.BasicBlock][]*Piece
	depth    int
	frame    *Frame
	// unrolled loops (unroll.go): up is set on the streamer of one iteration and
	// points to the streamer of the activation that contains the loop
	up *Streamer
	// caller is set on the streamer of an inlined callee
	caller *Streamer
	loops  map[*ssa.BasicBlock]*Loop
	iters  map[*Frame]*Streamer
	acc    *accCtx
	// directLoads: for a direct statement obj.buf = append(obj.buf, …) of the
	// owner, the loads of the accumulator it was read through
	directLoads map[*ssa.Store][]*ssa.UnOp
	// accStore recognises the stores into the accumulator field of the writer
	// object being replayed (objbuf.go)
	accStore func(*ssa.Store) bool
	// isFail overrides what counts as a failing exit of a loop body (unroll.go)
	isFail func(*ssa.BasicBlock, map[*ssa.BasicBlock]bool) bool
}

func NewStreamer(fn *ssa.Function, inModule func(*ssa.Function) bool) *Streamer {
	return &Streamer{Fn: fn, InModule: inModule, memo: map[ssa.Value][]*Piece{}, busy: map[ssa.Value]bool{}}
}

func unknown(at ssa.Instruction, format string, a ...any) []*Piece {
	return []*Piece{{Kind: "unknown", Width: -1, Why: fmt.Sprintf(format, a...), At: at}}
}

func instrOf(v ssa.Value) ssa.Instruction {
	in, _ := v.(ssa.Instruction)
	return in
}

// Returns lists the byte slices returned on success (last result a nil error
// constant, or a single result), one per return instruction.
func (s *Streamer) Returns() []ssa.Value {
	var out []ssa.Value
	for _, b := range s.Fn.Blocks {
		ret, ok := b.Instrs[len(b.Instrs)-1].(*ssa.Return)
		if !ok || len(ret.Results) == 0 {
			continue
		}
		if len(ret.Results) >= 2 {
			last := ret.Results[len(ret.Results)-1]
			if k, isK := last.(*ssa.Const); !isK || k.Value != nil {
				continue // error return (or an error that is not the nil constant)
			}
		}
		if k, isK := ret.Results[0].(*ssa.Const); isK && k.Value == nil && len(ret.Results) >= 2 {
			continue
		}
		out = append(out, ret.Results[0])
	}
	return out
}

// successReturns is Returns with the return instructions.
func (s *Streamer) successReturns() (vals []ssa.Value, rets []*ssa.Return) {
	for _, b := range s.Fn.Blocks {
		ret, ok := b.Instrs[len(b.Instrs)-1].(*ssa.Return)
		if !ok || len(ret.Results) == 0 {
			continue
		}
		if len(ret.Results) >= 2 {
			last := ret.Results[len(ret.Results)-1]
			if k, isK := last.(*ssa.Const); !isK || k.Value != nil {
				continue
			}
		}
		if k, isK := ret.Results[0].(*ssa.Const); isK && k.Value == nil && len(ret.Results) >= 2 {
			continue
		}
		vals, rets = append(vals, ret.Results[0]), append(rets, ret)
	}
	return vals, rets
}

// CalleeReturns reads off, one by one, the success returns of the in-module
// function called at `call` (a call made in activation fr). The pieces live in
// the callee's activation, whose parameters are bound to the call's arguments.
func (s *Streamer) CalleeReturns(call *ssa.Call, fr *Frame) (out [][]*Piece, rets []*ssa.Return, ok bool) {
	f := call.Common().StaticCallee()
	if f == nil || f.Blocks == nil || s.InModule == nil || !s.InModule(f) || s.depth >= 2 {
		return nil, nil, false
	}
	cf := ChildFrame(call, f, fr)
	sub := NewStreamer(f, s.InModule)
	sub.depth, sub.frame, sub.caller = s.depth+1, cf, s
	vals, rets := sub.successReturns()
	for _, v := range vals {
		ps := sub.Stream(v)
		setFrame(ps, cf)
		out = append(out, ps)
	}
	return out, rets, len(out) > 0
}

// streamIn reads off value v of activation fr (s's own or an enclosing one):
// every value is read by the streamer of the activation it lives in, so that
// one value yields one Piece whoever asks.
func (s *Streamer) streamIn(v ssa.Value, fr *Frame) []*Piece {
	for t := s; t != nil; {
		if t.frame == fr {
			ps := t.Stream(v)
			setFrame(ps, t.frame)
			return ps
		}
		if t.up != nil {
			t = t.up
		} else {
			t = t.caller
		}
	}
	return s.Stream(v)
}

// Stream reads off the content of byte-slice value v.
func (s *Streamer) Stream(v ssa.Value) []*Piece {
	if ps, ok := s.memo[v]; ok {
		return ps
	}
	if s.up != nil {
		// the streamer of one loop iteration: values defined outside the loop are
		// read by the enclosing streamer (one Piece per value, whoever asks)
		if !s.frame.Iter.Loop.blocks[blockOf(v)] {
			ps := s.up.Stream(v)
			setFrame(ps, s.up.frame)
			return ps
		}
		defer func() { setFrame(s.memo[v], s.frame) }()
	}
	if s.busy[v] {
		return unknown(instrOf(v), "cyclic definition of %s", v.Name())
	}
	s.busy[v] = true
	ps := s.stream1(v)
	delete(s.busy, v)
	s.memo[v] = ps
	return ps
}

func (s *Streamer) stream1(v ssa.Value) []*Piece {
	switch x := v.(type) {
	case *ssa.Const:
		if x.Value == nil {
			return nil
		}
		if x.Value.Kind() == constant.String {
			str := constant.StringVal(x.Value)
			if str == "" {
				return nil
			}
			return []*Piece{{Kind: "const", Width: len(str), Const: []byte(str)}}
		}
	case *ssa.ChangeType:
		return s.Stream(x.X)
	case *ssa.Convert:
		if b, ok := x.X.Type().Underlying().(*types.Basic); ok && b.Info()&types.IsString != 0 {
			if k, isK := x.X.(*ssa.Const); isK {
				return s.Stream(k)
			}
			// []byte(sb.String()) of a local strings.Builder / bytes.Buffer
			if call, isCall := x.X.(*ssa.Call); isCall {
				if f := call.Common().StaticCallee(); f != nil && (f.String() == "(*strings.Builder).String" || f.String() == "(*bytes.Buffer).String") {
					ps := s.buffer(call.Common().Args[0], call)
					opaque := false
					for _, p := range ps {
						if p.Kind == "unknown" {
							opaque = true
						}
					}
					if !opaque {
						return ps
					}
				}
			}
			return []*Piece{{Kind: "bytes", Width: -1, Src: v, At: x}}
		}
		return s.Stream(x.X)
	case *ssa.MakeSlice:
		if root, off, n, ok := fixedView(v); ok {
			return s.fixed(root, off, n, x)
		}
		return s.symBuffer(x) // made at a computed size: writes placed symbolically (symbuf.go)
	case *ssa.Slice:
		if root, off, n, ok := fixedView(v); ok {
			return s.fixed(root, off, n, x)
		}
		if isWholeSlice(x) {
			if _, isSl := x.X.Type().Underlying().(*types.Slice); isSl {
				return s.Stream(x.X)
			}
		}
		// a window of an array that is not a local byte buffer (c.F[:], v.Reserved[a:b])
		if arr, ok := derefT(x.X.Type()).Underlying().(*types.Array); ok && isByte(arr.Elem()) {
			lo, ok1 := optConst(x.Low, 0)
			hi, ok2 := optConst(x.High, arr.Len())
			if ok1 && ok2 && lo <= hi {
				return []*Piece{{Kind: "bytes", Width: int(hi - lo), Src: v, At: x}}
			}
		}
		w := -1
		if lo, ok1 := optConst(x.Low, 0); ok1 && x.High != nil {
			if hi, ok2 := constI(x.High); ok2 && hi >= lo {
				w = int(hi - lo)
			}
		}
		return []*Piece{{Kind: "bytes", Width: w, Src: v, At: x}}
	case *ssa.UnOp:
		if x.Op == token.MUL {
			// the accumulator of a writer object (objbuf.go)
			if s.acc != nil && s.acc.isField(x.X) {
				s.acc.loads = append(s.acc.loads, x)
				return s.acc.cur
			}
			if cell, ok := cellOf(x); ok && cell.Parent() == s.Fn {
				ps := s.objField(cell, sliceCell, x)
				for _, p := range ps {
					if p.Kind == "unknown" {
						return []*Piece{{Kind: "bytes", Width: -1, Src: v, At: x, Why: p.Why}}
					}
				}
				return ps
			}
			if obj, field, ok := objOf(x); ok && obj.Parent() == s.Fn {
				ps := s.objField(obj, field, x)
				for _, p := range ps {
					if p.Kind == "unknown" {
						// not a writer object that can be replayed: an opaque run, as before
						return []*Piece{{Kind: "bytes", Width: -1, Src: v, At: x, Why: p.Why}}
					}
				}
				return ps
			}
			if el, ef, ok := elemLoad(x, s.frame); ok {
				// element of a local constant table ([][]byte{a, b, …}[k]): the value stored there
				return s.streamIn(el, ef)
			}
			if g, ok := x.X.(*ssa.Global); ok {
				p := &Piece{Kind: "global", Width: -1, Src: g, At: x}
				if bs, ok := GlobalConstBytes(g); ok {
					p.Const, p.Width = bs, len(bs)
				}
				return []*Piece{p}
			}
			return []*Piece{{Kind: "bytes", Width: -1, Src: v, At: x}}
		}
	case *ssa.Parameter, *ssa.FreeVar:
		return []*Piece{{Kind: "bytes", Width: -1, Src: v}}
	case *ssa.Index:
		if el, ef, ok := elemLoad(x, s.frame); ok {
			return s.streamIn(el, ef) // element of a local constant array literal
		}
	case *ssa.Extract:
		if call, ok := x.Tuple.(*ssa.Call); ok {
			return s.producer(call, x.Index, v, x)
		}
	case *ssa.Phi:
		return s.phi(x)
	case *ssa.Call:
		cc := x.Common()
		if b, ok := cc.Value.(*ssa.Builtin); ok {
			if b.Name() != "append" {
				return unknown(x, "builtin %s", b.Name())
			}
			if why := s.chainOK(x, cc.Args[0]); why != "" {
				return unknown(x, "%s", why)
			}
			out := append([]*Piece(nil), s.Stream(cc.Args[0])...)
			if len(cc.Args) > 1 {
				out = append(out, s.Stream(cc.Args[1])...)
			}
			return out
		}
		if kind, w, order := binCall(x); kind == "append" {
			if why := s.chainOK(x, cc.Args[1]); why != "" {
				return unknown(x, "%s", why)
			}
			out := append([]*Piece(nil), s.Stream(cc.Args[1])...)
			return append(out, &Piece{Kind: "int", Width: w, Order: order, Val: cc.Args[2], At: x})
		}
		if f := cc.StaticCallee(); f != nil && f.String() == "(*bytes.Buffer).Bytes" {
			return s.buffer(cc.Args[0], x)
		}
		return s.producer(x, 0, v, x)
	}
	return unknown(instrOf(v), "value %s (%T) is not a recognised byte-sequence constructor", v.Name(), v)
}

func derefT(t types.Type) types.Type {
	if p, ok := t.Underlying().(*types.Pointer); ok {
		return p.Elem()
	}
	return t
}

func isByte(t types.Type) bool {
	b, ok := t.Underlying().(*types.Basic)
	return ok && b.Kind() == types.Uint8
}

func optConst(v ssa.Value, def int64) (int64, bool) {
	if v == nil {
		return def, true
	}
	return constI(v)
}

// isWholeSlice: x[:] or x[0:] or x[:len(x)].
func isWholeSlice(x *ssa.Slice) bool {
	if x.Max != nil {
		return false
	}
	if lo, ok := optConst(x.Low, 0); !ok || lo != 0 {
		return false
	}
	if x.High == nil {
		return true
	}
	if c, ok := x.High.(*ssa.Call); ok {
		if b, isB := c.Common().Value.(*ssa.Builtin); isB && b.Name() == "len" && c.Common().Args[0] == x.X {
			return true
		}
	}
	return false
}

// GlobalConstBytes: the package-level []byte variable g is initialised, by the
// only store to it in its package initialiser, from a constant string.
func GlobalConstBytes(g *ssa.Global) ([]byte, bool) {
	if g.Pkg == nil {
		return nil, false
	}
	init := g.Pkg.Func("init")
	if init == nil {
		return nil, false
	}
	var val ssa.Value
	n := 0
	for _, b := range init.Blocks {
		for _, in := range b.Instrs {
			if st, ok := in.(*ssa.Store); ok && st.Addr == ssa.Value(g) {
				n++
				val = st.Val
			}
		}
	}
	if n != 1 {
		return nil, false
	}
	for {
		switch x := val.(type) {
		case *ssa.Convert:
			val = x.X
			continue
		case *ssa.ChangeType:
			val = x.X
			continue
		}
		break
	}
	if str, ok := constStr(val); ok {
		return []byte(str), true
	}
	// a byte literal []byte{'N', 'T', …}: a fresh array, one constant store per
	// element (elements never stored stay zero), sliced as a whole
	if sl, ok := val.(*ssa.Slice); ok && sl.Low == nil && sl.High == nil && sl.Max == nil {
		al, isAl := sl.X.(*ssa.Alloc)
		if !isAl || al.Referrers() == nil {
			return nil, false
		}
		arr, isArr := derefT(al.Type()).Underlying().(*types.Array)
		if !isArr || !isByte(arr.Elem()) || arr.Len() > 1<<12 {
			return nil, false
		}
		out := make([]byte, arr.Len())
		seen := map[int64]bool{}
		for _, r := range *al.Referrers() {
			switch x := r.(type) {
			case *ssa.DebugRef:
			case *ssa.Slice:
				if x != sl {
					return nil, false
				}
			case *ssa.IndexAddr:
				idx, isK := constI(x.Index)
				if !isK || idx < 0 || idx >= arr.Len() || seen[idx] || x.Referrers() == nil || len(*x.Referrers()) != 1 {
					return nil, false
				}
				st, isSt := (*x.Referrers())[0].(*ssa.Store)
				if !isSt || st.Addr != ssa.Value(x) {
					return nil, false
				}
				k, isC := constI(st.Val)
				if !isC || k < 0 || k > 255 {
					return nil, false
				}
				seen[idx] = true
				out[idx] = byte(k)
			default:
				return nil, false
			}
		}
		return out, true
	}
	return nil, false
}

// ---------------------------------------------------------------------------
// append chains

// chainOK checks that the result of an append and its base may be read as
// "base ++ tail": the result is only read afterwards, and no other append that
// can execute in the same run extends the same base.
func (s *Streamer) chainOK(call *ssa.Call, base ssa.Value) string {
	// the store of the extended slice back into the accumulator field of a writer
	// object is what objbuf.go replays
	if why := readOnlyX(call, 0, func(in ssa.Instruction) bool {
		st, ok := in.(*ssa.Store)
		return ok && s.accStore != nil && s.accStore(st)
	}); why != "" {
		return fmt.Sprintf("the result of %s %s", call.Name(), why)
	}
	if base.Referrers() == nil {
		return ""
	}
	for _, r := range *base.Referrers() {
		other, ok := r.(*ssa.Call)
		if !ok || other == call {
			continue
		}
		oc := other.Common()
		isApp := false
		if b, isB := oc.Value.(*ssa.Builtin); isB && b.Name() == "append" && oc.Args[0] == base {
			isApp = true
		}
		if kind, _, _ := binCall(other); kind == "append" && oc.Args[1] == base {
			isApp = true
		}
		if !isApp {
			continue
		}
		if other.Block() == call.Block() || reaches(other.Block(), call.Block()) || reaches(call.Block(), other.Block()) {
			if loopSeparates(base, call, other) {
				continue
			}
			return fmt.Sprintf("slice %s is extended by two appends that can both execute (results may share storage)", base.Name())
		}
	}
	return ""
}

var readOnlyCallees = map[string]bool{
	"bytes.Equal": true, "bytes.Compare": true, "bytes.HasPrefix": true,
	"(*bytes.Buffer).Write": true, "encoding/hex.EncodeToString": true,
	"(*strings.Builder).Write": true, "(*strings.Builder).WriteString": true,
	"(*bytes.Buffer).WriteString": true, "encoding/hex.Dump": true,
}

// readOnly: every use of slice value v only reads it (no element store, not
// retained in memory, not handed to a callee that may write it). Returns ""
// or the offending use.
func readOnly(v ssa.Value, d int) string { return readOnlyX(v, d, nil) }

// readOnlyX is readOnly with uses the caller accounts for itself (skip).
func readOnlyX(v ssa.Value, d int, skip func(ssa.Instruction) bool) string {
	if v.Referrers() == nil {
		return ""
	}
	if d > 6 {
		return "is used through too many re-slices"
	}
	for _, r := range *v.Referrers() {
		if skip != nil && skip(r) {
			continue
		}
		switch x := r.(type) {
		case *ssa.DebugRef, *ssa.Return, *ssa.Phi:
		case *ssa.Slice:
			if why := readOnlyX(x, d+1, skip); why != "" {
				return why
			}
		case *ssa.IndexAddr:
			for _, rr := range *x.Referrers() {
				if u, ok := rr.(*ssa.UnOp); ok && u.Op == token.MUL {
					continue
				}
				if _, ok := rr.(*ssa.DebugRef); ok {
					continue
				}
				return "is written through (element store)"
			}
		case *ssa.Lookup, *ssa.Index:
		case *ssa.MakeInterface:
			return "is converted to an interface"
		case *ssa.Store:
			if x.Val == v {
				return "is stored into memory"
			}
		case ssa.CallInstruction:
			cc := x.Common()
			if b, ok := cc.Value.(*ssa.Builtin); ok {
				switch b.Name() {
				case "len", "cap", "append":
					continue
				case "copy":
					if cc.Args[0] == v {
						return "is the destination of a copy"
					}
					continue
				}
				return "is passed to builtin " + b.Name()
			}
			if kind, _, _ := binCall2(cc); kind == "get" || kind == "append" {
				continue
			}
			if f := cc.StaticCallee(); f != nil && readOnlyCallees[f.String()] {
				continue
			}
			if f := cc.StaticCallee(); f != nil && f.Blocks != nil && paramsReadOnly(f, cc, v) {
				continue
			}
			if cc.IsInvoke() && cc.Method.Name() == "Write" {
				continue // io.Writer contract: Write must not modify the slice
			}
			return "is passed to " + calleeStr(cc)
		default:
			return fmt.Sprintf("is used by %T", r)
		}
	}
	return ""
}

func calleeStr(cc *ssa.CallCommon) string {
	if cc.IsInvoke() {
		return "method " + cc.Method.Name()
	}
	if f := cc.StaticCallee(); f != nil {
		return f.String()
	}
	return "a dynamic callee"
}

func binCall2(cc *ssa.CallCommon) (string, int, string) {
	f := cc.StaticCallee()
	if f == nil || f.Signature.Recv() == nil {
		return "", 0, ""
	}
	rt := f.Signature.Recv().Type().String()
	if !strings.HasPrefix(rt, "encoding/binary.") {
		return "", 0, ""
	}
	order := "LE"
	if strings.Contains(rt, "bigEndian") {
		order = "BE"
	}
	if w, ok := putRe[f.Name()]; ok {
		return "put", w, order
	}
	if w, ok := getRe[f.Name()]; ok {
		return "get", w, order
	}
	if w, ok := appRe[f.Name()]; ok {
		return "append", w, order
	}
	return "", 0, ""
}

// paramsReadOnly: callee f only reads the parameters that v is bound to.
func paramsReadOnly(f *ssa.Function, cc *ssa.CallCommon, v ssa.Value) bool {
	for i, a := range cc.Args {
		if a != v {
			continue
		}
		if i >= len(f.Params) {
			return false
		}
		if readOnly(f.Params[i], 3) != "" {
			return false
		}
	}
	return true
}

// ---------------------------------------------------------------------------
// fixed-size buffers

// fixedView resolves v to bytes [off, off+n) of a constant-size local byte
// buffer (an array allocation or make([]byte, K)).
func fixedView(v ssa.Value) (root ssa.Value, off, n int64, ok bool) {
	switch x := v.(type) {
	case *ssa.MakeSlice:
		if sl, isSl := x.Type().Underlying().(*types.Slice); isSl && isByte(sl.Elem()) {
			if k, isK := constI(x.Len); isK && k >= 0 && k <= 1<<16 {
				return x, 0, k, true
			}
		}
	case *ssa.Alloc:
		if arr, isArr := derefT(x.Type()).Underlying().(*types.Array); isArr && isByte(arr.Elem()) && arr.Len() <= 1<<16 {
			return x, 0, arr.Len(), true
		}
	case *ssa.Slice:
		r, o, m, ok := fixedView(x.X)
		if !ok || x.Max != nil {
			return nil, 0, 0, false
		}
		lo, ok1 := optConst(x.Low, 0)
		hi, ok2 := optConst(x.High, m)
		if !ok1 || !ok2 || lo < 0 || lo > hi || hi > m {
			return nil, 0, 0, false
		}
		return r, o + lo, hi - lo, true
	case *ssa.ChangeType:
		return fixedView(x.X)
	}
	return nil, 0, 0, false
}

type bufWrite struct {
	at    ssa.Instruction
	off   int64
	piece *Piece
	it    *Frame // the write is that of one iteration of an unrolled loop
}

type bufInfo struct {
	size    int64
	writes  []bufWrite
	readers []ssa.Instruction
	opaque  string // content cannot be trusted (width still can)
}

func (s *Streamer) collectBuf(root ssa.Value) *bufInfo {
	bi := &bufInfo{}
	_, _, bi.size, _ = fixedView(root)
	// it: the iteration of an unrolled loop the use is read in (nil outside loops)
	var visit func(v ssa.Value, off, n int64, d int, it *Frame)
	kIn := func(v ssa.Value, def int64, it *Frame) (int64, bool) {
		if k, ok := optConst(v, def); ok || it == nil {
			return k, ok
		}
		k, ok := NewSym().OfIn(v, it).ConstVal()
		if !ok || !k.IsInt64() {
			return 0, false
		}
		return k.Int64(), true
	}
	tag := func(p *Piece, it *Frame) *Piece {
		if it != nil {
			p.Frame, p.frameSet = it, true
		}
		return p
	}
	visit = func(v ssa.Value, off, n int64, d int, it *Frame) {
		if v.Referrers() == nil {
			return
		}
		if d > 8 {
			bi.opaque = "use chain too deep"
			return
		}
		_, isPtr := v.Type().Underlying().(*types.Pointer)
		for _, r := range *v.Referrers() {
			switch x := r.(type) {
			case *ssa.DebugRef:
			case *ssa.ChangeType:
				visit(x, off, n, d+1, it)
			case *ssa.Slice:
				if x.Max != nil {
					bi.opaque = "three-index slice of the buffer"
					continue
				}
				lo, ok1 := kIn(x.Low, 0, it)
				hi, ok2 := kIn(x.High, n, it)
				if (!ok1 || !ok2) && it == nil {
					// bounds that depend on the counter of a counted loop: one window per iteration
					if lp := s.bodyLoop(x.Block()); lp != nil {
						for k := 0; k < lp.N; k++ {
							fk := lp.frame(k)
							lo, ok1 := kIn(x.Low, 0, fk)
							hi, ok2 := kIn(x.High, n, fk)
							if !ok1 || !ok2 || lo < 0 || lo > hi || hi > n {
								bi.opaque = "buffer sliced with bounds that are not constants within its length"
								bi.readers = append(bi.readers, x)
								break
							}
							visit(x, off+lo, hi-lo, d+1, fk)
						}
						continue
					}
				}
				if !ok1 || !ok2 || lo < 0 || lo > hi || hi > n {
					if readOnly(x, 0) != "" {
						bi.opaque = "buffer sliced with bounds that are not constants within its length"
					}
					bi.readers = append(bi.readers, x) // a window that is only read
					continue
				}
				visit(x, off+lo, hi-lo, d+1, it)
			case *ssa.IndexAddr:
				its := []*Frame{it}
				if _, isK := constI(x.Index); !isK && it == nil {
					if lp := s.bodyLoop(x.Block()); lp != nil {
						its = nil
						for k := 0; k < lp.N; k++ {
							its = append(its, lp.frame(k))
						}
					}
				}
				for _, it := range its {
					idx, isK := kIn(x.Index, 0, it)
					if x.Index == nil {
						isK = false
					}
					for _, rr := range *x.Referrers() {
						switch y := rr.(type) {
						case *ssa.DebugRef:
						case *ssa.UnOp:
							if y.Op == token.MUL {
								bi.readers = append(bi.readers, y)
							}
						case *ssa.Store:
							if y.Addr != ssa.Value(x) {
								bi.opaque = "address of a buffer element is stored"
								continue
							}
							if !isK || idx < 0 || idx >= n {
								bi.opaque = "element store at a non-constant index"
								bi.writes = append(bi.writes, bufWrite{at: y, off: off, piece: &Piece{Kind: "unknown", Width: int(n)}})
								continue
							}
							bi.writes = append(bi.writes, bufWrite{at: y, off: off + idx, piece: tag(bytePiece(y.Val, y), it), it: it})
						default:
							bi.opaque = "address of a buffer element escapes"
						}
					}
				}
			case *ssa.Store:
				if x.Val == v {
					bi.opaque = "buffer stored into memory"
				} else if isPtr {
					bi.opaque = "whole-array store"
				}
			case *ssa.UnOp:
				bi.readers = append(bi.readers, x)
			case *ssa.Return:
				bi.readers = append(bi.readers, x)
			case *ssa.Phi:
				bi.readers = append(bi.readers, x)
			case ssa.CallInstruction:
				cc := x.Common()
				if b, ok := cc.Value.(*ssa.Builtin); ok {
					switch b.Name() {
					case "len", "cap":
					case "append":
						bi.readers = append(bi.readers, x)
						if cc.Args[0] == v && off+n < bi.size {
							// spare capacity: the append writes the root in place
							bi.writes = append(bi.writes, bufWrite{at: x, off: off + n, piece: &Piece{Kind: "unknown", Width: int(bi.size - off - n), Why: "append into spare capacity"}})
						}
					case "copy":
						if cc.Args[0] == v {
							src := s.Stream(cc.Args[1])
							if it != nil {
								src = s.iterStreamer(it.Iter.Loop, it.Iter.K).Stream(cc.Args[1])
							}
							w, ok := ConstWidth(src)
							if !ok || int64(w) > n {
								bi.opaque = "copy of a variable-length or longer source into the buffer"
								bi.writes = append(bi.writes, bufWrite{at: x, off: off, piece: &Piece{Kind: "unknown", Width: int(n)}})
								continue
							}
							o := off
							for _, p := range src {
								q := *p
								q.At = x
								bi.writes = append(bi.writes, bufWrite{at: x, off: o, piece: &q, it: it})
								o += int64(p.Width)
							}
						} else {
							bi.readers = append(bi.readers, x)
						}
					default:
						bi.opaque = "buffer passed to builtin " + b.Name()
					}
					continue
				}
				if kind, w, order := binCall2(cc); kind != "" {
					switch {
					case kind == "put" && cc.Args[1] == v:
						if int64(w) > n {
							bi.opaque = fmt.Sprintf("PutUint%d into a %d-byte window", 8*w, n)
							continue
						}
						bi.writes = append(bi.writes, bufWrite{at: x, off: off, piece: tag(&Piece{Kind: "int", Width: w, Order: order, Val: cc.Args[2], At: x}, it), it: it})
					default:
						bi.readers = append(bi.readers, x)
					}
					continue
				}
				if f := cc.StaticCallee(); f != nil && (readOnlyCallees[f.String()] || (f.Blocks != nil && paramsReadOnly(f, cc, v))) {
					bi.readers = append(bi.readers, x)
					continue
				}
				if cc.IsInvoke() && cc.Method.Name() == "Write" {
					bi.readers = append(bi.readers, x)
					continue
				}
				bi.opaque = "buffer passed to " + calleeStr(cc)
				bi.readers = append(bi.readers, x)
			default:
				bi.opaque = fmt.Sprintf("buffer used by %T", r)
			}
		}
	}
	visit(root, 0, bi.size, 0, nil)
	return bi
}

func bytePiece(v ssa.Value, at ssa.Instruction) *Piece {
	w := v
	for {
		if c, ok := w.(*ssa.Convert); ok {
			if _, isK := c.X.(*ssa.Const); isK {
				w = c.X
				continue
			}
		}
		break
	}
	if k, ok := w.(*ssa.Const); ok && k.Value != nil && k.Value.Kind() == constant.Int {
		if i, exact := constant.Int64Val(k.Value); exact {
			if i == 0 {
				return &Piece{Kind: "zero", Width: 1, At: at}
			}
			return &Piece{Kind: "const", Width: 1, Const: []byte{byte(i)}, Val: v, At: at}
		}
	}
	return &Piece{Kind: "byte", Width: 1, Val: v, At: at}
}

func instrBefore(a, b ssa.Instruction) bool {
	if a.Block() == b.Block() {
		for _, in := range a.Block().Instrs {
			if in == a {
				return true
			}
			if in == b {
				return false
			}
		}
		return false
	}
	return a.Block().Dominates(b.Block())
}

// fixed: the content of bytes [off, off+n) of root.
func (s *Streamer) fixed(root ssa.Value, off, n int64, at ssa.Instruction) []*Piece {
	bi := s.collectBuf(root)
	opaque := func(why string) []*Piece {
		if n == 0 {
			return nil
		}
		return []*Piece{{Kind: "bytes", Width: int(n), Src: root, At: at, Why: why}}
	}
	if bi.opaque != "" {
		return opaque(bi.opaque)
	}
	// A write that does not dominate every read (the optional field written
	// under a condition) leaves, at any read, either its bytes or the zero bytes
	// of the fresh buffer — provided it executes at most once (not in a cycle)
	// and nothing else writes the same bytes (checked below as an overlap).
	conditional := map[ssa.Instruction]bool{}
	for _, w := range bi.writes {
		if w.it != nil {
			// a write of an unrolled loop: it must execute in every iteration, and
			// every read of the buffer must come after the loop has run to its end
			lp := w.it.Iter.Loop
			if !w.at.Block().Dominates(lp.Header.Preds[lp.back]) {
				return opaque("a write to the buffer inside a loop is not executed in every iteration")
			}
			for _, r := range bi.readers {
				if w.at == r {
					continue
				}
				if lp.blocks[r.Block()] || !lp.Header.Dominates(r.Block()) {
					return opaque("the buffer is read before a loop that fills it has finished")
				}
			}
			continue
		}
		for _, r := range bi.readers {
			if w.at == r {
				continue
			}
			if !instrBefore(w.at, r) {
				for _, sc := range w.at.Block().Succs {
					if reaches(sc, w.at.Block()) {
						return opaque("a write to the buffer inside a loop does not dominate a read of it")
					}
				}
				conditional[w.at] = true
			}
		}
	}
	ws := append([]bufWrite(nil), bi.writes...)
	sort.SliceStable(ws, func(i, j int) bool { return ws[i].off < ws[j].off })
	var out []*Piece
	pos := off
	zero := func(k int64) {
		if k <= 0 {
			return
		}
		if len(out) > 0 && out[len(out)-1].Kind == "zero" {
			q := *out[len(out)-1]
			q.Width += int(k)
			out[len(out)-1] = &q
			return
		}
		out = append(out, &Piece{Kind: "zero", Width: int(k), At: at})
	}
	prevEnd := int64(-1)
	for _, w := range ws {
		end := w.off + int64(w.piece.Width)
		if w.off < prevEnd {
			return opaque("overlapping writes into the buffer")
		}
		prevEnd = end
		if end <= off || w.off >= off+n {
			continue
		}
		if w.off < off || end > off+n {
			return opaque("a write straddles the window that is read")
		}
		if w.piece.Kind == "unknown" {
			return opaque(w.piece.Why)
		}
		zero(w.off - pos)
		switch {
		case w.piece.Kind == "zero":
			zero(int64(w.piece.Width))
		case conditional[w.at]:
			out = append(out, &Piece{Kind: "alt", Width: w.piece.Width, At: w.at, Alts: []Alt{
				{Pieces: []*Piece{w.piece}},
				{Pieces: []*Piece{{Kind: "zero", Width: w.piece.Width, At: at}}},
			}})
		default:
			out = append(out, w.piece)
		}
		pos = end
	}
	zero(off + n - pos)
	return out
}

// ---------------------------------------------------------------------------
// φ-joins

func isLoopHeader(b *ssa.BasicBlock) bool {
	for _, p := range b.Preds {
		if b.Dominates(p) {
			return true
		}
	}
	return false
}

func (s *Streamer) phi(p *ssa.Phi) []*Piece {
	if isLoopHeader(p.Block()) {
		return s.loopPhi(p)
	}
	var alts [][]*Piece
	for _, e := range p.Edges {
		alts = append(alts, s.Stream(e))
	}
	out := joinAlts(alts, p.Block().Preds, p.Block(), p)
	// alternatives of different lengths with nothing in common: the φ itself is
	// the variable-length run (its width is len(φ)); the alternatives stay
	// available for provenance questions.
	if len(out) == 1 && out[0].Kind == "alt" && out[0].Width < 0 {
		return []*Piece{{Kind: "bytes", Width: -1, Src: p, Alts: out[0].Alts, At: p}}
	}
	// a structural join: its content is only as described if nobody writes it
	if why := readOnly(p, 0); why != "" {
		return unknown(p, "the joined slice %s %s", p.Name(), why)
	}
	return out
}

func joinAlts(alts [][]*Piece, preds []*ssa.BasicBlock, join *ssa.BasicBlock, at ssa.Instruction) []*Piece {
	n := 0
	for {
		same := true
		for _, a := range alts {
			if n >= len(a) || n >= len(alts[0]) || a[n] != alts[0][n] {
				same = false
			}
		}
		if !same {
			break
		}
		n++
	}
	out := append([]*Piece(nil), alts[0][:n]...)
	allEmpty := true
	for _, a := range alts {
		if len(a) > n {
			allEmpty = false
		}
	}
	if allEmpty {
		return out
	}
	alt := &Piece{Kind: "alt", Width: -2, At: at}
	for i, a := range alts {
		alt.Alts = append(alt.Alts, Alt{Pred: preds[i], Join: join, Pieces: a[n:]})
		w, ok := ConstWidth(a[n:])
		switch {
		case !ok:
			alt.Width = -1
		case alt.Width == -2:
			alt.Width = w
		case alt.Width != w:
			alt.Width = -1
		}
	}
	return append(out, alt)
}

// ---------------------------------------------------------------------------
// producers: helper calls

func (s *Streamer) producer(call *ssa.Call, idx int, v ssa.Value, at ssa.Instruction) []*Piece {
	cc := call.Common()
	f := cc.StaticCallee()
	if idx == 0 && f != nil && f.Blocks != nil && s.InModule != nil && s.InModule(f) && s.depth < 2 {
		fr := ChildFrame(call, f, s.frame)
		sub := NewStreamer(f, s.InModule)
		sub.depth = s.depth + 1
		sub.frame = fr
		sub.caller = s
		rets := sub.Returns()
		if len(rets) == 1 {
			ps := sub.Stream(rets[0])
			setFrame(ps, fr)
			if out, ok := s.inline(ps, call, f, at); ok {
				return out
			}
		}
		w, agreed := -1, len(rets) > 1
		var first []*Piece
		for i, r := range rets {
			ps := sub.Stream(r)
			cw, ok := ConstWidth(ps)
			if !ok {
				agreed = false
				break
			}
			if i == 0 {
				w, first = cw, ps
			} else if cw != w {
				agreed = false
			}
		}
		if agreed {
			setFrame(first, fr)
			return []*Piece{{Kind: "nested", Width: w, Src: call, Callee: f, Inner: first, At: at, Frame: s.frame}}
		}
	}
	return []*Piece{{Kind: "bytes", Width: -1, Src: v, Callee: f, At: at}}
}

// Frame is the activation of an in-module helper whose layout was read off at
// call site Call; values of pieces that carry a Frame live in Callee and its
// parameters are bound to the call's arguments.
type Frame struct {
	Call   *ssa.Call
	Callee *ssa.Function
	Parent *Frame
	// Iter is set (and Call/Callee are nil) for the activation of one iteration
	// of an unrolled loop (unroll.go); Parent is the activation containing the loop.
	Iter *Iter
}

// Bind returns the caller-side argument parameter p is bound to.
func (f *Frame) Bind(p *ssa.Parameter) (ssa.Value, *Frame, bool) {
	for f != nil && f.Iter != nil {
		f = f.Parent // a loop iteration binds no parameters; its function's activation does
	}
	if f == nil || f.Callee == nil {
		return nil, nil, false
	}
	for i, q := range f.Callee.Params {
		if q == p && i < len(f.Call.Common().Args) {
			return f.Call.Common().Args[i], f.Parent, true
		}
	}
	return nil, nil, false
}

// Resolve follows parameter bindings outwards: a value that is a parameter of
// an inlined helper becomes the argument it is bound to.
func Resolve(v ssa.Value, fr *Frame) (ssa.Value, *Frame) {
	for d := 0; d < 64; d++ {
		if ct, ok := v.(*ssa.ChangeType); ok {
			v = ct.X
			continue
		}
		switch v.(type) {
		case *ssa.UnOp, *ssa.Index:
			if el, ef, ok := elemLoad(v, fr); ok {
				v, fr = el, ef
				continue
			}
		}
		switch v.(type) {
		case *ssa.UnOp, *ssa.Field:
			// a field of a struct value written once: the value stored there (cells.go)
			if e, ef, ok := fieldLoad(v, fr); ok {
				v, fr = e, ef
				continue
			}
			// a captured parameter / local that is assigned once
			if e, ef, ok := cellLoadValue(v, fr); ok {
				v, fr = e, ef
				continue
			}
		}
		if fv, ok := v.(*ssa.FreeVar); ok {
			if b, bf, ok := freeVarBinding(fv, fr); ok {
				v, fr = b, bf
				continue
			}
		}
		if ph, ok := v.(*ssa.Phi); ok {
			if e, ef, ok := iterPhi(ph, fr); ok {
				v, fr = e, ef
				continue
			}
		}
		p, ok := v.(*ssa.Parameter)
		if !ok {
			break
		}
		arg, pf, ok := fr.Bind(p)
		if !ok {
			break
		}
		v, fr = arg, pf
	}
	return v, fr
}

func setFrame(ps []*Piece, fr *Frame) {
	for _, p := range ps {
		if p.frameSet {
			continue
		}
		p.Frame, p.frameSet = fr, true
		setFrame(p.Inner, fr)
		for _, a := range p.Alts {
			setFrame(a.Pieces, fr)
		}
	}
}

// inline turns the single-return layout ps of helper f, called at `call`, into
// caller pieces: runs that are the bytes of a slice parameter are replaced by
// the caller's own layout of the argument (so `return append(dst, hdr...)`
// helpers read as "dst ++ hdr"); everything else keeps its callee frame. A
// helper with no such runs and a constant width stays one nested piece.
func (s *Streamer) inline(ps []*Piece, call *ssa.Call, f *ssa.Function, at ssa.Instruction) ([]*Piece, bool) {
	paramRun := false
	for _, p := range ps {
		if p.Kind == "unknown" {
			return nil, false
		}
		if _, isP := p.Src.(*ssa.Parameter); isP && p.Kind == "bytes" && p.Frame != nil && p.Frame.Call == call {
			paramRun = true
		}
	}
	if !paramRun {
		if w, ok := ConstWidth(ps); ok {
			return []*Piece{{Kind: "nested", Width: w, Src: call, Callee: f, Inner: ps, At: at, Frame: s.frame}}, true
		}
		return nil, false
	}
	var out []*Piece
	for i, p := range ps {
		prm, isP := p.Src.(*ssa.Parameter)
		if !isP || p.Kind != "bytes" || p.Frame == nil || p.Frame.Call != call {
			out = append(out, p)
			continue
		}
		arg, _, ok := p.Frame.Bind(prm)
		if !ok {
			return nil, false
		}
		if why := readOnly(prm, 0); why != "" {
			return nil, false
		}
		if i == 0 {
			// the helper may extend the argument in place: same discipline as append
			if why := s.chainOK(call, arg); why != "" {
				return unknown(call, "%s", why), true
			}
		}
		out = append(out, s.Stream(arg)...)
	}
	return out, true
}

// ---------------------------------------------------------------------------
// bytes.Buffer

type bufOp struct {
	in     ssa.Instruction
	pieces []*Piece
}

// buffer: the bytes accumulated in a local bytes.Buffer when `at` executes.
func (s *Streamer) buffer(buf ssa.Value, at ssa.Instruction) []*Piece {
	al, ok := buf.(*ssa.Alloc)
	if !ok || buf.Referrers() == nil {
		return unknown(at, "bytes.Buffer of unknown origin")
	}
	ops := map[*ssa.BasicBlock][]bufOp{}
	add := func(in ssa.Instruction, ps []*Piece) {
		ops[in.Block()] = append(ops[in.Block()], bufOp{in, ps})
	}
	for _, r := range *al.Referrers() {
		switch x := r.(type) {
		case *ssa.DebugRef:
		case *ssa.Store:
			if x.Addr == buf {
				continue // zero-value initialisation
			}
			return unknown(at, "the bytes.Buffer is stored into memory")
		case *ssa.MakeInterface:
			// io.Writer(buf) handed to encoding/binary.Write
			for _, rr := range *x.Referrers() {
				c, ok := rr.(*ssa.Call)
				if !ok {
					if _, isDbg := rr.(*ssa.DebugRef); isDbg {
						continue
					}
					return unknown(at, "the bytes.Buffer escapes as an interface")
				}
				f := c.Common().StaticCallee()
				if f == nil || f.String() != "encoding/binary.Write" || c.Common().Args[0] != ssa.Value(x) {
					return unknown(at, "the bytes.Buffer is passed to %s", calleeStr(c.Common()))
				}
				add(c, []*Piece{binaryWritePiece(c)})
			}
		case *ssa.Call:
			cc := x.Common()
			f := cc.StaticCallee()
			if f == nil || len(cc.Args) == 0 || cc.Args[0] != buf {
				return unknown(at, "the bytes.Buffer is passed to %s", calleeStr(cc))
			}
			switch f.String() {
			case "(*bytes.Buffer).Write", "(*bytes.Buffer).WriteString", "(*strings.Builder).Write", "(*strings.Builder).WriteString":
				add(x, s.Stream(cc.Args[1]))
			case "(*bytes.Buffer).WriteByte", "(*strings.Builder).WriteByte":
				add(x, []*Piece{bytePiece(cc.Args[1], x)})
			case "(*bytes.Buffer).Bytes", "(*bytes.Buffer).Len", "(*bytes.Buffer).String", "(*bytes.Buffer).Grow", "(*strings.Builder).String", "(*strings.Builder).Len", "(*strings.Builder).Grow":
			default:
				return unknown(at, "bytes.Buffer method %s is not modelled", f.Name())
			}
		default:
			return unknown(at, "the bytes.Buffer is used by %T", r)
		}
	}
	return s.accumulate(ops, al.Block(), at, "bytes.Buffer")
}

// accumulate: the concatenation of the deltas ops (per block) appended to an
// accumulator that is empty at the start of block `start`, when `at` executes.
// Joins of paths become alternatives; an accumulator live across a loop is not
// read.
func (s *Streamer) accumulate(ops map[*ssa.BasicBlock][]bufOp, start *ssa.BasicBlock, at ssa.Instruction, what string) []*Piece {
	for b := range ops {
		sort.Slice(ops[b], func(i, j int) bool { return instrBefore(ops[b][i].in, ops[b][j].in) })
	}
	s.bufMemo = map[*ssa.BasicBlock][]*Piece{}
	var atEnd func(b *ssa.BasicBlock, upto ssa.Instruction, d int) []*Piece
	atEnd = func(b *ssa.BasicBlock, upto ssa.Instruction, d int) []*Piece {
		if upto == nil {
			if ps, ok := s.bufMemo[b]; ok {
				return ps
			}
		}
		var pre []*Piece
		switch {
		case d > 200:
			pre = unknown(at, "control flow too deep")
		case b == start:
		case isLoopHeader(b):
			pre = unknown(at, "the %s is live across a loop", what)
		default:
			var alts [][]*Piece
			var preds []*ssa.BasicBlock
			for _, p := range b.Preds {
				if !start.Dominates(p) {
					continue
				}
				alts = append(alts, atEnd(p, nil, d+1))
				preds = append(preds, p)
			}
			if len(alts) == 0 {
				pre = unknown(at, "block not dominated by the allocation of the %s", what)
			} else if len(alts) == 1 {
				pre = alts[0]
			} else {
				pre = joinAlts(alts, preds, b, b.Instrs[0])
			}
		}
		out := append([]*Piece(nil), pre...)
		for _, op := range ops[b] {
			if upto != nil && !instrBefore(op.in, upto) {
				continue
			}
			out = append(out, op.pieces...)
		}
		if upto == nil {
			s.bufMemo[b] = out
		}
		return out
	}
	return atEnd(at.Block(), at, 0)
}

// binaryWritePiece: binary.Write(w, order, value) with a fixed-size integer value.
func binaryWritePiece(c *ssa.Call) *Piece {
	cc := c.Common()
	p := &Piece{Kind: "unknown", Width: -1, At: c, Why: "binary.Write of a value that is not a fixed-size integer"}
	if len(cc.Args) != 3 {
		return p
	}
	mi, ok := cc.Args[2].(*ssa.MakeInterface)
	if !ok {
		return p
	}
	b, ok := mi.X.Type().Underlying().(*types.Basic)
	if !ok {
		return p
	}
	w := 0
	switch b.Kind() {
	case types.Uint8, types.Int8:
		w = 1
	case types.Uint16, types.Int16:
		w = 2
	case types.Uint32, types.Int32:
		w = 4
	case types.Uint64, types.Int64:
		w = 8
	default:
		return p
	}
	order := ""
	if om, ok := cc.Args[1].(*ssa.MakeInterface); ok {
		order = orderOf(om.X)
	}
	if order == "" && w > 1 {
		p.Why = "binary.Write with a byte order that is not a constant"
		return p
	}
	if w == 1 {
		return bytePiece(mi.X, c)
	}
	return &Piece{Kind: "int", Width: w, Order: order, Val: mi.X, At: c}
}
