// Package codec is E2: it turns encoders and decoders into wire layouts
// (ordered lists of atoms) by following go/ssa def-use chains — nothing is
// executed. Encoders are read backwards from the byte slice they produce
// (append chains, fixed-offset writes into a make); decoders are read from the
// stores into receiver fields back to the bytes of the input they come from.
package codec

import (
	"fmt"
	"go/constant"
	"go/token"
	"go/types"
	"sort"
	"strings"

	"golang.org/x/tools/go/ssa"

	"manticheck/internal/lin"
	"manticheck/internal/prove"
)

// Atom is one element of a wire layout.
type Atom struct {
	Kind  string // fixed | bytes | nested | repeat | cond | const | pad | unknown
	Width int    // bytes for fixed/const/pad; 0 when variable
	Order string // LE | BE | "" (single byte or raw bytes)
	Field string // receiver field path the bytes come from / go to ("" if none)
	Expr  string // what else the value is (len(F), constant, expression) — diagnostic and for matching derived values
	Type  string // nested: the callee (Type.Method); fixed: declared Go type of the field
	Over  string // repeat: the ranged field
	Body  []Atom // repeat body / cond alternatives (flattened, separated by a "|" const atom)
	Pos   token.Pos

	// decoder side
	Stream   string // which input buffer
	Off      string // rendered offset form
	OffForm  *lin.Form
	WidthStr string // rendered width when symbolic
	WidthForm *lin.Form
	Window    int             // nested decoder: constant width of the window it is handed (0 = open-ended)
	Callee    *ssa.Function   // nested: the codec function called
	At        ssa.Instruction // decoder: where the bytes are consumed
	FI        *prove.FuncInfo // decoder: the frame OffForm/WidthForm are expressed in
	Unrolled  bool            // decoder: one row of a constant-table loop, already unrolled
	Cond     bool   // executed under a data-dependent condition

	// encoder: a single byte that is lane #Lane (0 = least significant) of the
	// integer LaneOf, SrcBytes wide (byte(x>>8k), byte(x&0xFF), byte(x)); runs of
	// lanes of one value are merged into one fixed atom by mergeLanes
	Val      ssa.Value // encoder, fixed atoms: the integer value written (for rules that resolve an untraced value by bit lanes)
	LaneOf   ssa.Value
	Lane     int
	SrcBytes int
}

func (a Atom) String() string {
	var sb strings.Builder
	switch a.Kind {
	case "fixed":
		fmt.Fprintf(&sb, "%s:%d%s", orExpr(a.Field, a.Expr), a.Width, a.Order)
	case "bytes":
		fmt.Fprintf(&sb, "%s:bytes", orExpr(a.Field, a.Expr))
		if a.WidthStr != "" {
			fmt.Fprintf(&sb, "[%s]", a.WidthStr)
		}
	case "nested":
		fmt.Fprintf(&sb, "%s:%s", orExpr(a.Field, a.Expr), a.Type)
	case "repeat":
		var parts []string
		for _, b := range a.Body {
			parts = append(parts, b.String())
		}
		fmt.Fprintf(&sb, "repeat(%s){%s}", a.Over, strings.Join(parts, " "))
	case "cond":
		var parts []string
		for _, b := range a.Body {
			parts = append(parts, b.String())
		}
		fmt.Fprintf(&sb, "cond{%s}", strings.Join(parts, " "))
	case "const":
		fmt.Fprintf(&sb, "const(%s):%d", a.Expr, a.Width)
	case "pad":
		fmt.Fprintf(&sb, "pad:%d", a.Width)
	default:
		fmt.Fprintf(&sb, "?%s", a.Expr)
	}
	if a.Stream != "" {
		fmt.Fprintf(&sb, "@%s+%s", a.Stream, a.Off)
	}
	if a.Cond {
		sb.WriteString("?")
	}
	return sb.String()
}

func orExpr(f, e string) string {
	if f != "" {
		return f
	}
	if e != "" {
		return "(" + e + ")"
	}
	return "_"
}

func Render(as []Atom) string {
	var p []string
	for _, a := range as {
		p = append(p, a.String())
	}
	return strings.Join(p, " ")
}

// Ext holds the shared state for extracting layouts from one function.
type Ext struct {
	inlineDepth int // same-receiver methods read in place (bounded)
	parent      *Ext // caller's extractor when this one reads an inlined plain function
	bind        map[*ssa.Parameter]ssa.Value // its parameters → the caller's arguments
	W    *prove.World
	Fn   *ssa.Function
	FI   *prove.FuncInfo
	Recv ssa.Value // receiver parameter (nil for plain functions)
	// Roots: extra values whose fields count as "fields" (e.g. a struct
	// parameter or a local *T being filled by a constructor-style decoder).
	Roots map[ssa.Value]string
	depth int
}

func NewExt(w *prove.World, fn *ssa.Function) *Ext {
	e := &Ext{W: w, Fn: fn, FI: w.Info(fn), Roots: map[ssa.Value]string{}}
	if fn.Signature.Recv() != nil && len(fn.Params) > 0 {
		e.Recv = fn.Params[0]
		e.Roots[e.Recv] = ""
		// a value receiver is spilled into a local: fields are reached through that copy
		if _, isPtr := e.Recv.Type().Underlying().(*types.Pointer); !isPtr && e.Recv.Referrers() != nil {
			for _, r := range *e.Recv.Referrers() {
				if st, ok := r.(*ssa.Store); ok && st.Val == e.Recv {
					if al, ok := st.Addr.(*ssa.Alloc); ok {
						e.Roots[al] = ""
					}
				}
			}
		}
		// a pointer receiver filled through a staging local that is committed with
		// one whole-struct store (`var d T; d.F = …; *recv = d`): the local's fields
		// are the receiver's
		if pt, isPtr := e.Recv.Type().Underlying().(*types.Pointer); isPtr && e.Recv.Referrers() != nil {
			for _, r := range *e.Recv.Referrers() {
				st, ok := r.(*ssa.Store)
				if !ok || st.Addr != e.Recv {
					continue
				}
				if ld, ok := st.Val.(*ssa.UnOp); ok && ld.Op == token.MUL {
					if al, ok := ld.X.(*ssa.Alloc); ok && types.Identical(deref(al.Type()), pt.Elem()) {
						e.Roots[al] = ""
					}
				}
			}
		}
	}
	return e
}

// FieldPath resolves an address to a field path rooted at the receiver (or a
// registered root): c.F → "F", c.A.B → "A.B", c.F[i] → "F[*]" / "F[3]".
func (e *Ext) FieldPath(addr ssa.Value) (string, bool) {
	switch x := addr.(type) {
	case *ssa.FieldAddr:
		st, _ := deref(x.X.Type()).Underlying().(*types.Struct)
		if st == nil {
			return "", false
		}
		name := st.Field(x.Field).Name()
		base, ok := e.basePath(x.X)
		if !ok {
			return "", false
		}
		if base == "" {
			return name, true
		}
		return base + "." + name, true
	case *ssa.IndexAddr:
		base, ok := e.basePath(x.X)
		if !ok {
			return "", false
		}
		if k, isK := x.Index.(*ssa.Const); isK && k.Value != nil {
			return fmt.Sprintf("%s[%s]", base, k.Value.ExactString()), true
		}
		return base + "[*]", true
	}
	return "", false
}

func (e *Ext) basePath(v ssa.Value) (string, bool) {
	if p, ok := e.Roots[v]; ok {
		return p, true
	}
	switch x := v.(type) {
	case *ssa.FieldAddr, *ssa.IndexAddr:
		return e.FieldPath(x)
	case *ssa.UnOp:
		if x.Op == token.MUL {
			// load of a pointer/slice field: path of the field
			rep := e.FI.LoadRep(x)
			if rep != ssa.Value(x) {
				if p, ok := e.Roots[rep]; ok {
					return p, true
				}
			}
			return e.FieldPath(x.X)
		}
	case *ssa.Alloc:
		// local copy of the receiver value (value receivers are spilled)
		if p, ok := e.Roots[x]; ok {
			return p, true
		}
	}
	return "", false
}

func deref(t types.Type) types.Type {
	if p, ok := t.Underlying().(*types.Pointer); ok {
		return p.Elem()
	}
	return t
}

// ValueSrc classifies an integer/byte value: a whole field, a constant, or an
// expression over fields.
func (e *Ext) ValueSrc(v ssa.Value) (field, expr string, ftype types.Type) {
	orig := v
	for {
		switch x := v.(type) {
		case *ssa.Convert:
			v = x.X
			continue
		case *ssa.ChangeType:
			v = x.X
			continue
		}
		break
	}
	switch x := v.(type) {
	case *ssa.Const:
		if x.Value == nil {
			return "", "nil", nil
		}
		return "", "const " + x.Value.ExactString(), nil
	case *ssa.UnOp:
		if x.Op == token.MUL {
			if p, ok := e.FieldPath(x.X); ok {
				return p, "", x.Type()
			}
			// a load forwarded from a store
			rep := e.FI.LoadRep(x)
			if rep != ssa.Value(x) {
				return e.ValueSrc(rep)
			}
		}
	case *ssa.Parameter:
		if a, ok := e.bind[x]; ok && e.parent != nil {
			return e.parent.ValueSrc(a)
		}
		return "", "param " + x.Name(), x.Type()
	case *ssa.Index:
		// element of an array value loaded from a field (range over an array field)
		if ld, ok := x.X.(*ssa.UnOp); ok && ld.Op == token.MUL {
			if p, ok := e.FieldPath(ld.X); ok {
				if k, isK := x.Index.(*ssa.Const); isK && k.Value != nil {
					return fmt.Sprintf("%s[%s]", p, k.Value.ExactString()), "", x.Type()
				}
				return p + "[*]", "", x.Type()
			}
		}
	case *ssa.Call:
		if b, ok := x.Call.Value.(*ssa.Builtin); ok && b.Name() == "len" {
			f, ex, _ := e.ValueSrc(x.Call.Args[0])
			if f != "" {
				return "", "len(" + f + ")", nil
			}
			return "", "len(" + ex + ")", nil
		}
	case *ssa.Extract:
		if call, ok := x.Tuple.(*ssa.Call); ok {
			return "", fmt.Sprintf("%s#%d", prove.StaticName(call.Common()), x.Index), nil
		}
	}
	_ = orig
	return "", e.exprString(v, 0), nil
}

func (e *Ext) exprString(v ssa.Value, d int) string {
	if d > 4 {
		return "…"
	}
	switch x := v.(type) {
	case *ssa.Const:
		if x.Value == nil {
			return "nil"
		}
		return x.Value.ExactString()
	case *ssa.BinOp:
		return "(" + e.exprString(x.X, d+1) + " " + x.Op.String() + " " + e.exprString(x.Y, d+1) + ")"
	case *ssa.Convert:
		return e.exprString(x.X, d+1)
	case *ssa.ChangeType:
		return e.exprString(x.X, d+1)
	case *ssa.UnOp:
		if x.Op == token.MUL {
			if p, ok := e.FieldPath(x.X); ok {
				return p
			}
			if ia, ok := x.X.(*ssa.IndexAddr); ok {
				return e.exprString(ia.X, d+1) + "[" + e.exprString(ia.Index, d+1) + "]"
			}
		}
		return x.Op.String() + e.exprString(x.X, d+1)
	case *ssa.Parameter:
		return x.Name()
	case *ssa.Call:
		var args []string
		for _, a := range x.Call.Args {
			args = append(args, e.exprString(a, d+1))
		}
		n := prove.StaticName(x.Common())
		if b, ok := x.Call.Value.(*ssa.Builtin); ok {
			n = b.Name()
		}
		if i := strings.LastIndex(n, "/"); i >= 0 {
			n = n[i+1:]
		}
		return n + "(" + strings.Join(args, ",") + ")"
	case *ssa.Phi:
		return "φ" + x.Comment
	case *ssa.Extract:
		return e.exprString(x.Tuple, d+1) + "#" + fmt.Sprint(x.Index)
	}
	return v.Name()
}

// byte-order of an encoding/binary receiver value
func orderOf(v ssa.Value) string {
	t := v.Type().String()
	switch {
	case strings.HasSuffix(t, "binary.littleEndian"):
		return "LE"
	case strings.HasSuffix(t, "binary.bigEndian"):
		return "BE"
	}
	return ""
}

var putRe = map[string]int{"PutUint16": 2, "PutUint32": 4, "PutUint64": 8}
var getRe = map[string]int{"Uint16": 2, "Uint32": 4, "Uint64": 8}
var appRe = map[string]int{"AppendUint16": 2, "AppendUint32": 4, "AppendUint64": 8}

// binCall recognises encoding/binary accessor calls.
func binCall(c *ssa.Call) (kind string, width int, order string) {
	f := c.Common().StaticCallee()
	if f == nil || f.Signature.Recv() == nil {
		return "", 0, ""
	}
	rt := f.Signature.Recv().Type().String()
	if !strings.HasPrefix(rt, "encoding/binary.") {
		return "", 0, ""
	}
	order = "LE"
	if strings.Contains(rt, "bigEndian") {
		order = "BE"
	}
	if w, ok := putRe[f.Name()]; ok {
		return "put", w, order
	}
	if w, ok := getRe[f.Name()]; ok {
		return "get", w, order
	}
	if w, ok := appRe[f.Name()]; ok {
		return "append", w, order
	}
	return "", 0, ""
}

func constStr(v ssa.Value) (string, bool) {
	k, ok := v.(*ssa.Const)
	if !ok || k.Value == nil || k.Value.Kind() != constant.String {
		return "", false
	}
	return constant.StringVal(k.Value), true
}

func constI(v ssa.Value) (int64, bool) {
	k, ok := v.(*ssa.Const)
	if !ok || k.Value == nil || k.Value.Kind() != constant.Int {
		return 0, false
	}
	i, exact := constant.Int64Val(k.Value)
	return i, exact
}

func sortAtomsByOff(as []Atom, offs []int64) {
	idx := make([]int, len(as))
	for i := range idx {
		idx[i] = i
	}
	sort.SliceStable(idx, func(i, j int) bool { return offs[idx[i]] < offs[idx[j]] })
	out := make([]Atom, len(as))
	o2 := make([]int64, len(as))
	for i, k := range idx {
		out[i] = as[k]
		o2[i] = offs[k]
	}
	copy(as, out)
	copy(offs, o2)
}
