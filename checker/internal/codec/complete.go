package codec

import (
	"fmt"
	"go/token"
	"go/types"
	"strings"

	"golang.org/x/tools/go/ssa"
)

// Completeness of an extraction. The layout extractors read the wire layout off
// the function they are given: appends/writes of the returned buffer on the
// encoder side, stores to receiver fields fed from reads of the input buffer on
// the decoder side, following the helper shapes they know. If the data they
// reason about ESCAPES into something they did not analyse, the layout they
// return is only part of the truth, and a comparison with it would report the
// unseen part as missing. Incomplete returns a description of the first such
// escape ("" when the extraction is complete); callers then report the
// construct as not decided instead of comparing.
//
// Escapes looked for:
//   - the input buffer (a []byte/string parameter or a slice of one) stored
//     into a field of a local object (a cursor/reader type), captured by a
//     closure, merged in a φ (a re-sliced tail carried round a loop), or handed
//     to an in-module function that is not a recognised codec call;
//   - the address of a receiver field handed to a call or stored (the field is
//     then written through a pointer somewhere else);
//   - the receiver itself handed to an in-module method of its own type other
//     than the codec entry points (a phase split: the layout continues there).
func (e *Ext) Incomplete() string {
	fn := e.Fn
	if fn == nil || fn.Blocks == nil {
		return ""
	}
	var recv *ssa.Parameter
	if fn.Signature.Recv() != nil && len(fn.Params) > 0 {
		recv = fn.Params[0]
	}
	isBuf := func(v ssa.Value) bool { return isBufferLike(v) }
	// values rooted at a buffer parameter
	rooted := map[ssa.Value]bool{}
	for _, p := range fn.Params {
		if p != recv && isBuf(p) {
			rooted[p] = true
		}
	}
	changed := true
	for changed {
		changed = false
		for _, b := range fn.Blocks {
			for _, in := range b.Instrs {
				switch x := in.(type) {
				case *ssa.Call:
					// the raw parameter / data block of an SMB command is an input buffer too
					if f := x.Common().StaticCallee(); f != nil && (f.Name() == "GetBytes" || f.Name() == "GetBytesStream") && isBuf(x) && !rooted[x] {
						rooted[x] = true
						changed = true
					}
				case *ssa.Slice:
					if rooted[x.X] && !rooted[x] {
						rooted[x] = true
						changed = true
					}
				case *ssa.Convert:
					if rooted[x.X] && !rooted[x] && isBuf(x) {
						rooted[x] = true
						changed = true
					}
				case *ssa.ChangeType:
					if rooted[x.X] && !rooted[x] {
						rooted[x] = true
						changed = true
					}
				}
			}
		}
	}
	codecName := func(f *ssa.Function) bool {
		switch f.Name() {
		case "Unmarshal", "FromBytes", "FromRawBytes", "Decode", "Marshal", "ToBytes", "Encode", "GetBytes", "GetParameters", "GetData", "GetAndX", "Init", "IsAndX", "SetBytes", "AddWord", "AddWordsFromBytesStream", "Add", "AddBytes", "GetBytesStream":
			return true
		}
		return false
	}
	inModule := func(f *ssa.Function) bool {
		return f != nil && f.Pkg != nil && fn.Pkg != nil && strings.HasPrefix(f.Pkg.Pkg.Path(), modulePrefix(fn.Pkg.Pkg.Path()))
	}
	for _, b := range fn.Blocks {
		for _, in := range b.Instrs {
			pos := in.Pos()
			switch x := in.(type) {
			case *ssa.Phi:
				if isBuf(x) {
					for _, ed := range x.Edges {
						if rooted[ed] {
							return fmt.Sprintf("the input buffer is carried as a re-sliced tail (φ %s)%s", x.Name(), at(fn, pos))
						}
					}
				}
			case *ssa.Store:
				if rooted[x.Val] {
					if fa, ok := x.Addr.(*ssa.FieldAddr); ok {
						if _, isRecvField := e.FieldPath(fa); !isRecvField {
							return "the input buffer is stored into a field of a local object (cursor/reader type)" + at(fn, pos)
						}
					} else if _, isAlloc := x.Addr.(*ssa.Alloc); isAlloc {
						// a local cell: captured variable or spilled parameter — fine when never captured
						if al := x.Addr.(*ssa.Alloc); capturedByClosure(al) {
							return "the input buffer is captured by a function literal" + at(fn, pos)
						}
					}
				}
				if fa, ok := x.Val.(*ssa.FieldAddr); ok && recv != nil && derivesFrom(fa.X, recv) {
					return "the address of a receiver field is stored" + at(fn, pos)
				}
			case *ssa.MakeClosure:
				// a function literal that writes struct fields (the receiver is usually
				// captured through a spilled cell): the decode continues inside it
				if cf, ok := x.Fn.(*ssa.Function); ok && storesToFields(cf) {
					return "struct fields are written inside a function literal" + at(fn, pos)
				}
				for _, bnd := range x.Bindings {
					if rooted[bnd] {
						return "the input buffer is captured by a function literal" + at(fn, pos)
					}
					if recv != nil && bnd == ssa.Value(recv) {
						// closures over the receiver that store to its fields are not followed
						if cf, ok := x.Fn.(*ssa.Function); ok && storesToFields(cf) {
							return "receiver fields are written inside a function literal" + at(fn, pos)
						}
					}
				}
			case ssa.CallInstruction:
				cc := x.Common()
				if _, isB := cc.Value.(*ssa.Builtin); isB {
					continue
				}
				callee := cc.StaticCallee()
				for i, a := range cc.Args {
					if fa, ok := a.(*ssa.FieldAddr); ok && recv != nil && derivesFrom(fa.X, recv) {
						// &c.Field as the RECEIVER of a method (c.F.Unmarshal(…), c.Command.SetParameters(…)):
						// a call on the field, not a pointer handed away
						if callee != nil && i == 0 && callee.Signature.Recv() != nil {
							continue
						}
						if cc.IsInvoke() {
							continue
						}
						if callee != nil && !inModule(callee) {
							continue
						}
						return fmt.Sprintf("the address of a receiver field is handed to %s", calleeLabel(cc)) + at(fn, pos)
					}
					if rooted[a] && callee != nil && inModule(callee) && !codecName(callee) {
						// byte-scanning helpers that return values (strings, ints) are handled by viaHelper;
						// helpers with a receiver of a non-codec local type, or returning nothing, are not
						if callee.Signature.Results().Len() == 0 {
							return fmt.Sprintf("the input buffer is handed to %s, which returns nothing (it must store what it reads somewhere)", calleeLabel(cc)) + at(fn, pos)
						}
					}
				}
				// phase split: a method of the receiver's own type, not a codec entry point
				if recv != nil && callee != nil && callee.Signature.Recv() != nil && len(cc.Args) > 0 && cc.Args[0] == ssa.Value(recv) &&
					types.Identical(callee.Signature.Recv().Type(), fn.Signature.Recv().Type()) && !codecName(callee) && callee != fn {
					if storesToFields(callee) || returnsBytes(callee) {
						return fmt.Sprintf("part of the codec lives in %s (a method of the same type), which is not followed", calleeLabel(cc)) + at(fn, pos)
					}
				}
			}
		}
	}
	return ""
}

func at(fn *ssa.Function, pos token.Pos) string {
	if !pos.IsValid() || fn.Prog == nil {
		return ""
	}
	p := fn.Prog.Fset.Position(pos)
	return fmt.Sprintf(" (line %d)", p.Line)
}

func modulePrefix(path string) string {
	parts := strings.Split(path, "/")
	if len(parts) >= 3 {
		return strings.Join(parts[:3], "/")
	}
	return path
}

func calleeLabel(cc *ssa.CallCommon) string {
	if f := cc.StaticCallee(); f != nil {
		return f.Name()
	}
	if cc.IsInvoke() {
		return cc.Method.Name()
	}
	return "a function value"
}

func derivesFrom(v ssa.Value, root ssa.Value) bool {
	for d := 0; d < 6; d++ {
		if v == root {
			return true
		}
		switch x := v.(type) {
		case *ssa.FieldAddr:
			v = x.X
		case *ssa.UnOp:
			v = x.X
		case *ssa.IndexAddr:
			v = x.X
		default:
			return false
		}
	}
	return false
}

func capturedByClosure(al *ssa.Alloc) bool {
	if al.Referrers() == nil {
		return false
	}
	for _, r := range *al.Referrers() {
		if _, ok := r.(*ssa.MakeClosure); ok {
			return true
		}
	}
	return false
}

func storesToFields(f *ssa.Function) bool {
	for _, b := range f.Blocks {
		for _, in := range b.Instrs {
			if st, ok := in.(*ssa.Store); ok {
				if _, isF := st.Addr.(*ssa.FieldAddr); isF {
					return true
				}
			}
		}
	}
	return false
}

func returnsBytes(f *ssa.Function) bool {
	res := f.Signature.Results()
	for i := 0; i < res.Len(); i++ {
		if sl, ok := res.At(i).Type().Underlying().(*types.Slice); ok {
			if b, ok := sl.Elem().Underlying().(*types.Basic); ok && b.Kind() == types.Uint8 {
				return true
			}
		}
	}
	return false
}
