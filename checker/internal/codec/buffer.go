package codec

import (
	"go/types"

	"golang.org/x/tools/go/ssa"

	"manticheck/internal/prove"
)

// buffer.go (added for C14): the layout a function writes into a *bytes.Buffer
// it RECEIVES (parameter or local), including encoding/binary.Write of
// fixed-size integers — the idiom of keycredential.writeEntry. Nothing is
// executed: the writes are the calls that use the buffer value, ordered by
// dominance.

// BufferWrites lists the atoms written to buf (a *bytes.Buffer value) by the
// function of e, in program order. ok is false when a use of the buffer is not
// one of Write / WriteString / WriteByte / binary.Write / Len / Bytes, or when
// two writes are not ordered by dominance.
func (e *Ext) BufferWrites(buf ssa.Value) (atoms []Atom, ok bool, why string) {
	refs := buf.Referrers()
	if refs == nil {
		return nil, false, "the buffer has no uses"
	}
	type w struct {
		in    ssa.Instruction
		atoms []Atom
	}
	var ws []w
	var visit func(v ssa.Value) bool
	visit = func(v ssa.Value) bool {
		for _, r := range *v.Referrers() {
			switch x := r.(type) {
			case *ssa.DebugRef:
			case *ssa.MakeInterface:
				// io.Writer(buffer) handed to binary.Write
				if !visit(x) {
					return false
				}
			case *ssa.Call:
				cc := x.Common()
				switch prove.StaticName(cc) {
				case "(*bytes.Buffer).Write", "(*bytes.Buffer).WriteString":
					if cc.Args[0] != v {
						why = "the buffer is passed as data to its own Write"
						return false
					}
					ws = append(ws, w{x, e.Seq(cc.Args[1])})
				case "(*bytes.Buffer).WriteByte":
					ws = append(ws, w{x, []Atom{e.byteAtom(cc.Args[1], x.Pos())}})
				case "(*bytes.Buffer).Len", "(*bytes.Buffer).Bytes":
				case "encoding/binary.Write":
					if len(cc.Args) != 3 || cc.Args[0] != v {
						why = "binary.Write with the buffer in an unexpected position"
						return false
					}
					a := Atom{Kind: "unknown", Expr: "binary.Write of a value that is not a fixed-size integer", Pos: x.Pos()}
					if mo, isMI := cc.Args[1].(*ssa.MakeInterface); isMI {
						order := orderOf(mo.X)
						if mv, isMI := cc.Args[2].(*ssa.MakeInterface); isMI && order != "" {
							if b, isB := mv.X.Type().Underlying().(*types.Basic); isB && b.Info()&types.IsInteger != 0 {
								if wd := elemWidthStrict(b); wd > 0 {
									f, ex, ft := e.ValueSrc(mv.X)
									a = Atom{Kind: "fixed", Width: wd, Order: order, Field: f, Expr: ex, Type: tstr(ft), Pos: x.Pos()}
									if wd == 1 {
										a.Order = ""
									}
								}
							}
						}
					}
					ws = append(ws, w{x, []Atom{a}})
				default:
					why = "the buffer is passed to " + prove.StaticName(cc)
					return false
				}
			default:
				why = "the buffer is used by an instruction that is not a write"
				return false
			}
		}
		return true
	}
	if !visit(buf) {
		return nil, false, why
	}
	idx := map[ssa.Instruction]int{}
	n := 0
	for _, b := range e.Fn.DomPreorder() {
		for _, in := range b.Instrs {
			idx[in] = n
			n++
		}
	}
	for i := 0; i < len(ws); i++ {
		for j := i + 1; j < len(ws); j++ {
			if idx[ws[j].in] < idx[ws[i].in] {
				ws[i], ws[j] = ws[j], ws[i]
			}
		}
	}
	for i := 0; i+1 < len(ws); i++ {
		a, b := ws[i].in, ws[i+1].in
		if a.Block() != b.Block() && !a.Block().Dominates(b.Block()) {
			return nil, false, "two writes to the buffer are not ordered by dominance"
		}
	}
	for _, x := range ws {
		atoms = append(atoms, x.atoms...)
	}
	return atoms, true, ""
}

func elemWidthStrict(b *types.Basic) int {
	switch b.Kind() {
	case types.Uint8, types.Int8:
		return 1
	case types.Uint16, types.Int16:
		return 2
	case types.Uint32, types.Int32:
		return 4
	case types.Uint64, types.Int64:
		return 8
	}
	return 0
}
