package codec

// Writer objects (added for C08, second hardening round).
//
// A builder may accumulate its message in a small local type instead of a
// plain slice or a bytes.Buffer:
//
//	type messageWriter struct{ buf []byte }
//	func (w *messageWriter) u32(v uint32)   { w.buf = binary.LittleEndian.AppendUint32(w.buf, v) }
//	func (w *messageWriter) bytes(b []byte) { w.buf = append(w.buf, b...) }
//	…
//	w := &messageWriter{}; w.bytes(sig); w.u32(t); …; return w.buf, nil
//
// The content of w.buf at a load in the owning function is read like a
// bytes.Buffer: every operation on the object contributes a delta (the bytes it
// appends), the deltas are concatenated along the control flow (joins become
// alternatives). The delta of a method call is obtained by reading the
// method's stores to the accumulator field in order, with its loads of the
// field standing for "what was there before" (a marker piece): the stored
// value must read as marker ++ delta. Methods are straight-line, may call
// other methods of the object (two levels), and may use the object only to
// load / store its fields. The object must not escape. Anything else yields an
// "unknown" piece.

import (
	"go/token"
	"go/types"

	"golang.org/x/tools/go/ssa"
)

// accCtx is set on the streamer that reads one method of a writer object (or,
// for direct `w.buf = append(w.buf, …)` statements, on the owner's streamer).
type accCtx struct {
	ptr    ssa.Value // the object inside this function: the Alloc (owner) or the receiver parameter
	field  int
	marker *Piece
	cur    []*Piece    // marker ++ what this activation appended so far
	loads  []*ssa.UnOp // owner only: the loads of the accumulator a direct statement was read through
}

func isByteSliceT(t types.Type) bool {
	sl, ok := t.Underlying().(*types.Slice)
	return ok && isByte(sl.Elem())
}

// accFieldLoad: v loads ptr.<field>.
func (a *accCtx) isField(addr ssa.Value) bool {
	if a.field == sliceCell {
		return addr == a.ptr
	}
	fa, ok := addr.(*ssa.FieldAddr)
	return ok && fa.X == a.ptr && fa.Field == a.field
}

// sliceCell as field index: the object is itself a []byte variable that lives
// in memory because closures capture it (data = append(data, …) inside
// emit := func(b []byte) { … }).
const sliceCell = -1

// cellOf: u loads a local []byte variable that closures capture.
func cellOf(u *ssa.UnOp) (*ssa.Alloc, bool) {
	if u.Op != token.MUL || !isByteSliceT(u.Type()) {
		return nil, false
	}
	al, ok := u.X.(*ssa.Alloc)
	if !ok || al.Referrers() == nil {
		return nil, false
	}
	for _, r := range *al.Referrers() {
		if _, isMC := r.(*ssa.MakeClosure); isMC {
			return al, true
		}
	}
	return nil, false
}

// objOf: u loads the []byte field of a local struct object; returns the object.
func objOf(u *ssa.UnOp) (*ssa.Alloc, int, bool) {
	if u.Op != token.MUL || !isByteSliceT(u.Type()) {
		return nil, 0, false
	}
	fa, ok := u.X.(*ssa.FieldAddr)
	if !ok {
		return nil, 0, false
	}
	al, ok := fa.X.(*ssa.Alloc)
	if !ok || structOf(al.Type()) == nil {
		return nil, 0, false
	}
	return al, fa.Field, true
}

// objField: the bytes of obj.<field> when load `at` executes.
func (s *Streamer) objField(obj *ssa.Alloc, field int, at *ssa.UnOp) []*Piece {
	if s.acc != nil && s.acc.ptr == ssa.Value(obj) && s.acc.field == field {
		// while a direct statement w.buf = append(w.buf, …) is being read
		return s.acc.cur
	}
	if obj.Referrers() == nil || s.up != nil {
		return unknown(at, "writer object %s is used inside an unrolled loop", obj.Name())
	}
	ops := map[*ssa.BasicBlock][]bufOp{}
	add := func(in ssa.Instruction, ps []*Piece) {
		ops[in.Block()] = append(ops[in.Block()], bufOp{in, ps})
	}
	var first *ssa.Store // the initialising store of a slice cell
	for _, r := range *obj.Referrers() {
		switch x := r.(type) {
		case *ssa.DebugRef:
		case *ssa.UnOp:
			if field != sliceCell || x.Op != token.MUL {
				return unknown(at, "writer object %s is copied as a whole", obj.Name())
			}
		case *ssa.MakeClosure:
			if field != sliceCell {
				return unknown(at, "writer object %s is captured by a closure", obj.Name())
			}
			cf, _ := x.Fn.(*ssa.Function)
			var fv ssa.Value
			for i, b := range x.Bindings {
				if b == ssa.Value(obj) && cf != nil && i < len(cf.FreeVars) {
					if fv != nil {
						return unknown(at, "the accumulator is captured twice by one closure")
					}
					fv = cf.FreeVars[i]
				}
			}
			if fv == nil || cf == nil || cf.Blocks == nil || x.Referrers() == nil {
				return unknown(at, "a closure capturing the accumulator is not followed")
			}
			for _, rr := range *x.Referrers() {
				switch y := rr.(type) {
				case *ssa.DebugRef:
				case *ssa.Call:
					if y.Common().Value != ssa.Value(x) {
						return unknown(at, "a closure capturing the accumulator is passed to a call")
					}
					d, why := s.calleeDelta(y, cf, fv, field, s.frame, 0)
					if why != "" {
						return unknown(y, "%s", why)
					}
					add(y, d)
				default:
					return unknown(at, "a closure capturing the accumulator is stored, deferred or otherwise not called directly")
				}
			}
		case *ssa.Store:
			if x.Addr != ssa.Value(obj) {
				return unknown(at, "the address of writer object %s is stored", obj.Name())
			}
			if field == sliceCell {
				d, why := s.directDelta(obj, field, x)
				if why == notExtending && first == nil {
					// data := []byte{} / make([]byte, 0, n): the initial content
					first = x
					ps := s.Stream(x.Val)
					for _, p := range ps {
						if p.Kind == "unknown" {
							return unknown(x, "%s", p.Why)
						}
					}
					add(x, ps)
					continue
				}
				if why != "" {
					return unknown(x, "%s", why)
				}
				add(x, d)
				continue
			}
			// w := T{…} / *w = T{…}: the field's initial value
			iv, ifr, ok := structField(x.Val, s.frame, field, 0)
			if !ok {
				return unknown(at, "writer object %s is assigned a value whose fields are not read off", obj.Name())
			}
			ps := s.streamIn(iv, ifr)
			add(x, ps)
		case *ssa.FieldAddr:
			if x.Field != field {
				if why := fieldOnlyLoadedOrStored(x); why != "" {
					return unknown(at, "field %d of writer object %s %s", x.Field, obj.Name(), why)
				}
				continue
			}
			for _, rr := range *x.Referrers() {
				switch y := rr.(type) {
				case *ssa.DebugRef:
				case *ssa.UnOp:
					if y.Op != token.MUL {
						return unknown(at, "the accumulator of %s is used by a unary operation", obj.Name())
					}
				case *ssa.Store:
					if y.Addr != ssa.Value(x) {
						return unknown(at, "the address of the accumulator of %s is stored", obj.Name())
					}
					d, why := s.directDelta(obj, field, y)
					if why != "" {
						return unknown(y, "%s", why)
					}
					add(y, d)
				default:
					return unknown(at, "the address of the accumulator of %s escapes", obj.Name())
				}
			}
		case *ssa.Call:
			d, why := s.methodDelta(x, obj, field, s.frame, 0)
			if why != "" {
				return unknown(x, "%s", why)
			}
			add(x, d)
		default:
			return unknown(at, "writer object %s is used by %T", obj.Name(), r)
		}
	}
	// a direct statement obj.buf = append(obj.buf, …) must extend the content as
	// it is at the statement: the load it reads must not be separated from the
	// store by another operation on the object
	for _, bops := range ops {
		for _, op := range bops {
			st, isSt := op.in.(*ssa.Store)
			if !isSt {
				continue
			}
			for _, l := range s.directLoads[st] {
				if l.Block() != st.Block() || !instrBefore(l, st) {
					return unknown(st, "the accumulator is extended from a copy read in another block")
				}
				for _, o2 := range ops[st.Block()] {
					if o2.in != op.in && instrBefore(l, o2.in) && instrBefore(o2.in, st) {
						return unknown(st, "the accumulator is extended from a stale copy of its content")
					}
				}
			}
		}
	}
	if first != nil {
		// the initialising store must come before every other operation
		for _, bops := range ops {
			for _, op := range bops {
				if op.in != ssa.Instruction(first) && !instrBefore(first, op.in) {
					return unknown(first, "the accumulator is re-initialised after it has been written")
				}
			}
		}
	}
	return s.accumulate(ops, obj.Block(), at, "writer object")
}

func fieldOnlyLoadedOrStored(fa *ssa.FieldAddr) string {
	if fa.Referrers() == nil {
		return ""
	}
	for _, r := range *fa.Referrers() {
		switch y := r.(type) {
		case *ssa.DebugRef:
		case *ssa.UnOp:
			if y.Op != token.MUL {
				return "is used by a unary operation"
			}
		case *ssa.Store:
			if y.Addr != ssa.Value(fa) {
				return "has its address stored"
			}
		default:
			return "has its address taken"
		}
	}
	return ""
}

const notExtending = "the value stored into the accumulator does not extend its previous content"

// directDelta: st is `obj.field = <value>` in the owning function; the value
// must read as (the field's previous content) ++ delta.
func (s *Streamer) directDelta(obj *ssa.Alloc, field int, st *ssa.Store) ([]*Piece, string) {
	if k, isK := st.Val.(*ssa.Const); isK && k.Value == nil {
		return nil, "the accumulator is reset to nil"
	}
	// read with s itself, so that a payload appended here is the same Piece as
	// wherever else the owner's streamer meets that value
	mk := &Piece{Kind: "zero", Width: 0}
	if s.directLoads == nil {
		s.directLoads = map[*ssa.Store][]*ssa.UnOp{}
	}
	oldAcc, oldStore := s.acc, s.accStore
	s.acc = &accCtx{ptr: obj, field: field, marker: mk, cur: []*Piece{mk}}
	acc := s.acc
	s.accStore = func(x *ssa.Store) bool { return acc.isField(x.Addr) }
	before := map[ssa.Value]bool{}
	for v := range s.memo {
		before[v] = true
	}
	ps := s.Stream(st.Val)
	s.acc, s.accStore = oldAcc, oldStore
	s.directLoads[st] = acc.loads
	// whatever was memoised with the marker in it must not be served again
	for v, mps := range s.memo {
		if before[v] {
			continue
		}
		for _, q := range mps {
			if q == mk {
				delete(s.memo, v)
				break
			}
		}
	}
	if len(ps) == 0 || ps[0] != mk {
		return nil, notExtending
	}
	for _, p := range ps[1:] {
		if p == mk {
			return nil, "the accumulator's previous content is appended to itself"
		}
		if p.Kind == "unknown" {
			return nil, p.Why
		}
	}
	setFrame(ps[1:], s.frame)
	return ps[1:], ""
}

// methodDelta: the bytes a call of an in-module function appends to the
// accumulator of the object it receives.
func (s *Streamer) methodDelta(call *ssa.Call, obj ssa.Value, field int, fr *Frame, depth int) ([]*Piece, string) {
	cc := call.Common()
	f := cc.StaticCallee()
	if cc.IsInvoke() || f == nil || f.Blocks == nil || s.InModule == nil || !s.InModule(f) {
		return nil, "the writer object is passed to " + calleeStr(cc) + ", which is not followed"
	}
	if depth > 2 {
		return nil, "methods of the writer object nest more than three levels"
	}
	var prm *ssa.Parameter
	for i, a := range cc.Args {
		if a == obj {
			if prm != nil || i >= len(f.Params) {
				return nil, "the writer object is passed twice to " + f.Name()
			}
			prm = f.Params[i]
		}
	}
	if prm == nil {
		return nil, "the writer object is not an argument of " + f.Name()
	}
	return s.calleeDelta(call, f, prm, field, fr, depth)
}

// calleeDelta: f is entered at call with ptrIn (a parameter or a free variable
// of f) denoting the object.
func (s *Streamer) calleeDelta(call *ssa.Call, f *ssa.Function, prm ssa.Value, field int, fr *Frame, depth int) ([]*Piece, string) {
	if len(f.Blocks) != 1 {
		return nil, "method " + f.Name() + " of the writer object is not straight-line"
	}
	if f.Signature.Results().Len() != 0 {
		// a result could carry the accumulator out; only value-less methods are replayed
		for i := 0; i < f.Signature.Results().Len(); i++ {
			if isByteSliceT(f.Signature.Results().At(i).Type()) {
				return nil, "method " + f.Name() + " returns a byte slice"
			}
		}
	}
	// the receiver may only be used to address its fields and to call further methods
	if prm.Referrers() != nil {
		for _, r := range *prm.Referrers() {
			switch x := r.(type) {
			case *ssa.DebugRef:
			case *ssa.FieldAddr:
				if why := fieldOnlyLoadedOrStored(x); why != "" {
					return nil, "in method " + f.Name() + " a field of the writer object " + why
				}
			case *ssa.Call:
			case *ssa.UnOp:
				if field != sliceCell || x.Op != token.MUL {
					return nil, "method " + f.Name() + " copies the writer object"
				}
			case *ssa.Store:
				if field != sliceCell || x.Addr != prm {
					return nil, "method " + f.Name() + " stores the writer object"
				}
			default:
				return nil, "method " + f.Name() + " uses the writer object in a way that is not followed"
			}
		}
	}
	cf := ChildFrame(call, f, fr)
	t := NewStreamer(f, s.InModule)
	t.depth, t.frame, t.caller = s.depth+1, cf, s
	mk := &Piece{Kind: "zero", Width: 0}
	t.acc = &accCtx{ptr: prm, field: field, marker: mk, cur: []*Piece{mk}}
	t.accStore = func(x *ssa.Store) bool { return t.acc.isField(x.Addr) }
	for _, in := range f.Blocks[0].Instrs {
		switch x := in.(type) {
		case *ssa.UnOp:
			// a load of the accumulator denotes its content at this point, whenever
			// the loaded value is used later
			if x.Op == token.MUL && t.acc.isField(x.X) {
				t.memo[x] = append([]*Piece(nil), t.acc.cur...)
			}
		case *ssa.Store:
			if !t.acc.isField(x.Addr) {
				continue
			}
			ps := t.Stream(x.Val)
			if len(ps) == 0 || ps[0] != mk {
				return nil, "in method " + f.Name() + " the value stored into the accumulator does not extend its previous content"
			}
			for _, p := range ps[1:] {
				if p == mk {
					return nil, "in method " + f.Name() + " the accumulator's previous content is appended to itself"
				}
				if p.Kind == "unknown" {
					return nil, p.Why
				}
			}
			setFrame(ps[1:], cf)
			t.acc.cur = ps
		case *ssa.Call:
			uses := false
			for _, a := range x.Common().Args {
				if a == prm {
					uses = true
				}
			}
			if !uses {
				continue
			}
			d, why := t.methodDelta(x, prm, field, cf, depth+1)
			if why != "" {
				return nil, why
			}
			t.acc.cur = append(append([]*Piece(nil), t.acc.cur...), d...)
		}
	}
	// runs that are the bytes of a slice parameter are the caller's own reading
	// of the argument (one Piece per value, whoever asks)
	var out []*Piece
	for _, p := range t.acc.cur[1:] {
		q, isP := p.Src.(*ssa.Parameter)
		if !isP || p.Kind != "bytes" || p.Frame != cf || q.Parent() != f {
			out = append(out, p)
			continue
		}
		arg, _, ok := cf.Bind(q)
		if !ok || readOnly(q, 0) != "" {
			return nil, "in method " + f.Name() + " the appended parameter " + q.Name() + " is not only read"
		}
		out = append(out, s.Stream(arg)...)
	}
	return out, ""
}
