package codec

// Symbolic integer forms over len(·) terms (added for C08).
//
// Sym turns an integer SSA value into a linear form whose terms are opaque SSA
// values and lengths of slice/string values. It deliberately looks *through*
// integer conversions and treats + − on machine integers as exact: it answers
// "which quantity is this meant to be", so that a descriptor offset can be
// compared with a payload position. Whether the conversions can truncate and
// whether the additions can wrap are separate obligations (E1), never decided
// here.

import (
	"go/constant"
	"go/token"
	"go/types"
	"math/big"

	"golang.org/x/tools/go/ssa"

	"manticheck/internal/lin"
)

type symTerm struct {
	v     ssa.Value
	isLen bool
	fr    *Frame
}

// symKey: a term stands for a value in one activation (the same SSA value read
// in two iterations of an unrolled loop, or in two inlined calls of a helper,
// is two different quantities).
type symKey struct {
	v  ssa.Value
	fr *Frame
}

type Sym struct {
	terms []symTerm
	val   map[symKey]lin.Term
	ln    map[symKey]lin.Term
	// LoadRep, when set, canonicalises loads (two loads of the same location
	// with no intervening store denote the same value).
	LoadRep func(*ssa.UnOp) ssa.Value
	frame   *Frame
	// cells.go: running-offset cells worked on by closures / cursor methods
	groups map[*ssa.Alloc]*cellGroup
	over   map[symKey]lin.Form // loads of a cell inside a replayed helper activation
	loops  map[symLoopKey]*Loop
}

// OfIn / LenOfIn evaluate a value that lives in an inlined helper's frame:
// its parameters denote the arguments of the call.
func (z *Sym) OfIn(v ssa.Value, fr *Frame) lin.Form {
	old := z.frame
	z.frame = fr
	defer func() { z.frame = old }()
	return z.of(v, 0)
}

func (z *Sym) LenOfIn(v ssa.Value, fr *Frame) lin.Form {
	old := z.frame
	z.frame = fr
	defer func() { z.frame = old }()
	return z.lenOf(v, 0)
}

func (z *Sym) bound(v ssa.Value) (ssa.Value, *Frame, bool) {
	p, ok := v.(*ssa.Parameter)
	if !ok || z.frame == nil {
		return nil, nil, false
	}
	return z.frame.Bind(p)
}

func NewSym() *Sym {
	return &Sym{val: map[symKey]lin.Term{}, ln: map[symKey]lin.Term{}}
}

// activation: the frame (of z.frame's chain) in which v is defined.
func (z *Sym) activation(v ssa.Value) *Frame {
	var fn *ssa.Function
	switch x := v.(type) {
	case ssa.Instruction:
		fn = x.Parent()
	case *ssa.Parameter:
		fn = x.Parent()
	default:
		return nil
	}
	b := blockOf(v)
	for f := z.frame; f != nil; f = f.Parent {
		if f.Iter != nil {
			if b != nil && f.Iter.Loop.blocks[b] {
				return f
			}
			continue
		}
		if f.Callee == fn {
			return f
		}
		break
	}
	return nil
}

func (z *Sym) term(v ssa.Value, isLen bool) lin.Form {
	m := z.val
	if isLen {
		m = z.ln
	}
	key := symKey{v, z.activation(v)}
	t, ok := m[key]
	if !ok {
		t = lin.Term(len(z.terms))
		z.terms = append(z.terms, symTerm{v, isLen, key.fr})
		m[key] = t
	}
	return lin.V(t)
}

// in evaluates f with z.frame set to fr.
func (z *Sym) in(fr *Frame, f func() lin.Form) lin.Form {
	old := z.frame
	z.frame = fr
	defer func() { z.frame = old }()
	return f()
}

// TermValue returns what a term stands for.
func (z *Sym) TermValue(t lin.Term) (ssa.Value, bool) {
	return z.terms[t].v, z.terms[t].isLen
}

// TermFrame returns the activation (inlined call / loop iteration) the term's
// value lives in; nil for the analysed function itself.
func (z *Sym) TermFrame(t lin.Term) *Frame { return z.terms[t].fr }

// Name renders a term.
func (z *Sym) Name(t lin.Term) string {
	ti := z.terms[t]
	n := ti.v.Name()
	switch x := ti.v.(type) {
	case *ssa.Phi:
		if x.Comment != "" {
			n = x.Comment
		}
	case *ssa.Parameter:
		n = x.Name()
	case *ssa.Extract:
		if c, ok := x.Tuple.(*ssa.Call); ok {
			if f := c.Common().StaticCallee(); f != nil {
				n = f.Name() + "()#" + itoa(x.Index)
			}
		}
	case *ssa.Call:
		if f := x.Common().StaticCallee(); f != nil {
			n = f.Name() + "()"
		}
	}
	if ti.isLen {
		return "len(" + n + ")"
	}
	return n
}

func itoa(i int) string { return big.NewInt(int64(i)).String() }

func (z *Sym) String(f lin.Form) string { return f.String(z.Name) }

func isIntT(t types.Type) bool {
	b, ok := t.Underlying().(*types.Basic)
	return ok && b.Info()&types.IsInteger != 0
}

// Of is the form of integer value v.
func (z *Sym) Of(v ssa.Value) lin.Form { return z.of(v, 0) }

func (z *Sym) of(v ssa.Value, d int) lin.Form {
	if d > 512 {
		return z.term(v, false)
	}
	if z.over != nil {
		if f, ok := z.over[symKey{v, z.activation(v)}]; ok {
			return f
		}
	}
	switch x := v.(type) {
	case *ssa.Phi:
		// a header φ of an unrolled loop, read in one of its iterations
		if e, ef, ok := iterPhi(x, z.frame); ok {
			return z.in(ef, func() lin.Form { return z.of(e, d+1) })
		}
	case *ssa.Const:
		if x.Value != nil && x.Value.Kind() == constant.Int {
			if b, ok := new(big.Int).SetString(x.Value.ExactString(), 10); ok {
				return lin.KB(b)
			}
		}
	case *ssa.Convert:
		if isIntT(x.X.Type()) && isIntT(x.Type()) {
			return z.of(x.X, d+1)
		}
	case *ssa.ChangeType:
		return z.of(x.X, d+1)
	case *ssa.BinOp:
		switch x.Op {
		case token.ADD:
			if isIntT(x.Type()) {
				return z.of(x.X, d+1).Add(z.of(x.Y, d+1))
			}
		case token.SUB:
			return z.of(x.X, d+1).Sub(z.of(x.Y, d+1))
		case token.MUL:
			a, b := z.of(x.X, d+1), z.of(x.Y, d+1)
			if k, ok := a.ConstVal(); ok {
				return b.Scale(k)
			}
			if k, ok := b.ConstVal(); ok {
				return a.Scale(k)
			}
		case token.SHL:
			if k, ok := z.of(x.Y, d+1).ConstVal(); ok && k.IsInt64() && k.Int64() >= 0 && k.Int64() < 62 {
				return z.of(x.X, d+1).Scale(new(big.Int).Lsh(big.NewInt(1), uint(k.Int64())))
			}
		}
	case *ssa.Call:
		if b, ok := x.Call.Value.(*ssa.Builtin); ok && b.Name() == "len" {
			return z.LenOf(x.Call.Args[0])
		}
		// a running-offset helper: place(b) returning the cell's value (cells.go)
		if f, ok := z.cellCall(x); ok {
			return f
		}
	case *ssa.Field:
		if e, ef, ok := fieldLoad(x, z.frame); ok {
			return z.in(ef, func() lin.Form { return z.of(e, d+1) })
		}
	case *ssa.FreeVar:
		if b, bf, ok := freeVarBinding(x, z.frame); ok {
			return z.in(bf, func() lin.Form { return z.of(b, d+1) })
		}
	case *ssa.UnOp:
		if x.Op == token.MUL {
			if f, ok := z.cellLoad(x); ok {
				return f
			}
			// a field of a local struct value written once (cells.go)
			if e, ef, ok := fieldLoad(x, z.frame); ok {
				return z.in(ef, func() lin.Form { return z.of(e, d+1) })
			}
			if e, ef, ok := cellLoadValue(x, z.frame); ok {
				return z.in(ef, func() lin.Form { return z.of(e, d+1) })
			}
			// an element of an integer table filled by a counted loop (cells.go)
			if f, ok := z.intTableLoad(x); ok {
				return f
			}
		}
		if x.Op == token.MUL && z.LoadRep != nil {
			if rep := z.LoadRep(x); rep != ssa.Value(x) {
				return z.of(rep, d+1)
			}
		}
	}
	if arg, pf, ok := z.bound(v); ok {
		old := z.frame
		z.frame = pf
		r := z.of(arg, d+1)
		z.frame = old
		return r
	}
	return z.term(v, false)
}

// LenOf is the form of len(v).
func (z *Sym) LenOf(v ssa.Value) lin.Form { return z.lenOf(v, 0) }

func (z *Sym) lenOf(v ssa.Value, d int) lin.Form {
	if d > 512 {
		return z.term(v, true)
	}
	if _, _, n, ok := fixedView(v); ok {
		return lin.K(n)
	}
	switch x := v.(type) {
	case *ssa.Phi:
		if e, ef, ok := iterPhi(x, z.frame); ok {
			return z.in(ef, func() lin.Form { return z.lenOf(e, d+1) })
		}
	case *ssa.Const:
		if x.Value == nil {
			return lin.K(0)
		}
		if x.Value.Kind() == constant.String {
			return lin.K(int64(len(constant.StringVal(x.Value))))
		}
	case *ssa.ChangeType:
		return z.lenOf(x.X, d+1)
	case *ssa.Convert:
		st, dt := x.X.Type().Underlying(), x.Type().Underlying()
		if byteSeq(st) && byteSeq(dt) {
			return z.lenOf(x.X, d+1)
		}
	case *ssa.MakeSlice:
		return z.of(x.Len, d+1)
	case *ssa.Slice:
		if arr, ok := derefT(x.X.Type()).Underlying().(*types.Array); ok {
			lo, ok1 := optConst(x.Low, 0)
			hi, ok2 := optConst(x.High, arr.Len())
			if ok1 && ok2 {
				return lin.K(hi - lo)
			}
		}
		lo := lin.K(0)
		if x.Low != nil {
			lo = z.of(x.Low, d+1)
		}
		if x.High != nil {
			return z.of(x.High, d+1).Sub(lo)
		}
		if _, isSl := x.X.Type().Underlying().(*types.Slice); isSl {
			return z.lenOf(x.X, d+1).Sub(lo)
		}
	case *ssa.Index:
		if el, ef, ok := elemLoad(x, z.frame); ok {
			return z.in(ef, func() lin.Form { return z.lenOf(el, d+1) })
		}
	case *ssa.Field:
		if e, ef, ok := fieldLoad(x, z.frame); ok {
			return z.in(ef, func() lin.Form { return z.lenOf(e, d+1) })
		}
	case *ssa.FreeVar:
		if b, bf, ok := freeVarBinding(x, z.frame); ok {
			return z.in(bf, func() lin.Form { return z.lenOf(b, d+1) })
		}
	case *ssa.UnOp:
		if x.Op == token.MUL {
			// element of a local constant table
			if el, ef, ok := elemLoad(x, z.frame); ok {
				return z.in(ef, func() lin.Form { return z.lenOf(el, d+1) })
			}
			if e, ef, ok := fieldLoad(x, z.frame); ok {
				return z.in(ef, func() lin.Form { return z.lenOf(e, d+1) })
			}
			if e, ef, ok := cellLoadValue(x, z.frame); ok {
				return z.in(ef, func() lin.Form { return z.lenOf(e, d+1) })
			}
		}
		if x.Op == token.MUL && z.LoadRep != nil {
			if rep := z.LoadRep(x); rep != ssa.Value(x) {
				return z.lenOf(rep, d+1)
			}
		}
	}
	if arg, pf, ok := z.bound(v); ok {
		old := z.frame
		z.frame = pf
		r := z.lenOf(arg, d+1)
		z.frame = old
		return r
	}
	return z.term(v, true)
}

func byteSeq(t types.Type) bool {
	switch u := t.(type) {
	case *types.Basic:
		return u.Info()&types.IsString != 0
	case *types.Slice:
		return isByte(u.Elem())
	}
	return false
}

// WidthOf is the symbolic width of a piece.
func (z *Sym) WidthOf(p *Piece) (lin.Form, bool) {
	if p.Kind == "unknown" {
		return lin.K(0), false
	}
	if p.Width >= 0 {
		return lin.K(int64(p.Width)), true
	}
	if p.Kind == "bytes" && p.Src != nil {
		return z.LenOfIn(p.Src, p.Frame), true
	}
	return lin.K(0), false
}

// symFresh is a placeholder value for terms that do not stand for an SSA value
// (an iteration counter).
type symFresh struct {
	ssa.Value
	name string
}

func (f *symFresh) Name() string { return f.name }

// Fresh returns a new term with the given display name.
func (z *Sym) Fresh(name string) lin.Form { return z.term(&symFresh{name: name}, false) }

// Subst replaces term t of f by repl.
func Subst(f lin.Form, t lin.Term, repl lin.Form) lin.Form {
	k, ok := f.Coef[t]
	if !ok {
		return f
	}
	g := f.Clone()
	delete(g.Coef, t)
	return g.Add(repl.Scale(k))
}
