package codec

import (
	"fmt"
	"go/token"
	"go/types"
	"strings"

	"golang.org/x/tools/go/ssa"

	"manticheck/internal/prove"
)

// Seq reads off the layout of the byte sequence held by value v.
func (e *Ext) Seq(v ssa.Value) []Atom {
	return mergeLanes(e.seq0(v))
}

func (e *Ext) seq0(v ssa.Value) []Atom {
	e.depth++
	defer func() { e.depth-- }()
	if e.depth > 200 {
		return []Atom{{Kind: "unknown", Expr: "too deep"}}
	}
	switch x := v.(type) {
	case *ssa.Const:
		if x.Value == nil {
			return nil
		}
		if s, ok := constStr(x); ok {
			return []Atom{{Kind: "const", Width: len(s), Expr: fmt.Sprintf("%q", s)}}
		}
	case *ssa.Call:
		return e.seqCall(x)
	case *ssa.Slice:
		return e.seqSlice(x)
	case *ssa.MakeSlice:
		return e.seqMake(x)
	case *ssa.Convert:
		// []byte(string) / string([]byte) / named byte-slice conversions
		return e.Seq(x.X)
	case *ssa.ChangeType:
		return e.Seq(x.X)
	case *ssa.UnOp:
		if x.Op == token.MUL {
			if p, ok := e.FieldPath(x.X); ok {
				return []Atom{{Kind: "bytes", Field: p, Pos: x.Pos(), Type: types.TypeString(x.Type(), shortQ)}}
			}
			rep := e.FI.LoadRep(x)
			if rep != ssa.Value(x) {
				return e.Seq(rep)
			}
			// a local cell holding the buffer (captured variable)
			return []Atom{{Kind: "unknown", Expr: "load " + e.exprString(x, 0), Pos: x.Pos()}}
		}
	case *ssa.Extract:
		if call, ok := x.Tuple.(*ssa.Call); ok && x.Index == 0 {
			if prove.StaticName(call.Common()) == "encoding/binary.Append" && len(call.Common().Args) == 3 {
				// binary.Append(buf, order, data): buf followed by the fixed-size image of data
				if img := e.binaryImage(call.Common().Args[2], call.Common().Args[1], call.Pos()); img != nil {
					return append(append([]Atom(nil), e.Seq(call.Common().Args[0])...), img...)
				}
			}
			return e.seqProducer(call, x.Pos())
		}
	case *ssa.Phi:
		return e.seqPhi(x)
	case *ssa.Parameter:
		if a, ok := e.bind[x]; ok && e.parent != nil {
			return e.parent.Seq(a)
		}
		return []Atom{{Kind: "bytes", Expr: "param " + x.Name(), Pos: x.Pos()}}
	}
	return []Atom{{Kind: "unknown", Expr: e.exprString(v, 0), Pos: v.Pos()}}
}

func shortQ(p *types.Package) string { return p.Name() }

// seqProducer: bytes returned by a call (X.Marshal(), EncodeFoo(x), …).
func (e *Ext) seqProducer(call *ssa.Call, pos token.Pos) []Atom {
	cc := call.Common()
	name := prove.StaticName(cc)
	if cc.IsInvoke() {
		name = cc.Method.Name()
	}
	// a method invoked on an interface parameter of an inlined helper: the
	// caller passed &recv.Field (a MakeInterface of a field address), so the bytes
	// are that field's own encoding
	if cc.IsInvoke() && e.parent != nil {
		if q, isP := cc.Value.(*ssa.Parameter); isP {
			if arg, bound := e.bind[q]; bound {
				if mi, isMI := arg.(*ssa.MakeInterface); isMI {
					a := Atom{Kind: "nested", Type: types.TypeString(deref(mi.X.Type()), shortQ) + "." + cc.Method.Name(), Pos: pos}
					if e.Fn.Prog != nil {
						a.Callee = e.Fn.Prog.LookupMethod(mi.X.Type(), cc.Method.Pkg(), cc.Method.Name())
						if a.Callee != nil && a.Callee.Signature.Recv() != nil && a.Callee.Synthetic == "" {
							a.Type = types.TypeString(deref(a.Callee.Signature.Recv().Type()), shortQ) + "." + cc.Method.Name()
						}
					}
					if p, ok := e.parent.FieldPath(mi.X); ok {
						a.Field = p
						return []Atom{a}
					}
					if p, ok := e.parent.basePath(mi.X); ok && p != "" {
						a.Field = p
						return []Atom{a}
					}
				}
			}
		}
	}
	short := name
	if f := cc.StaticCallee(); f != nil {
		short = f.Name()
		if f.Signature.Recv() != nil {
			short = types.TypeString(deref(f.Signature.Recv().Type()), shortQ) + "." + f.Name()
		}
	}
	// a method of the receiver's own type called on the receiver itself, with no
	// other argument, returning the bytes (p.GetBytesStream() inside p.Marshal()):
	// the same object's fields are emitted there — read that method in place
	if f := cc.StaticCallee(); f != nil && !cc.IsInvoke() && e.Recv != nil && f != e.Fn && f.Blocks != nil && e.inlineDepth < 3 &&
		f.Signature.Recv() != nil && len(cc.Args) == 1 && cc.Args[0] == ssa.Value(e.Recv) &&
		types.Identical(f.Signature.Recv().Type(), e.Fn.Signature.Recv().Type()) {
		if sub := e.seqSameReceiver(f); sub != nil {
			return sub
		}
	}
	// a plain in-module function fed integers / byte strings by this encoder
	// (marshalRange(uint16(c.FID), uint32(c.Count), …)): read it with its
	// parameters bound to the arguments
	if f := cc.StaticCallee(); f != nil && !cc.IsInvoke() && f.Blocks != nil && f.Signature.Recv() == nil && e.inlineDepth < 3 &&
		f.Pkg != nil && e.Fn.Pkg != nil && strings.HasPrefix(f.Pkg.Pkg.Path(), modulePrefix(e.Fn.Pkg.Pkg.Path())) && plainParams(f) {
		if sub := e.seqInlined(f, cc.Args); sub != nil {
			return sub
		}
	}
	a := Atom{Kind: "nested", Type: short, Pos: pos, Callee: cc.StaticCallee()}
	// whose bytes: a receiver field, or the first argument's source
	var subject ssa.Value
	if cc.IsInvoke() {
		subject = cc.Value
	} else if len(cc.Args) > 0 {
		subject = cc.Args[0]
	}
	if subject != nil {
		if p, ok := e.FieldPath(subject); ok {
			a.Field = p
		} else if p, ok := e.basePath(subject); ok && p != "" {
			a.Field = p
		} else if p, ok := e.localCopyOf(subject); ok {
			a.Field = p
		} else {
			f, ex, _ := e.ValueSrc(subject)
			a.Field, a.Expr = f, ex
		}
	}
	return []Atom{a}
}

func (e *Ext) seqCall(x *ssa.Call) []Atom {
	cc := x.Common()
	if b, ok := cc.Value.(*ssa.Builtin); ok {
		if b.Name() == "append" {
			out := append([]Atom(nil), e.Seq(cc.Args[0])...)
			if len(cc.Args) > 1 {
				if sc, ok := e.seqScratchAt(cc.Args[1], x); ok {
					out = append(out, sc...)
				} else {
					out = append(out, e.Seq(cc.Args[1])...)
				}
			}
			return out
		}
		return []Atom{{Kind: "unknown", Expr: b.Name(), Pos: x.Pos()}}
	}
	if kind, w, order := binCall(x); kind == "append" {
		out := append([]Atom(nil), e.Seq(cc.Args[1])...)
		return append(out, e.fixedAtoms(cc.Args[2], w, order, x.Pos())...)
	}
	switch prove.StaticName(cc) {
	case "(*bytes.Buffer).Bytes":
		return e.seqBuffer(cc.Args[0], x)
	case "bytes.Repeat", "strings.Repeat":
		return []Atom{{Kind: "pad", Expr: e.exprString(x, 0), Pos: x.Pos()}}
	}
	return e.seqProducer(x, x.Pos())
}

func tstr(t types.Type) string {
	if t == nil {
		return ""
	}
	return types.TypeString(t, shortQ)
}

// seqSlice: a slice expression over an array literal (varargs / slice literal)
// or a sub-slice of another sequence.
func (e *Ext) seqSlice(x *ssa.Slice) []Atom {
	// block := T{…}; block[:] — the literal is built in a temporary and copied
	// whole into the variable: read the temporary
	if al, ok := x.X.(*ssa.Alloc); ok && al.Referrers() != nil {
		if _, isArr := deref(al.Type()).Underlying().(*types.Array); isArr {
			var tmp *ssa.Alloc
			nStore, elemWrites := 0, false
			for _, r := range *al.Referrers() {
				switch y := r.(type) {
				case *ssa.Store:
					if y.Addr == ssa.Value(al) {
						nStore++
						if ld, isLd := y.Val.(*ssa.UnOp); isLd && ld.Op == token.MUL {
							if t, isA := ld.X.(*ssa.Alloc); isA {
								tmp = t
							}
						}
					}
				case *ssa.IndexAddr:
					elemWrites = true
				}
			}
			if nStore == 1 && tmp != nil && !elemWrites && len(*al.Referrers()) == 2 {
				y := *x
				_ = y
				return e.seqArrayLiteral(tmp, x)
			}
		}
	}
	if al, ok := x.X.(*ssa.Alloc); ok && al.Comment == "makeslice" && x.Low == nil {
		if arr, ok := deref(al.Type()).Underlying().(*types.Array); ok {
			if x.High == nil {
				return e.seqFixedBuf(x, arr.Len())
			}
			if h, isK := constI(x.High); isK && h <= arr.Len() {
				if h == 0 {
					return nil // make([]byte, 0, N): an empty sequence extended by appends
				}
				return e.seqFixedBuf(x, h)
			}
		}
	}
	// a local byte array (var buf [N]byte / [N]byte{}) written through its slices and returned as buf[:]
	if al, ok := x.X.(*ssa.Alloc); ok && al.Comment != "makeslice" && al.Comment != "varargs" && al.Comment != "slicelit" && x.Low == nil && x.High == nil {
		if arr, ok := deref(al.Type()).Underlying().(*types.Array); ok && elemWidth(arr.Elem()) == 1 {
			hasElemStore := false
			for _, r := range *al.Referrers() {
				if _, isIA := r.(*ssa.IndexAddr); isIA {
					hasElemStore = true
				}
			}
			if !hasElemStore || len(*al.Referrers()) > 1 {
				return e.seqFixedBuf(al, arr.Len())
			}
		}
	}
	if al, ok := x.X.(*ssa.Alloc); ok {
		if arr, ok := deref(al.Type()).Underlying().(*types.Array); ok && x.Low == nil && x.High == nil {
			n := int(arr.Len())
			if al.Comment == "makeslice" {
				// make([]T, const): go/ssa allocates the array and slices it; writes go through the slice value
				return e.seqFixedBuf(x, int64(n))
			}
			elems := make([]Atom, n)
			for i := range elems {
				elems[i] = Atom{Kind: "const", Width: 1, Expr: "0"}
			}
			for _, r := range *al.Referrers() {
				ia, ok := r.(*ssa.IndexAddr)
				if !ok {
					continue
				}
				idx, isK := constI(ia.Index)
				if !isK || idx < 0 || int(idx) >= n {
					return []Atom{{Kind: "unknown", Expr: "array literal with variable index", Pos: x.Pos()}}
				}
				for _, rr := range *ia.Referrers() {
					if st, ok := rr.(*ssa.Store); ok && st.Addr == ssa.Value(ia) {
						elems[idx] = e.byteAtom(st.Val, st.Pos())
					}
				}
			}
			return elems
		}
	}
	// c.F[:] / c.F[a:b] over an array field
	if p, ok := e.FieldPath(x.X); ok {
		if arr, isArr := deref(x.X.Type()).Underlying().(*types.Array); isArr {
			lo, hi := int64(0), arr.Len()
			okc := true
			if x.Low != nil {
				lo, okc = constI(x.Low)
			}
			if x.High != nil && okc {
				hi, okc = constI(x.High)
			}
			if okc {
				a := Atom{Kind: "bytes", Field: p, Width: int(hi-lo) * elemWidth(arr.Elem()), Pos: x.Pos(), Type: tstr(arr)}
				if lo != 0 || hi != arr.Len() {
					a.Field = fmt.Sprintf("%s[%d:%d]", p, lo, hi)
				}
				return []Atom{a}
			}
		}
	}
	base := e.Seq(x.X)
	if x.Low == nil && x.High == nil {
		return base
	}
	// sub-slice at constant atom boundaries
	lo, okLo := int64(0), true
	if x.Low != nil {
		lo, okLo = constI(x.Low)
	}
	hi, okHi := int64(-1), true
	if x.High != nil {
		hi, okHi = constI(x.High)
	}
	if okLo && okHi {
		var out []Atom
		pos := int64(0)
		for _, a := range base {
			if a.Width == 0 {
				if hi < 0 && pos >= lo {
					out = append(out, a)
					continue
				}
				return []Atom{{Kind: "unknown", Expr: "sub-slice across a variable-width atom", Pos: x.Pos()}}
			}
			end := pos + int64(a.Width)
			if pos >= lo && (hi < 0 || end <= hi) {
				out = append(out, a)
			} else if end > lo && (hi < 0 || pos < hi) {
				return []Atom{{Kind: "unknown", Expr: "sub-slice splits an atom", Pos: x.Pos()}}
			}
			pos = end
		}
		return out
	}
	return []Atom{{Kind: "unknown", Expr: "sub-slice " + e.exprString(x, 0), Pos: x.Pos()}}
}

// byteAtom classifies one byte value placed on the wire.
func (e *Ext) byteAtom(v ssa.Value, pos token.Pos) Atom {
	if src, lane, n, ok := byteLane(v); ok {
		f, ex, ft := e.ValueSrc(src)
		// go/ssa reloads a field at every use: loads with no possible write in between are one value
		if ld, isLd := src.(*ssa.UnOp); isLd && ld.Op == token.MUL {
			src = e.FI.LoadRep(ld)
		}
		if !(f == "" && len(ex) > 6 && ex[:6] == "const ") {
			return Atom{Kind: "fixed", Width: 1, Field: f, Expr: ex, Type: tstr(ft), Pos: pos, LaneOf: src, Lane: lane, SrcBytes: n}
		}
	}
	f, ex, ft := e.ValueSrc(v)
	if f == "" && len(ex) > 6 && ex[:6] == "const " {
		return Atom{Kind: "const", Width: 1, Expr: ex[6:], Pos: pos}
	}
	return Atom{Kind: "fixed", Width: 1, Field: f, Expr: ex, Type: tstr(ft), Pos: pos}
}

// seqMake: a make([]byte, N) filled by fixed-offset writes.
func (e *Ext) seqMake(m *ssa.MakeSlice) []Atom {
	n, isK := constI(m.Len)
	if isK && n == 0 {
		return nil // make([]byte, 0, cap): an empty sequence extended by appends
	}
	if !isK {
		return []Atom{{Kind: "unknown", Expr: "make with variable length " + e.exprString(m.Len, 0), Pos: m.Pos()}}
	}
	return e.seqFixedBuf(m, n)
}

// seqFixedBuf: layout of a fixed-size buffer value from the writes made through it.
func (e *Ext) seqFixedBuf(m ssa.Value, n int64) []Atom {
	var atoms []Atom
	var offs []int64
	bad := ""
	var visit func(buf ssa.Value, base, win int64)
	visit = func(buf ssa.Value, base, win int64) {
		refs := buf.Referrers()
		if refs == nil {
			return
		}
		for _, r := range *refs {
			switch y := r.(type) {
			case *ssa.Call:
				cc := y.Common()
				if kind, w, order := binCall(y); kind == "put" && cc.Args[1] == buf {
					run := base
					for _, fa := range e.fixedAtoms(cc.Args[2], w, order, y.Pos()) {
						atoms = append(atoms, fa)
						offs = append(offs, run)
						run += int64(fa.Width)
					}
					continue
				}
				if b, ok := cc.Value.(*ssa.Builtin); ok {
					switch b.Name() {
					case "copy":
						if cc.Args[0] == buf {
							src := e.Seq(cc.Args[1])
							if len(src) == 1 {
								a := src[0]
								a.Pos = y.Pos()
								if a.Width == 0 && win > 0 {
									// copy into a constant window buf[lo:hi]: at most hi-lo bytes land there
									a.Width = int(win)
								}
								atoms = append(atoms, a)
								offs = append(offs, base)
							} else {
								bad = "copy of a composite sequence into a fixed buffer"
							}
						}
						continue
					case "append", "len", "cap":
						continue
					}
				}
				// any other call that receives the buffer may write it
				for _, a := range cc.Args {
					if a == buf {
						bad = "buffer passed to " + prove.StaticName(cc)
					}
				}
			case *ssa.Slice:
				lo := int64(0)
				if y.Low != nil {
					k, ok := constI(y.Low)
					if !ok {
						bad = "write through a variable-offset sub-slice"
						continue
					}
					lo = k
				}
				w := int64(0)
				if y.High != nil {
					if h, ok := constI(y.High); ok && h >= lo {
						w = h - lo
					}
				} else if win > 0 {
					w = win - lo
				}
				visit(y, base+lo, w)
			case *ssa.IndexAddr:
				idx, ok := constI(y.Index)
				if !ok {
					// loop-written buffer
					for _, rr := range *y.Referrers() {
						if _, isSt := rr.(*ssa.Store); isSt {
							bad = "variable-index store into a fixed buffer"
						}
					}
					continue
				}
				for _, rr := range *y.Referrers() {
					if st, ok := rr.(*ssa.Store); ok && st.Addr == ssa.Value(y) {
						atoms = append(atoms, e.byteAtom(st.Val, st.Pos()))
						offs = append(offs, base+idx)
					}
				}
			}
		}
	}
	visit(m, 0, n)
	if bad != "" {
		return []Atom{{Kind: "unknown", Expr: bad, Pos: m.Pos()}}
	}
	sortAtomsByOff(atoms, offs)
	// gaps are zero padding; overlaps are an error
	var out []Atom
	pos := int64(0)
	for i, a := range atoms {
		if offs[i] < pos {
			return []Atom{{Kind: "unknown", Expr: fmt.Sprintf("overlapping writes at offset %d", offs[i]), Pos: a.Pos}}
		}
		if offs[i] > pos {
			out = append(out, Atom{Kind: "pad", Width: int(offs[i] - pos)})
		}
		w := a.Width
		if w == 0 {
			return []Atom{{Kind: "unknown", Expr: "variable-width copy into a fixed buffer", Pos: a.Pos}}
		}
		out = append(out, a)
		pos = offs[i] + int64(w)
	}
	if pos < n {
		out = append(out, Atom{Kind: "pad", Width: int(n - pos)})
	}
	if pos > n {
		return []Atom{{Kind: "unknown", Expr: "writes beyond the made length", Pos: m.Pos()}}
	}
	return mergeByteLanes(out)
}

// seqBuffer: bytes accumulated in a bytes.Buffer by Write* calls, in
// dominance order before `at`.
func (e *Ext) seqBuffer(buf ssa.Value, at ssa.Instruction) []Atom {
	refs := buf.Referrers()
	if refs == nil {
		return []Atom{{Kind: "unknown", Expr: "bytes.Buffer of unknown origin"}}
	}
	type w struct {
		in    ssa.Instruction
		atoms []Atom
	}
	var ws []w
	for _, r := range *refs {
		call, ok := r.(*ssa.Call)
		if !ok {
			continue
		}
		switch prove.StaticName(call.Common()) {
		case "(*bytes.Buffer).Write", "(*bytes.Buffer).WriteString":
			ws = append(ws, w{call, e.Seq(call.Common().Args[1])})
		case "(*bytes.Buffer).WriteByte":
			ws = append(ws, w{call, []Atom{e.byteAtom(call.Common().Args[1], call.Pos())}})
		case "encoding/binary.Write":
			ws = append(ws, w{call, []Atom{{Kind: "unknown", Expr: "binary.Write", Pos: call.Pos()}}})
		}
	}
	// order by position in the dominator pre-order / block index
	idx := map[ssa.Instruction]int{}
	n := 0
	for _, b := range e.Fn.DomPreorder() {
		for _, in := range b.Instrs {
			idx[in] = n
			n++
		}
	}
	for i := 0; i < len(ws); i++ {
		for j := i + 1; j < len(ws); j++ {
			if idx[ws[j].in] < idx[ws[i].in] {
				ws[i], ws[j] = ws[j], ws[i]
			}
		}
	}
	var out []Atom
	for _, x := range ws {
		cond := !x.in.Block().Dominates(at.Block())
		for _, a := range x.atoms {
			a.Cond = a.Cond || cond
			out = append(out, a)
		}
	}
	return out
}

// seqPhi: loop-carried accumulation (repeat) or a join of alternatives.
func (e *Ext) seqPhi(p *ssa.Phi) []Atom {
	pb := p.Block()
	var entries, backs []int
	for i, pr := range pb.Preds {
		if pb.Dominates(pr) {
			backs = append(backs, i)
		} else {
			entries = append(entries, i)
		}
	}
	if len(backs) > 0 && len(entries) == 1 {
		pre := e.Seq(p.Edges[entries[0]])
		over := e.rangedOver(pb)
		var body []Atom
		for _, i := range backs {
			b := e.seqMinusPrefix(p.Edges[i], p)
			if b == nil {
				return append(pre, Atom{Kind: "unknown", Expr: "loop does not extend the buffer by appending", Pos: p.Pos()})
			}
			if len(backs) > 1 {
				body = append(body, Atom{Kind: "cond", Body: b})
			} else {
				body = b
			}
		}
		return append(pre, Atom{Kind: "repeat", Over: over, Body: body, Pos: p.Pos()})
	}
	if len(backs) == 0 {
		// alternatives: common prefix, then a cond atom
		var alts [][]Atom
		for _, ed := range p.Edges {
			alts = append(alts, e.Seq(ed))
		}
		n := 0
		for {
			ok := true
			for _, a := range alts {
				if n >= len(a) || n >= len(alts[0]) || a[n].String() != alts[0][n].String() {
					ok = false
				}
			}
			if !ok {
				break
			}
			n++
		}
		out := append([]Atom(nil), alts[0][:n]...)
		allEmpty := true
		var body []Atom
		for _, a := range alts {
			rest := a[n:]
			if len(rest) > 0 {
				allEmpty = false
			}
			for _, r := range rest {
				r.Cond = true
				body = append(body, r)
			}
		}
		if !allEmpty {
			out = append(out, body...)
		}
		return out
	}
	return []Atom{{Kind: "unknown", Expr: "irreducible φ", Pos: p.Pos()}}
}

// seqMinusPrefix returns what v appends after φ p, or nil if v is not an
// extension of p.
func (e *Ext) seqMinusPrefix(v ssa.Value, p *ssa.Phi) []Atom {
	if v == ssa.Value(p) {
		return []Atom{}
	}
	switch x := v.(type) {
	case *ssa.Call:
		if b, ok := x.Call.Value.(*ssa.Builtin); ok && b.Name() == "append" {
			pre := e.seqMinusPrefix(x.Call.Args[0], p)
			if pre == nil {
				return nil
			}
			if len(x.Call.Args) > 1 {
				return append(pre, e.Seq(x.Call.Args[1])...)
			}
			return pre
		}
		if kind, w, order := binCall(x); kind == "append" {
			pre := e.seqMinusPrefix(x.Call.Args[1], p)
			if pre == nil {
				return nil
			}
			return append(pre, e.fixedAtoms(x.Call.Args[2], w, order, x.Pos())...)
		}
	case *ssa.Phi:
		// inner join / inner loop inside the outer loop body
		if x != p {
			pb := x.Block()
			isLoop := false
			for _, pr := range pb.Preds {
				if pb.Dominates(pr) {
					isLoop = true
				}
			}
			if !isLoop {
				var body []Atom
				for _, ed := range x.Edges {
					b := e.seqMinusPrefix(ed, p)
					if b == nil {
						return nil
					}
					for _, a := range b {
						a.Cond = true
						body = append(body, a)
					}
				}
				return body
			}
			// nested loop
			var entry ssa.Value
			var back []ssa.Value
			for i, pr := range pb.Preds {
				if pb.Dominates(pr) {
					back = append(back, x.Edges[i])
				} else {
					entry = x.Edges[i]
				}
			}
			if entry == nil {
				return nil
			}
			pre := e.seqMinusPrefix(entry, p)
			if pre == nil {
				return nil
			}
			var body []Atom
			for _, b := range back {
				bb := e.seqMinusPrefix(b, x)
				if bb == nil {
					return nil
				}
				body = append(body, bb...)
			}
			return append(pre, Atom{Kind: "repeat", Over: e.rangedOver(pb), Body: body, Pos: x.Pos()})
		}
	}
	return nil
}

// rangedOver names what a loop iterates over: the field ranged by a
// rangeindex loop, or the bound of a counted loop.
func (e *Ext) rangedOver(hb *ssa.BasicBlock) string {
	// the loop condition is the If at the end of the header
	iff, ok := hb.Instrs[len(hb.Instrs)-1].(*ssa.If)
	if !ok {
		return "?"
	}
	cmp, ok := iff.Cond.(*ssa.BinOp)
	if !ok {
		return "?"
	}
	for _, side := range []ssa.Value{cmp.Y, cmp.X} {
		f, ex, _ := e.ValueSrc(side)
		if f != "" {
			return f
		}
		if len(ex) > 4 && ex[:4] == "len(" {
			return ex[4 : len(ex)-1]
		}
	}
	return e.exprString(cmp.Y, 0)
}

// mergeByteLanes merges consecutive single-byte atoms that are manual shifts
// of one field into one fixed atom with the byte order they imply.
func mergeByteLanes(as []Atom) []Atom {
	return mergeLanes(as)
}

func elemWidth(t types.Type) int {
	if b, ok := t.Underlying().(*types.Basic); ok {
		switch b.Kind() {
		case types.Uint8, types.Int8:
			return 1
		case types.Uint16, types.Int16:
			return 2
		case types.Uint32, types.Int32:
			return 4
		case types.Uint64, types.Int64:
			return 8
		}
	}
	return 1
}

// localCopyOf: a local variable that holds a copy of a field element (the
// iteration variable of `for _, x := range c.F`): its single store comes from
// a load of c.F[i].
func (e *Ext) localCopyOf(v ssa.Value) (string, bool) {
	al, ok := v.(*ssa.Alloc)
	if !ok || al.Referrers() == nil {
		return "", false
	}
	var src ssa.Value
	n := 0
	for _, r := range *al.Referrers() {
		if st, ok := r.(*ssa.Store); ok && st.Addr == ssa.Value(al) {
			n++
			src = st.Val
		}
	}
	if n != 1 {
		return "", false
	}
	f, _, _ := e.ValueSrc(src)
	if f != "" {
		return f, true
	}
	return "", false
}

// seqSameReceiver: the byte sequence a method of the same receiver returns (one
// success return whose first result is the bytes); nil when it has another shape.
func (e *Ext) seqSameReceiver(f *ssa.Function) []Atom {
	res := f.Signature.Results()
	if res.Len() < 1 || res.Len() > 2 || !isByteSlice(res.At(0).Type()) {
		return nil
	}
	var rets []*ssa.Return
	for _, b := range f.Blocks {
		if r, ok := b.Instrs[len(b.Instrs)-1].(*ssa.Return); ok {
			if res.Len() == 2 {
				if k, isK := r.Results[1].(*ssa.Const); !isK || k.Value != nil {
					continue // error return
				}
			}
			rets = append(rets, r)
		}
	}
	if len(rets) != 1 {
		return nil
	}
	sub := NewExt(e.W, f)
	sub.inlineDepth = e.inlineDepth + 1
	if sub.Incomplete() != "" {
		return nil
	}
	out := sub.Seq(rets[0].Results[0])
	for _, a := range out {
		if a.Kind == "unknown" {
			return nil
		}
	}
	return out
}

func isByteSlice(t types.Type) bool {
	sl, ok := t.Underlying().(*types.Slice)
	if !ok {
		return false
	}
	b, ok := sl.Elem().Underlying().(*types.Basic)
	return ok && b.Kind() == types.Uint8
}

// byteLane: v is one byte of a wider unsigned integer: uint8(x >> 8k),
// uint8(x>>8k & 0xFF), uint8(x & 0xFF), uint8(x). Returns x, k and the width of
// x in bytes.
func byteLane(v ssa.Value) (src ssa.Value, lane, srcBytes int, ok bool) {
	cv, isC := v.(*ssa.Convert)
	if !isC || elemWidth(cv.Type()) != 1 {
		// a byte-typed expression without conversion: (x >> 8k) on a byte is lane 0 of a byte — nothing to merge
		return nil, 0, 0, false
	}
	x := cv.X
	w := elemWidth(x.Type())
	if w < 2 || w > 8 {
		return nil, 0, 0, false
	}
	if bt, okb := x.Type().Underlying().(*types.Basic); !okb || bt.Info()&types.IsInteger == 0 {
		return nil, 0, 0, false
	}
	// strip & 0xFF (or a wider all-ones-in-the-low-byte mask)
	if bo, isB := x.(*ssa.BinOp); isB && bo.Op == token.AND {
		if k, isK := constI(bo.Y); isK && k&0xFF == 0xFF {
			x = bo.X
		} else if k, isK := constI(bo.X); isK && k&0xFF == 0xFF {
			x = bo.Y
		}
	}
	if bo, isB := x.(*ssa.BinOp); isB && bo.Op == token.SHR {
		if k, isK := constI(bo.Y); isK && k%8 == 0 && k >= 0 && int(k/8) < w {
			// intermediate conversions between integer types of the same or greater width keep the lanes
			return stripWiden(bo.X), int(k / 8), widthOf(stripWiden(bo.X), w), true
		}
		return nil, 0, 0, false
	}
	return stripWiden(x), 0, widthOf(stripWiden(x), w), true
}

// stripWiden removes widening integer conversions (uint32(u16)): lanes of the
// narrower value are lanes of the wider one.
func stripWiden(v ssa.Value) ssa.Value {
	for {
		cv, ok := v.(*ssa.Convert)
		if !ok {
			return v
		}
		from, to := elemWidth(cv.X.Type()), elemWidth(cv.Type())
		fb, okf := cv.X.Type().Underlying().(*types.Basic)
		if !okf || fb.Info()&types.IsInteger == 0 || from == 0 || from > to {
			return v
		}
		if fb.Info()&types.IsUnsigned == 0 && from < to {
			return v // sign extension changes the upper lanes
		}
		v = cv.X
	}
}

func widthOf(v ssa.Value, dflt int) int {
	if w := elemWidth(v.Type()); w > 0 {
		return w
	}
	return dflt
}

// mergeLanes replaces a run of single-byte atoms that are ALL the lanes of one
// integer, in ascending (LE) or descending (BE) order, by one fixed atom.
func mergeLanes(as []Atom) []Atom {
	var out []Atom
	for i := 0; i < len(as); {
		a := as[i]
		if a.Kind == "repeat" || a.Kind == "cond" {
			a.Body = mergeLanes(a.Body)
		}
		if a.LaneOf != nil && a.SrcBytes >= 2 && i+a.SrcBytes <= len(as) {
			n := a.SrcBytes
			asc, desc := true, true
			for j := 0; j < n; j++ {
				b := as[i+j]
				if b.LaneOf != a.LaneOf || b.Width != 1 || b.Cond != a.Cond {
					asc, desc = false, false
					break
				}
				if b.Lane != j {
					asc = false
				}
				if b.Lane != n-1-j {
					desc = false
				}
			}
			if asc || desc {
				m := a
				m.Width, m.LaneOf, m.Lane, m.SrcBytes = n, nil, 0, 0
				m.Order = "LE"
				if desc {
					m.Order = "BE"
				}
				out = append(out, m)
				i += n
				continue
			}
		}
		out = append(out, a)
		i++
	}
	return out
}

// seqArrayLiteral: the bytes of an array composite literal held in al (element
// stores at constant indexes; unset elements are zero).
func (e *Ext) seqArrayLiteral(al *ssa.Alloc, x *ssa.Slice) []Atom {
	arr, ok := deref(al.Type()).Underlying().(*types.Array)
	if !ok || elemWidth(arr.Elem()) != 1 || x.Low != nil || x.High != nil {
		return []Atom{{Kind: "unknown", Expr: "slice of a copied array literal", Pos: x.Pos()}}
	}
	n := int(arr.Len())
	elems := make([]Atom, n)
	for i := range elems {
		elems[i] = Atom{Kind: "const", Width: 1, Expr: "0"}
	}
	for _, r := range *al.Referrers() {
		ia, ok := r.(*ssa.IndexAddr)
		if !ok {
			continue
		}
		idx, isK := constI(ia.Index)
		if !isK || idx < 0 || int(idx) >= n {
			return []Atom{{Kind: "unknown", Expr: "array literal with variable index", Pos: x.Pos()}}
		}
		for _, rr := range *ia.Referrers() {
			if st, ok := rr.(*ssa.Store); ok && st.Addr == ssa.Value(ia) {
				elems[idx] = e.byteAtom(st.Val, st.Pos())
			}
		}
	}
	return mergeLanes(elems)
}

// plainParams: every parameter is an integer, a bool, a string or a byte slice.
func plainParams(f *ssa.Function) bool {
	if len(f.Params) == 0 {
		return false
	}
	for _, q := range f.Params {
		switch t := q.Type().Underlying().(type) {
		case *types.Basic:
			if t.Info()&(types.IsInteger|types.IsBoolean|types.IsString) == 0 {
				return false
			}
		case *types.Slice:
			if !isByteSlice(t) {
				return false
			}
		case *types.Interface:
			// an interface parameter whose methods produce the bytes
			// (appendMarshalled(buf, &c.Field)): resolved through the caller's argument
		default:
			return false
		}
	}
	return true
}

// seqInlined: the bytes a plain function returns, with its parameters standing
// for the caller's arguments; nil when the function has another shape.
func (e *Ext) seqInlined(f *ssa.Function, args []ssa.Value) []Atom {
	res := f.Signature.Results()
	if res.Len() < 1 || res.Len() > 2 || !isByteSlice(res.At(0).Type()) || len(args) != len(f.Params) {
		return nil
	}
	var rets []*ssa.Return
	for _, b := range f.Blocks {
		if r, ok := b.Instrs[len(b.Instrs)-1].(*ssa.Return); ok {
			if res.Len() == 2 {
				if k, isK := r.Results[1].(*ssa.Const); !isK || k.Value != nil {
					continue
				}
			}
			rets = append(rets, r)
		}
	}
	if len(rets) != 1 {
		return nil
	}
	sub := NewExt(e.W, f)
	sub.inlineDepth = e.inlineDepth + 1
	sub.parent = e
	sub.bind = map[*ssa.Parameter]ssa.Value{}
	for i, q := range f.Params {
		sub.bind[q] = args[i]
	}
	out := sub.Seq(rets[0].Results[0])
	for _, a := range flattenAtoms(out) {
		if a.Kind == "unknown" || ((a.Kind == "fixed" || a.Kind == "bytes") && a.Field == "" && strings.HasPrefix(a.Expr, "param ")) {
			return nil
		}
	}
	return out
}

func flattenAtoms(as []Atom) []Atom {
	var out []Atom
	for _, a := range as {
		out = append(out, a)
		if len(a.Body) > 0 {
			out = append(out, flattenAtoms(a.Body)...)
		}
	}
	return out
}

// ByteLane exposes byteLane: v is byte #lane (0 = least significant) of the
// integer src, srcBytes wide.
func ByteLane(v ssa.Value) (src ssa.Value, lane, srcBytes int, ok bool) { return byteLane(v) }

// fixedAtoms: the atoms of one w-byte integer write of value v. Normally one
// atom; when v is assembled from zero-extended narrower unsigned values placed
// at byte-aligned shifts that tile all w bytes (uint64(hi)<<32 | uint64(lo)),
// one atom per part in wire order.
func (e *Ext) fixedAtoms(v ssa.Value, w int, order string, pos token.Pos) []Atom {
	one := func() []Atom {
		f, ex, ft := e.ValueSrc(v)
		return []Atom{{Kind: "fixed", Width: w, Order: order, Field: f, Expr: ex, Type: tstr(ft), Pos: pos, Val: v}}
	}
	type part struct {
		v     ssa.Value
		shift int
		width int
	}
	var parts []part
	ok := true
	var flat func(x ssa.Value, sh int)
	flat = func(x ssa.Value, sh int) {
		if !ok {
			return
		}
		switch y := x.(type) {
		case *ssa.BinOp:
			switch y.Op {
			case token.OR, token.ADD, token.XOR:
				flat(y.X, sh)
				flat(y.Y, sh)
				return
			case token.SHL:
				if k, isK := constI(y.Y); isK && k >= 0 && k%8 == 0 {
					flat(y.X, sh+int(k/8))
					return
				}
			}
			ok = false
		case *ssa.Convert:
			from := elemWidth(y.X.Type())
			fb, isB := y.X.Type().Underlying().(*types.Basic)
			if isB && fb.Info()&types.IsInteger != 0 && fb.Info()&types.IsUnsigned != 0 && from < elemWidth(y.Type()) && from >= 1 {
				if _, isBin := y.X.(*ssa.BinOp); !isBin {
					parts = append(parts, part{y.X, sh, from})
					return
				}
			}
			if isB && fb.Info()&types.IsInteger != 0 && from == elemWidth(y.Type()) {
				flat(y.X, sh) // same-width reinterpretation
				return
			}
			ok = false
		default:
			ok = false
		}
	}
	flat(v, 0)
	if !ok || len(parts) < 2 {
		return one()
	}
	// tile check
	used := make([]bool, w)
	for _, p := range parts {
		for i := p.shift; i < p.shift+p.width; i++ {
			if i < 0 || i >= w || used[i] {
				return one()
			}
			used[i] = true
		}
	}
	for _, u := range used {
		if !u {
			return one()
		}
	}
	// wire order: little-endian puts the low part first
	for i := 0; i < len(parts); i++ {
		for j := i + 1; j < len(parts); j++ {
			less := parts[j].shift < parts[i].shift
			if order == "BE" {
				less = parts[j].shift > parts[i].shift
			}
			if less {
				parts[i], parts[j] = parts[j], parts[i]
			}
		}
	}
	var out []Atom
	for _, p := range parts {
		f, ex, ft := e.ValueSrc(p.v)
		o := order
		if p.width == 1 {
			o = ""
		}
		out = append(out, Atom{Kind: "fixed", Width: p.width, Order: o, Field: f, Expr: ex, Type: tstr(ft), Pos: pos})
	}
	return out
}

// binaryImage: the bytes encoding/binary writes for `data` (the argument of
// binary.Append / binary.Write) in byte order `order`: a fixed-size integer, or a
// struct / pointer to struct whose fields are laid out in declaration order with
// their fixed widths and no padding (documented contract of the package). The
// struct is either a receiver field (atoms named after its fields) or a local
// variable whose fields were assigned from receiver fields. nil when not read.
func (e *Ext) binaryImage(data, order ssa.Value, pos token.Pos) []Atom {
	ord := ""
	if g := loadedGlobalName(order); g == "encoding/binary.LittleEndian" {
		ord = "LE"
	} else if g == "encoding/binary.BigEndian" {
		ord = "BE"
	} else {
		return nil
	}
	if mi, ok := data.(*ssa.MakeInterface); ok {
		data = mi.X
	}
	// the struct's storage: &local, a load of a struct-typed location, or &recv.F
	var addr ssa.Value
	switch x := data.(type) {
	case *ssa.Alloc, *ssa.FieldAddr:
		addr = x
	case *ssa.UnOp:
		if x.Op == token.MUL {
			addr = x.X
		}
	}
	if addr == nil {
		return nil
	}
	st, ok := deref(addr.Type()).Underlying().(*types.Struct)
	if !ok {
		return nil
	}
	var out []Atom
	// (a) a struct that lives in the receiver
	if base, ok := e.FieldPath(addr); ok {
		for i := 0; i < st.NumFields(); i++ {
			f := st.Field(i)
			name := f.Name()
			if base != "" {
				name = base + "." + name
			}
			a, ok := imageAtom(f.Type(), name, ord, pos)
			if !ok {
				return nil
			}
			out = append(out, a)
		}
		return out
	}
	// (b) a local struct: each field holds what was stored into it
	al, ok := addr.(*ssa.Alloc)
	if !ok || al.Referrers() == nil {
		return nil
	}
	src := al
	// block := T{…} is built in a temporary and copied whole
	for _, r := range *al.Referrers() {
		if stt, isSt := r.(*ssa.Store); isSt && stt.Addr == ssa.Value(al) {
			if ld, isLd := stt.Val.(*ssa.UnOp); isLd && ld.Op == token.MUL {
				if t, isA := ld.X.(*ssa.Alloc); isA {
					src = t
				}
			}
		}
	}
	fieldVal := map[int]ssa.Value{}
	fieldCopy := map[int]ssa.Value{} // copy(local.F[:], x)
	for _, holder := range []*ssa.Alloc{src, al} {
		if holder.Referrers() == nil {
			continue
		}
		for _, r := range *holder.Referrers() {
			fa, isFA := r.(*ssa.FieldAddr)
			if !isFA || fa.Referrers() == nil {
				continue
			}
			for _, rr := range *fa.Referrers() {
				switch y := rr.(type) {
				case *ssa.Store:
					if y.Addr == ssa.Value(fa) {
						fieldVal[fa.Field] = y.Val
					}
				case *ssa.Slice:
					if y.Referrers() == nil {
						continue
					}
					for _, r3 := range *y.Referrers() {
						if call, isC := r3.(*ssa.Call); isC {
							if b, isB := call.Call.Value.(*ssa.Builtin); isB && b.Name() == "copy" && call.Call.Args[0] == ssa.Value(y) {
								fieldCopy[fa.Field] = call.Call.Args[1]
							}
						}
					}
				}
			}
		}
	}
	for i := 0; i < st.NumFields(); i++ {
		f := st.Field(i)
		w, isArr := imageWidth(f.Type())
		if w == 0 {
			return nil
		}
		switch {
		case fieldCopy[i] != nil:
			sub := e.Seq(fieldCopy[i])
			if len(sub) != 1 {
				return nil
			}
			a := sub[0]
			a.Pos = pos
			if a.Width == 0 {
				a.Width = w
			}
			out = append(out, a)
		case fieldVal[i] != nil:
			fn, ex, ft := e.ValueSrc(fieldVal[i])
			if isArr {
				out = append(out, Atom{Kind: "bytes", Width: w, Field: fn, Expr: ex, Type: tstr(ft), Pos: pos})
			} else {
				o := ord
				if w == 1 {
					o = ""
				}
				out = append(out, Atom{Kind: "fixed", Width: w, Order: o, Field: fn, Expr: ex, Type: tstr(ft), Pos: pos})
			}
		default:
			out = append(out, Atom{Kind: "pad", Width: w})
		}
	}
	return out
}

// imageWidth: bytes encoding/binary writes for a value of type t (0 if t is not
// a fixed-size integer or byte array); isArr for a byte array.
func imageWidth(t types.Type) (int, bool) {
	switch u := t.Underlying().(type) {
	case *types.Basic:
		if u.Info()&types.IsInteger != 0 && u.Kind() != types.Int && u.Kind() != types.Uint && u.Kind() != types.Uintptr {
			return elemWidth(t), false
		}
	case *types.Array:
		if b, ok := u.Elem().Underlying().(*types.Basic); ok && (b.Kind() == types.Uint8 || b.Kind() == types.Int8) {
			return int(u.Len()), true
		}
	}
	return 0, false
}

func imageAtom(t types.Type, name, ord string, pos token.Pos) (Atom, bool) {
	w, isArr := imageWidth(t)
	if w == 0 {
		return Atom{}, false
	}
	if isArr {
		return Atom{Kind: "bytes", Width: w, Field: name, Pos: pos}, true
	}
	if w == 1 {
		ord = ""
	}
	return Atom{Kind: "fixed", Width: w, Order: ord, Field: name, Type: types.TypeString(t, shortQ), Pos: pos}, true
}

// loadedGlobalName: v is (a load / interface wrapping of) a package-level variable; its qualified name.
func loadedGlobalName(v ssa.Value) string {
	for d := 0; d < 4; d++ {
		switch x := v.(type) {
		case *ssa.MakeInterface:
			v = x.X
		case *ssa.ChangeInterface:
			v = x.X
		case *ssa.UnOp:
			if g, ok := x.X.(*ssa.Global); ok && g.Pkg != nil {
				return g.Pkg.Pkg.Path() + "." + g.Name()
			}
			return ""
		case *ssa.Global:
			if x.Pkg != nil {
				return x.Pkg.Pkg.Path() + "." + x.Name()
			}
			return ""
		default:
			return ""
		}
	}
	return ""
}

// seqScratchAt: view is a constant window of a local scratch buffer (an array
// variable or a make of constant size) that is refilled by PutUintN and
// appended several times (`var scratch [4]byte; b2 := scratch[:2];
// PutUint16(b2, x); out = append(out, b2...); PutUint16(b2, y); …`). The bytes
// the append at `at` copies are those of the last PutUintN into exactly this
// window that dominates `at`, provided every other write of the buffer either
// dominates that put or is dominated by `at`. ok=false: not this idiom (the
// caller falls back to the one-layout-per-buffer reading).
func (e *Ext) seqScratchAt(view ssa.Value, at *ssa.Call) ([]Atom, bool) {
	window := func(v ssa.Value) (root ssa.Value, lo, n int64, ok bool) {
		sl, isSl := v.(*ssa.Slice)
		if !isSl {
			return nil, 0, 0, false
		}
		var size int64
		switch r := sl.X.(type) {
		case *ssa.Alloc:
			arr, isArr := deref(r.Type()).Underlying().(*types.Array)
			if !isArr {
				return nil, 0, 0, false
			}
			size = arr.Len()
		case *ssa.MakeSlice:
			k, isK := constI(r.Len)
			if !isK {
				return nil, 0, 0, false
			}
			size = k
		default:
			return nil, 0, 0, false
		}
		lo, hi := int64(0), size
		if sl.Low != nil {
			k, isK := constI(sl.Low)
			if !isK {
				return nil, 0, 0, false
			}
			lo = k
		}
		if sl.High != nil {
			k, isK := constI(sl.High)
			if !isK {
				return nil, 0, 0, false
			}
			hi = k
		}
		return sl.X, lo, hi - lo, hi >= lo
	}
	root, vlo, vn, ok := window(view)
	if !ok || root.Referrers() == nil {
		return nil, false
	}
	type put struct {
		call  *ssa.Call
		lo, n int64
		w     int
		order string
	}
	var puts []put
	for _, r := range *root.Referrers() {
		switch y := r.(type) {
		case *ssa.Slice:
			_, lo, n, okw := window(y)
			if !okw || y.Referrers() == nil {
				return nil, false
			}
			for _, u := range *y.Referrers() {
				switch z := u.(type) {
				case *ssa.DebugRef:
				case *ssa.Call:
					cc := z.Common()
					if kind, w, order := binCall(z); kind == "put" && cc.Args[1] == ssa.Value(y) {
						if int64(w) > n {
							return nil, false
						}
						puts = append(puts, put{z, lo, int64(w), w, order})
						continue
					}
					if b, isB := cc.Value.(*ssa.Builtin); isB && (b.Name() == "len" || b.Name() == "cap") {
						continue
					}
					if b, isB := cc.Value.(*ssa.Builtin); isB && b.Name() == "append" && len(cc.Args) == 2 && cc.Args[1] == ssa.Value(y) && cc.Args[0] != ssa.Value(y) {
						continue // read: the window is copied out
					}
					return nil, false
				default:
					return nil, false
				}
			}
		case *ssa.DebugRef:
		default:
			return nil, false // element stores, copies, escapes: not this idiom
		}
	}
	if len(puts) < 2 {
		return nil, false // a buffer written once is read by seqFixedBuf
	}
	idx := func(in ssa.Instruction) int {
		for i, x := range in.Block().Instrs {
			if x == in {
				return i
			}
		}
		return -1
	}
	dom := func(a, b ssa.Instruction) bool {
		if a.Block() == b.Block() {
			return idx(a) < idx(b)
		}
		return a.Block().Dominates(b.Block())
	}
	var last *put
	for i := range puts {
		pi := &puts[i]
		if !dom(pi.call, at) {
			continue
		}
		if last == nil || dom(last.call, pi.call) {
			last = pi
		}
	}
	if last == nil || last.lo != vlo || last.n != vn {
		return nil, false
	}
	for i := range puts {
		pi := &puts[i]
		if pi == last {
			continue
		}
		if pi.lo+pi.n <= last.lo || last.lo+last.n <= pi.lo {
			continue // disjoint windows
		}
		if !dom(pi.call, last.call) && !dom(at, pi.call) {
			return nil, false
		}
	}
	return e.fixedAtoms(last.call.Common().Args[2], last.w, last.order, last.call.Pos()), true
}
