package codec

import (
	"fmt"
	"go/token"
	"go/types"
	"strings"

	"golang.org/x/tools/go/ssa"

	"manticheck/internal/lin"
	"manticheck/internal/prove"
)

// Decoded lists, in program order along the function, every place where bytes
// of an input buffer are moved into a receiver field.
func (e *Ext) Decoded() []Atom {
	names := e.fieldNames()
	var out []Atom
	// program order: dominator pre-order, instruction order inside blocks
	for _, b := range e.Fn.DomPreorder() {
		cond := e.dataDependent(b)
		for _, in := range b.Instrs {
			var as []*Atom
			switch x := in.(type) {
			case *ssa.Store:
				as = e.decStore(x, names)
			case *ssa.Call:
				if img := e.decBinaryImage(x, names); img != nil {
					as = img
				} else if a := e.decCall(x, names); a != nil {
					as = []*Atom{a}
				}
			}
			for _, a := range as {
				if !a.Unrolled {
					a.Cond = a.Cond || cond
				}
				if a.At == nil {
					a.At = in
				}
				a.FI = e.FI
				out = append(out, *a)
			}
		}
	}
	return foldLoops(e, out)
}

// fieldNames maps SSA values that were stored into receiver fields to the
// field path, so that offsets can be printed (and compared) over field names.
func (e *Ext) fieldNames() map[ssa.Value]string {
	m := map[ssa.Value]string{}
	for _, b := range e.Fn.Blocks {
		for _, in := range b.Instrs {
			st, ok := in.(*ssa.Store)
			if !ok {
				continue
			}
			p, ok := e.FieldPath(st.Addr)
			if !ok {
				continue
			}
			v := st.Val
			for {
				if c, ok := v.(*ssa.Convert); ok {
					m[v] = p
					v = c.X
					continue
				}
				if c, ok := v.(*ssa.ChangeType); ok {
					m[v] = p
					v = c.X
					continue
				}
				break
			}
			m[v] = p
		}
	}
	return m
}

func (e *Ext) renderForm(f lin.Form, names map[ssa.Value]string) string {
	return f.String(func(t lin.Term) string {
		v, isLen := e.FI.TermValue(t)
		n := ""
		if p, ok := names[v]; ok {
			n = p
		} else if ex, ok := v.(*ssa.Extract); ok {
			if call, ok := ex.Tuple.(*ssa.Call); ok && len(call.Common().Args) > 0 {
				if p, ok := e.FieldPath(call.Common().Args[0]); ok {
					n = "size(" + p + ")"
				}
			}
		}
		if n == "" {
			if u, ok := v.(*ssa.UnOp); ok && u.Op == token.MUL {
				if p, ok := e.FieldPath(u.X); ok {
					n = p
				}
			}
		}
		if n == "" {
			n = e.exprString(v, 0)
		}
		if isLen {
			return "len(" + n + ")"
		}
		return n
	})
}

// rootBuf follows slice expressions back to the buffer they view and returns
// a stream name for it plus the accumulated offset of v's start inside it.
func (e *Ext) rootBuf(v ssa.Value, c *prove.Ctx) (root ssa.Value, off lin.Form) {
	off = lin.K(0)
	for {
		switch x := v.(type) {
		case *ssa.Slice:
			if x.Low != nil {
				off = off.Add(c.Lin(x.Low))
			}
			v = x.X
			continue
		case *ssa.Convert:
			v = x.X
			continue
		case *ssa.ChangeType:
			v = x.X
			continue
		case *ssa.UnOp:
			if x.Op == token.MUL {
				rep := e.FI.LoadRep(x)
				if rep != ssa.Value(x) {
					v = rep
					continue
				}
			}
		case *ssa.Phi:
			// a buffer re-sliced in a loop (`data = data[n:]`): treat the φ as its own stream
		}
		return v, off
	}
}

func (e *Ext) streamName(root ssa.Value) string {
	switch x := root.(type) {
	case *ssa.Parameter:
		return x.Name()
	case *ssa.Call:
		cc := x.Common()
		if f := cc.StaticCallee(); f != nil && len(cc.Args) > 0 {
			// c.GetParameters().GetBytes()
			if inner, ok := cc.Args[0].(*ssa.Call); ok {
				if g := inner.Common().StaticCallee(); g != nil {
					return strings.TrimPrefix(g.Name(), "Get") + "." + f.Name()
				}
			}
			return f.Name()
		}
	case *ssa.UnOp:
		if p, ok := e.FieldPath(x.X); ok {
			return "field " + p
		}
	case *ssa.Phi:
		return "φ" + x.Comment
	}
	return root.Name()
}

// srcOfValue walks a stored value back to the input bytes it was read from.
func (e *Ext) srcOfValue(v ssa.Value, at ssa.Instruction, names map[ssa.Value]string) *Atom {
	// narrowest integer type seen on the way (a narrowing conversion selects the
	// low bytes of a wider read) and byte-aligned right shifts applied before it
	narrow := 0
	shift := int64(0)
	for {
		switch x := v.(type) {
		case *ssa.Convert:
			if bits := intBitsOf(x.Type()); bits > 0 && (narrow == 0 || bits/8 < narrow) {
				narrow = bits / 8
			}
			v = x.X
			continue
		case *ssa.ChangeType:
			v = x.X
			continue
		case *ssa.BinOp:
			// (word >> 8k) narrowed afterwards: bytes k.. of the word
			if x.Op == token.SHR && narrow > 0 {
				if k, ok := constI(x.Y); ok && k >= 0 && k%8 == 0 {
					shift += k / 8
					v = x.X
					continue
				}
			}
		}
		break
	}
	c := e.FI.CtxBefore(at)
	if bo, ok := v.(*ssa.BinOp); ok && shift == 0 && (bo.Op == token.OR || bo.Op == token.ADD || bo.Op == token.XOR) {
		if a := e.combineBytes(bo, at, names); a != nil && (narrow == 0 || narrow >= a.Width) {
			return a
		}
	}
	if call, ok := v.(*ssa.Call); ok && (narrow > 0 || shift > 0) {
		if kind, w, order := binCall(call); kind == "get" && narrow > 0 && int(shift)+narrow <= w && (narrow < w || shift > 0) {
			root, off := e.rootBuf(call.Common().Args[1], c)
			// little-endian: byte k of the value is byte k of the read; big-endian: mirrored
			delta := shift
			if order == "BE" {
				delta = int64(w) - shift - int64(narrow)
			}
			off = off.AddK(delta)
			return &Atom{Kind: "fixed", Width: narrow, Order: order, Stream: e.streamName(root), Off: e.renderForm(off, names), OffForm: &off, Pos: call.Pos()}
		}
	}
	switch x := v.(type) {
	case *ssa.Call:
		if kind, w, order := binCall(x); kind == "get" {
			root, off := e.rootBuf(x.Common().Args[1], c)
			return &Atom{Kind: "fixed", Width: w, Order: order, Stream: e.streamName(root), Off: e.renderForm(off, names), OffForm: &off, Pos: x.Pos()}
		}
		// bytes produced by a helper from the input (string scanners, converters)
		return e.viaHelper(x, c, names)
	case *ssa.Extract:
		if call, ok := x.Tuple.(*ssa.Call); ok {
			return e.viaHelper(call, c, names)
		}
	case *ssa.UnOp:
		if x.Op == token.MUL {
			// [N]byte(data[lo:hi]): the window converted to an array value
			if stp, ok := x.X.(*ssa.SliceToArrayPointer); ok {
				if a := e.srcOfValue(stp.X, at, names); a != nil && a.Kind == "bytes" {
					if arr, isArr := deref(stp.Type()).Underlying().(*types.Array); isArr && elemWidth(arr.Elem()) == 1 {
						a.Width = int(arr.Len())
						a.WidthStr = fmt.Sprint(arr.Len())
						w := lin.K(arr.Len())
						a.WidthForm = &w
						return a
					}
				}
				return nil
			}
			if ia, ok := x.X.(*ssa.IndexAddr); ok {
				if _, isField := e.FieldPath(ia); isField {
					// a byte of a byte-slice FIELD used as an inner buffer is a decode; an element of
					// any other field is a field-to-field copy
					ld, isLd := ia.X.(*ssa.UnOp)
					if !isLd || !isBufferLike(ld) {
						return nil
					}
				}
				root, off := e.rootBuf(ia.X, c)
				off = off.Add(c.Lin(ia.Index))
				if !isBufferLike(root) {
					return nil
				}
				return &Atom{Kind: "fixed", Width: 1, Stream: e.streamName(root), Off: e.renderForm(off, names), OffForm: &off, Pos: x.Pos()}
			}
		}
	case *ssa.Index:
		return nil
	case *ssa.Lookup:
		if _, isMap := x.X.Type().Underlying().(*types.Map); !isMap {
			root, off := e.rootBuf(x.X, c)
			off = off.Add(c.Lin(x.Index))
			return &Atom{Kind: "fixed", Width: 1, Stream: e.streamName(root), Off: e.renderForm(off, names), OffForm: &off, Pos: x.Pos()}
		}
	case *ssa.Slice:
		root, off := e.rootBuf(x, c)
		if !isBufferLike(root) {
			return nil
		}
		a := &Atom{Kind: "bytes", Stream: e.streamName(root), Off: e.renderForm(off, names), OffForm: &off, Pos: x.Pos()}
		if x.High != nil {
			lo := lin.K(0)
			if x.Low != nil {
				lo = c.Lin(x.Low)
			}
			w := c.Lin(x.High).Sub(lo)
			if k, ok := w.ConstVal(); ok && k.IsInt64() {
				a.Width = int(k.Int64())
			}
			a.WidthStr = e.renderForm(w, names)
			a.WidthForm = &w
		} else {
			a.WidthStr = "rest"
		}
		return a
	}
	return nil
}

func isBufferLike(v ssa.Value) bool {
	t := v.Type().Underlying()
	switch u := t.(type) {
	case *types.Slice:
		b, ok := u.Elem().Underlying().(*types.Basic)
		return ok && b.Kind() == types.Uint8
	case *types.Basic:
		return u.Info()&types.IsString != 0
	case *types.Pointer:
		if a, ok := u.Elem().Underlying().(*types.Array); ok {
			b, ok := a.Elem().Underlying().(*types.Basic)
			return ok && b.Kind() == types.Uint8
		}
	}
	return false
}

func (e *Ext) decStore(st *ssa.Store, names map[ssa.Value]string) []*Atom {
	p, ok := e.FieldPath(st.Addr)
	if !ok {
		if rows := e.tableStore(st, names); rows != nil {
			return rows
		}
		return nil
	}
	// c.F = [N]T{a, b, c}: the literal is built in a local array and loaded
	if ld, ok := st.Val.(*ssa.UnOp); ok && ld.Op == token.MUL {
		if al, ok := ld.X.(*ssa.Alloc); ok && al.Comment == "complit" {
			if _, isArr := deref(al.Type()).Underlying().(*types.Array); isArr {
				var out []*Atom
				type el struct {
					idx int64
					a   *Atom
				}
				var els []el
				for _, r := range *al.Referrers() {
					ia, ok := r.(*ssa.IndexAddr)
					if !ok {
						continue
					}
					idx, isK := constI(ia.Index)
					if !isK {
						continue
					}
					for _, rr := range *ia.Referrers() {
						if s2, ok := rr.(*ssa.Store); ok && s2.Addr == ssa.Value(ia) {
							if a := e.srcOfValue(s2.Val, s2, names); a != nil {
								a.Field = fmt.Sprintf("%s[%d]", p, idx)
								if a.Pos == token.NoPos {
									a.Pos = s2.Pos()
								}
								els = append(els, el{idx, a})
							}
						}
					}
				}
				for i := 0; i < len(els); i++ {
					for j := i + 1; j < len(els); j++ {
						if els[j].idx < els[i].idx {
							els[i], els[j] = els[j], els[i]
						}
					}
				}
				for _, x := range els {
					out = append(out, x.a)
				}
				if len(out) > 0 {
					return out
				}
			}
		}
	}
	a := e.srcOfValue(st.Val, st, names)
	if a == nil {
		return nil
	}
	a.Field = p
	a.Type = tstr(deref(st.Addr.Type()))
	if a.Pos == token.NoPos {
		a.Pos = st.Pos()
	}
	return []*Atom{a}
}

// localTarget: a local object (new T / NewT()) that is decoded into and then
// appended or stored into a receiver field.
func (e *Ext) localTarget(obj ssa.Value) (string, bool) {
	seen := map[ssa.Value]bool{}
	work := []ssa.Value{obj}
	for steps := 0; len(work) > 0 && steps < 64; steps++ {
		v := work[0]
		work = work[1:]
		if seen[v] || v.Referrers() == nil {
			continue
		}
		seen[v] = true
		for _, r := range *v.Referrers() {
			switch y := r.(type) {
			case *ssa.Store:
				if y.Val == v {
					if p, ok := e.FieldPath(y.Addr); ok {
						if _, isIdx := y.Addr.(*ssa.IndexAddr); isIdx {
							return p, true
						}
						return p + "[*]", true
					}
					// stored into a varargs/literal array that is then appended
					if ia, ok := y.Addr.(*ssa.IndexAddr); ok {
						work = append(work, ia.X)
					}
				}
			case *ssa.UnOp:
				if y.Op == token.MUL {
					work = append(work, y)
				}
			case *ssa.Slice:
				work = append(work, y)
			case *ssa.Call:
				if b, ok := y.Call.Value.(*ssa.Builtin); ok && b.Name() == "append" {
					work = append(work, y)
				}
			case *ssa.Phi:
				work = append(work, y)
			case *ssa.MakeInterface, *ssa.ChangeType, *ssa.Convert:
				work = append(work, y.(ssa.Value))
			}
		}
	}
	return "", false
}

// decCall: nested decoders (c.F.Unmarshal(buf[off:])) and copy(c.F[:], buf[a:b]).
func (e *Ext) decCall(call *ssa.Call, names map[ssa.Value]string) *Atom {
	cc := call.Common()
	if b, ok := cc.Value.(*ssa.Builtin); ok {
		if b.Name() != "copy" {
			return nil
		}
		dst := cc.Args[0]
		// destination: a receiver field (array sliced, or a slice field just made)
		var path string
		var okp bool
		switch d := dst.(type) {
		case *ssa.Slice:
			path, okp = e.basePath(d.X)
			if !okp {
				path, okp = e.FieldPath(d.X)
			}
		case *ssa.UnOp:
			if d.Op == token.MUL {
				path, okp = e.FieldPath(d.X)
			}
		case *ssa.MakeSlice:
			// make then store into a field: find the store
			for _, r := range *d.Referrers() {
				if st, ok := r.(*ssa.Store); ok && st.Val == ssa.Value(d) {
					path, okp = e.FieldPath(st.Addr)
				}
			}
		}
		if !okp {
			return nil
		}
		a := e.srcOfValue(cc.Args[1], call, names)
		if a == nil {
			return nil
		}
		a.Field = path
		a.Pos = call.Pos()
		return a
	}
	f := cc.StaticCallee()
	if f == nil || f.Signature.Recv() == nil || len(cc.Args) < 2 {
		return nil
	}
	switch f.Name() {
	case "Unmarshal", "FromBytes", "FromRawBytes", "Decode":
	default:
		return nil
	}
	p, ok := e.FieldPath(cc.Args[0])
	if !ok {
		if bp, ok2 := e.basePath(cc.Args[0]); ok2 && bp != "" {
			p = bp
		} else if lt, ok3 := e.localTarget(cc.Args[0]); ok3 {
			p = lt
		} else if acc := andxAccessor(cc.Args[0]); acc != "" {
			// c.GetAndX().Unmarshal(...): an accessor of the embedded Command
			p = strings.TrimPrefix(acc, "Get")
		} else {
			return nil
		}
	}
	// the byte argument
	var buf ssa.Value
	for _, a := range cc.Args[1:] {
		if isBufferLike(a) {
			buf = a
			break
		}
	}
	if buf == nil {
		return nil
	}
	c := e.FI.CtxBefore(call)
	root, off := e.rootBuf(buf, c)
	a := &Atom{Kind: "nested", Field: p, Callee: f, At: call, Type: types.TypeString(deref(f.Signature.Recv().Type()), shortQ) + "." + f.Name(),
		Stream: e.streamName(root), Off: e.renderForm(off, names), OffForm: &off, Pos: call.Pos()}
	// the consumed count (result #0) is the width as far as the caller is concerned
	if call.Referrers() != nil {
		for _, r := range *call.Referrers() {
			if ex, ok := r.(*ssa.Extract); ok && ex.Index == 0 {
				if _, _, isInt := intType(ex.Type()); isInt && ex.Referrers() != nil && len(*ex.Referrers()) > 0 {
					wf := c.Lin(ex)
					a.WidthForm = &wf
					a.WidthStr = e.renderForm(wf, names)
				}
			}
		}
	}
	if sl, ok := buf.(*ssa.Slice); ok && sl.High != nil {
		lo := lin.K(0)
		if sl.Low != nil {
			lo = c.Lin(sl.Low)
		}
		if k, ok := c.Lin(sl.High).Sub(lo).ConstVal(); ok && k.IsInt64() {
			a.Window = int(k.Int64())
		}
	}
	if sl, ok := buf.(*ssa.Slice); ok && sl.High != nil && a.WidthForm == nil {
		lo := lin.K(0)
		if sl.Low != nil {
			lo = c.Lin(sl.Low)
		}
		w := c.Lin(sl.High).Sub(lo)
		a.WidthStr = e.renderForm(w, names)
		a.WidthForm = &w
		if k, ok := w.ConstVal(); ok && k.IsInt64() {
			a.Width = int(k.Int64())
		}
	}
	return a
}

func intType(t types.Type) (int, bool, bool) {
	b, ok := t.Underlying().(*types.Basic)
	if !ok || b.Info()&types.IsInteger == 0 {
		return 0, false, false
	}
	return 0, false, true
}

// dataDependent: is block b executed only under a condition on decoded data
// (not merely a length/err guard)? Length guards and error checks keep the
// success path unconditional; a test on a field value makes what follows
// conditional.
func (e *Ext) dataDependent(b *ssa.BasicBlock) bool {
	for x := b; x != nil; x = x.Idom() {
		d := x.Idom()
		if d == nil {
			break
		}
		if len(x.Preds) != 1 || x.Preds[0] != d {
			continue
		}
		iff, ok := d.Instrs[len(d.Instrs)-1].(*ssa.If)
		if !ok {
			continue
		}
		// the other successor: does it rejoin (conditional section) or leave (guard)?
		other := d.Succs[0]
		if other == x {
			other = d.Succs[1]
		}
		if !rejoin(x, other) {
			continue // a guard: the other branch leaves and the two never meet again
		}
		if isLoopCond(d) {
			continue
		}
		_ = iff
		return true
	}
	return false
}

func leaves(b *ssa.BasicBlock) bool {
	seen := map[*ssa.BasicBlock]bool{}
	for steps := 0; steps < 4; steps++ {
		if seen[b] {
			return false
		}
		seen[b] = true
		last := b.Instrs[len(b.Instrs)-1]
		switch last.(type) {
		case *ssa.Return, *ssa.Panic:
			return true
		case *ssa.Jump:
			b = b.Succs[0]
			continue
		}
		return false
	}
	return false
}

func isLoopCond(b *ssa.BasicBlock) bool {
	for _, p := range b.Preds {
		if b.Dominates(p) {
			return true
		}
	}
	return false
}

// foldLoops groups atoms whose instruction sits inside a loop into a repeat atom.
func foldLoops(e *Ext, as []Atom) []Atom {
	// loop headers by block
	loopOf := func(pos token.Pos) *ssa.BasicBlock { return nil }
	_ = loopOf
	blockOf := map[token.Pos]*ssa.BasicBlock{}
	for _, b := range e.Fn.Blocks {
		for _, in := range b.Instrs {
			if in.Pos().IsValid() {
				if _, ok := blockOf[in.Pos()]; !ok {
					blockOf[in.Pos()] = b
				}
			}
		}
	}
	header := func(b *ssa.BasicBlock) *ssa.BasicBlock {
		// innermost loop header dominating b with a back edge from a block that b reaches … approximated:
		for x := b; x != nil; x = x.Idom() {
			for _, p := range x.Preds {
				if x.Dominates(p) && (p == b || reaches(b, p)) {
					return x
				}
			}
		}
		return nil
	}
	var out []Atom
	var cur *ssa.BasicBlock
	var body []Atom
	flush := func() {
		if cur != nil {
			out = append(out, Atom{Kind: "repeat", Over: e.rangedOver(cur), Body: body, Pos: body[0].Pos, Cond: body[0].Cond, At: body[0].At})
		}
		cur, body = nil, nil
	}
	for _, a := range as {
		b := blockOf[a.Pos]
		var h *ssa.BasicBlock
		if b != nil && !a.Unrolled {
			h = header(b)
		}
		if h == nil {
			flush()
			out = append(out, a)
			continue
		}
		if cur != h {
			flush()
			cur = h
		}
		body = append(body, a)
	}
	flush()
	return out
}

func reaches(from, to *ssa.BasicBlock) bool {
	seen := map[*ssa.BasicBlock]bool{}
	work := []*ssa.BasicBlock{from}
	for len(work) > 0 {
		b := work[len(work)-1]
		work = work[:len(work)-1]
		if b == to {
			return true
		}
		if seen[b] {
			continue
		}
		seen[b] = true
		work = append(work, b.Succs...)
	}
	return false
}

var _ = fmt.Sprint

func (e *Ext) viaHelper(call *ssa.Call, c *prove.Ctx, names map[ssa.Value]string) *Atom {
	if _, isB := call.Common().Value.(*ssa.Builtin); isB {
		return nil
	}
	for _, arg := range call.Common().Args {
		if !isBufferLike(arg) {
			continue
		}
		root, off := e.rootBuf(arg, c)
		if _, isParamOrCall := root.(*ssa.Const); isParamOrCall {
			continue
		}
		n := prove.StaticName(call.Common())
		if i := strings.LastIndex(n, "/"); i >= 0 {
			n = n[i+1:]
		}
		return &Atom{Kind: "bytes", Expr: "via " + n, Stream: e.streamName(root), Off: e.renderForm(off, names), OffForm: &off, Pos: call.Pos(), WidthStr: "via " + n}
	}
	return nil
}

// rejoin: is some block reachable from both a and b?
func rejoin(a, b *ssa.BasicBlock) bool {
	ra := reachSet(a)
	for x := range reachSet(b) {
		if ra[x] {
			return true
		}
	}
	return false
}

func reachSet(from *ssa.BasicBlock) map[*ssa.BasicBlock]bool {
	seen := map[*ssa.BasicBlock]bool{}
	work := []*ssa.BasicBlock{from}
	for len(work) > 0 {
		b := work[len(work)-1]
		work = work[:len(work)-1]
		if seen[b] {
			continue
		}
		seen[b] = true
		work = append(work, b.Succs...)
	}
	return seen
}

func intBitsOf(t types.Type) int {
	b, ok := t.Underlying().(*types.Basic)
	if !ok || b.Info()&types.IsInteger == 0 {
		return 0
	}
	switch b.Kind() {
	case types.Int8, types.Uint8:
		return 8
	case types.Int16, types.Uint16:
		return 16
	case types.Int32, types.Uint32:
		return 32
	}
	return 64
}

// tableStore: `*row.ptr = <decode>` inside a loop over a constant table of
// {…, ptr: &recv.F} rows (a local slice/array literal). The loop is unrolled:
// one atom per row, in row order, at entry offset + i·stride. Anything about
// the shape that is not recognised yields one unknown atom (never silence).
func (e *Ext) tableStore(st *ssa.Store, names map[ssa.Value]string) []*Atom {
	ld, ok := st.Addr.(*ssa.UnOp)
	if !ok || ld.Op != token.MUL {
		return nil
	}
	fa, ok := ld.X.(*ssa.FieldAddr)
	if !ok {
		return nil
	}
	tmpl := e.srcOfValue(st.Val, st, names)
	if tmpl == nil {
		return nil // not a decode
	}
	unknown := func(why string) []*Atom {
		return []*Atom{{Kind: "unknown", Expr: "store through a pointer taken from a table: " + why, Pos: st.Pos()}}
	}
	// element: a local copy of table[idx] or table[idx] itself
	var elem *ssa.IndexAddr
	switch x := fa.X.(type) {
	case *ssa.IndexAddr:
		elem = x
	case *ssa.Alloc:
		n := 0
		for _, r := range *x.Referrers() {
			if s2, ok := r.(*ssa.Store); ok && s2.Addr == ssa.Value(x) {
				n++
				if l2, ok := s2.Val.(*ssa.UnOp); ok && l2.Op == token.MUL {
					elem, _ = l2.X.(*ssa.IndexAddr)
				}
			}
		}
		if n != 1 {
			elem = nil
		}
	}
	if elem == nil {
		return unknown("the row is not an element of a local table")
	}
	var arr *ssa.Alloc
	switch t := elem.X.(type) {
	case *ssa.Slice:
		arr, _ = t.X.(*ssa.Alloc)
		if t.Low != nil || t.High != nil {
			arr = nil
		}
	case *ssa.Alloc:
		arr = t
	}
	if arr == nil {
		return unknown("the table is not a local array/slice literal")
	}
	at, ok := deref(arr.Type()).Underlying().(*types.Array)
	if !ok {
		return unknown("the table is not an array")
	}
	n := int(at.Len())
	// loop counter: idx = φ (+1 for range loops)
	var phi *ssa.Phi
	switch ix := elem.Index.(type) {
	case *ssa.Phi:
		phi = ix
	case *ssa.BinOp:
		if k, ok := constI(ix.Y); ok && k == 1 && ix.Op == token.ADD {
			phi, _ = ix.X.(*ssa.Phi)
		}
	}
	if phi == nil {
		return unknown("the row index is not a loop counter")
	}
	hb := phi.Block()
	// rows
	paths := make([]string, n)
	for _, r := range *arr.Referrers() {
		ia, ok := r.(*ssa.IndexAddr)
		if !ok {
			continue
		}
		i64, isK := constI(ia.Index)
		if !isK {
			continue
		}
		i := int(i64)
		if i < 0 || i >= n {
			continue
		}
		for _, rr := range *ia.Referrers() {
			s2, ok := rr.(*ssa.Store)
			if !ok || s2.Addr != ssa.Value(ia) {
				continue
			}
			l2, ok := s2.Val.(*ssa.UnOp)
			if !ok || l2.Op != token.MUL {
				continue
			}
			lit, ok := l2.X.(*ssa.Alloc)
			if !ok {
				continue
			}
			for _, lr := range *lit.Referrers() {
				f2, ok := lr.(*ssa.FieldAddr)
				if !ok || f2.Field != fa.Field {
					continue
				}
				for _, fr := range *f2.Referrers() {
					if s3, ok := fr.(*ssa.Store); ok && s3.Addr == ssa.Value(f2) {
						if p, ok := e.FieldPath(s3.Val); ok {
							paths[i] = p
						}
					}
				}
			}
		}
	}
	for i, p := range paths {
		if p == "" {
			return unknown(fmt.Sprintf("row %d does not point at a receiver field", i))
		}
	}
	// any other write to the table makes the rows unknown
	for _, r := range *arr.Referrers() {
		switch y := r.(type) {
		case *ssa.IndexAddr:
			if _, isK := constI(y.Index); !isK {
				for _, rr := range *y.Referrers() {
					if s2, ok := rr.(*ssa.Store); ok && s2.Addr == ssa.Value(y) {
						return unknown("the table is written through a variable index")
					}
				}
			}
		case *ssa.Slice:
			for _, rr := range *y.Referrers() {
				if ia, ok := rr.(*ssa.IndexAddr); ok {
					for _, r3 := range *ia.Referrers() {
						if s2, ok := r3.(*ssa.Store); ok && s2.Addr == ssa.Value(ia) {
							return unknown("the table is written inside the loop")
						}
					}
				}
			}
		}
	}
	// offset: every header φ in the template's offset becomes entry + i·stride
	if tmpl.OffForm == nil {
		return unknown("the decoded value has no offset form")
	}
	var entries, backs []int
	for i, p := range hb.Preds {
		if hb.Dominates(p) {
			backs = append(backs, i)
		} else {
			entries = append(entries, i)
		}
	}
	if len(entries) != 1 || len(backs) != 1 {
		return unknown("the loop has several entries or back edges")
	}
	ec := e.FI.CtxEdge(hb.Preds[entries[0]], hb)
	bc := e.FI.CtxEdge(hb.Preds[backs[0]], hb)
	type sub struct {
		t      lin.Term
		entry  lin.Form
		stride int64
	}
	var subs []sub
	for _, t := range tmpl.OffForm.Terms() {
		v, isLen := e.FI.TermValue(t)
		p2, isPhi := v.(*ssa.Phi)
		if isLen || !isPhi || p2.Block() != hb {
			continue
		}
		d := bc.Lin(p2.Edges[backs[0]]).Sub(lin.V(t))
		k, isK := d.ConstVal()
		if !isK || !k.IsInt64() {
			return unknown("the offset does not advance by a constant per row")
		}
		subs = append(subs, sub{t, ec.Lin(p2.Edges[entries[0]]), k.Int64()})
	}
	var out []*Atom
	for i := 0; i < n; i++ {
		a := *tmpl
		off := tmpl.OffForm.Clone()
		for _, s := range subs {
			coef := off.Coef[s.t]
			delete(off.Coef, s.t)
			off = off.Add(s.entry.AddK(int64(i) * s.stride).Scale(coef))
		}
		a.OffForm = &off
		a.Off = e.renderForm(off, names)
		a.Field = paths[i]
		a.At = st
		a.Unrolled = true
		a.Cond = e.dataDependent(hb.Preds[entries[0]])
		a.Pos = st.Pos()
		out = append(out, &a)
	}
	return out
}

// combineBytes: an integer assembled by hand from single bytes of the input,
// uint16(b[i])<<8 | uint16(b[i+1]) and the like: n terms joined by | (or +, ^),
// term j being the byte at a known offset shifted left by 8·s_j, the shifts
// being exactly 0, 8, …, 8(n-1) and the offsets consecutive. Offsets rising
// with the shift: little-endian; falling: big-endian.
func (e *Ext) combineBytes(bo *ssa.BinOp, at ssa.Instruction, names map[ssa.Value]string) *Atom {
	type term struct {
		a     *Atom
		shift int64
	}
	var terms []term
	ok := true
	var flat func(v ssa.Value)
	flat = func(v ssa.Value) {
		if !ok {
			return
		}
		if b, isB := v.(*ssa.BinOp); isB && (b.Op == token.OR || b.Op == token.ADD || b.Op == token.XOR) {
			flat(b.X)
			flat(b.Y)
			return
		}
		sh := int64(0)
		for {
			if cv, isC := v.(*ssa.Convert); isC {
				v = cv.X
				continue
			}
			if b, isB := v.(*ssa.BinOp); isB && b.Op == token.SHL {
				if k, isK := constI(b.Y); isK && k >= 0 && k%8 == 0 {
					sh += k
					v = b.X
					continue
				}
			}
			break
		}
		if _, isB := v.(*ssa.BinOp); isB {
			ok = false
			return
		}
		a := e.srcOfValue(v, at, names)
		if a == nil || a.Kind != "fixed" || a.Width != 1 || a.OffForm == nil {
			ok = false
			return
		}
		terms = append(terms, term{a, sh})
	}
	flat(bo)
	n := len(terms)
	if !ok || n < 2 || n > 8 {
		return nil
	}
	byShift := make([]*Atom, n)
	for _, t := range terms {
		j := int(t.shift / 8)
		if j < 0 || j >= n || byShift[j] != nil || t.a.Stream != terms[0].a.Stream {
			return nil
		}
		byShift[j] = t.a
	}
	le, be := true, true
	for j := 1; j < n; j++ {
		d := byShift[j].OffForm.Sub(*byShift[0].OffForm)
		k, isK := d.ConstVal()
		if !isK || !k.IsInt64() {
			return nil
		}
		if k.Int64() != int64(j) {
			le = false
		}
		if k.Int64() != -int64(j) {
			be = false
		}
	}
	if !le && !be {
		return nil
	}
	first, order := byShift[0], "LE"
	if be {
		first, order = byShift[n-1], "BE"
	}
	off := *first.OffForm
	return &Atom{Kind: "fixed", Width: n, Order: order, Stream: first.Stream, Off: e.renderForm(off, names), OffForm: &off, Pos: bo.Pos()}
}

// decBinaryImage: binary.Decode(buf, order, &recv.F) (or the receiver itself)
// fills the fields of a struct that lives in the receiver from consecutive
// fixed-width windows of buf, in declaration order (documented contract of
// encoding/binary). One atom per field.
func (e *Ext) decBinaryImage(call *ssa.Call, names map[ssa.Value]string) []*Atom {
	cc := call.Common()
	if prove.StaticName(cc) != "encoding/binary.Decode" || len(cc.Args) != 3 {
		return nil
	}
	ord := ""
	switch loadedGlobalName(cc.Args[1]) {
	case "encoding/binary.LittleEndian":
		ord = "LE"
	case "encoding/binary.BigEndian":
		ord = "BE"
	default:
		return nil
	}
	data := cc.Args[2]
	if mi, ok := data.(*ssa.MakeInterface); ok {
		data = mi.X
	}
	base, ok := e.FieldPath(data)
	if !ok {
		return nil
	}
	st, ok := deref(data.Type()).Underlying().(*types.Struct)
	if !ok {
		return nil
	}
	c := e.FI.CtxBefore(call)
	root, off := e.rootBuf(cc.Args[0], c)
	if !isBufferLike(root) {
		return nil
	}
	var out []*Atom
	run := off
	for i := 0; i < st.NumFields(); i++ {
		f := st.Field(i)
		w, isArr := imageWidth(f.Type())
		if w == 0 {
			return nil
		}
		name := f.Name()
		if base != "" {
			name = base + "." + name
		}
		o := run
		a := &Atom{Kind: "fixed", Width: w, Order: ord, Field: name, Stream: e.streamName(root), Off: e.renderForm(o, names), OffForm: &o, Pos: call.Pos(), At: call, Type: types.TypeString(f.Type(), shortQ)}
		if isArr {
			a.Kind, a.Order = "bytes", ""
			a.WidthStr = fmt.Sprint(w)
		} else if w == 1 {
			a.Order = ""
		}
		out = append(out, a)
		run = run.AddK(int64(w))
	}
	return out
}

// andxAccessor: v is c.GetAndX(), or the local that holds it with a freshly
// constructed block substituted when it was nil
// (`x := c.GetAndX(); if x == nil { x = andx.NewAndX(); c.SetAndX(x) }`): a φ
// of the accessor call and constructor calls of the same type.
func andxAccessor(v ssa.Value) string {
	isGet := func(v ssa.Value) bool {
		g, ok := v.(*ssa.Call)
		return ok && g.Common().StaticCallee() != nil && g.Common().StaticCallee().Name() == "GetAndX"
	}
	if isGet(v) {
		return "GetAndX"
	}
	phi, ok := v.(*ssa.Phi)
	if !ok {
		return ""
	}
	seen := false
	for _, e := range phi.Edges {
		if isGet(e) {
			seen = true
			continue
		}
		c, ok := e.(*ssa.Call)
		if !ok || c.Common().StaticCallee() == nil || !strings.HasPrefix(c.Common().StaticCallee().Name(), "New") || !types.Identical(c.Type(), phi.Type()) {
			return ""
		}
	}
	if seen {
		return "GetAndX"
	}
	return ""
}
