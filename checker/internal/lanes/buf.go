package lanes

import (
	"fmt"
	"go/token"
	"go/types"
	"strings"

	"golang.org/x/tools/go/ssa"
)

// Effect classifies what a call does to a byte buffer it receives.
type Effect int

const (
	Unknown  Effect = iota // may write anything, may retain the buffer
	ReadOnly               // only reads the bytes (io.Writer.Write contract)
	Fill                   // overwrites the whole buffer with fresh bytes of a source (io.ReadFull on success)
)

// Analyzer carries the client's hooks.
type Analyzer struct {
	// Leaf supplies the lanes of source values (e.g. len(data)); consulted first.
	Leaf func(f *Frame, v ssa.Value) (Vec, bool)
	// BufCall classifies a call that receives tracked buffer `arg`; for Fill it
	// also names the source id the bytes get.
	BufCall func(call ssa.CallInstruction, arg ssa.Value) (Effect, int)
	// AllocCall (optional) recognises a call whose result 0 is a FRESH []byte of
	// `size` bytes completely filled from source `src` (a helper that allocates
	// and reads: func readN(n int) ([]byte, error)). The extracted result is
	// then a tracked buffer.
	AllocCall func(call ssa.CallInstruction) (size ssa.Value, src int, ok bool)
	// InModule: helpers of the analysed module may be inlined one level.
	InModule func(fn *ssa.Function) bool
	// Why collects the reasons for every ⊤ produced (diagnostics only).
	Why []string

	roots map[rootKey]*rootInfo
	reach map[[2]*ssa.BasicBlock]bool
}

// rootKey: the writers of an allocation are described by closures over the
// frame that owns it, so a helper inlined at two call sites has two entries.
type rootKey struct {
	f    *Frame
	root ssa.Value
}

func (a *Analyzer) why(format string, args ...any) {
	s := fmt.Sprintf(format, args...)
	for _, w := range a.Why {
		if w == s {
			return
		}
	}
	if len(a.Why) < 40 {
		a.Why = append(a.Why, s)
	}
}

func (a *Analyzer) inlinable(fn *ssa.Function) bool {
	return fn != nil && fn.Blocks != nil && a.InModule != nil && a.InModule(fn)
}

// Frame is one function activation: the analysed function itself or a helper
// inlined at Site in Parent.
type Frame struct {
	A      *Analyzer
	Fn     *ssa.Function
	Parent *Frame
	Site   *ssa.Call
	depth  int
	memo   map[ssa.Value]Vec
	kids   map[*ssa.Call]*Frame
}

func (a *Analyzer) Root(fn *ssa.Function) *Frame {
	if a.roots == nil {
		a.roots = map[rootKey]*rootInfo{}
		a.reach = map[[2]*ssa.BasicBlock]bool{}
	}
	return &Frame{A: a, Fn: fn, memo: map[ssa.Value]Vec{}, kids: map[*ssa.Call]*Frame{}}
}

func (f *Frame) child(fn *ssa.Function, site *ssa.Call) *Frame {
	if k := f.kids[site]; k != nil {
		return k
	}
	k := &Frame{A: f.A, Fn: fn, Parent: f, Site: site, depth: f.depth + 1, memo: map[ssa.Value]Vec{}, kids: map[*ssa.Call]*Frame{}}
	f.kids[site] = k
	return k
}

// bound returns the caller-side argument a parameter of an inlined helper is
// bound to.
func (f *Frame) bound(p *ssa.Parameter) (ssa.Value, *Frame) {
	if f.Parent == nil || f.Site == nil {
		return nil, nil
	}
	for i, q := range f.Fn.Params {
		if q == p && i < len(f.Site.Call.Args) {
			return f.Site.Call.Args[i], f.Parent
		}
	}
	return nil, nil
}

// Origin follows parameter bindings of inlined helpers, type changes and full
// re-slices back to the value they denote in the outermost frame possible.
func (f *Frame) Origin(v ssa.Value) ssa.Value {
	for d := 0; d < 8; d++ {
		switch x := v.(type) {
		case *ssa.ChangeType:
			v = x.X
			continue
		case *ssa.Slice:
			if isFullSlice(x) {
				v = x.X
				continue
			}
		case *ssa.Parameter:
			if arg, pf := f.bound(x); pf != nil {
				return pf.Origin(arg)
			}
		}
		break
	}
	return v
}

// Expr renders an SSA value as a short expression (diagnostics and construct
// keys; never a line number).
func (a *Analyzer) Expr(v ssa.Value) string { return expr(v, 0) }

func expr(v ssa.Value, d int) string {
	if d > 6 {
		return "…"
	}
	switch x := v.(type) {
	case *ssa.Const:
		if x.Value == nil {
			return "nil"
		}
		return x.Value.ExactString()
	case *ssa.Parameter:
		return x.Name()
	case *ssa.BinOp:
		return "(" + expr(x.X, d+1) + " " + x.Op.String() + " " + expr(x.Y, d+1) + ")"
	case *ssa.Convert:
		return types.TypeString(x.Type(), func(p *types.Package) string { return p.Name() }) + "(" + expr(x.X, d+1) + ")"
	case *ssa.ChangeType:
		return expr(x.X, d+1)
	case *ssa.UnOp:
		if x.Op == token.MUL {
			return addr(x.X, d+1)
		}
		return x.Op.String() + expr(x.X, d+1)
	case *ssa.Alloc:
		if x.Comment != "" {
			return "<" + x.Comment + ">"
		}
	case *ssa.Slice:
		lo, hi := "", ""
		if x.Low != nil {
			lo = expr(x.Low, d+1)
		}
		if x.High != nil {
			hi = expr(x.High, d+1)
		}
		return expr(x.X, d+1) + "[" + lo + ":" + hi + "]"
	case *ssa.MakeSlice:
		return "make([]T, " + expr(x.Len, d+1) + ")"
	case *ssa.Extract:
		return expr(x.Tuple, d+1) + "#" + fmt.Sprint(x.Index)
	case *ssa.Call:
		cc := x.Common()
		var args []string
		for _, a := range cc.Args {
			args = append(args, expr(a, d+1))
		}
		name := "?"
		if cc.IsInvoke() {
			name = expr(cc.Value, d+1) + "." + cc.Method.Name()
		} else if b, ok := cc.Value.(*ssa.Builtin); ok {
			name = b.Name()
		} else if fn := cc.StaticCallee(); fn != nil {
			name = fn.Name()
			if fn.Pkg != nil && fn.Signature.Recv() == nil {
				name = fn.Pkg.Pkg.Name() + "." + name
			}
		}
		return name + "(" + strings.Join(args, ", ") + ")"
	case *ssa.Phi:
		var es []string
		for _, e := range x.Edges {
			es = append(es, expr(e, d+1))
		}
		return "φ(" + strings.Join(es, ", ") + ")"
	}
	return v.Name()
}

func addr(a ssa.Value, d int) string {
	switch x := a.(type) {
	case *ssa.IndexAddr:
		return expr(x.X, d) + "[" + expr(x.Index, d) + "]"
	case *ssa.FieldAddr:
		st, _ := deref(x.X.Type()).Underlying().(*types.Struct)
		n := "?"
		if st != nil {
			n = st.Field(x.Field).Name()
		}
		return expr(x.X, d) + "." + n
	}
	return "*" + expr(a, d)
}

func deref(t types.Type) types.Type {
	if p, ok := t.Underlying().(*types.Pointer); ok {
		return p.Elem()
	}
	return t
}

// ---------------------------------------------------------------------------
// Regions: constant windows of a fixed-size byte array allocation.

// Open is the length of a window that extends to the (run-time) end of a
// make([]byte, n) buffer.
const Open = -1

// Region is bytes [Off, Off+N) of Root — a fixed-size array allocation or a
// make([]byte, n) — local to frame F. N == Open: up to the end of the buffer.
type Region struct {
	F    *Frame
	Root ssa.Value
	Off  int
	N    int
}

func byteArrayLen(t types.Type) (int, bool) {
	a, ok := deref(t).Underlying().(*types.Array)
	if !ok {
		return 0, false
	}
	b, ok := a.Elem().Underlying().(*types.Basic)
	if !ok || b.Kind() != types.Uint8 || a.Len() > 4096 {
		return 0, false
	}
	return int(a.Len()), true
}

func constIdx(v ssa.Value, def int) (int, bool) {
	if v == nil {
		return def, true
	}
	k, ok := constBig(v)
	if !ok || !k.IsInt64() || k.Int64() < 0 || k.Int64() > 1<<20 {
		return 0, false
	}
	return int(k.Int64()), true
}

// Region resolves a pointer-to-array or slice value to the window it denotes.
func (f *Frame) Region(v ssa.Value) (Region, bool) {
	switch x := v.(type) {
	case *ssa.Alloc:
		if n, ok := byteArrayLen(x.Type()); ok {
			return Region{F: f, Root: x, Off: 0, N: n}, true
		}
	case *ssa.Slice:
		base, ok := f.Region(x.X)
		if !ok {
			return Region{}, false
		}
		lo, ok1 := constIdx(x.Low, 0)
		if base.N == Open {
			if !ok1 || x.Max != nil {
				return Region{}, false
			}
			if x.High == nil {
				return Region{F: base.F, Root: base.Root, Off: base.Off + lo, N: Open}, true
			}
			hi, ok2 := constIdx(x.High, 0)
			if !ok2 || lo > hi {
				return Region{}, false
			}
			return Region{F: base.F, Root: base.Root, Off: base.Off + lo, N: hi - lo}, true
		}
		hi, ok2 := constIdx(x.High, base.N)
		if !ok1 || !ok2 || lo > hi || hi > base.N {
			// hi may legally exceed len up to cap; not modelled
			return Region{}, false
		}
		return Region{F: base.F, Root: base.Root, Off: base.Off + lo, N: hi - lo}, true
	case *ssa.MakeSlice:
		if sl, ok := x.Type().Underlying().(*types.Slice); ok {
			if b, ok := sl.Elem().Underlying().(*types.Basic); ok && b.Kind() == types.Uint8 {
				// make([]byte, K, cap) with a constant length and a run-time capacity
				// (a pre-sized header that the payload is appended to) has K bytes
				if k, isK := constIdx(x.Len, 0); isK && x.Len != nil && k <= 4096 {
					return Region{F: f, Root: x, Off: 0, N: k}, true
				}
				return Region{F: f, Root: x, Off: 0, N: Open}, true
			}
		}
	case *ssa.ChangeType:
		return f.Region(x.X)
	case *ssa.Extract:
		if size, _, ok := f.allocCall(x); ok {
			n := Open
			if k, isK := constIdx(size, 0); isK && size != nil {
				n = k
			}
			return Region{F: f, Root: x, Off: 0, N: n}, true
		}
	case *ssa.Parameter:
		if arg, pf := f.bound(x); pf != nil {
			if !paramReadOnly(x) {
				f.A.why("helper %s may write its buffer parameter %s", f.Fn.Name(), x.Name())
				return Region{}, false
			}
			return pf.Region(arg)
		}
	}
	return Region{}, false
}

// paramReadOnly: every use of a []byte parameter inside the helper only reads it.
func paramReadOnly(p ssa.Value) bool {
	ok := true
	var walk func(v ssa.Value, d int)
	walk = func(v ssa.Value, d int) {
		if d > 4 || v.Referrers() == nil {
			ok = false
			return
		}
		for _, r := range *v.Referrers() {
			switch x := r.(type) {
			case *ssa.DebugRef:
			case *ssa.IndexAddr:
				for _, rr := range *x.Referrers() {
					if u, isLoad := rr.(*ssa.UnOp); isLoad && u.Op == token.MUL {
						continue
					}
					if _, isDbg := rr.(*ssa.DebugRef); isDbg {
						continue
					}
					ok = false
				}
			case *ssa.Slice:
				walk(x, d+1)
			case *ssa.Call:
				cc := x.Common()
				if b, isB := cc.Value.(*ssa.Builtin); isB && (b.Name() == "len" || b.Name() == "cap") {
					continue
				}
				if _, _, isGet := binaryGet(cc); isGet {
					continue
				}
				ok = false
			default:
				ok = false
			}
		}
	}
	walk(p, 0)
	return ok
}

// arrayBytes describes a byte-ARRAY value (not a pointer or slice): the
// whole-array load of a tracked local array, or an array parameter of an
// inlined helper (bound to such a load in the caller). The bytes are those the
// source array held when the value was loaded.
func (f *Frame) arrayBytes(v ssa.Value, d int) (func(i int) Vec, bool) {
	if d > 4 {
		return nil, false
	}
	if _, ok := byteArrayLenOfValue(v.Type()); !ok {
		return nil, false
	}
	switch x := v.(type) {
	case *ssa.ChangeType:
		return f.arrayBytes(x.X, d+1)
	case *ssa.Parameter:
		if arg, pf := f.bound(x); pf != nil {
			return pf.arrayBytes(arg, d+1)
		}
	case *ssa.UnOp:
		if x.Op != token.MUL {
			return nil, false
		}
		reg, ok := f.Region(x.X)
		if !ok || reg.N == Open {
			return nil, false
		}
		return func(i int) Vec { return f.ByteAt(reg, i, x) }, true
	case *ssa.Call:
		// an in-module helper that returns the array by value
		callee := x.Common().StaticCallee()
		if callee == nil || !f.A.inlinable(callee) || f.depth >= 2 || callee.Signature.Results().Len() != 1 {
			return nil, false
		}
		cf := f.child(callee, x)
		var alts []func(i int) Vec
		for _, b := range callee.Blocks {
			ret, ok := b.Instrs[len(b.Instrs)-1].(*ssa.Return)
			if !ok {
				continue
			}
			bytesOf, ok := cf.arrayBytes(ret.Results[0], d+1)
			if !ok {
				return nil, false
			}
			alts = append(alts, bytesOf)
		}
		if len(alts) == 0 {
			return nil, false
		}
		return func(i int) Vec {
			out := alts[0](i)
			for _, a := range alts[1:] {
				if !out.Equal(a(i)) {
					f.A.why("helper %s returns arrays with different contents", callee.Name())
					return TopVec(8)
				}
			}
			return out
		}, true
	}
	return nil, false
}

func byteArrayLenOfValue(t types.Type) (int, bool) {
	a, ok := t.Underlying().(*types.Array)
	if !ok {
		return 0, false
	}
	b, ok := a.Elem().Underlying().(*types.Basic)
	if !ok || b.Kind() != types.Uint8 || a.Len() > 4096 {
		return 0, false
	}
	return int(a.Len()), true
}

// allocCall: ex is result 0 of a call the client classified as an allocating reader.
func (f *Frame) allocCall(ex *ssa.Extract) (ssa.Value, int, bool) {
	if f.A.AllocCall == nil || ex.Index != 0 {
		return nil, 0, false
	}
	call, ok := ex.Tuple.(*ssa.Call)
	if !ok {
		return nil, 0, false
	}
	return f.A.AllocCall(call)
}

type writer struct {
	at     ssa.Instruction
	lo, hi int             // absolute byte range in the root
	val    func(i int) Vec // nil = unknown content
	what   string
	copyOf ssa.Value // copy(window, copyOf): the window receives the bytes of that slice
}

func end(off, n int) int {
	if n == Open {
		return Open
	}
	return off + n
}

func (w *writer) covers(i int) bool { return i >= w.lo && (w.hi == Open || i < w.hi) }

type rootInfo struct {
	escaped string // non-empty: a use that is not modelled; every byte is ⊤
	writers []writer
}

func (a *Analyzer) blockReaches(from, to *ssa.BasicBlock) bool {
	k := [2]*ssa.BasicBlock{from, to}
	if r, ok := a.reach[k]; ok {
		return r
	}
	seen := map[*ssa.BasicBlock]bool{}
	stack := append([]*ssa.BasicBlock(nil), from.Succs...)
	res := false
	for len(stack) > 0 {
		b := stack[len(stack)-1]
		stack = stack[:len(stack)-1]
		if seen[b] {
			continue
		}
		seen[b] = true
		if b == to {
			res = true
			break
		}
		stack = append(stack, b.Succs...)
	}
	a.reach[k] = res
	return res
}

func instrIndex(in ssa.Instruction) int {
	for i, x := range in.Block().Instrs {
		if x == in {
			return i
		}
	}
	return -1
}

// Dominates: a is executed before b on every path that reaches b.
func Dominates(a, b ssa.Instruction) bool {
	if a.Block() == b.Block() {
		return instrIndex(a) < instrIndex(b)
	}
	return a.Block().Dominates(b.Block())
}

// mayPrecede: some path executes a and later b.
func (an *Analyzer) mayPrecede(a, b ssa.Instruction) bool {
	if a.Block() == b.Block() && instrIndex(a) < instrIndex(b) {
		return true
	}
	return an.blockReaches(a.Block(), b.Block())
}

// collect enumerates everything that can write the root allocation.
func (f *Frame) collect(root ssa.Value) *rootInfo {
	if ri := f.A.roots[rootKey{f, root}]; ri != nil {
		return ri
	}
	ri := &rootInfo{}
	f.A.roots[rootKey{f, root}] = ri
	n := Open
	spare := true // may an append to a window that reaches the end of the root write in place?
	if mk, isMk := root.(*ssa.MakeSlice); isMk {
		spare = mk.Cap != mk.Len
		if k, isK := constIdx(mk.Len, 0); isK && mk.Len != nil && k <= 4096 {
			n = k
		}
	} else if ex, isEx := root.(*ssa.Extract); isEx {
		// a fresh buffer returned by an allocating reader: capacity unknown
		if size, _, ok := f.allocCall(ex); ok {
			if k, isK := constIdx(size, 0); isK && size != nil {
				n = k
			}
		}
	} else {
		n, _ = byteArrayLen(root.Type())
		spare = false
	}
	type view struct {
		v      ssa.Value
		off, n int
	}
	escape := func(format string, args ...any) {
		if ri.escaped == "" {
			ri.escaped = fmt.Sprintf(format, args...)
		}
	}
	var visit func(vw view, d int)
	visit = func(vw view, d int) {
		if vw.v.Referrers() == nil || d > 8 {
			escape("use chain too deep")
			return
		}
		for _, r := range *vw.v.Referrers() {
			switch x := r.(type) {
			case *ssa.DebugRef:
			case *ssa.Slice:
				lo, ok1 := constIdx(x.Low, 0)
				if vw.n == Open && ok1 && x.High == nil && x.Max == nil {
					visit(view{x, vw.off + lo, Open}, d+1)
					continue
				}
				hi, ok2 := constIdx(x.High, vw.n)
				if !ok1 || !ok2 || hi < 0 || lo > hi || (vw.n != Open && hi > vw.n) || x.Max != nil {
					escape("sliced with bounds that are not constants within the length: %s", expr(x, 0))
					continue
				}
				visit(view{x, vw.off + lo, hi - lo}, d+1)
			case *ssa.ChangeType:
				visit(view{x, vw.off, vw.n}, d+1)
			case *ssa.IndexAddr:
				idx, isK := constIdx(x.Index, 0)
				for _, rr := range *x.Referrers() {
					switch y := rr.(type) {
					case *ssa.DebugRef:
					case *ssa.UnOp:
						if y.Op != token.MUL {
							escape("address of an element taken: %s", expr(x, 0))
						}
					case *ssa.Store:
						if y.Addr != ssa.Value(x) {
							escape("address of an element stored: %s", expr(x, 0))
							continue
						}
						if !isK || (vw.n != Open && idx >= vw.n) {
							ri.writers = append(ri.writers, writer{at: y, lo: vw.off, hi: end(vw.off, vw.n), what: "store at a non-constant index"})
							continue
						}
						val := y.Val
						ri.writers = append(ri.writers, writer{at: y, lo: vw.off + idx, hi: vw.off + idx + 1,
							val: func(int) Vec { return f.Lanes(val) }, what: "element store"})
					default:
						escape("address of an element escapes: %s", expr(x, 0))
					}
				}
			case *ssa.Store:
				if x.Addr == vw.v {
					if k, isK := x.Val.(*ssa.Const); isK && k.Value == nil {
						ri.writers = append(ri.writers, writer{at: x, lo: vw.off, hi: end(vw.off, vw.n),
							val: func(int) Vec { return ZeroVec(8) }, what: "zeroing store"})
					} else if bytesOf, ok := f.arrayBytes(x.Val, 0); ok && vw.n != Open {
						off := vw.off
						ri.writers = append(ri.writers, writer{at: x, lo: vw.off, hi: end(vw.off, vw.n), what: "whole-array copy",
							val: func(i int) Vec { return bytesOf(i - off) }})
					} else {
						ri.writers = append(ri.writers, writer{at: x, lo: vw.off, hi: end(vw.off, vw.n), what: "whole-array store"})
					}
				} else {
					escape("buffer stored into memory")
				}
			case *ssa.UnOp: // whole-array load
			case *ssa.Return:
			case ssa.CallInstruction:
				cc := x.Common()
				if b, isB := cc.Value.(*ssa.Builtin); isB {
					switch b.Name() {
					case "len", "cap":
					case "append":
						if cc.Args[0] == vw.v {
							// may extend in place into the spare capacity
							if (vw.n == Open && spare) || (vw.n != Open && (n == Open || vw.off+vw.n < n)) {
								lo := vw.off
								if vw.n != Open {
									lo = vw.off + vw.n
								}
								ri.writers = append(ri.writers, writer{at: x, lo: lo, hi: n, what: "append into spare capacity"})
								if c, isCall := x.(*ssa.Call); isCall {
									f.aliasScan(c, ri, 0)
								}
							}
						}
					case "copy":
						if cc.Args[0] == vw.v {
							ri.writers = append(ri.writers, writer{at: x, lo: vw.off, hi: end(vw.off, vw.n), what: "copy into the buffer", copyOf: cc.Args[1]})
						}
					default:
						escape("passed to builtin %s", b.Name())
					}
					continue
				}
				if _, _, isGet := binaryGet(cc); isGet {
					continue
				}
				if _, _, isApp := binaryAppend(cc); isApp && cc.Args[1] == vw.v {
					// like the builtin: may extend in place into the spare capacity
					if (vw.n == Open && spare) || (vw.n != Open && (n == Open || vw.off+vw.n < n)) {
						lo := vw.off
						if vw.n != Open {
							lo = vw.off + vw.n
						}
						ri.writers = append(ri.writers, writer{at: x, lo: lo, hi: n, what: "AppendUint into spare capacity"})
						if c, isCall := x.(*ssa.Call); isCall {
							f.aliasScan(c, ri, 0)
						}
					}
					continue
				}
				if order, bits, isPut := binaryPut(cc); isPut && cc.Args[1] == vw.v {
					if vw.n != Open && vw.n < bits/8 {
						escape("PutUint%d into a %d-byte window", bits, vw.n)
						continue
					}
					val, off, nb := cc.Args[2], vw.off, bits/8
					ri.writers = append(ri.writers, writer{at: x, lo: off, hi: off + nb, what: fmt.Sprintf("PutUint%d", bits),
						val: func(i int) Vec {
							j := i - off // position in the window
							if order == bigEndian {
								j = nb - 1 - j
							}
							l := f.Lanes(val)
							if len(l) != bits {
								return TopVec(8)
							}
							return append(Vec(nil), l[8*j:8*j+8]...)
						}})
					continue
				}
				eff, src := Unknown, 0
				if f.A.BufCall != nil {
					eff, src = f.A.BufCall(x, vw.v)
				}
				if eff == Unknown {
					if callee := cc.StaticCallee(); callee != nil && f.A.inlinable(callee) {
						ro := true
						for i, a := range cc.Args {
							if a == vw.v && (i >= len(callee.Params) || !paramReadOnly(callee.Params[i])) {
								ro = false
							}
						}
						if ro {
							eff = ReadOnly
						}
					}
				}
				switch eff {
				case ReadOnly:
				case Fill:
					off := vw.off
					ri.writers = append(ri.writers, writer{at: x, lo: off, hi: end(off, vw.n), what: "filled by " + calleeString(cc),
						val: func(i int) Vec { return SrcByte(src, i-off) }})
				default:
					escape("passed to %s, whose effect on the buffer is not known", calleeString(cc))
				}
			default:
				escape("used by %T", r)
			}
		}
	}
	visit(view{root, 0, n}, 0)
	return ri
}

func calleeString(cc *ssa.CallCommon) string {
	if cc.IsInvoke() {
		return "method " + cc.Method.Name()
	}
	if fn := cc.StaticCallee(); fn != nil {
		return fn.String()
	}
	return "a dynamic callee"
}

// aliasScan: the result of an append that may have extended the root in place
// aliases it; any mutating use of that result voids the root.
func (f *Frame) aliasScan(v ssa.Value, ri *rootInfo, d int) {
	if v.Referrers() == nil {
		return
	}
	for _, r := range *v.Referrers() {
		if !f.benignSliceUse(v, r) {
			if ri.escaped == "" {
				ri.escaped = "an append result that may alias the buffer is used by " + fmt.Sprintf("%T", r)
			}
			continue
		}
		if c, ok := r.(*ssa.Call); ok && d < 8 {
			if b, isB := c.Common().Value.(*ssa.Builtin); isB && b.Name() == "append" && c.Common().Args[0] == v {
				f.aliasScan(c, ri, d+1)
			}
			if _, _, isApp := binaryAppend(c.Common()); isApp && c.Common().Args[1] == v {
				f.aliasScan(c, ri, d+1)
			}
		}
	}
}

// benignSliceUse: r uses slice value v without writing through it or retaining it.
func (f *Frame) benignSliceUse(v ssa.Value, r ssa.Instruction) bool {
	switch x := r.(type) {
	case *ssa.DebugRef, *ssa.Return:
		return true
	case ssa.CallInstruction:
		cc := x.Common()
		if b, isB := cc.Value.(*ssa.Builtin); isB {
			switch b.Name() {
			case "len", "cap", "append":
				return true
			case "copy":
				return cc.Args[0] != v
			}
			return false
		}
		if _, _, isGet := binaryGet(cc); isGet {
			return true
		}
		if _, _, isApp := binaryAppend(cc); isApp && cc.Args[1] == v {
			return true
		}
		if f.A.BufCall != nil {
			if eff, _ := f.A.BufCall(x, v); eff == ReadOnly {
				return true
			}
		}
		if callee := cc.StaticCallee(); callee != nil && f.A.inlinable(callee) {
			for i, a := range cc.Args {
				if a == v && (i >= len(callee.Params) || !paramReadOnly(callee.Params[i])) {
					return false
				}
			}
			return true
		}
	}
	return false
}

// siteIn maps a program point of frame `from` (or of one of the helpers
// inlined below reg's frame) to the corresponding point in frame `to`.
func siteIn(from, to *Frame, at ssa.Instruction) (ssa.Instruction, bool) {
	for fr := from; fr != nil; fr = fr.Parent {
		if fr == to {
			return at, true
		}
		if fr.Site == nil {
			break
		}
		at = fr.Site
	}
	return nil, false
}

// ByteAt: the lanes byte i of the region holds immediately before `at` (an
// instruction of frame f).
func (f *Frame) ByteAt(reg Region, i int, at ssa.Instruction) Vec {
	if i < 0 || (reg.N != Open && i >= reg.N) {
		return TopVec(8)
	}
	at, ok := siteIn(f, reg.F, at)
	if !ok {
		f.A.why("buffer %s is read outside the frame that owns it", expr(reg.Root, 0))
		return TopVec(8)
	}
	ri := reg.F.collect(reg.Root)
	if ri.escaped != "" {
		f.A.why("buffer %s: %s", expr(reg.Root, 0), ri.escaped)
		return TopVec(8)
	}
	abs := reg.Off + i
	var last *writer
	for k := range ri.writers {
		w := &ri.writers[k]
		if !w.covers(abs) || w.at == at {
			continue
		}
		if Dominates(w.at, at) {
			if last == nil || Dominates(last.at, w.at) {
				last = w
			} else if !Dominates(w.at, last.at) {
				f.A.why("buffer %s byte %d: two writes that are not ordered by dominance", expr(reg.Root, 0), abs)
				return TopVec(8)
			}
			continue
		}
		if f.A.mayPrecede(w.at, at) {
			f.A.why("buffer %s byte %d: a conditional %s may or may not precede the use", expr(reg.Root, 0), abs, w.what)
			return TopVec(8)
		}
	}
	if last == nil {
		if ex, isEx := reg.Root.(*ssa.Extract); isEx {
			if _, src, ok := reg.F.allocCall(ex); ok {
				return SrcByte(src, abs) // filled by the helper that allocated it
			}
		}
		return ZeroVec(8) // allocations are zero-initialised
	}
	if last.val == nil {
		f.A.why("buffer %s byte %d: last written by %s (content unknown)", expr(reg.Root, 0), abs, last.what)
		return TopVec(8)
	}
	v := last.val(abs)
	if len(v) != 8 {
		return TopVec(8)
	}
	return v
}

// ---------------------------------------------------------------------------
// Sequences: the abstract content of a []byte value.

// Elem is one byte with known lanes (Byte != nil) or a whole opaque slice.
type Elem struct {
	Byte Vec
	Tail ssa.Value
}

func (e Elem) IsByte() bool { return e.Byte != nil }

func isFullSlice(x *ssa.Slice) bool {
	if x.Max != nil {
		return false
	}
	if x.Low != nil {
		if k, ok := constBig(x.Low); !ok || k.Sign() != 0 {
			return false
		}
	}
	if x.High != nil {
		c, ok := x.High.(*ssa.Call)
		if !ok {
			return false
		}
		b, isB := c.Common().Value.(*ssa.Builtin)
		if !isB || b.Name() != "len" || c.Common().Args[0] != x.X {
			return false
		}
	}
	_, isSlice := x.X.Type().Underlying().(*types.Slice)
	return isSlice
}

func appendFirstUses(v ssa.Value) int {
	n := 0
	if v.Referrers() == nil {
		return 0
	}
	for _, r := range *v.Referrers() {
		if c, ok := r.(ssa.CallInstruction); ok {
			cc := c.Common()
			if b, isB := cc.Value.(*ssa.Builtin); isB && b.Name() == "append" && cc.Args[0] == v {
				n++
			}
			if _, _, isApp := binaryAppend(cc); isApp && cc.Args[1] == v {
				n++
			}
		}
	}
	return n
}

// Seq is the content of slice value v as seen at instruction `at` of frame f.
// ok=false means the content cannot be described (reason in Analyzer.Why).
func (f *Frame) Seq(v ssa.Value, at ssa.Instruction) ([]Elem, bool) {
	switch x := v.(type) {
	case *ssa.Const:
		if x.Value == nil {
			return nil, true
		}
	case *ssa.ChangeType:
		return f.Seq(x.X, at)
	case *ssa.Parameter:
		if arg, pf := f.bound(x); pf != nil {
			if !paramReadOnly(x) && !f.onlyBenign(x) {
				f.A.why("helper %s may write its slice parameter %s", f.Fn.Name(), x.Name())
				return nil, false
			}
			return pf.Seq(arg, f.Site)
		}
		return []Elem{{Tail: v}}, true
	case *ssa.Slice:
		if isFullSlice(x) {
			return f.Seq(x.X, at)
		}
	case *ssa.Extract:
		if cf, rets, ok := f.tupleReturns(x); ok {
			var out []Elem
			for i, ret := range rets {
				s, ok := cf.Seq(ret.Results[x.Index], ret)
				if !ok {
					return nil, false
				}
				if i == 0 {
					out = s
				} else if !seqEqual(out, s) {
					f.A.why("helper %s returns buffers with different contents", cf.Fn.Name())
					return nil, false
				}
			}
			if !f.onlyBenign(x) {
				f.A.why("%s: the returned buffer is modified or retained afterwards", expr(x, 0))
				return nil, false
			}
			return out, true
		}
	case *ssa.Call:
		cc := x.Common()
		if b, isB := cc.Value.(*ssa.Builtin); isB && b.Name() == "append" {
			return f.seqAppend(x, cc.Args[0], func() ([]Elem, bool) {
				if len(cc.Args) < 2 {
					return nil, true
				}
				return f.Seq(cc.Args[1], x)
			}, at)
		}
		if order, bits, isApp := binaryAppend(cc); isApp {
			return f.seqAppend(x, cc.Args[1], func() ([]Elem, bool) {
				l := f.Lanes(cc.Args[2])
				if len(l) != bits {
					return nil, false
				}
				var out []Elem
				for k := 0; k < bits/8; k++ { // k = position in the output
					j := k
					if order == bigEndian {
						j = bits/8 - 1 - k
					}
					out = append(out, Elem{Byte: append(Vec(nil), l[8*j:8*j+8]...)})
				}
				return out, true
			}, at)
		}
		if callee := cc.StaticCallee(); callee != nil && f.A.inlinable(callee) && f.depth < 2 &&
			callee.Signature.Results().Len() == 1 {
			cf := f.child(callee, x)
			var out []Elem
			first := true
			for _, b := range callee.Blocks {
				ret, ok := b.Instrs[len(b.Instrs)-1].(*ssa.Return)
				if !ok {
					continue
				}
				s, ok := cf.Seq(ret.Results[0], ret)
				if !ok {
					return nil, false
				}
				if first {
					out, first = s, false
				} else if !seqEqual(out, s) {
					f.A.why("helper %s returns buffers with different contents", callee.Name())
					return nil, false
				}
			}
			if !first {
				if !f.onlyBenign(x) {
					f.A.why("%s: the returned buffer is modified or retained afterwards", expr(x, 0))
					return nil, false
				}
				return out, true
			}
		}
	}
	if reg, ok := f.Region(v); ok {
		if reg.N == Open {
			return f.seqDynamic(v, reg, at)
		}
		if reg.N > 64 {
			f.A.why("buffer %s is too large to enumerate", expr(reg.Root, 0))
			return nil, false
		}
		out := make([]Elem, reg.N)
		for i := range out {
			out[i] = Elem{Byte: f.ByteAt(reg, i, at)}
		}
		return out, true
	}
	if _, isSlice := v.Type().Underlying().(*types.Slice); isSlice {
		return []Elem{{Tail: v}}, true
	}
	return nil, false
}

// onlyBenign: every use of slice value v reads it (no element store, no escape).
func (f *Frame) onlyBenign(v ssa.Value) bool {
	if v.Referrers() == nil {
		return true
	}
	for _, r := range *v.Referrers() {
		if sl, ok := r.(*ssa.Slice); ok && isFullSlice(sl) && f.onlyBenign(sl) {
			continue
		}
		if !f.benignSliceUse(v, r) {
			return false
		}
	}
	return true
}

func (f *Frame) seqAppend(call *ssa.Call, base ssa.Value, tail func() ([]Elem, bool), at ssa.Instruction) ([]Elem, bool) {
	if appendFirstUses(base) != 1 {
		f.A.why("%s: the base slice is extended by more than one append (results may share storage)", expr(call, 0))
		return nil, false
	}
	if !f.onlyBenign(call) {
		f.A.why("%s: the append result is written through or escapes before it is used", expr(call, 0))
		return nil, false
	}
	a, ok := f.Seq(base, call)
	if !ok {
		return nil, false
	}
	// if the base is a tracked buffer the result may alias it: the bytes must be
	// the same at the point of use as they were at the append
	if _, isReg := f.Region(base); isReg {
		a2, ok2 := f.Seq(base, at)
		if !ok2 || !seqEqual(a, a2) {
			f.A.why("%s: the base buffer changes between the append and the use", expr(call, 0))
			return nil, false
		}
	}
	b, ok := tail()
	if !ok {
		return nil, false
	}
	return append(append([]Elem(nil), a...), b...), true
}

func seqEqual(a, b []Elem) bool {
	if len(a) != len(b) {
		return false
	}
	for i := range a {
		if a[i].IsByte() != b[i].IsByte() {
			return false
		}
		if a[i].IsByte() {
			if !a[i].Byte.Equal(b[i].Byte) {
				return false
			}
		} else if a[i].Tail != b[i].Tail {
			return false
		}
	}
	return true
}

// seqDynamic describes packet := make([]byte, K+len(S)); packet[i] = …;
// copy(packet[K:], S): K header bytes followed by the bytes of S.
func (f *Frame) seqDynamic(v ssa.Value, reg Region, at ssa.Instruction) ([]Elem, bool) {
	opaque := []Elem{{Tail: v}}
	mk, isMk := reg.Root.(*ssa.MakeSlice)
	if !isMk || reg.Off != 0 || reg.F != f {
		return opaque, true
	}
	add, ok := mk.Len.(*ssa.BinOp)
	if !ok || add.Op != token.ADD {
		return opaque, true
	}
	kv, lv := add.X, add.Y
	if _, isK := constBig(kv); !isK {
		kv, lv = lv, kv
	}
	K, okK := constIdx(kv, 0)
	lc, okL := lv.(*ssa.Call)
	if !okK || kv == nil || !okL || K > 64 {
		return opaque, true
	}
	if b, isB := lc.Common().Value.(*ssa.Builtin); !isB || b.Name() != "len" {
		return opaque, true
	}
	src := f.Origin(lc.Common().Args[0])
	ri := f.collect(mk)
	if ri.escaped != "" {
		f.A.why("buffer %s: %s", expr(mk, 0), ri.escaped)
		return nil, false
	}
	// exactly one writer may touch [K, end): the copy of src into packet[K:]
	var cp *writer
	for k := range ri.writers {
		w := &ri.writers[k]
		if w.hi != Open && w.hi <= K {
			continue
		}
		if !f.A.mayPrecede(w.at, at) {
			continue
		}
		if cp != nil || w.copyOf == nil || w.lo != K || w.hi != Open || f.Origin(w.copyOf) != src || !Dominates(w.at, at) {
			f.A.why("buffer %s: bytes from offset %d are not written by exactly one dominating copy(buf[%d:], %s)", expr(mk, 0), K, K, expr(src, 0))
			return nil, false
		}
		cp = w
	}
	if cp == nil {
		f.A.why("buffer %s: the payload is never copied to offset %d", expr(mk, 0), K)
		return nil, false
	}
	if !f.onlyBenignDyn(mk) {
		f.A.why("buffer %s is retained or passed to a call that is not modelled", expr(mk, 0))
		return nil, false
	}
	out := make([]Elem, 0, K+1)
	for i := 0; i < K; i++ {
		out = append(out, Elem{Byte: f.ByteAt(reg, i, at)})
	}
	tail, ok := f.Seq(cp.copyOf, cp.at)
	if !ok {
		return nil, false
	}
	return append(out, tail...), true
}

// onlyBenignDyn: collect() already classified every use; nothing else to check
// beyond "not escaped".
func (f *Frame) onlyBenignDyn(root ssa.Value) bool { return f.collect(root).escaped == "" }
