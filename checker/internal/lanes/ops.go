package lanes

import (
	"go/token"
	"math/big"
)

// ops.go exports the pure lane-vector transfer functions of lanes.go so that a
// client which evaluates SSA itself (internal/absint) uses exactly the same
// domain operations as Frame.Lanes. Nothing here looks at SSA.

// Binary applies an integer binary operator to two lane vectors of the same
// width. signed says whether the operand type is signed (only matters for >>,
// / and %). why is non-empty when the result had to be ⊤.
func Binary(op token.Token, a, b Vec, signed bool) (out Vec, why string) {
	w := len(a)
	switch op {
	case token.SHL, token.SHR:
		k, ok := b.ConstVal()
		if !ok || !k.IsInt64() || k.Sign() < 0 {
			return TopVec(w), "shift by an amount whose lanes are not constant"
		}
		n := int(k.Int64())
		if n > w {
			n = w
		}
		if op == token.SHL {
			return shl(a, n), ""
		}
		return shr(a, n, signed), ""
	}
	if len(b) != w {
		return TopVec(w), "operands of different widths"
	}
	out = make(Vec, w)
	switch op {
	case token.AND:
		for i := range out {
			out[i] = and1(a[i], b[i])
		}
	case token.OR:
		for i := range out {
			out[i] = or1(a[i], b[i])
		}
	case token.XOR:
		for i := range out {
			out[i] = xor1(a[i], b[i])
		}
	case token.AND_NOT:
		for i := range out {
			out[i] = andNot1(a[i], b[i])
		}
	case token.ADD:
		if ka, ok := a.ConstVal(); ok {
			if kb, ok := b.ConstVal(); ok {
				return ConstVec(new(big.Int).Add(ka, kb), w).Resize(w, false), ""
			}
		}
		out = add(a, b)
		if out.HasTop() && !a.HasTop() && !b.HasTop() {
			why = "addition with overlapping bits (carries are not modelled)"
		}
	case token.SUB:
		ka, ok1 := a.ConstVal()
		kb, ok2 := b.ConstVal()
		if ok1 && ok2 {
			d := new(big.Int).Sub(ka, kb)
			m := new(big.Int).Lsh(big.NewInt(1), uint(w))
			d.Mod(d, m)
			return ConstVec(d, w), ""
		}
		if ok2 && kb.Sign() == 0 {
			return append(Vec(nil), a...), ""
		}
		return TopVec(w), "subtraction of non-constant lanes"
	case token.MUL:
		ka, ok1 := a.ConstVal()
		kb, ok2 := b.ConstVal()
		if ok1 && ok2 {
			d := new(big.Int).Mul(ka, kb)
			m := new(big.Int).Lsh(big.NewInt(1), uint(w))
			d.Mod(d, m)
			return ConstVec(d, w), ""
		}
		if ok2 {
			if n, ok := log2(kb); ok {
				return shl(a, n), ""
			}
		}
		if ok1 {
			if n, ok := log2(ka); ok {
				return shl(b, n), ""
			}
		}
		return TopVec(w), "multiplication is not a bit move"
	case token.QUO, token.REM:
		k, isK := b.ConstVal()
		n, isP := 0, false
		if isK {
			n, isP = log2(k)
		}
		if !isP || (signed && a[w-1].K != Zero) {
			return TopVec(w), "division/remainder is not a bit move here"
		}
		if op == token.QUO {
			return shr(a, n, false), ""
		}
		for i := range out {
			if i < n {
				out[i] = a[i]
			}
		}
	default:
		return TopVec(w), "operator " + op.String() + " is not modelled"
	}
	return out, why
}

// Not is bitwise complement.
func Not(a Vec) Vec {
	out := make(Vec, len(a))
	for i := range out {
		out[i] = xor1(a[i], Bit{K: One})
	}
	return out
}

// SignedVal interprets a constant vector as a two's-complement number when
// signed, else as unsigned.
func (v Vec) SignedVal(signed bool) (*big.Int, bool) {
	k, ok := v.ConstVal()
	if !ok {
		return nil, false
	}
	if signed && len(v) > 0 && v[len(v)-1].K == One {
		k.Sub(k, new(big.Int).Lsh(big.NewInt(1), uint(len(v))))
	}
	return k, true
}

// Compare decides a comparison of two lane vectors when the lanes determine
// it: constants are compared numerically; == / != are also decided when the
// vectors are lane-wise identical (equal) or differ in a lane where both are
// constants (unequal).
func Compare(op token.Token, a, b Vec, signed bool) (val, known bool) {
	ka, ok1 := a.SignedVal(signed)
	kb, ok2 := b.SignedVal(signed)
	if ok1 && ok2 {
		c := ka.Cmp(kb)
		switch op {
		case token.EQL:
			return c == 0, true
		case token.NEQ:
			return c != 0, true
		case token.LSS:
			return c < 0, true
		case token.LEQ:
			return c <= 0, true
		case token.GTR:
			return c > 0, true
		case token.GEQ:
			return c >= 0, true
		}
		return false, false
	}
	if op != token.EQL && op != token.NEQ || len(a) != len(b) {
		return false, false
	}
	same := true
	for i := range a {
		ca, cb := a[i].K == Zero || a[i].K == One, b[i].K == Zero || b[i].K == One
		if ca && cb && a[i].K != b[i].K {
			return op == token.NEQ, true
		}
		if a[i] != b[i] || a[i].K == Top {
			same = false
		}
	}
	if same {
		return op == token.EQL, true
	}
	return false, false
}
