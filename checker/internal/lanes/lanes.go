// Package lanes is the bit-lane abstract domain of DESIGN.md §3 E2, restricted
// to what a framing header needs: for an integer SSA value it says, bit by
// bit, whether the bit is constant 0, constant 1, a named bit of a *source*
// (bit b of byte i of a buffer filled by a read, or bit b of a scalar such as
// len(data)), or unknown (⊤). Every transfer function is exact on this domain;
// no value is ever computed and no path is enumerated. Anything the domain
// does not model is ⊤, and a rule that meets ⊤ must report Undecided.
//
// buf.go adds the byte-buffer side: which lanes each byte of a small fixed
// buffer holds at a program point (element stores, composite literals,
// encoding/binary Put/Get, append chains, one level of in-module helpers).
package lanes

import (
	"fmt"
	"go/constant"
	"go/token"
	"go/types"
	"math/big"
	"strings"

	"golang.org/x/tools/go/ssa"
)

type Kind uint8

const (
	Zero Kind = iota
	One
	Src
	Top
)

// Bit is one lane: for K == Src it is bit B of byte I of source S (I is 0 for
// scalar sources).
type Bit struct {
	K Kind
	S int
	I int
	B int
}

// Vec is indexed by bit position (0 = least significant); len = bit width.
type Vec []Bit

func TopVec(w int) Vec {
	v := make(Vec, w)
	for i := range v {
		v[i] = Bit{K: Top}
	}
	return v
}

func ZeroVec(w int) Vec { return make(Vec, w) }

// ConstVec renders an integer constant in two's complement.
func ConstVec(k *big.Int, w int) Vec {
	x := new(big.Int).Set(k)
	if x.Sign() < 0 {
		x.Add(x, new(big.Int).Lsh(big.NewInt(1), uint(w)))
	}
	v := make(Vec, w)
	for i := 0; i < w; i++ {
		if x.Bit(i) == 1 {
			v[i] = Bit{K: One}
		}
	}
	return v
}

// SrcByte is the 8 lanes of byte i of source s.
func SrcByte(s, i int) Vec {
	v := make(Vec, 8)
	for b := range v {
		v[b] = Bit{K: Src, S: s, I: i, B: b}
	}
	return v
}

func (v Vec) Equal(w Vec) bool {
	if len(v) != len(w) {
		return false
	}
	for i := range v {
		if v[i] != w[i] {
			return false
		}
	}
	return true
}

func (v Vec) HasTop() bool {
	for _, b := range v {
		if b.K == Top {
			return true
		}
	}
	return false
}

// ConstVal returns the value when every lane is constant.
func (v Vec) ConstVal() (*big.Int, bool) {
	x := new(big.Int)
	for i, b := range v {
		switch b.K {
		case One:
			x.SetBit(x, i, 1)
		case Zero:
		default:
			return nil, false
		}
	}
	return x, true
}

// Resize truncates or extends (zero- or sign-extending) to w lanes.
func (v Vec) Resize(w int, signed bool) Vec {
	out := make(Vec, w)
	for i := 0; i < w; i++ {
		switch {
		case i < len(v):
			out[i] = v[i]
		case signed && len(v) > 0:
			out[i] = v[len(v)-1]
		default:
			out[i] = Bit{K: Zero}
		}
	}
	return out
}

func (b Bit) str(name func(Bit) string) string {
	switch b.K {
	case Zero:
		return "0"
	case One:
		return "1"
	case Top:
		return "⊤"
	}
	if name != nil {
		return name(b)
	}
	return fmt.Sprintf("s%d[%d].%d", b.S, b.I, b.B)
}

// String renders most-significant lane first, compressing runs of equal
// constants ("0×47").
func (v Vec) String(name func(Bit) string) string {
	var parts []string
	for i := len(v) - 1; i >= 0; {
		if v[i].K == Src {
			// run of consecutive descending bits of the same source byte
			j := i
			for j-1 >= 0 && v[j-1].K == Src && v[j-1].S == v[i].S && v[j-1].I == v[i].I && v[j-1].B == v[j].B-1 {
				j--
			}
			if j < i {
				parts = append(parts, fmt.Sprintf("%s..%d", v[i].str(name), v[j].B))
			} else {
				parts = append(parts, v[i].str(name))
			}
			i = j - 1
			continue
		}
		j := i
		for j >= 0 && v[j].K == v[i].K {
			j--
		}
		n := i - j
		if n > 2 {
			parts = append(parts, fmt.Sprintf("%s×%d", v[i].str(name), n))
		} else {
			for k := 0; k < n; k++ {
				parts = append(parts, v[i].str(name))
			}
		}
		i = j
	}
	return "[" + strings.Join(parts, " ") + "]"
}

// IntWidth is the bit width of an integer type on the analysed platform
// (linux/amd64: int, uint, uintptr are 64 bits).
func IntWidth(t types.Type) (bits int, signed bool, ok bool) {
	b, isB := t.Underlying().(*types.Basic)
	if !isB {
		return 0, false, false
	}
	switch b.Kind() {
	case types.Int8:
		return 8, true, true
	case types.Int16:
		return 16, true, true
	case types.Int32:
		return 32, true, true
	case types.Int64, types.Int:
		return 64, true, true
	case types.Uint8:
		return 8, false, true
	case types.Uint16:
		return 16, false, true
	case types.Uint32:
		return 32, false, true
	case types.Uint64, types.Uint, types.Uintptr:
		return 64, false, true
	case types.UntypedInt:
		return 64, true, true
	}
	return 0, false, false
}

func constBig(v ssa.Value) (*big.Int, bool) {
	k, ok := v.(*ssa.Const)
	if !ok || k.Value == nil || k.Value.Kind() != constant.Int {
		return nil, false
	}
	return new(big.Int).SetString(k.Value.ExactString(), 10)
}

func and1(a, b Bit) Bit {
	switch {
	case a.K == Zero || b.K == Zero:
		return Bit{K: Zero}
	case a.K == One:
		return b
	case b.K == One:
		return a
	case a.K == Src && a == b:
		return a
	}
	return Bit{K: Top}
}

func or1(a, b Bit) Bit {
	switch {
	case a.K == One || b.K == One:
		return Bit{K: One}
	case a.K == Zero:
		return b
	case b.K == Zero:
		return a
	case a.K == Src && a == b:
		return a
	}
	return Bit{K: Top}
}

func xor1(a, b Bit) Bit {
	switch {
	case a.K == Zero:
		return b
	case b.K == Zero:
		return a
	case a.K == One && b.K == One:
		return Bit{K: Zero}
	case a.K == Src && a == b:
		return Bit{K: Zero}
	}
	return Bit{K: Top}
}

func andNot1(a, b Bit) Bit {
	switch {
	case a.K == Zero || b.K == One:
		return Bit{K: Zero}
	case b.K == Zero:
		return a
	case a.K == Src && a == b:
		return Bit{K: Zero}
	}
	return Bit{K: Top}
}

func shl(v Vec, k int) Vec {
	out := make(Vec, len(v))
	for i := range out {
		if i-k >= 0 {
			out[i] = v[i-k]
		}
	}
	return out
}

func shr(v Vec, k int, signed bool) Vec {
	out := make(Vec, len(v))
	for i := range out {
		switch {
		case i+k < len(v):
			out[i] = v[i+k]
		case signed:
			out[i] = v[len(v)-1]
		}
	}
	return out
}

// add is exact when no position can be 1 on both sides (carry-free ⇒ OR);
// otherwise every lane from the lowest possible carry upwards is ⊤.
func add(a, b Vec) Vec {
	out := make(Vec, len(a))
	carry := false
	for i := range a {
		if carry {
			out[i] = Bit{K: Top}
			continue
		}
		if a[i].K == Zero {
			out[i] = b[i]
		} else if b[i].K == Zero {
			out[i] = a[i]
		} else {
			carry = true
			out[i] = Bit{K: Top}
		}
	}
	return out
}

func log2(k *big.Int) (int, bool) {
	if k.Sign() <= 0 {
		return 0, false
	}
	n := k.BitLen() - 1
	if new(big.Int).Lsh(big.NewInt(1), uint(n)).Cmp(k) != 0 {
		return 0, false
	}
	return n, true
}

func (f *Frame) binop(x *ssa.BinOp) Vec {
	w, signed, ok := IntWidth(x.Type())
	if !ok {
		return nil
	}
	switch x.Op {
	case token.SHL, token.SHR:
		k, isK := constBig(x.Y)
		if !isK || !k.IsInt64() || k.Sign() < 0 {
			f.A.why("%s: shift by a non-constant amount", f.A.Expr(x))
			return TopVec(w)
		}
		n := int(k.Int64())
		if n > w {
			n = w
		}
		a := f.Lanes(x.X)
		if x.Op == token.SHL {
			return shl(a, n)
		}
		return shr(a, n, signed)
	}
	a, b := f.Lanes(x.X), f.Lanes(x.Y)
	if len(a) != w || len(b) != w {
		return TopVec(w)
	}
	out := make(Vec, w)
	switch x.Op {
	case token.AND:
		for i := range out {
			out[i] = and1(a[i], b[i])
		}
	case token.OR:
		for i := range out {
			out[i] = or1(a[i], b[i])
		}
	case token.XOR:
		for i := range out {
			out[i] = xor1(a[i], b[i])
		}
	case token.AND_NOT:
		for i := range out {
			out[i] = andNot1(a[i], b[i])
		}
	case token.ADD:
		out = add(a, b)
		if out.HasTop() && !a.HasTop() && !b.HasTop() {
			f.A.why("%s: addition with overlapping bits (carries are not modelled)", f.A.Expr(x))
		}
	case token.MUL:
		if k, ok := b.ConstVal(); ok {
			if n, ok := log2(k); ok {
				return shl(a, n)
			}
		}
		if k, ok := a.ConstVal(); ok {
			if n, ok := log2(k); ok {
				return shl(b, n)
			}
		}
		f.A.why("%s: multiplication is not a bit move", f.A.Expr(x))
		return TopVec(w)
	case token.QUO, token.REM:
		// x / 2^n and x % 2^n are bit moves only for non-negative x
		k, isK := b.ConstVal()
		n, isP := 0, false
		if isK {
			n, isP = log2(k)
		}
		if !isP || (signed && a[w-1].K != Zero) {
			f.A.why("%s: division/remainder is not a bit move here", f.A.Expr(x))
			return TopVec(w)
		}
		if x.Op == token.QUO {
			return shr(a, n, false)
		}
		for i := range out {
			if i < n {
				out[i] = a[i]
			}
		}
	default:
		f.A.why("%s: operator %s is not modelled", f.A.Expr(x), x.Op)
		return TopVec(w)
	}
	return out
}

// Lanes computes the lane vector of an integer SSA value in this frame. A nil
// result means "not an integer".
func (f *Frame) Lanes(v ssa.Value) Vec {
	if r, ok := f.memo[v]; ok {
		return r
	}
	w, _, isInt := IntWidth(v.Type())
	if !isInt {
		return nil
	}
	f.memo[v] = TopVec(w) // cycle guard (loop φ)
	r := f.lanes1(v, w)
	if len(r) != w {
		r = TopVec(w)
	}
	f.memo[v] = r
	return r
}

func (f *Frame) lanes1(v ssa.Value, w int) Vec {
	if f.A.Leaf != nil {
		if r, ok := f.A.Leaf(f, v); ok {
			return r
		}
	}
	if k, ok := constBig(v); ok {
		return ConstVec(k, w)
	}
	switch x := v.(type) {
	case *ssa.Parameter:
		if arg, pf := f.bound(x); pf != nil {
			return pf.Lanes(arg).Resize(w, false)
		}
		f.A.why("parameter %s has no known lanes", x.Name())
	case *ssa.BinOp:
		return f.binop(x)
	case *ssa.UnOp:
		switch x.Op {
		case token.MUL:
			if ia, ok := x.X.(*ssa.IndexAddr); ok {
				if idx, ok := constBig(ia.Index); ok && idx.IsInt64() {
					if reg, ok := f.Region(ia.X); ok && (reg.N == Open || int(idx.Int64()) < reg.N) && w == 8 {
						return f.ByteAt(reg, int(idx.Int64()), x)
					}
				}
			}
			f.A.why("%s: load from a location that is not a constant index of a tracked buffer", f.A.Expr(x))
		case token.XOR:
			a := f.Lanes(x.X)
			out := make(Vec, w)
			for i := range out {
				out[i] = xor1(a[i], Bit{K: One})
			}
			return out
		}
	case *ssa.Convert:
		sw, ssigned, ok := IntWidth(x.X.Type())
		if !ok {
			break
		}
		a := f.Lanes(x.X)
		if len(a) != sw {
			break
		}
		return a.Resize(w, ssigned)
	case *ssa.ChangeType:
		return f.Lanes(x.X)
	case *ssa.Index:
		// element of a byte-array VALUE (an array parameter of an inlined helper,
		// or a whole-array load of a tracked buffer)
		if idx, ok := constBig(x.Index); ok && idx.IsInt64() && w == 8 {
			if n, isArr := byteArrayLenOfValue(x.X.Type()); isArr && idx.Int64() >= 0 && int(idx.Int64()) < n {
				if bytesOf, ok := f.arrayBytes(x.X, 0); ok {
					return bytesOf(int(idx.Int64()))
				}
			}
		}
		f.A.why("%s: element of an array value that is not a copy of a tracked buffer", f.A.Expr(x))
	case *ssa.Phi:
		var out Vec
		for _, e := range x.Edges {
			a := f.Lanes(e)
			if out == nil {
				out = append(Vec(nil), a...)
				continue
			}
			for i := range out {
				if i >= len(a) || out[i] != a[i] {
					out[i] = Bit{K: Top}
				}
			}
		}
		if out.HasTop() {
			f.A.why("%s: φ of values with different lanes", f.A.Expr(x))
		}
		return out
	case *ssa.Call:
		if order, n, ok := binaryGet(x.Common()); ok && n == w {
			if reg, ok := f.Region(x.Common().Args[1]); ok && (reg.N == Open || reg.N >= n/8) {
				out := make(Vec, 0, w)
				for j := 0; j < n/8; j++ { // j = byte significance, 0 = least
					i := j
					if order == bigEndian {
						i = n/8 - 1 - j
					}
					out = append(out, f.ByteAt(reg, i, x)...)
				}
				return out
			}
			f.A.why("%s: argument is not a tracked buffer", f.A.Expr(x))
			break
		}
		if callee := x.Common().StaticCallee(); callee != nil && f.A.inlinable(callee) && f.depth < 2 &&
			callee.Signature.Results().Len() == 1 {
			cf := f.child(callee, x)
			var out Vec
			for _, b := range callee.Blocks {
				ret, ok := b.Instrs[len(b.Instrs)-1].(*ssa.Return)
				if !ok {
					continue
				}
				a := cf.Lanes(ret.Results[0])
				if out == nil {
					out = append(Vec(nil), a...)
				} else if !out.Equal(a) {
					f.A.why("%s: helper returns values with different lanes", f.A.Expr(x))
					return TopVec(w)
				}
			}
			if out != nil {
				return out
			}
		}
		f.A.why("%s: result of a call that is not modelled", f.A.Expr(x))
	case *ssa.Extract:
		if cf, rets, ok := f.tupleReturns(x); ok {
			var out Vec
			for _, ret := range rets {
				a := cf.Lanes(ret.Results[x.Index])
				if len(a) != w {
					a = a.Resize(w, false)
				}
				if out == nil {
					out = append(Vec(nil), a...)
				} else if !out.Equal(a) {
					f.A.why("%s: helper returns values with different lanes", f.A.Expr(x))
					return TopVec(w)
				}
			}
			if out != nil {
				return out
			}
		}
		f.A.why("%s: result #%d of a call that is not modelled", f.A.Expr(x.Tuple), x.Index)
	default:
		f.A.why("%s: %T is not modelled", f.A.Expr(v), v)
	}
	return TopVec(w)
}

type byteOrder int

const (
	littleEndian byteOrder = iota
	bigEndian
)

func binaryRecv(fn *ssa.Function) (byteOrder, bool) {
	if fn == nil || fn.Pkg == nil || fn.Pkg.Pkg.Path() != "encoding/binary" || fn.Signature.Recv() == nil {
		return 0, false
	}
	nt, ok := fn.Signature.Recv().Type().(*types.Named)
	if !ok {
		return 0, false
	}
	switch nt.Obj().Name() {
	case "bigEndian":
		return bigEndian, true
	case "littleEndian":
		return littleEndian, true
	}
	return 0, false
}

// binaryGet recognises binary.{Big,Little}Endian.UintN(b).
func binaryGet(cc *ssa.CallCommon) (byteOrder, int, bool) {
	fn := cc.StaticCallee()
	o, ok := binaryRecv(fn)
	if !ok || len(cc.Args) != 2 {
		return 0, 0, false
	}
	switch fn.Name() {
	case "Uint16":
		return o, 16, true
	case "Uint32":
		return o, 32, true
	case "Uint64":
		return o, 64, true
	}
	return 0, 0, false
}

// binaryPut recognises binary.{Big,Little}Endian.PutUintN(b, v).
func binaryPut(cc *ssa.CallCommon) (byteOrder, int, bool) {
	fn := cc.StaticCallee()
	o, ok := binaryRecv(fn)
	if !ok || len(cc.Args) != 3 {
		return 0, 0, false
	}
	switch fn.Name() {
	case "PutUint16":
		return o, 16, true
	case "PutUint32":
		return o, 32, true
	case "PutUint64":
		return o, 64, true
	}
	return 0, 0, false
}

// binaryAppend recognises binary.{Big,Little}Endian.AppendUintN(b, v).
func binaryAppend(cc *ssa.CallCommon) (byteOrder, int, bool) {
	fn := cc.StaticCallee()
	o, ok := binaryRecv(fn)
	if !ok || len(cc.Args) != 3 {
		return 0, 0, false
	}
	switch fn.Name() {
	case "AppendUint16":
		return o, 16, true
	case "AppendUint32":
		return o, 32, true
	case "AppendUint64":
		return o, 64, true
	}
	return 0, 0, false
}

// tupleReturns: ex is result #i of a call of an in-module helper that returns
// several values. The returns of the helper whose value #i the caller can
// observe: all of them, except — when the helper's last result is an error and
// every use of ex sits under the caller's `err == nil` edge — the returns that
// carry a certainly non-nil error (fmt.Errorf, errors.New, a concrete error
// value).
func (f *Frame) tupleReturns(ex *ssa.Extract) (*Frame, []*ssa.Return, bool) {
	call, ok := ex.Tuple.(*ssa.Call)
	if !ok {
		return nil, nil, false
	}
	callee := call.Common().StaticCallee()
	if callee == nil || !f.A.inlinable(callee) || f.depth >= 2 {
		return nil, nil, false
	}
	res := callee.Signature.Results()
	n := res.Len()
	if ex.Index >= n {
		return nil, nil, false
	}
	lastIsErr := n >= 2 && ex.Index != n-1 && types.Identical(res.At(n-1).Type(), types.Universe.Lookup("error").Type())
	skipFail := lastIsErr && usesUnderSuccess(ex, call, n-1)
	var rets []*ssa.Return
	for _, b := range callee.Blocks {
		ret, ok := b.Instrs[len(b.Instrs)-1].(*ssa.Return)
		if !ok || len(ret.Results) != n {
			continue
		}
		if skipFail && certainlyError(ret.Results[n-1]) {
			continue
		}
		rets = append(rets, ret)
	}
	if len(rets) == 0 {
		return nil, nil, false
	}
	return f.child(callee, call), rets, true
}

func certainlyError(v ssa.Value) bool {
	switch y := v.(type) {
	case *ssa.MakeInterface:
		return true
	case *ssa.Call:
		if fn := y.Common().StaticCallee(); fn != nil && fn.Pkg != nil {
			switch fn.Pkg.Pkg.Path() + "." + fn.Name() {
			case "fmt.Errorf", "errors.New":
				return true
			}
		}
	}
	return false
}

// usesUnderSuccess: every use of ex lies in a block dominated by the successor
// taken when result #ei of the same call compares equal to nil.
func usesUnderSuccess(ex *ssa.Extract, call *ssa.Call, ei int) bool {
	if call.Referrers() == nil || ex.Referrers() == nil {
		return false
	}
	var succ []*ssa.BasicBlock
	for _, r := range *call.Referrers() {
		ee, ok := r.(*ssa.Extract)
		if !ok || ee.Index != ei || ee.Referrers() == nil {
			continue
		}
		for _, u := range *ee.Referrers() {
			bo, ok := u.(*ssa.BinOp)
			if !ok || (bo.Op != token.EQL && bo.Op != token.NEQ) || bo.Referrers() == nil {
				continue
			}
			other := bo.Y
			if other == ssa.Value(ee) {
				other = bo.X
			}
			if k, isK := other.(*ssa.Const); !isK || k.Value != nil {
				continue
			}
			for _, iu := range *bo.Referrers() {
				iff, ok := iu.(*ssa.If)
				if !ok {
					continue
				}
				d := iff.Block()
				if len(d.Succs) != 2 || d.Succs[0] == d.Succs[1] {
					continue
				}
				s := d.Succs[0]
				if bo.Op == token.NEQ {
					s = d.Succs[1]
				}
				if len(s.Preds) == 1 {
					succ = append(succ, s)
				}
			}
		}
	}
	if len(succ) == 0 {
		return false
	}
	n := 0
	for _, r := range *ex.Referrers() {
		if _, isD := r.(*ssa.DebugRef); isD {
			continue
		}
		under := false
		for _, s := range succ {
			if s.Dominates(r.Block()) {
				under = true
			}
		}
		if !under {
			return false
		}
		n++
	}
	return n > 0
}
