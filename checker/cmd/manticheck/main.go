// manticheck decides Manticore's properties from /repo's current source.
package main

import (
	"flag"
	"fmt"
	"os"
	"strconv"

	"manticheck/internal/load"
	"manticheck/internal/report"
	"manticheck/rules"
)

func main() {
	if len(os.Args) < 2 {
		fmt.Println("usage: manticheck check --property Cxx --tier quick|thorough --repo /repo --verif /verif")
		os.Exit(2)
	}
	switch os.Args[1] {
	case "check":
		os.Exit(check(os.Args[2:]))
	case "layout":
		p, err := load.Load("/repo", load.Mod, nil, true)
		if err != nil {
			fmt.Println(err)
			os.Exit(2)
		}
		rules.LayoutDump(p, os.Args[2], os.Args[3], os.Args[4:])
	case "list":
		for _, id := range rules.IDs() {
			fmt.Println(id)
		}
	default:
		fmt.Println("unknown subcommand", os.Args[1])
		os.Exit(2)
	}
}

func check(args []string) (code int) {
	fs := flag.NewFlagSet("check", flag.ExitOnError)
	prop := fs.String("property", "", "property id")
	tier := fs.String("tier", "quick", "quick|thorough")
	repo := fs.String("repo", "/repo", "repository root")
	verif := fs.String("verif", "/verif", "verif root")
	overlay := fs.String("overlay", os.Getenv("VERIF_OVERLAY"), "go build -overlay JSON file (self-test variants)")
	fs.Parse(args)
	load.OverlayJSON = *overlay
	ck := rules.Get(*prop)
	if ck == nil {
		fmt.Printf("checker broken: no check registered for %q\n", *prop)
		return 2
	}
	seed, _ := strconv.Atoi(os.Getenv("VERIF_SEED"))
	run := report.NewRun(*prop, *tier, seed)
	defer func() {
		if r := recover(); r != nil {
			fmt.Printf("checker broken: internal panic: %v\n", r)
			panic(r)
		}
	}()
	p, err := load.Load(*repo, load.Mod, nil, ck.NeedSSA)
	if err != nil {
		// a tree that does not type-check is the repository's state: violation
		run.Explanation = "loading /repo failed"
		run.Add("load", "packages.Load ./...", "", report.Undecided, err.Error(), nil)
		return run.Finish(*verif)
	}
	if len(p.Pkgs) < 60 {
		run.Add("load", "package count", "", report.Undecided, fmt.Sprintf("only %d module packages loaded, expected >= 60", len(p.Pkgs)), nil)
	}
	run.Extra["packages"] = len(p.Pkgs)
	ck.Run(&rules.Ctx{P: p, R: run, Tier: *tier})
	return run.Finish(*verif)
}
