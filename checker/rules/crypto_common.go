package rules

import (
	"fmt"
	"go/token"
	"sort"
	"strings"

	"golang.org/x/tools/go/ssa"

	"manticheck/internal/flow"
)

// Shared by C01, C02 and C12: anchor resolution, the E5 engine configured with
// the functions that are labels (never expanded), and the path-requirement
// matcher of DESIGN.md Appendix A.

const (
	cryMD4     = "crypto/md4"
	cryNT      = "crypto/nt"
	cryLM      = "crypto/lm"
	cryDCC     = "crypto/dcc"
	cryDCC2    = "crypto/dcc2"
	cryUTF16   = "utils/encoding/utf16"
	cryNTLMv1  = "crypto/ntlmv1"
	cryNTLMv2  = "crypto/ntlmv2"
	cryNTLM    = "network/smb/smb_v10/spnego/ntlm"
	cryRC4     = "crypto/rc4"
	cryCMAC    = "crypto/cmac"
	cryPKCS7   = "crypto/pkcs7"
	cryGPPP    = "crypto/gppp"
	cryTrusted = "go/parser, go/types and the go/ssa builder of x/tools v0.50.0 are faithful to the source"
)

type cry struct {
	*Ctx
	e       *flow.Engine
	opaque  map[*ssa.Function]bool
	anchors []string
	cur     *group         // the rule group being recognised (crypto_sx.go)
	sxSetup func(*flow.Sx) // per-evaluation configuration (field lengths assumed by a rule)
}

// finish records what was analysed.
func (x *cry) finish() {
	sort.Strings(x.anchors)
	x.R.Extra["functions_analysed"] = x.anchors
	x.R.Extra["functions_analysed_count"] = len(x.anchors)
	var labels []string
	for f := range x.opaque {
		if f != nil {
			labels = append(labels, x.e.Name(f))
		}
	}
	sort.Strings(labels)
	x.R.Extra["label_functions_never_expanded"] = labels
	x.R.Extra["engine"] = "internal/flow (E5): provenance sets {source, labels} per def-use path class, one level of in-module helper expansion by summary; parameter-rooted write summaries; package who-writes table"
}

func newCry(c *Ctx) *cry {
	x := &cry{Ctx: c, e: flow.New(c.P), opaque: map[*ssa.Function]bool{}}
	x.e.Opaque = func(fn *ssa.Function) bool { return x.opaque[fn] }
	return x
}

func (x *cry) pos(p token.Pos) string { return x.P.Rel(p) }

// mod resolves an in-module anchor; a missing anchor is Undecided.
func (x *cry) mod(rel, recv, name string) *ssa.Function {
	fn := x.P.Func(rel, recv, name)
	disp := rel + "." + name
	if recv != "" {
		disp = "(*" + rel + "." + recv + ")." + name
	}
	if fn == nil || fn.Blocks == nil {
		x.R.Undecided("anchor", disp, "", "anchor function does not resolve in the current tree")
		return nil
	}
	if !has(x.anchors, disp) {
		x.anchors = append(x.anchors, disp)
	}
	return fn
}

// label makes fn a label (never expanded) and returns its label text.
func (x *cry) label(fn *ssa.Function) string {
	if fn == nil {
		return "<unresolved>"
	}
	x.opaque[fn] = true
	return x.e.Name(fn)
}

// ext resolves a function of a dependency package through the SSA program.
func (x *cry) ext(pkg, name string) *ssa.Function {
	sp := x.P.SSAPkgs[pkg]
	if sp == nil {
		x.R.Undecided("anchor", pkg+"."+name, "", "package is not imported anywhere in the module")
		return nil
	}
	fn := sp.Func(name)
	if fn == nil {
		x.R.Undecided("anchor", pkg+"."+name, "", "function does not resolve")
	}
	return fn
}

func (x *cry) extLabel(pkg, name string) string {
	if fn := x.ext(pkg, name); fn != nil {
		return x.e.Name(fn)
	}
	return pkg + "." + name
}

// ---- path requirements -------------------------------------------------------

// need constrains every def-use path from one source to the sink.
type need struct {
	what  string                 // "password"
	src   func(flow.Source) bool // which origins are this source
	must  []string               // labels on every such path
	allow []string               // further labels a path may carry
	deny  []string               // labels named in the message when met (subset of "not allowed")
	opt   bool                   // the sink need not depend on the source at all
}

func has(ls []string, l string) bool {
	for _, x := range ls {
		if x == l {
			return true
		}
	}
	return false
}

func short(label string) string {
	label = strings.TrimPrefix(label, flow.HelperPrefix)
	if i := strings.LastIndex(label, "/"); i >= 0 {
		return label[i+1:]
	}
	return label
}

func shortAll(ls []string) string {
	var out []string
	for _, l := range ls {
		out = append(out, short(l))
	}
	sort.Strings(out)
	return strings.Join(out, ", ")
}

// others says which origins outside all needs are acceptable.
type others func(flow.Origin) bool

func constsOnly(o flow.Origin) bool {
	return o.Src.Kind == flow.SConst || o.Src.Kind == flow.SZero
}

// judge checks the provenance set against the needs. It returns "" when every
// path satisfies them, else the first violation (deterministic order).
func judge(set flow.Set, needs []need, other others) (bad string, undecided string) {
	seen := make([]int, len(needs))
	for _, o := range set.Sorted() {
		if o.Src.Kind == flow.SUnknown {
			return "", "a def-use path starts at something the engine does not model: " + o.Src.Name
		}
		matched := false
		for i, n := range needs {
			if !n.src(o.Src) {
				continue
			}
			matched = true
			seen[i]++
			ls := o.LabelList()
			for _, m := range n.must {
				if !has(ls, m) {
					return fmt.Sprintf("%s reaches the sink on a path that does not pass %s (path labels: {%s})", n.what, short(m), shortAll(ls)), ""
				}
			}
			for _, l := range ls {
				if strings.HasPrefix(l, flow.HelperPrefix) || has(n.must, l) || has(n.allow, l) || copyLabel(l) {
					continue
				}
				return fmt.Sprintf("%s reaches the sink on a path through %s, which the composition does not allow (path labels: {%s})", n.what, short(l), shortAll(ls)), ""
			}
		}
		if !matched && (other == nil || !other(o)) {
			return fmt.Sprintf("the sink also depends on %s, which is not part of the composition", o.String()), ""
		}
	}
	for i, n := range needs {
		if seen[i] == 0 && !n.opt {
			return fmt.Sprintf("the sink does not depend on %s at all (provenance: %s)", n.what, trim(set.String(), 300)), ""
		}
	}
	return "", ""
}

func trim(s string, n int) string {
	if len(s) > n {
		return s[:n] + "…"
	}
	return s
}

// copyLabel: calls that return the bytes they are given, unchanged and in order
// (a copy, or the concatenation of their arguments): never a transformation of
// the data a composition rule has to name.
func copyLabel(l string) bool {
	return l == "bytes.Clone" || l == "strings.Clone" || strings.HasPrefix(l, "slices.Clone[") || strings.HasPrefix(l, "slices.Concat[")
}

// verdict records one obligation from a judge result.
func (x *cry) verdict(rule, construct string, pos token.Pos, bad, und, okMsg string) bool {
	switch {
	case und != "":
		x.R.Undecided(rule, construct, x.pos(pos), und)
	case bad != "":
		x.R.Fail(rule, construct, x.pos(pos), bad)
	default:
		x.R.OK(rule, construct, x.pos(pos), okMsg)
		return true
	}
	return false
}

func isParam(idx int) func(flow.Source) bool {
	return func(s flow.Source) bool { return s.Kind == flow.SParam && s.Idx == idx }
}

// isField: field `name` (first path component) of the memory parameter idx points to.
func isField(idx int, name string) func(flow.Source) bool {
	return func(s flow.Source) bool {
		if s.Kind != flow.SField || s.Idx != idx {
			return false
		}
		i := strings.Index(s.Name, ".")
		if i < 0 {
			return false
		}
		p := s.Name[i+1:]
		if j := strings.Index(p, "."); j >= 0 {
			p = p[:j]
		}
		return p == name
	}
}

func paramIndex(fn *ssa.Function, p *ssa.Parameter) int {
	for i, q := range fn.Params {
		if q == p {
			return i
		}
	}
	return -1
}

// callsTo lists the calls in fn whose static callee is target.
func callsTo(fn *ssa.Function, target *ssa.Function) []*ssa.Call {
	var out []*ssa.Call
	if fn == nil || target == nil {
		return nil
	}
	for _, b := range fn.Blocks {
		for _, in := range b.Instrs {
			if c, ok := in.(*ssa.Call); ok && c.Common().StaticCallee() == target {
				out = append(out, c)
			}
		}
	}
	return out
}

// invokes lists the interface-method calls named `method` in fn.
func invokes(fn *ssa.Function, method string) []*ssa.Call {
	var out []*ssa.Call
	for _, b := range fn.Blocks {
		for _, in := range b.Instrs {
			if c, ok := in.(*ssa.Call); ok && c.Common().IsInvoke() && c.Common().Method.Name() == method {
				out = append(out, c)
			}
		}
	}
	return out
}

func cryptoSuccessReturns(fn *ssa.Function) []*ssa.Return {
	var out []*ssa.Return
	for _, b := range fn.Blocks {
		if len(b.Instrs) == 0 {
			continue
		}
		r, ok := b.Instrs[len(b.Instrs)-1].(*ssa.Return)
		if !ok {
			continue
		}
		// a return whose last result is a non-nil error constant/value is the failure path
		if n := len(r.Results); n >= 2 {
			if k, isK := r.Results[n-1].(*ssa.Const); !isK || k.Value != nil {
				if isErrorType(r.Results[n-1]) && errDefinitelySet(r.Results[n-1], b) {
					continue
				}
			}
		}
		out = append(out, r)
	}
	return out
}

// errDefinitelySet: the error value returned from block b is known to be
// non-nil — it is freshly constructed (errors.New, fmt.Errorf, a MakeInterface
// of a concrete error) or b is only reached through the true arm of
// `err != nil` on that value. A forwarded callee error (`return f()`) is not:
// that return is also a success path.
func errDefinitelySet(v ssa.Value, b *ssa.BasicBlock) bool {
	switch x := v.(type) {
	case *ssa.MakeInterface:
		return true
	case *ssa.Call:
		if f := x.Common().StaticCallee(); f != nil {
			switch f.String() {
			case "errors.New", "fmt.Errorf":
				return true
			}
		}
	case *ssa.Global:
		return true
	case *ssa.UnOp:
		if _, ok := x.X.(*ssa.Global); ok {
			return true // sentinel error variable
		}
	}
	for y := b; y != nil; y = y.Idom() {
		d := y.Idom()
		if d == nil || len(y.Preds) != 1 || y.Preds[0] != d {
			continue
		}
		iff, ok := d.Instrs[len(d.Instrs)-1].(*ssa.If)
		if !ok {
			continue
		}
		bo, ok := iff.Cond.(*ssa.BinOp)
		if !ok {
			continue
		}
		isNilK := func(k ssa.Value) bool { c, ok := k.(*ssa.Const); return ok && c.Value == nil }
		var other ssa.Value
		if isNilK(bo.Y) {
			other = bo.X
		} else if isNilK(bo.X) {
			other = bo.Y
		} else {
			continue
		}
		if other != v {
			continue
		}
		if (bo.Op == token.NEQ && d.Succs[0] == y) || (bo.Op == token.EQL && d.Succs[1] == y) {
			return true
		}
	}
	return false
}

func isErrorType(v ssa.Value) bool {
	return v.Type().String() == "error"
}

// tupleResult: value v is result #i of a call to callee.
func tupleResult(v ssa.Value, callee *ssa.Function) (*ssa.Call, int, bool) {
	v = flow.Strip(v)
	if ex, ok := v.(*ssa.Extract); ok {
		if c, ok := ex.Tuple.(*ssa.Call); ok && c.Common().StaticCallee() == callee {
			return c, ex.Index, true
		}
		return nil, 0, false
	}
	if c, ok := v.(*ssa.Call); ok && c.Common().StaticCallee() == callee {
		return c, 0, true
	}
	return nil, 0, false
}

func hexOf(b []byte) string {
	var sb strings.Builder
	for i, x := range b {
		if i > 0 {
			sb.WriteByte(' ')
		}
		fmt.Fprintf(&sb, "%02x", x)
	}
	return sb.String()
}
