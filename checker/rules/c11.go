package rules

import (
	"fmt"
	"go/constant"
	"go/token"
	"go/types"
	"math/big"
	"sort"
	"strings"

	"golang.org/x/tools/go/ssa"
	"golang.org/x/tools/go/ssa/ssautil"

	"manticheck/internal/lanes"
	"manticheck/internal/lin"
	"manticheck/internal/prove"
	"manticheck/internal/report"
)

// C11 — NBT session framing (DESIGN.md §4 C11; Appendix A rows C11.a/C11.b;
// Appendix B "NBT session header": TYPE 0/1, FLAGS 1/1 (bit 0 = length bit 16),
// LENGTH 2/2 big-endian).

func init() { register(&Check{ID: "C11", NeedSSA: true, Run: runC11}) }

const (
	c11PkgNBT       = "network/netbios/nbt"
	c11PkgNetbios   = "network/netbios"
	c11PkgTransport = "network/smb/smb_v10/transport"

	c11R1 = "R1-lanes"
	c11R2 = "R2-refusal"
	c11R3 = "R3-io"
	c11R4 = "R4-type"

	c11LenBits = 17 // RFC 1002 §4.3.1: 16-bit LENGTH + the E bit of FLAGS
	c11HdrLen  = 4
)

// lane sources
const (
	c11SrcLen = 100 // bits of len(data) in Send
	// in Receive, source k is the buffer filled by the k-th read of the connection
)

type c11 struct {
	*Ctx
	w      *prove.World
	tname  *types.TypeName // NBTTransport
	connFs map[int]bool    // indices of the connection field(s)
	sessK  *big.Int        // value of netbios.SESSION_MESSAGE
	sessNm string

	sentinels map[*ssa.Global]bool
	allFns    []*ssa.Function

	touchDepth int
}

func runC11(c *Ctx) {
	p, r := c.P, c.R
	r.Explanation = "C11 NBT session framing, decided statically on go/ssa of (*NBTTransport).Send and (*NBTTransport).Receive; no Manticore code is executed. " +
		"R1-lanes (exact bit provenance, E2 domain: constants, zero/sign-extending conversions, truncations, <<k, >>k, &, |, ^, &^, carry-free +, *2^k, /2^k, %2^k, byte element stores, composite literals, append chains, binary.{Big,Little}Endian.PutUintN/UintN/AppendUintN, in-module helpers taking or returning slices, or [N]byte arrays by value; anything else is ⊤ ⇒ Undecided): " +
		"in Send the bytes that reach conn.Write are frame[0]=SESSION_MESSAGE, frame[1]=0000000·len(data)[16], frame[2]=len(data)[15..8], frame[3]=len(data)[7..0]; in Receive the size of the payload buffer has bit 16 = header[1].0, bits 15..8 = header[2], bits 7..0 = header[3] and every other bit 0. " +
		"R2-refusal (E1 prover): at the first conn.Write the dominating guards entail len(data) <= 2^k-1, k = number of low bits of len(data) the header carries (so narrowing is lossless; with R1, k=17 and the bound is 0x1FFFF), and every return of Send that is not preceded by a Write carries a certainly non-nil error (errors.New / fmt.Errorf / a boxed concrete value / a sentinel: a module-level error variable assigned exactly once, in its package initialiser, from such a value / an in-module constructor all of whose returns are such values). " +
		"R3-io: every use of the connection in Receive is io.ReadFull/io.ReadAtLeast(…, len(buf)), directly or through an in-module wrapper that performs exactly one such read — into its buffer parameter, or into a make([]byte, n) it allocates for its size parameter and returns — and reports a nil error exactly when that read succeeded; each read's error is tested; the header read fills exactly 4 bytes; the payload read is dominated by the header read's success edge and fills make([]byte, length) with exactly the decoded length; every return with a possibly-nil error returns that very buffer and is dominated by the success edge of all reads (or propagates the last read's own error). In Send every use of the connection is a Write and the Write arguments, concatenated, are exactly 4 header bytes followed by the caller's data — in ONE Write call, or each further Write is dominated by the success edge of the previous one. " +
		"R4-type: frame[0] is the constant netbios.SESSION_MESSAGE; in Receive the payload allocation is dominated by the header[0]==SESSION_MESSAGE edge. " +
		"Delegation: when Send / Receive only hand the connection (or the transport itself) to ONE in-module function — writeSessionMessage(io.Writer, data) / readSessionMessage(io.Reader), a method such as n.sendFrame(data) — that function is analysed in their place (two levels), its io.Reader / io.Writer parameter standing for the connection; the guards that dominate the hand-over count with those in the helper (the payload is the same slice), a return of Send that follows the hand-over must propagate or test the helper's error, and a return of Receive must yield the helper's buffer with its error. A helper whose only use of the connection is one Write of its buffer parameter is a write wrapper. COMPLETENESS BEFORE VERDICT: when the connection flows into in-module code that is none of these (a frame built in Send and handed to a looping writer, several helpers), every clause of that direction is reported NOT DECIDED (discharged with a note) — a helper that HAS the shape of a read wrapper but breaks the io.ReadFull contract (bare Read, swallowed error, partial buffer) is still reported, and so is any use outside the module (bufio.NewReader …). " +
		"NOT decided: behaviour under arbitrary TCP segmentation and under a connection cut mid-frame is IMPLIED by R3 through the io.ReadFull contract (trusted, see assumptions) and is not explored; concurrent Send calls on one transport; what the peer does with a frame; Connect/Close; whether net.Conn.Write itself is atomic; the count returned by Send."
	r.Assumptions = []string{
		"go/parser, go/types and the go/ssa builder of x/tools v0.50.0 are faithful to the source",
		"io.ReadFull(r, buf) / io.ReadAtLeast(r, buf, len(buf)) contract: err == nil iff exactly len(buf) bytes were read into buf, whatever the segmentation of the stream; on a stream that ends early err != nil (io.EOF / io.ErrUnexpectedEOF). Behaviour under arbitrary TCP segmentation is implied by this contract, not explored",
		"io.Writer contract for net.Conn.Write: it returns a non-nil error when fewer than len(p) bytes were written, does not modify or retain p, and one Write call delivers its bytes contiguously and in order",
		"make([]byte, n) zero-initialises; allocations are zero-initialised; int is 64 bits (linux/amd64); len(x) <= 2^48",
		"SPEC table (RFC 1002 §4.3.1, DESIGN Appendix B): TYPE at 0 (1 byte), FLAGS at 1 (bit 0 = length bit 16, bits 7..1 zero), LENGTH at 2 (2 bytes, big-endian); SESSION_MESSAGE is the constant declared in network/netbios/session.go (its numeric value is not compared with the RFC)",
		"the E1 prover of internal/prove (dominating branch conditions, Fourier–Motzkin) is sound",
	}
	x := &c11{Ctx: c, connFs: map[int]bool{}, sentinels: map[*ssa.Global]bool{}}

	// ---- anchors -------------------------------------------------------
	send := p.Func(c11PkgNBT, "NBTTransport", "Send")
	recv := p.Func(c11PkgNBT, "NBTTransport", "Receive")
	if send == nil || send.Blocks == nil {
		r.Undecided("anchor", c11PkgNBT+".(*NBTTransport).Send", "", "anchor function does not resolve")
	}
	if recv == nil || recv.Blocks == nil {
		r.Undecided("anchor", c11PkgNBT+".(*NBTTransport).Receive", "", "anchor function does not resolve")
	}
	if nb := p.Pkg(c11PkgNetbios); nb != nil {
		if k, ok := nb.Types.Scope().Lookup("SESSION_MESSAGE").(*types.Const); ok && k.Val().Kind() == constant.Int {
			x.sessK, _ = new(big.Int).SetString(k.Val().ExactString(), 10)
			x.sessNm = "netbios.SESSION_MESSAGE"
			r.OK("anchor", c11PkgNetbios+".SESSION_MESSAGE", p.Rel(k.Pos()), "constant resolves, value "+k.Val().ExactString())
		}
	}
	if x.sessK == nil {
		r.Undecided("anchor", c11PkgNetbios+".SESSION_MESSAGE", "", "constant does not resolve")
	}
	if np := p.Pkg(c11PkgNBT); np != nil {
		x.tname, _ = np.Types.Scope().Lookup("NBTTransport").(*types.TypeName)
	}
	if x.tname != nil {
		if st, ok := x.tname.Type().Underlying().(*types.Struct); ok {
			for i := 0; i < st.NumFields(); i++ {
				if c11IsConn(st.Field(i).Type()) {
					x.connFs[i] = true
				}
			}
		}
	}
	if len(x.connFs) == 0 {
		r.Undecided("anchor", c11PkgNBT+".NBTTransport: connection field", "", "no field of an interface type with Read and Write methods")
	} else {
		r.OK("anchor", c11PkgNBT+".NBTTransport: connection field", p.Rel(x.tname.Pos()), fmt.Sprintf("%d field(s) of a Read+Write interface type", len(x.connFs)))
	}
	// the SMB transport interface must be served by *NBTTransport (transport.go)
	if tp := p.Pkg(c11PkgTransport); tp != nil && x.tname != nil {
		if ti, ok := tp.Types.Scope().Lookup("Transport").(*types.TypeName); ok {
			if it, ok := ti.Type().Underlying().(*types.Interface); ok {
				if types.Implements(types.NewPointer(x.tname.Type()), it) {
					r.OK("anchor", c11PkgTransport+".Transport is implemented by *nbt.NBTTransport", p.Rel(ti.Pos()), "types.Implements")
				} else {
					r.Undecided("anchor", c11PkgTransport+".Transport is implemented by *nbt.NBTTransport", p.Rel(ti.Pos()), "*NBTTransport no longer implements transport.Transport")
				}
				// other in-module implementations are not analysed: say so
				var others []string
				for _, pk := range p.Pkgs {
					sc := pk.Types.Scope()
					for _, n := range sc.Names() {
						tn, ok := sc.Lookup(n).(*types.TypeName)
						if !ok || tn == x.tname || tn == ti || tn.IsAlias() {
							continue
						}
						if _, isI := tn.Type().Underlying().(*types.Interface); isI {
							continue
						}
						if types.Implements(types.NewPointer(tn.Type()), it) || types.Implements(tn.Type(), it) {
							others = append(others, pk.PkgPath+"."+n)
						}
					}
				}
				r.Extra["other_transport_implementations_not_analysed"] = others
			}
		}
	}
	r.Floor("anchor", 3)
	if send == nil || recv == nil || send.Blocks == nil || recv.Blocks == nil || x.sessK == nil || len(x.connFs) == 0 {
		return
	}
	x.w = prove.NewWorld(p)
	r.Extra["spec_table"] = map[string]string{"TYPE": "offset 0, 1 byte, = netbios.SESSION_MESSAGE", "FLAGS": "offset 1, 1 byte, bit 0 = length bit 16, bits 7..1 = 0",
		"LENGTH": "offset 2, 2 bytes, big-endian, length bits 15..0", "max payload": "0x1FFFF"}
	r.Extra["functions_analysed"] = []string{p.FuncName(send), p.FuncName(recv)}

	c.guard(c11R3, p.FuncName(send)+": analysis", p.Rel(send.Pos()), func() { x.send(send) })
	c.guard(c11R3, p.FuncName(recv)+": analysis", p.Rel(recv.Pos()), func() { x.receive(recv) })

	// instance floors confirmed by reading today's tree
	r.Floor(c11R1, 7)  // Send frame[1..3]; Receive length bit 16, bits 15..8, bits 7..0, bits >= 17
	r.Floor(c11R2, 3)  // len(data) bound at Write; 0x1FFFF not refused; returns that bypass the Write carry an error
	r.Floor(c11R3, 11) // Send: uses, contiguous frame; Receive: uses, 2×(ReadFull, error tested), 4-byte header, payload under header success, make(length), success return
	r.Floor(c11R4, 2)
}

func c11IsConn(t types.Type) bool {
	it, ok := t.Underlying().(*types.Interface)
	if !ok {
		return false
	}
	ms := types.NewMethodSet(t)
	return it != nil && ms.Lookup(nil, "Read") != nil && ms.Lookup(nil, "Write") != nil
}

// ---------------------------------------------------------------------------
// connection uses

type c11Use struct {
	call ssa.CallInstruction
	kind string // write | readfull | readatleast | read | other
	buf  ssa.Value
	desc string
	// alloc: the read is made by a helper that allocates the buffer itself,
	// make([]byte, size), fills it completely and returns it as result 0
	alloc bool
	size  ssa.Value
	// helper: (kind other) the connection is handed to this in-module function,
	// which none of the wrapper summaries describes
	helper *ssa.Function
}

// connUses enumerates every use of the transport's connection in fn.
func (x *c11) connUses(fn *ssa.Function) []c11Use { return x.connUsesIn(fn, false, 0) }

// readWrapper: h is an in-module helper that performs exactly one full read
// (io.ReadFull, or io.ReadAtLeast(r, buf, len(buf))) of the connection — the
// transport's field, or an io.Reader-like parameter — into one of its []byte
// parameters, and whose error result is nil exactly when that read succeeded:
// every return propagates the read's own error, or reports a certain error
// under the read's failure edge / before the read, or returns nil under its
// success edge. Returns the index of the buffer parameter.
func (x *c11) readWrapper(h *ssa.Function, depth int) (int, bool) {
	i, ok, _ := x.readWrapperD(h, depth)
	return i, ok
}

// readWrapperD is readWrapper with a diagnosis: defect != "" means h HAS the
// shape of a read wrapper (its one use of the connection is a read into its
// buffer parameter) but breaks the contract — a bare Read, a minimum that is
// not len(buf), a return that reports success although the read failed.
func (x *c11) readWrapperD(h *ssa.Function, depth int) (idx int, ok bool, defect string) {
	if h == nil || h.Blocks == nil || !x.P.InModule(h) || depth > 1 {
		return 0, false, ""
	}
	res := h.Signature.Results()
	if res.Len() < 1 || res.Len() > 2 || types.TypeString(res.At(res.Len()-1).Type(), nil) != "error" {
		return 0, false, ""
	}
	uses := x.connUsesIn(h, true, depth+1)
	if len(uses) != 1 || uses[0].call == nil {
		return 0, false, ""
	}
	u := uses[0]
	switch u.kind {
	case "readfull", "readatleast", "read":
	default:
		return 0, false, ""
	}
	bufIdx := -1
	for i, q := range h.Params {
		if ssa.Value(q) == u.buf {
			bufIdx = i
		}
	}
	if bufIdx < 0 {
		return 0, false, ""
	}
	if res.Len() == 2 && prove.IsByteSeq(res.At(0).Type()) {
		return 0, false, "" // result 0 is a buffer: that is the allocating form
	}
	switch u.kind {
	case "read":
		return 0, false, "it fills its buffer with a bare Read, which may return after any prefix of the requested bytes"
	case "readatleast":
		okMin := false
		if args := u.call.Common().Args; len(args) == 3 {
			if c, ok := args[2].(*ssa.Call); ok {
				if b, isB := c.Common().Value.(*ssa.Builtin); isB && b.Name() == "len" && c.Common().Args[0] == u.buf {
					okMin = true
				}
			}
		}
		if !okMin {
			return 0, false, "io.ReadAtLeast with a minimum that is not len(buf)"
		}
	}
	succ, fail, errV := c11ErrEdges(u.call)
	for _, b := range c11RetBlocks(h) {
		ret, ok := b.Instrs[len(b.Instrs)-1].(*ssa.Return)
		if !ok {
			continue
		}
		ev := c11Results(ret)[len(c11Results(ret))-1]
		k, isNil := ev.(*ssa.Const)
		isNil = isNil && k.Value == nil
		switch {
		case errV != nil && ev == errV && lanes.Dominates(u.call, ret):
		case !lanes.Dominates(u.call, ret) && x.errAt(ev, b):
		case c11Under(fail, b) && x.errAt(ev, b):
		case c11Under(succ, b) && isNil:
		default:
			return 0, false, "a return of the helper may report success although its read failed or was short"
		}
	}
	return bufIdx, true, ""
}

// writeWrapper: h is an in-module helper whose only use of the connection —
// the transport's field, or an io.Writer-like parameter — is exactly one Write
// of one of its []byte parameters, unmodified, and which does not write that
// parameter itself. Returns the index of the buffer parameter. (What h does
// with the result of the Write is the caller's business: c11ErrEdges looks at
// the error h returns.)
func (x *c11) writeWrapper(h *ssa.Function, depth int) (int, bool) {
	if h == nil || h.Blocks == nil || !x.P.InModule(h) || depth > 1 {
		return 0, false
	}
	uses := x.connUsesIn(h, true, depth+1)
	if len(uses) != 1 || uses[0].call == nil || uses[0].kind != "write" || uses[0].desc != "" {
		return 0, false
	}
	u := uses[0]
	bufIdx := -1
	for i, q := range h.Params {
		if ssa.Value(q) == c11FullView(u.buf) {
			bufIdx = i
		}
	}
	if bufIdx < 0 || !c11ParamOnlyRead(h.Params[bufIdx]) {
		return 0, false
	}
	// the Write must happen on every path that reports success
	res := h.Signature.Results()
	if res.Len() == 0 || types.TypeString(res.At(res.Len()-1).Type(), nil) != "error" {
		return 0, false
	}
	for _, b := range c11RetBlocks(h) {
		ret, ok := b.Instrs[len(b.Instrs)-1].(*ssa.Return)
		if !ok {
			continue
		}
		if !lanes.Dominates(u.call, ret) && !x.errAt(c11Results(ret)[len(c11Results(ret))-1], ret.Block()) {
			return 0, false
		}
	}
	return bufIdx, true
}

// readDefect: h has the shape of a read wrapper or of an allocating reader but
// breaks its contract (positively observed inside h).
func (x *c11) readDefect(h *ssa.Function, depth int) string {
	if _, _, d := x.readWrapperD(h, depth); d != "" {
		return d
	}
	if _, _, d := x.allocReaderD(h, depth); d != "" {
		return d
	}
	return ""
}

// c11ParamOnlyRead: the []byte parameter is only read (len, element loads,
// re-slices that are only read, passed to Write).
func c11ParamOnlyRead(p ssa.Value) bool {
	ok := true
	var walk func(v ssa.Value, d int)
	walk = func(v ssa.Value, d int) {
		if d > 4 || v.Referrers() == nil {
			ok = false
			return
		}
		for _, r := range *v.Referrers() {
			switch y := r.(type) {
			case *ssa.DebugRef:
			case *ssa.Slice:
				walk(y, d+1)
			case *ssa.IndexAddr:
				for _, rr := range *y.Referrers() {
					if u, isLd := rr.(*ssa.UnOp); isLd && u.Op == token.MUL {
						continue
					}
					if _, isDbg := rr.(*ssa.DebugRef); isDbg {
						continue
					}
					ok = false
				}
			case ssa.CallInstruction:
				cc := y.Common()
				if b, isB := cc.Value.(*ssa.Builtin); isB && (b.Name() == "len" || b.Name() == "cap") {
					continue
				}
				if cc.IsInvoke() && cc.Method.Name() == "Write" {
					continue
				}
				ok = false
			default:
				ok = false
			}
		}
	}
	walk(p, 0)
	return ok
}

// touchesConn: fn (a method of the transport) uses the connection — reads,
// writes, hands it on — in a way other than closing it, setting deadlines or
// comparing it with nil, directly or through a further method of the transport.
func (x *c11) touchesConn(fn *ssa.Function, d int) bool {
	if fn == nil || fn.Blocks == nil || x.touchDepth > 2 {
		return false
	}
	x.touchDepth++
	defer func() { x.touchDepth-- }()
	return len(x.connUsesIn(fn, false, 2)) > 0
}

// allocReader: h is an in-module helper func(…, n int, …) ([]byte, error) that
// allocates make([]byte, n), fills it with exactly one full read of the
// connection, and returns that buffer with a nil error exactly when the read
// succeeded (any other return carries a certain error or the read's own).
// Returns the index of the size parameter.
func (x *c11) allocReader(h *ssa.Function, depth int) (int, bool) {
	i, ok, _ := x.allocReaderD(h, depth)
	return i, ok
}

// allocReaderD is allocReader with a diagnosis (see readWrapperD).
func (x *c11) allocReaderD(h *ssa.Function, depth int) (idx int, ok bool, defect string) {
	if h == nil || h.Blocks == nil || !x.P.InModule(h) || depth > 1 {
		return 0, false, ""
	}
	res := h.Signature.Results()
	if res.Len() != 2 || !prove.IsByteSeq(res.At(0).Type()) || types.TypeString(res.At(1).Type(), nil) != "error" {
		return 0, false, ""
	}
	uses := x.connUsesIn(h, true, depth+1)
	if len(uses) != 1 || uses[0].call == nil || uses[0].alloc {
		return 0, false, ""
	}
	u := uses[0]
	switch u.kind {
	case "readfull", "readatleast", "read":
	default:
		return 0, false, ""
	}
	mk, ok := c11FullView(u.buf).(*ssa.MakeSlice)
	if !ok || (mk.Cap != nil && mk.Cap != mk.Len) {
		return 0, false, ""
	}
	sizeIdx := -1
	sz := mk.Len
	for {
		cv, isCv := sz.(*ssa.Convert)
		if !isCv {
			break
		}
		sz = cv.X
	}
	for i, q := range h.Params {
		if ssa.Value(q) == sz {
			if bt, ok := q.Type().Underlying().(*types.Basic); ok && bt.Kind() == types.Int {
				sizeIdx = i
			}
		}
	}
	if sizeIdx < 0 {
		return 0, false, ""
	}
	// from here on h has the shape of an allocating reader
	if u.kind != "readfull" {
		return 0, false, "it fills the buffer it allocates with " + map[string]string{"read": "a bare Read, which may return after any prefix of the requested bytes", "readatleast": "io.ReadAtLeast"}[u.kind]
	}
	// the buffer must not be written by anything but the read
	for _, r := range *mk.Referrers() {
		switch y := r.(type) {
		case *ssa.Return, *ssa.DebugRef:
		case ssa.CallInstruction:
			if y != u.call {
				if b, isB := y.Common().Value.(*ssa.Builtin); !isB || b.Name() != "len" {
					return 0, false, ""
				}
			}
		case *ssa.Slice:
			if c11FullView(y) != ssa.Value(mk) {
				// a proper sub-slice: only a defect if it is what gets returned
				for _, rr := range *y.Referrers() {
					if _, isRet := rr.(*ssa.Return); isRet {
						return 0, false, "it returns a sub-slice of the buffer it read into (a partial buffer when the stream ends inside it)"
					}
				}
				return 0, false, ""
			}
		default:
			return 0, false, ""
		}
	}
	succ, fail, errV := c11ErrEdges(u.call)
	nsucc := 0
	for _, b := range c11RetBlocks(h) {
		ret, ok := b.Instrs[len(b.Instrs)-1].(*ssa.Return)
		if !ok {
			continue
		}
		ev := c11Results(ret)[1]
		k, isNil := ev.(*ssa.Const)
		isNil = isNil && k.Value == nil
		switch {
		case c11Under(succ, b) && isNil && c11FullView(c11Results(ret)[0]) == ssa.Value(mk):
			nsucc++
		case errV != nil && ev == errV && lanes.Dominates(u.call, ret) && c11Under(fail, b):
		case !lanes.Dominates(u.call, ret) && x.errAt(ev, b):
		case c11Under(fail, b) && x.errAt(ev, b):
		default:
			return 0, false, "a return of the helper may report success although its read failed or was short"
		}
	}
	if nsucc == 0 {
		return 0, false, "no return of the helper yields the buffer it read under the success edge of the read"
	}
	return sizeIdx, true, ""
}

// c11FullView strips full re-slices buf[:] / buf[0:len(buf)].
func c11FullView(v ssa.Value) ssa.Value {
	for d := 0; d < 4; d++ {
		sl, ok := v.(*ssa.Slice)
		if !ok || sl.Max != nil {
			return v
		}
		if sl.Low != nil {
			if k, isK := sl.Low.(*ssa.Const); !isK || k.Value == nil || k.Value.ExactString() != "0" {
				return v
			}
		}
		if sl.High != nil {
			c, ok := sl.High.(*ssa.Call)
			if !ok {
				return v
			}
			b, isB := c.Common().Value.(*ssa.Builtin)
			if !isB || b.Name() != "len" || c.Common().Args[0] != sl.X {
				return v
			}
		}
		v = sl.X
	}
	return v
}

func (x *c11) connUsesIn(fn *ssa.Function, wrapper bool, depth int) []c11Use {
	derived := map[ssa.Value]bool{}
	var work []ssa.Value
	if wrapper {
		// an io.Reader- / io.Writer-like parameter stands for the connection
		for _, q := range fn.Params {
			if it, ok := q.Type().Underlying().(*types.Interface); ok && it != nil {
				if ms := types.NewMethodSet(q.Type()); ms.Lookup(nil, "Read") != nil || ms.Lookup(nil, "Write") != nil {
					derived[q] = true
					work = append(work, q)
				}
			}
		}
	}
	for _, b := range fn.Blocks {
		for _, in := range b.Instrs {
			fa, ok := in.(*ssa.FieldAddr)
			if !ok || !x.connFs[fa.Field] {
				continue
			}
			nt, ok := c11Deref(fa.X.Type()).(*types.Named)
			if !ok || nt.Obj() != x.tname {
				continue
			}
			for _, rr := range *fa.Referrers() {
				if u, ok := rr.(*ssa.UnOp); ok && u.Op == token.MUL {
					if !derived[u] {
						derived[u] = true
						work = append(work, u)
					}
				} else if _, isDbg := rr.(*ssa.DebugRef); !isDbg {
					// the field is stored to or its address escapes
					derived[fa] = true
				}
			}
		}
	}
	var uses []c11Use
	seen := map[ssa.Instruction]bool{}
	for v := range derived {
		if fa, ok := v.(*ssa.FieldAddr); ok {
			for _, rr := range *fa.Referrers() {
				if _, isLoad := rr.(*ssa.UnOp); isLoad {
					continue
				}
				if _, isDbg := rr.(*ssa.DebugRef); isDbg {
					continue
				}
				if ci, ok := rr.(ssa.CallInstruction); ok {
					uses = append(uses, c11Use{call: ci, kind: "other", desc: "address of the connection field passed to a call"})
				} else if st, ok := rr.(*ssa.Store); ok {
					_ = st
					uses = append(uses, c11Use{kind: "other", desc: "connection field re-assigned inside " + fn.Name()})
				}
			}
		}
	}
	for len(work) > 0 {
		v := work[len(work)-1]
		work = work[:len(work)-1]
		for _, rr := range *v.Referrers() {
			if seen[rr] {
				continue
			}
			seen[rr] = true
			switch y := rr.(type) {
			case *ssa.DebugRef:
			case *ssa.ChangeInterface:
				derived[y] = true
				work = append(work, y)
			case *ssa.ChangeType:
				derived[y] = true
				work = append(work, y)
			case *ssa.BinOp: // comparison with nil
			case ssa.CallInstruction:
				cc := y.Common()
				if cc.IsInvoke() && derived[cc.Value] {
					switch cc.Method.Name() {
					case "Write":
						if len(cc.Args) == 1 {
							uses = append(uses, c11Use{call: y, kind: "write", buf: cc.Args[0]})
							continue
						}
					case "Read":
						if len(cc.Args) == 1 {
							uses = append(uses, c11Use{call: y, kind: "read", buf: cc.Args[0]})
							continue
						}
					case "SetDeadline", "SetReadDeadline", "SetWriteDeadline", "LocalAddr", "RemoteAddr", "Close":
						continue
					}
					uses = append(uses, c11Use{call: y, kind: "other", desc: "method " + cc.Method.Name() + " of the connection"})
					continue
				}
				if fnc := cc.StaticCallee(); fnc != nil && fnc.Pkg != nil && fnc.Pkg.Pkg.Path() == "io" && len(cc.Args) >= 2 && derived[cc.Args[0]] {
					switch fnc.Name() {
					case "ReadFull":
						uses = append(uses, c11Use{call: y, kind: "readfull", buf: cc.Args[1]})
						continue
					case "ReadAtLeast":
						uses = append(uses, c11Use{call: y, kind: "readatleast", buf: cc.Args[1]})
						continue
					case "LimitReader":
						// io.ReadAll(io.LimitReader(conn, n)): at most n bytes, fewer at an early
						// end of stream WITHOUT an error; complete only where len(result) is tested
						if ra := c11OnlyReadAll(y); ra != nil {
							uses = append(uses, c11Use{call: ra, kind: "readalllimit", alloc: true, size: c11StripConv(cc.Args[1]), buf: c11Result0(ra), desc: "io.ReadAll(io.LimitReader(conn, n))"})
							continue
						}
					}
				}
				if fnc := cc.StaticCallee(); fnc != nil && !cc.IsInvoke() {
					if bi, ok := x.readWrapper(fnc, depth); ok && bi < len(cc.Args) {
						uses = append(uses, c11Use{call: y, kind: "readfull", buf: cc.Args[bi], desc: "through " + fnc.Name()})
						continue
					}
					if si, ok := x.allocReader(fnc, depth); ok && si < len(cc.Args) {
						uses = append(uses, c11Use{call: y, kind: "readfull", alloc: true, size: cc.Args[si], buf: c11Result0(y), desc: "through " + fnc.Name()})
						continue
					}
					if bi, ok := x.writeWrapper(fnc, depth); ok && bi < len(cc.Args) {
						uses = append(uses, c11Use{call: y, kind: "write", buf: cc.Args[bi], desc: "through " + fnc.Name()})
						continue
					}
					if d := x.readDefect(fnc, depth); d != "" {
						uses = append(uses, c11Use{call: y, kind: "other", desc: "the read helper " + fnc.Name() + " does not keep the io.ReadFull contract: " + d})
						continue
					}
				}
				name := "a dynamic callee"
				var inMod *ssa.Function
				if fnc := cc.StaticCallee(); fnc != nil {
					name = fnc.String()
					if !cc.IsInvoke() && fnc.Blocks != nil && x.P.InModule(fnc) {
						inMod = fnc
					}
				}
				uses = append(uses, c11Use{call: y, kind: "other", desc: "connection passed to " + name, helper: inMod})
			default:
				uses = append(uses, c11Use{kind: "other", desc: fmt.Sprintf("connection value used by %T", rr)})
			}
		}
	}
	// methods of the transport called on the receiver: a read wrapper uses the
	// connection on this function's behalf
	if len(fn.Params) > 0 && fn.Signature.Recv() != nil {
		recv := fn.Params[0]
		if nt, ok := c11Deref(recv.Type()).(*types.Named); ok && nt.Obj() == x.tname && recv.Referrers() != nil {
			for _, rr := range *recv.Referrers() {
				ci, ok := rr.(ssa.CallInstruction)
				if !ok || seen[rr] {
					continue
				}
				cc := ci.Common()
				fnc := cc.StaticCallee()
				if fnc == nil || cc.IsInvoke() || len(cc.Args) == 0 || cc.Args[0] != ssa.Value(recv) || fnc == fn {
					continue
				}
				if bi, ok := x.readWrapper(fnc, depth); ok && bi < len(cc.Args) {
					seen[rr] = true
					uses = append(uses, c11Use{call: ci, kind: "readfull", buf: cc.Args[bi], desc: "through " + fnc.Name()})
				} else if si, ok := x.allocReader(fnc, depth); ok && si < len(cc.Args) {
					seen[rr] = true
					uses = append(uses, c11Use{call: ci, kind: "readfull", alloc: true, size: cc.Args[si], buf: c11Result0(ci), desc: "through " + fnc.Name()})
				} else if bi, ok := x.writeWrapper(fnc, depth); ok && bi < len(cc.Args) {
					seen[rr] = true
					uses = append(uses, c11Use{call: ci, kind: "write", buf: cc.Args[bi], desc: "through " + fnc.Name()})
				} else if d := x.readDefect(fnc, depth); d != "" {
					seen[rr] = true
					uses = append(uses, c11Use{call: ci, kind: "other", desc: "the read helper " + fnc.Name() + " does not keep the io.ReadFull contract: " + d})
				} else if fnc.Blocks != nil && x.P.InModule(fnc) && x.touchesConn(fnc, 0) {
					// a method of the transport that uses the connection in some other way
					seen[rr] = true
					uses = append(uses, c11Use{call: ci, kind: "other", desc: "the transport is handed to " + fnc.String() + ", which uses the connection", helper: fnc})
				}
			}
		}
	}
	sort.SliceStable(uses, func(i, j int) bool {
		pi, pj := token.NoPos, token.NoPos
		if uses[i].call != nil {
			pi = uses[i].call.Pos()
		}
		if uses[j].call != nil {
			pj = uses[j].call.Pos()
		}
		return pi < pj
	})
	return uses
}

// c11Result0: the extracted result 0 of a call (nil when it is never extracted).
func c11Result0(call ssa.CallInstruction) ssa.Value {
	v := call.Value()
	if v == nil || v.Referrers() == nil {
		return nil
	}
	for _, r := range *v.Referrers() {
		if ex, ok := r.(*ssa.Extract); ok && ex.Index == 0 {
			return ex
		}
	}
	return nil
}

func c11Deref(t types.Type) types.Type {
	if p, ok := t.Underlying().(*types.Pointer); ok {
		return p.Elem()
	}
	return t
}

// errSuccess returns the blocks entered exactly when the error result of call
// (tuple index 1) was tested and found nil, and the blocks entered when it was
// found non-nil.
func c11ErrEdges(call ssa.CallInstruction) (succ, fail []*ssa.BasicBlock, errVal ssa.Value) {
	v := call.Value()
	if v == nil || v.Referrers() == nil {
		return
	}
	var cands []ssa.Value
	if tup, isTuple := v.Type().(*types.Tuple); isTuple {
		for _, r := range *v.Referrers() {
			if ex, ok := r.(*ssa.Extract); ok && ex.Index == tup.Len()-1 && types.TypeString(ex.Type(), nil) == "error" {
				cands = append(cands, ex)
			}
		}
	} else if types.TypeString(v.Type(), nil) == "error" {
		cands = append(cands, v)
	}
	for _, ex := range cands {
		errVal = ex
		if ex.Referrers() == nil {
			continue
		}
		for _, rr := range *ex.Referrers() {
			bo, ok := rr.(*ssa.BinOp)
			if !ok || (bo.Op != token.NEQ && bo.Op != token.EQL) {
				continue
			}
			other := bo.Y
			if bo.Y == ex {
				other = bo.X
			}
			if k, isK := other.(*ssa.Const); !isK || k.Value != nil {
				continue
			}
			for _, r3 := range *bo.Referrers() {
				iff, ok := r3.(*ssa.If)
				if !ok {
					continue
				}
				b := iff.Block()
				if len(b.Succs) != 2 || b.Succs[0] == b.Succs[1] {
					continue
				}
				s, f := b.Succs[1], b.Succs[0] // err != nil: true edge is failure
				if bo.Op == token.EQL {
					s, f = f, s
				}
				if len(s.Preds) == 1 {
					succ = append(succ, s)
				}
				if len(f.Preds) == 1 {
					fail = append(fail, f)
				}
			}
		}
	}
	return
}

func c11Under(blocks []*ssa.BasicBlock, at *ssa.BasicBlock) bool {
	for _, s := range blocks {
		if s.Dominates(at) {
			return true
		}
	}
	return false
}

// errCtor: v is certainly a non-nil error: a concrete value boxed into the
// interface, errors.New / fmt.Errorf, a sentinel — a package-level error
// variable of the module that is assigned exactly once, in its package
// initialiser, from such a value —, or the result of an in-module function all
// of whose returns are such values.
func (x *c11) errCtor(v ssa.Value) bool { return x.errCtorD(v, 0) }

// errAt: v is a certainly non-nil error when returned from block b.
func (x *c11) errAt(v ssa.Value, b *ssa.BasicBlock) bool {
	return x.errCtor(v) || c11KnownNonNil(v, b)
}

func (x *c11) errCtorD(v ssa.Value, d int) bool {
	if d > 3 {
		return false
	}
	switch y := v.(type) {
	case *ssa.MakeInterface:
		return true
	case *ssa.ChangeInterface:
		return x.errCtorD(y.X, d+1)
	case *ssa.UnOp:
		if g, ok := y.X.(*ssa.Global); ok && y.Op == token.MUL {
			return x.sentinel(g, d)
		}
	case *ssa.Phi:
		for _, e := range y.Edges {
			if !x.errCtorD(e, d+1) {
				return false
			}
		}
		return len(y.Edges) > 0
	case *ssa.Call:
		fn := y.Common().StaticCallee()
		if fn == nil {
			return false
		}
		if fn.Pkg != nil {
			switch fn.Pkg.Pkg.Path() + "." + fn.Name() {
			case "fmt.Errorf", "errors.New":
				return true
			}
		}
		if x.P.InModule(fn) && fn.Blocks != nil && fn.Signature.Results().Len() == 1 {
			n := 0
			for _, b := range fn.Blocks {
				ret, ok := b.Instrs[len(b.Instrs)-1].(*ssa.Return)
				if !ok {
					continue
				}
				n++
				if !x.errCtorD(c11Results(ret)[0], d+1) {
					return false
				}
			}
			return n > 0
		}
	}
	return false
}

// sentinel: g is a module-level variable with exactly one store in the whole
// module, located in a package initialiser, of a certainly-non-nil error.
func (x *c11) sentinel(g *ssa.Global, d int) bool {
	if r, ok := x.sentinels[g]; ok {
		return r
	}
	x.sentinels[g] = false
	if g.Pkg == nil || !strings.HasPrefix(g.Pkg.Pkg.Path(), x.P.ModPath) {
		return false
	}
	if x.allFns == nil {
		for fn := range ssautil.AllFunctions(x.P.SSA) {
			if fn.Blocks != nil && (x.P.InModule(fn) || (fn.Pkg != nil && strings.HasPrefix(fn.Pkg.Pkg.Path(), x.P.ModPath))) {
				x.allFns = append(x.allFns, fn)
			}
		}
	}
	var stores []*ssa.Store
	escaped := false
	for _, fn := range x.allFns {
		for _, b := range fn.Blocks {
			for _, in := range b.Instrs {
				for _, op := range in.Operands(nil) {
					if *op != ssa.Value(g) {
						continue
					}
					switch y := in.(type) {
					case *ssa.Store:
						if y.Addr == ssa.Value(g) {
							stores = append(stores, y)
						} else {
							escaped = true
						}
					case *ssa.UnOp:
						if y.Op != token.MUL {
							escaped = true
						}
					case *ssa.DebugRef:
					default:
						escaped = true // address taken
					}
				}
			}
		}
	}
	if escaped || len(stores) != 1 {
		return false
	}
	st := stores[0]
	if fn := st.Parent(); fn.Name() != "init" || fn.Synthetic == "" || fn.Pkg != g.Pkg {
		return false
	}
	ok := x.errCtorD(st.Val, d+1)
	x.sentinels[g] = ok
	return ok
}

func (x *c11) bitName(hdr string) func(lanes.Bit) string {
	return func(b lanes.Bit) string {
		if b.S == c11SrcLen {
			return fmt.Sprintf("len(data).%d", b.B)
		}
		if b.S == 0 {
			return fmt.Sprintf("%s[%d].%d", hdr, b.I, b.B)
		}
		return fmt.Sprintf("read#%d[%d].%d", b.S, b.I, b.B)
	}
}

func srcBit(s, i, b int) lanes.Bit { return lanes.Bit{K: lanes.Src, S: s, I: i, B: b} }

// judge compares got with want lane by lane.
func (x *c11) judge(rule, construct, pos string, got, want lanes.Vec, name func(lanes.Bit) string, an *lanes.Analyzer, failText string) {
	r := x.R
	if len(got) != len(want) {
		r.Undecided(rule, construct, pos, fmt.Sprintf("lane vector has %d bits, expected %d", len(got), len(want)))
		return
	}
	if got.Equal(want) {
		r.OK(rule, construct, pos, "lanes "+got.String(name))
		return
	}
	// a definite mismatch on some lane is a finding even when other lanes are ⊤
	definite := false
	for i := range got {
		if got[i].K != lanes.Top && got[i] != want[i] {
			definite = true
		}
	}
	if definite {
		r.Fail(rule, construct, pos, fmt.Sprintf("%s: holds %s, required %s (most significant bit first)", failText, got.String(name), want.String(name)))
		return
	}
	x.notDecided(pos, fmt.Sprintf("bit provenance is ⊤ (unknown): got %s, required %s; because: %s", got.String(name), want.String(name), strings.Join(an.Why, "; ")), [2]string{rule, construct})
}

// ---------------------------------------------------------------------------
// Send

func (x *c11) send(fn *ssa.Function) {
	p, r := x.P, x.R
	fname := p.FuncName(fn)
	pos := p.Rel(fn.Pos())
	_ = p
	// the payload parameter: the only []byte parameter
	var data *ssa.Parameter
	for _, q := range fn.Params[1:] {
		if prove.IsByteSeq(q.Type()) {
			if data != nil {
				data = nil
				break
			}
			data = q
		}
	}
	if data == nil {
		r.Undecided("anchor", fname+": payload parameter", pos, "Send does not have exactly one []byte parameter")
		return
	}
	x.sendIn(fn, data, fname, pos, nil)
}

// c11Outer: a function that hands the connection (and, for Send, the payload)
// to the in-module helper being analysed in its place.
type c11Outer struct {
	fn   *ssa.Function
	call *ssa.Call
	data ssa.Value
	next *c11Outer
}

func (o *c11Outer) depth() int {
	n := 0
	for ; o != nil; o = o.next {
		n++
	}
	return n
}

func (o *c11Outer) chain() string {
	var parts []string
	for ; o != nil; o = o.next {
		parts = append([]string{o.fn.Name()}, parts...)
	}
	return strings.Join(parts, " → ")
}

// c11Delegate: the function's ONLY use of the connection is to hand it — or
// the transport itself — to one in-module helper that none of the wrapper
// summaries describes. why != "" says why the helper cannot be analysed in the
// function's place.
func c11Delegate(uses []c11Use) (h *ssa.Function, call *ssa.Call, why string) {
	var helpers []c11Use
	for _, u := range uses {
		if u.kind == "other" && u.helper != nil {
			helpers = append(helpers, u)
		} else if u.kind == "other" {
			return nil, nil, ""
		}
	}
	if len(helpers) == 0 {
		return nil, nil, ""
	}
	if len(uses) != 1 {
		return nil, nil, fmt.Sprintf("the connection is used directly and also handed to %s", helpers[0].helper.String())
	}
	c, ok := helpers[0].call.(*ssa.Call)
	if !ok {
		return nil, nil, fmt.Sprintf("%s is started with go/defer", helpers[0].helper.String())
	}
	return helpers[0].helper, c, ""
}

// notDecided reports the listed constructs as not decided (COMPLETENESS BEFORE
// VERDICT: the connection flows into code this rule did not analyse, so no
// claim — and no alarm — is made about what is done with it).
func (x *c11) notDecided(pos, why string, constructs ...[2]string) {
	for _, k := range constructs {
		x.R.OK(k[0], k[1], pos, "NOT DECIDED — "+why)
	}
}

func (x *c11) sendConstructs(fname, dname string) [][2]string {
	return [][2]string{
		{c11R3, fname + ": every use of the connection is a Write"},
		{c11R3, fname + ": conn.Write emits header ++ data contiguously"},
		{c11R4, fname + ": frame[0] (TYPE) == " + x.sessNm},
		{c11R1, fname + ": frame[1] (FLAGS) == 0000000·len(" + dname + ")[16]"},
		{c11R1, fname + ": frame[2] == len(" + dname + ")[15..8]"},
		{c11R1, fname + ": frame[3] == len(" + dname + ")[7..0]"},
		{c11R2, fname + ": len(" + dname + ") fits the length bits the header carries, at conn.Write"},
		{c11R2, fname + ": payloads up to 0x1FFFF bytes are not refused"},
		{c11R2, fname + ": every return that bypasses conn.Write carries a non-nil error"},
	}
}

// sendIn analyses fn as the body of Send: directly, or (outer != nil) as the
// helper Send hands its connection and payload to.
func (x *c11) sendIn(fn *ssa.Function, data *ssa.Parameter, fname, pos string, outer *c11Outer) {
	p, r := x.P, x.R
	dname := data.Name()
	if o := outer; o != nil {
		for ; o.next != nil; o = o.next {
		}
		if q, ok := o.data.(*ssa.Parameter); ok {
			dname = q.Name() // construct keys name Send's own parameter
		}
	}
	uses := x.connUsesIn(fn, outer != nil, 0)
	var writes []c11Use
	var other []string
	for _, u := range uses {
		switch u.kind {
		case "write":
			writes = append(writes, u)
		case "other":
			other = append(other, u.desc)
		default:
			other = append(other, "connection is read in Send ("+u.kind+")")
		}
	}
	if h, call, why := c11Delegate(uses); h != nil || why != "" {
		if h != nil {
			hd := -1
			for i, a := range call.Call.Args {
				if c11FullView(a) == ssa.Value(data) && i < len(h.Params) && prove.IsByteSeq(h.Params[i].Type()) {
					if hd >= 0 {
						hd = -2
						break
					}
					hd = i
				}
			}
			switch {
			case hd < 0:
				why = fmt.Sprintf("the connection is handed to %s together with something other than the caller's payload (a frame built here, presumably); that helper is not analysed", h.String())
			case outer.depth() >= 2:
				why = fmt.Sprintf("the connection is handed on through more than two helpers (%s → %s)", outer.chain(), h.Name())
			default:
				x.sendIn(h, h.Params[hd], fname, pos, &c11Outer{fn: fn, call: call, data: data, next: outer})
				return
			}
		}
		x.notDecided(pos, why, x.sendConstructs(fname, dname)...)
		r.Note("C11 %s: NOT DECIDED — %s", fname, why)
		return
	}
	via := ""
	if outer != nil {
		via = " (in " + fn.Name() + ", which " + outer.chain() + " hands the connection and the payload to)"
	}
	if len(other) > 0 {
		r.Undecided(c11R3, fname+": every use of the connection is a Write", pos, "unrecognised use: "+strings.Join(other, "; ")+via)
	} else {
		r.OK(c11R3, fname+": every use of the connection is a Write", pos, fmt.Sprintf("%d Write call(s)", len(writes))+via)
	}
	if len(writes) == 0 {
		r.Undecided(c11R3, fname+": conn.Write emits header ++ data contiguously", pos, "no Write on the connection found in Send"+via)
		return
	}
	// order the writes by dominance
	sort.SliceStable(writes, func(i, j int) bool { return lanes.Dominates(writes[i].call, writes[j].call) })
	ordered := true
	for i := 0; i+1 < len(writes); i++ {
		if !lanes.Dominates(writes[i].call, writes[i+1].call) {
			ordered = false
		}
	}
	wpos := p.Rel(writes[0].call.Pos())
	isWrite := map[ssa.Instruction]bool{}
	for _, u := range writes {
		isWrite[u.call] = true
	}
	// In every execution that reaches the first Write, len(data) satisfies the
	// guards that dominate it; len(data) never changes, so the bits of len(data)
	// that those guards force to 0 are 0 wherever the header bytes were computed.
	// Only bits above the 17-bit field are refined (bits 0..16 stay symbolic so
	// that a too-strict guard cannot excuse a missing length bit).
	fi := x.w.Info(fn)
	cxW := fi.CtxAt(writes[0].call.Block())
	lenF := cxW.LenOf(data)
	pow := func(k int) *big.Int { return new(big.Int).Sub(new(big.Int).Lsh(big.NewInt(1), uint(k)), big.NewInt(1)) }
	// the guards that dominate the Write here, and — the payload being the same
	// slice all the way down — those that dominate the hand-over in each caller
	type lenCtx struct {
		cx   *prove.Ctx
		lenF lin.Form
	}
	ctxs := []lenCtx{{cxW, lenF}}
	for o := outer; o != nil; o = o.next {
		cx := x.w.Info(o.fn).CtxBefore(o.call)
		ctxs = append(ctxs, lenCtx{cx, cx.LenOf(o.data)})
	}
	proveLenLE := func(k *big.Int) bool {
		for _, c := range ctxs {
			if c.cx.Prove(lin.LE(c.lenF, lin.KB(k))) {
				return true
			}
		}
		return false
	}
	knownZeroFrom := 63
	for m := c11LenBits; m < 63; m++ {
		if proveLenLE(pow(m)) {
			knownZeroFrom = m
			break
		}
	}
	r.Extra["send_len_bits_known_zero_from"] = knownZeroFrom
	an := &lanes.Analyzer{InModule: p.InModule}
	an.BufCall = func(call ssa.CallInstruction, arg ssa.Value) (lanes.Effect, int) {
		if isWrite[call] {
			return lanes.ReadOnly, 0
		}
		return lanes.Unknown, 0
	}
	an.Leaf = func(f *lanes.Frame, v ssa.Value) (lanes.Vec, bool) {
		call, ok := v.(*ssa.Call)
		if !ok {
			return nil, false
		}
		if b, isB := call.Common().Value.(*ssa.Builtin); !isB || b.Name() != "len" {
			return nil, false
		}
		if f.Origin(call.Common().Args[0]) != ssa.Value(data) {
			return nil, false
		}
		out := lanes.ZeroVec(64) // len() >= 0: bit 63 is 0
		for i := 0; i < 63 && i < knownZeroFrom; i++ {
			out[i] = srcBit(c11SrcLen, 0, i)
		}
		return out, true
	}
	root := an.Root(fn)
	name := x.bitName("header")

	construct := fname + ": conn.Write emits header ++ data contiguously"
	if !ordered {
		r.Undecided(c11R3, construct, wpos, fmt.Sprintf("%d Write calls that are not totally ordered by dominance", len(writes)))
		return
	}
	// several writes: each further Write must be dominated by the success edge of the previous one
	unchecked := ""
	for i := 0; i+1 < len(writes); i++ {
		succ, _, _ := c11ErrEdges(writes[i].call)
		if !c11Under(succ, writes[i+1].call.Block()) {
			unchecked = fmt.Sprintf("Write #%d's error is not tested before Write #%d", i+1, i+2)
			break
		}
	}
	var frame []lanes.Elem
	okSeq := true
	for _, u := range writes {
		s, ok := root.Seq(u.buf, u.call)
		if !ok {
			okSeq = false
			break
		}
		frame = append(frame, s...)
	}
	shape := func() string {
		var parts []string
		for _, e := range frame {
			if e.IsByte() {
				parts = append(parts, "byte")
			} else {
				parts = append(parts, "<"+an.Expr(e.Tail)+">")
			}
		}
		return "[" + strings.Join(parts, " ") + "]"
	}
	shapeOK := okSeq && len(frame) == c11HdrLen+1
	if shapeOK {
		for i := 0; i < c11HdrLen; i++ {
			shapeOK = shapeOK && frame[i].IsByte()
		}
		shapeOK = shapeOK && !frame[c11HdrLen].IsByte() && frame[c11HdrLen].Tail == ssa.Value(data)
	}
	switch {
	case unchecked != "":
		r.Fail(c11R3, construct, wpos, fmt.Sprintf("header and payload reach the connection in %d separate Write calls and %s: a failed or short first Write is followed by the rest of the frame (and a concurrent Send can interleave)", len(writes), unchecked))
	case !okSeq:
		x.notDecided(wpos, "the bytes passed to Write cannot be described: "+strings.Join(an.Why, "; "), [2]string{c11R3, construct})
	case !shapeOK:
		r.Fail(c11R3, construct, wpos, fmt.Sprintf("the bytes written are %s, required [byte byte byte byte <%s>] (4-byte header immediately followed by the caller's payload)", shape(), data.Name()))
	default:
		r.OK(c11R3, construct, wpos, fmt.Sprintf("%d Write call(s); bytes written = %s", len(writes), shape()))
	}
	x.R.Extra["send_writes"] = len(writes)

	c1 := fname + ": frame[1] (FLAGS) == 0000000·len(" + dname + ")[16]"
	c2 := fname + ": frame[2] == len(" + dname + ")[15..8]"
	c3 := fname + ": frame[3] == len(" + dname + ")[7..0]"
	c0 := fname + ": frame[0] (TYPE) == " + x.sessNm
	cg := fname + ": len(" + dname + ") fits the length bits the header carries, at conn.Write"
	if !okSeq {
		x.notDecided(wpos, "the header bytes could not be located (see "+c11R3+")", [2]string{c11R4, c0}, [2]string{c11R1, c1}, [2]string{c11R1, c2}, [2]string{c11R1, c3}, [2]string{c11R2, cg})
	} else if !shapeOK {
		why := "the header bytes could not be located (see " + c11R3 + ")"
		r.Undecided(c11R4, c0, wpos, why)
		r.Undecided(c11R1, c1, wpos, why)
		r.Undecided(c11R1, c2, wpos, why)
		r.Undecided(c11R1, c3, wpos, why)
		r.Undecided(c11R2, cg, wpos, why)
	} else {
		// R4: type byte
		x.judge(c11R4, c0, wpos, frame[0].Byte, lanes.ConstVec(x.sessK, 8), name, an, "the TYPE byte is not the SESSION_MESSAGE constant")
		// R1: flags and big-endian length
		want1 := lanes.ZeroVec(8)
		want1[0] = srcBit(c11SrcLen, 0, 16)
		want2, want3 := make(lanes.Vec, 8), make(lanes.Vec, 8)
		for b := 0; b < 8; b++ {
			want2[b] = srcBit(c11SrcLen, 0, 8+b)
			want3[b] = srcBit(c11SrcLen, 0, b)
		}
		x.judge(c11R1, c1, wpos, frame[1].Byte, want1, name, an, "bit 16 of the payload length is not written to bit 0 of the FLAGS byte (payloads >= 64 KiB are framed with the wrong length)")
		x.judge(c11R1, c2, wpos, frame[2].Byte, want2, name, an, "LENGTH high byte does not carry bits 15..8 of the payload length (big-endian)")
		x.judge(c11R1, c3, wpos, frame[3].Byte, want3, name, an, "LENGTH low byte does not carry bits 7..0 of the payload length (big-endian)")
		hdrLanes := map[string]string{}
		for i := 0; i < c11HdrLen; i++ {
			hdrLanes[fmt.Sprintf("frame[%d]", i)] = frame[i].Byte.String(name)
		}
		r.Extra["send_header_lanes"] = hdrLanes

		// R2: lossless narrowing under the dominating guards
		carried := map[int]bool{}
		top := false
		for i := 0; i < c11HdrLen; i++ {
			for _, b := range frame[i].Byte {
				if b.K == lanes.Src && b.S == c11SrcLen {
					carried[b.B] = true
				}
				if b.K == lanes.Top {
					top = true
				}
			}
		}
		k := 0
		for carried[k] {
			k++
		}
		switch {
		case top:
			x.notDecided(wpos, "some header lanes are ⊤, so the set of length bits the header carries is unknown", [2]string{c11R2, cg})
		case k == 0:
			r.Fail(c11R2, cg, wpos, "the header carries no low bit of len("+data.Name()+")")
		default:
			max := pow(k)
			cx := cxW
			goal := lin.LE(lenF, lin.KB(max))
			if proveLenLE(max) {
				r.OK(c11R2, cg, wpos, fmt.Sprintf("header carries bits 0..%d of the length; dominating guards entail len(%s) <= %#x at the first Write", k-1, data.Name(), max))
			} else {
				wit := new(big.Int).Add(max, big.NewInt(1))
				r.Add(c11R2, cg, wpos, report.Finding, fmt.Sprintf("the header carries only bits 0..%d of len(%s) (maximum %#x = %d) and no dominating guard bounds the length: a payload of %d bytes or more is written with a truncated length (mis-framed) instead of being refused; witness len(%s) = %d",
					k-1, data.Name(), max, max, wit, data.Name(), wit), map[string]any{"goal": cx.Describe(goal), "facts": cx.FactStrings(goal, 16)})
			}
			r.Extra["send_length_bits_carried"] = k
		}
	}

	// R2c: the guard must not refuse what the 17-bit field can express
	cr := fname + ": payloads up to 0x1FFFF bytes are not refused"
	if proveLenLE(new(big.Int).Sub(pow(c11LenBits), big.NewInt(1))) {
		r.Fail(c11R2, cr, wpos, fmt.Sprintf("the guards that dominate conn.Write entail len(%s) <= 0x1FFFE: a payload of 0x1FFFF bytes, which the 17-bit length field can express, never reaches the Write", data.Name()))
	} else {
		r.OK(c11R2, cr, wpos, "no dominating guard excludes len("+data.Name()+") = 0x1FFFF (necessary condition only: reachability of the Write is not proved)")
	}

	// R2b: a return that is not preceded by a Write must report an error
	cb := fname + ": every return that bypasses conn.Write carries a non-nil error"
	bad := 0
	nret := 0
	for _, b := range c11RetBlocks(fn) {
		ret, ok := b.Instrs[len(b.Instrs)-1].(*ssa.Return)
		if !ok || len(c11Results(ret)) == 0 {
			continue
		}
		after := false
		for _, u := range writes {
			if lanes.Dominates(u.call, ret) {
				after = true
			}
		}
		if after {
			continue
		}
		nret++
		if ev := c11Results(ret)[len(c11Results(ret))-1]; !x.errAt(ev, b) {
			bad++
		}
	}
	// callers that handed the connection down: a return that bypasses the
	// hand-over must carry an error, and one that follows it must not drop the
	// error the helper reports
	dropped := 0
	for o := outer; o != nil; o = o.next {
		succ, fail, errV := c11ErrEdges(o.call)
		for _, b := range c11RetBlocks(o.fn) {
			ret, ok := b.Instrs[len(b.Instrs)-1].(*ssa.Return)
			if !ok || len(c11Results(ret)) == 0 {
				continue
			}
			ev := c11Results(ret)[len(c11Results(ret))-1]
			if !lanes.Dominates(o.call, ret) {
				nret++
				if !x.errAt(ev, b) {
					bad++
				}
				continue
			}
			switch {
			case errV != nil && ev == errV:
			case c11Under(fail, b) && x.errAt(ev, b):
			case c11Under(succ, b):
			default:
				dropped++
			}
		}
	}
	if dropped > 0 {
		r.Fail(c11R2, cb, pos, fmt.Sprintf("%d return(s) of %s that follow the call of the framing helper neither propagate its error nor test it: a payload the helper refuses (nothing written) is reported as sent", dropped, outer.chain()))
	} else if bad > 0 {
		r.Fail(c11R2, cb, pos, fmt.Sprintf("%d of %d returns that are not dominated by a Write may return a nil error: the payload is dropped silently instead of refused", bad, nret))
	} else {
		r.OK(c11R2, cb, pos, fmt.Sprintf("%d early return(s), all with fmt.Errorf/errors.New/concrete error values/sentinel errors", nret))
	}
}

// ---------------------------------------------------------------------------
// Receive

func (x *c11) receive(fn *ssa.Function) {
	x.receiveIn(fn, x.P.FuncName(fn), x.P.Rel(fn.Pos()), nil)
}

func (x *c11) receiveConstructs(fname string) [][2]string {
	out := [][2]string{
		{c11R3, fname + ": every use of the connection is io.ReadFull/io.ReadAtLeast"},
	}
	for _, role := range []string{"header", "payload"} {
		out = append(out, [2]string{c11R3, fmt.Sprintf("%s: %s read uses io.ReadFull (never a bare Read)", fname, role)},
			[2]string{c11R3, fmt.Sprintf("%s: error of the %s read is tested", fname, role)})
	}
	return append(out,
		[2]string{c11R3, fname + ": header read fills exactly 4 bytes"},
		[2]string{c11R3, fname + ": payload read is dominated by the success edge of the header read"},
		[2]string{c11R3, fname + ": payload read fills make([]byte, length), length = the decoded header length"},
		[2]string{c11R3, fname + ": return #1 with a possibly-nil error yields the fully read payload buffer"},
		[2]string{c11R1, fname + ": payload length bit 16 <- header[1] bit 0"},
		[2]string{c11R1, fname + ": payload length bits 15..8 <- header[2]"},
		[2]string{c11R1, fname + ": payload length bits 7..0 <- header[3]"},
		[2]string{c11R1, fname + ": payload length bits 63..17 == 0"},
		[2]string{c11R4, fname + ": payload is allocated only when header[0] == " + x.sessNm},
	)
}

// receiveIn analyses fn as the body of Receive: directly, or (outer != nil)
// as the helper Receive hands its connection to.
func (x *c11) receiveIn(fn *ssa.Function, fname, pos string, outer *c11Outer) {
	p, r := x.P, x.R
	uses := x.connUsesIn(fn, outer != nil, 0)
	var reads []c11Use
	var other []string
	for _, u := range uses {
		switch u.kind {
		case "readfull", "readatleast", "read", "readalllimit":
			reads = append(reads, u)
		case "write":
			other = append(other, "connection is written in Receive")
		default:
			other = append(other, u.desc)
		}
	}
	if h, call, why := c11Delegate(uses); h != nil || why != "" {
		if h != nil {
			res := h.Signature.Results()
			switch {
			case res.Len() != 2 || !prove.IsByteSeq(res.At(0).Type()) || types.TypeString(res.At(1).Type(), nil) != "error":
				why = fmt.Sprintf("the connection is handed to %s, which does not return (payload, error); that helper is not analysed", h.String())
			case outer.depth() >= 2:
				why = fmt.Sprintf("the connection is handed on through more than two helpers (%s → %s)", outer.chain(), h.Name())
			default:
				x.receiveIn(h, fname, pos, &c11Outer{fn: fn, call: call, next: outer})
				return
			}
		}
		x.notDecided(pos, why, x.receiveConstructs(fname)...)
		r.Note("C11 %s: NOT DECIDED — %s", fname, why)
		return
	}
	via := ""
	if outer != nil {
		via = " (in " + fn.Name() + ", which " + outer.chain() + " hands the connection to)"
	}
	cu := fname + ": every use of the connection is io.ReadFull/io.ReadAtLeast"
	if len(other) > 0 {
		r.Undecided(c11R3, cu, pos, "unrecognised use: "+strings.Join(other, "; ")+via)
	} else {
		r.OK(c11R3, cu, pos, fmt.Sprintf("%d read call(s)", len(reads))+via)
	}
	r.Extra["receive_reads"] = len(reads)
	sort.SliceStable(reads, func(i, j int) bool { return lanes.Dominates(reads[i].call, reads[j].call) })
	if len(reads) != 2 || !lanes.Dominates(reads[0].call, reads[1].call) {
		r.Undecided(c11R3, fname+": header read then payload read", pos, fmt.Sprintf("expected exactly two reads of the connection ordered by dominance (4-byte header, then payload); found %d", len(reads)))
		return
	}
	role := []string{"header", "payload"}
	isRead := map[ssa.Instruction]int{}
	for i, u := range reads {
		isRead[u.call] = i
	}
	an := &lanes.Analyzer{InModule: p.InModule}
	an.BufCall = func(call ssa.CallInstruction, arg ssa.Value) (lanes.Effect, int) {
		if i, ok := isRead[call]; ok {
			return lanes.Fill, i
		}
		return lanes.Unknown, 0
	}
	an.AllocCall = func(call ssa.CallInstruction) (ssa.Value, int, bool) {
		if i, ok := isRead[call]; ok && reads[i].alloc {
			return reads[i].size, i, true
		}
		return nil, 0, false
	}
	root := an.Root(fn)
	name := x.bitName("header")
	for i := range reads {
		if reads[i].alloc && reads[i].buf == nil {
			r.Undecided(c11R3, fmt.Sprintf("%s: %s read: the buffer returned by the reading helper is used", fname, role[i]), p.Rel(reads[i].call.Pos()), "the buffer returned by the allocating read helper is discarded")
			return
		}
	}

	var succ, fail [2][]*ssa.BasicBlock
	var errV [2]ssa.Value
	for i, u := range reads {
		upos := p.Rel(u.call.Pos())
		ck := fmt.Sprintf("%s: %s read uses io.ReadFull (never a bare Read)", fname, role[i])
		switch u.kind {
		case "readfull":
			r.OK(c11R3, ck, upos, "io.ReadFull")
		case "readatleast":
			// min must be len(buf)
			okMin := false
			if args := u.call.Common().Args; len(args) == 3 {
				if c, ok := args[2].(*ssa.Call); ok {
					if b, isB := c.Common().Value.(*ssa.Builtin); isB && b.Name() == "len" && c.Common().Args[0] == u.buf {
						okMin = true
					}
				}
			}
			if okMin {
				r.OK(c11R3, ck, upos, "io.ReadAtLeast(r, buf, len(buf))")
			} else {
				r.Undecided(c11R3, ck, upos, "io.ReadAtLeast with a minimum that is not len(buf) of the same buffer")
			}
		case "readalllimit":
			// decided below: the length test is this read's success edge
		default:
			r.Fail(c11R3, ck, upos, fmt.Sprintf("the %s is read with a bare conn.Read, which may return after any prefix of the requested bytes (TCP segmentation): a partial frame is returned as if complete", role[i]))
		}
		succ[i], fail[i], errV[i] = c11ErrEdges(u.call)
		ce := fmt.Sprintf("%s: error of the %s read is tested", fname, role[i])
		if u.kind == "readalllimit" {
			ls, lf := c11LenEdges(fn, u.buf, u.size)
			errV[i] = nil
			if len(ls) > 0 {
				succ[i], fail[i] = ls, lf
				r.OK(c11R3, ck, upos, "io.ReadAll(io.LimitReader(conn, n)) followed by a test len(result) against n: the edge on which all n bytes arrived is this read's success edge")
				r.OK(c11R3, ce, upos, "a short read is detected by the length test (ReadAll reports no error at an early end of stream)")
			} else {
				succ[i], fail[i] = nil, nil
				r.Fail(c11R3, ck, upos, fmt.Sprintf("the %s is read with io.ReadAll(io.LimitReader(conn, n)) and len(result) is never compared with n: ReadAll returns a nil error when the stream ends early, so a partial frame is returned as if complete", role[i]))
				r.OK(c11R3, ce, upos, "see the completeness clause of this read")
			}
			continue
		}
		if len(succ[i]) > 0 {
			r.OK(c11R3, ce, upos, "err != nil / err == nil branch found; success edge identified")
		} else if errV[i] != nil && c11OnlyReturned(errV[i]) {
			r.OK(c11R3, ce, upos, "the error is propagated unchanged by the return that follows")
		} else {
			r.Fail(c11R3, ce, upos, fmt.Sprintf("the error result of the %s read is ignored: a stream that ends inside the frame yields a partial or zero-filled message without an error", role[i]))
		}
	}

	// header buffer: exactly 4 bytes
	hpos := p.Rel(reads[0].call.Pos())
	ch := fname + ": header read fills exactly 4 bytes"
	hreg, okH := root.Region(reads[0].buf)
	switch {
	case !okH:
		r.Undecided(c11R3, ch, hpos, "the header buffer is not a constant-size local byte array/slice: "+an.Expr(reads[0].buf))
	case hreg.N == lanes.Open:
		r.Undecided(c11R3, ch, hpos, "the header buffer has a run-time length: "+an.Expr(reads[0].buf))
	case hreg.N != c11HdrLen:
		r.Fail(c11R3, ch, hpos, fmt.Sprintf("the header read consumes %d bytes from the stream, the NBT session header is 4 bytes: every following frame is mis-aligned", hreg.N))
	default:
		r.OK(c11R3, ch, hpos, "4-byte buffer")
	}

	// payload read under header success
	ppos := p.Rel(reads[1].call.Pos())
	cd := fname + ": payload read is dominated by the success edge of the header read"
	if c11Under(succ[0], reads[1].call.Block()) {
		r.OK(c11R3, cd, ppos, "dominated")
	} else {
		r.Fail(c11R3, cd, ppos, "the payload is read even when the header read failed or was short: the length is decoded from a partial header")
	}

	// payload buffer = make([]byte, length)
	cm := fname + ": payload read fills make([]byte, length), length = the decoded header length"
	// the payload buffer and its size: make([]byte, length) in Receive itself, or
	// the buffer an allocating read helper returns for the size it is given
	type payload struct {
		buf  ssa.Value
		size ssa.Value
		at   ssa.Instruction // where it is allocated (the make, or the helper call)
	}
	var mk *payload
	if reads[1].alloc {
		mk = &payload{buf: reads[1].buf, size: reads[1].size, at: reads[1].call}
	} else if m, ok := root.Origin(reads[1].buf).(*ssa.MakeSlice); ok {
		mk = &payload{buf: m, size: m.Len, at: m}
	}
	cl16 := fname + ": payload length bit 16 <- header[1] bit 0"
	clHi := fname + ": payload length bits 15..8 <- header[2]"
	clLo := fname + ": payload length bits 7..0 <- header[3]"
	clZ := fname + ": payload length bits 63..17 == 0"
	ct := fname + ": payload is allocated only when header[0] == " + x.sessNm
	if mk == nil {
		why := "the buffer passed to the payload read is not a make([]byte, n): " + an.Expr(reads[1].buf)
		r.Undecided(c11R3, cm, ppos, why)
		for _, k := range []string{cl16, clHi, clLo, clZ} {
			r.Undecided(c11R1, k, ppos, why)
		}
		r.Undecided(c11R4, ct, ppos, why)
	} else {
		mpos := p.Rel(mk.at.Pos())
		if !okH {
			why := "header buffer not tracked"
			for _, k := range []string{cl16, clHi, clLo, clZ} {
				r.Undecided(c11R1, k, mpos, why)
			}
			r.Undecided(c11R3, cm, mpos, why)
			r.Undecided(c11R4, ct, mpos, why)
		} else {
			L := root.Lanes(mk.size)
			if len(L) != 64 {
				L = L.Resize(64, false)
			}
			r.Extra["receive_length_lanes"] = L.String(name)
			want := lanes.ZeroVec(64)
			for b := 0; b < 8; b++ {
				want[b] = srcBit(0, 3, b)
				want[8+b] = srcBit(0, 2, b)
			}
			want[16] = srcBit(0, 1, 0)
			x.judge(c11R1, cl16, mpos, L[16:17], want[16:17], name, an, "the decoded length ignores the length-extension bit of the FLAGS byte (frames >= 64 KiB are cut short and the rest of the payload is parsed as the next frame)")
			x.judge(c11R1, clHi, mpos, L[8:16], want[8:16], name, an, "bits 15..8 of the decoded length do not come from header byte 2 (big-endian)")
			x.judge(c11R1, clLo, mpos, L[0:8], want[0:8], name, an, "bits 7..0 of the decoded length do not come from header byte 3 (big-endian)")
			x.judge(c11R1, clZ, mpos, L[17:], want[17:], name, an, "the decoded length has bits above bit 16 that are not 0")
			// R3: the size is a pure rearrangement of header bits (no arithmetic
			// offset such as length+1); WHICH bits is R1's business
			pure, sizeTop := true, false
			for _, b := range L {
				if b.K == lanes.Top || b.K == lanes.One || (b.K == lanes.Src && b.S != 0) {
					pure = false
				}
				if b.K == lanes.Top {
					sizeTop = true
				}
			}
			if adj, isAdj := x.arithAdjusted(root, mk.size); isAdj {
				r.Fail(c11R3, cm, mpos, "the make size is the decoded length adjusted by arithmetic ("+adj+"): the payload read consumes a different number of bytes than the header announces")
			} else if !pure && sizeTop {
				x.notDecided(mpos, "the provenance of the make size is ⊤ (unknown): "+an.Expr(mk.size)+" has lanes "+L.String(name)+"; "+strings.Join(an.Why, "; "), [2]string{c11R3, cm})
			} else if pure {
				r.OK(c11R3, cm, mpos, "make size "+L.String(name)+" is built from header bits only (no arithmetic adjustment); the same slice is passed to the read")
			} else {
				r.Undecided(c11R3, cm, mpos, "the make size is not exactly the decoded length: "+an.Expr(mk.size)+" has lanes "+L.String(name)+"; "+strings.Join(an.Why, "; "))
			}

			// R4: type check dominates the allocation
			if tc, unknown := x.typeChecked(root, mk.at.Block(), hreg); tc {
				r.OK(c11R4, ct, mpos, "make is dominated by the header[0] == "+x.sessNm+" edge")
			} else if unknown {
				x.notDecided(mpos, "the make is dominated by a comparison of a value of unknown provenance (⊤) with "+x.sessNm+": whether it is header[0] is not decided", [2]string{c11R4, ct})
			} else {
				r.Fail(c11R4, ct, mpos, "the payload is allocated and read without a dominating test header[0] == "+x.sessNm+": keep-alive/response frames would be returned as session messages")
			}
		}
	}

	// returns
	ord := 0
	for _, b := range c11RetBlocks(fn) {
		ret, ok := b.Instrs[len(b.Instrs)-1].(*ssa.Return)
		if !ok || len(c11Results(ret)) != 2 {
			continue
		}
		ev := c11Results(ret)[1]
		if x.errAt(ev, b) {
			continue
		}
		definitelyErr := false
		for i := range reads {
			if errV[i] != nil && ev == errV[i] && c11Under(fail[i], b) {
				definitelyErr = true
			}
		}
		if definitelyErr {
			continue
		}
		ord++
		cr := fmt.Sprintf("%s: return #%d with a possibly-nil error yields the fully read payload buffer", fname, ord)
		rpos := p.Rel(ret.Pos())
		var missing []string
		for i := range reads {
			if c11Under(succ[i], b) {
				continue
			}
			if errV[i] != nil && ev == errV[i] && lanes.Dominates(reads[i].call, ret) && i == len(reads)-1 {
				continue // propagates the last read's own error
			}
			missing = append(missing, role[i])
		}
		val := root.Origin(c11Results(ret)[0])
		switch {
		case len(missing) > 0:
			r.Fail(c11R3, cr, rpos, fmt.Sprintf("the return is not dominated by the success edge of the %s read: a message is returned with a nil error although the stream may have ended inside the frame", strings.Join(missing, " and ")))
		case mk != nil && val == mk.buf:
			r.OK(c11R3, cr, rpos, "returns the make([]byte, length) buffer under the success edges of both reads")
		default:
			r.Undecided(c11R3, cr, rpos, "the returned slice is not the buffer passed to the payload read: "+an.Expr(c11Results(ret)[0]))
		}
	}
	if ord == 0 {
		r.Undecided(c11R3, fname+": a success return exists", pos, "no return with a possibly-nil error found")
	}
	// callers that handed the connection down must return what the helper
	// returned: its buffer with its error, or an error of their own
	for o := outer; o != nil; o = o.next {
		succ, fail, errV := c11ErrEdges(o.call)
		buf0 := c11Result0(o.call)
		for _, b := range c11RetBlocks(o.fn) {
			ret, ok := b.Instrs[len(b.Instrs)-1].(*ssa.Return)
			if !ok || len(c11Results(ret)) != 2 {
				continue
			}
			ev := c11Results(ret)[1]
			if x.errAt(ev, b) {
				continue
			}
			if errV != nil && ev == errV && c11Under(fail, b) {
				continue
			}
			cr := fmt.Sprintf("%s: a return of %s with a possibly-nil error yields the payload its framing helper returned", fname, o.fn.Name())
			rpos := p.Rel(ret.Pos())
			follows := lanes.Dominates(o.call, ret)
			sameBuf := buf0 != nil && c11FullView(c11Results(ret)[0]) == buf0
			switch {
			case follows && sameBuf && errV != nil && ev == errV:
				// return helper(conn): buffer and error travel together
			case follows && sameBuf && c11Under(succ, b):
			case !follows:
				r.Fail(c11R3, cr, rpos, "the return is not preceded by the call that reads the frame: a message is returned with a nil error although nothing was read")
			case !sameBuf:
				r.Undecided(c11R3, cr, rpos, "the returned slice is not the buffer the framing helper returned: "+an.Expr(c11Results(ret)[0]))
			default:
				r.Fail(c11R3, cr, rpos, "the helper's error is neither returned with its buffer nor tested before the buffer is returned: a stream that ended inside the frame yields a message with a nil error")
			}
		}
	}
	r.Extra["receive_success_returns"] = ord
	if len(an.Why) > 0 {
		r.Extra["receive_top_reasons"] = an.Why
	}
}

// c11OnlyReturned: the error value's only uses are Return instructions.
func c11OnlyReturned(v ssa.Value) bool {
	n := 0
	for _, r := range *v.Referrers() {
		switch r.(type) {
		case *ssa.Return:
			n++
		case *ssa.DebugRef:
		default:
			return false
		}
	}
	return n > 0
}

// typeChecked: some branch edge dominating `at` is taken exactly when
// header[0] == SESSION_MESSAGE.
func (x *c11) typeChecked(root *lanes.Frame, at *ssa.BasicBlock, hreg lanes.Region) (checked, unknown bool) {
	isTop := func(v ssa.Value) bool {
		l := root.Lanes(v)
		return len(l) >= 8 && l[:8].HasTop()
	}
	isHdr0 := func(v ssa.Value) bool {
		l := root.Lanes(v)
		if len(l) < 8 {
			return false
		}
		for b := 0; b < len(l); b++ {
			if b < 8 {
				if l[b] != srcBit(0, 0, b) {
					return false
				}
			} else if l[b].K != lanes.Zero {
				return false
			}
		}
		return true
	}
	isSess := func(v ssa.Value) bool {
		l := root.Lanes(v)
		if l == nil {
			return false
		}
		k, ok := l.ConstVal()
		return ok && k.Cmp(x.sessK) == 0
	}
	for b := at; b != nil; b = b.Idom() {
		d := b.Idom()
		if d == nil || len(b.Preds) != 1 || b.Preds[0] != d {
			continue
		}
		iff, ok := d.Instrs[len(d.Instrs)-1].(*ssa.If)
		if !ok || len(d.Succs) != 2 || d.Succs[0] == d.Succs[1] {
			continue
		}
		bo, ok := iff.Cond.(*ssa.BinOp)
		if !ok || (bo.Op != token.EQL && bo.Op != token.NEQ) {
			continue
		}
		eqEdge := d.Succs[0]
		if bo.Op == token.NEQ {
			eqEdge = d.Succs[1]
		}
		if !((isHdr0(bo.X) && isSess(bo.Y)) || (isHdr0(bo.Y) && isSess(bo.X))) {
			if eqEdge == b && ((isTop(bo.X) && isSess(bo.Y)) || (isTop(bo.Y) && isSess(bo.X))) {
				unknown = true
			}
			continue
		}
		if eqEdge == b {
			return true, false
		}
	}
	return false, unknown
}

// c11Results: the values a return statement yields. In a function with a defer
// go/ssa spills the results to local cells before rundefers and reloads them
// for the return; the spilled value is read back from the store in the same
// block (the cells are written nowhere else: no closure captures them).
func c11Results(ret *ssa.Return) []ssa.Value {
	out := make([]ssa.Value, len(ret.Results))
	for i, v := range ret.Results {
		out[i] = v
		ld, ok := v.(*ssa.UnOp)
		if !ok || ld.Op != token.MUL {
			continue
		}
		al, ok := ld.X.(*ssa.Alloc)
		if !ok || al.Referrers() == nil {
			continue
		}
		plain := true
		for _, r := range *al.Referrers() {
			switch u := r.(type) {
			case *ssa.Store:
				if u.Addr != ssa.Value(al) {
					plain = false
				}
			case *ssa.UnOp, *ssa.DebugRef:
			default:
				plain = false
			}
		}
		if !plain {
			continue
		}
		var last ssa.Value
		for _, in := range ret.Block().Instrs {
			if in == ssa.Instruction(ld) {
				break
			}
			if st, ok := in.(*ssa.Store); ok && st.Addr == ssa.Value(al) {
				last = st.Val
			}
		}
		if last != nil {
			out[i] = last
		}
	}
	return out
}

// c11KnownNonNil: block b is reached only through the `v != nil` edge of a test
// of v against nil.
func c11KnownNonNil(v ssa.Value, b *ssa.BasicBlock) bool {
	for x := b; x != nil; x = x.Idom() {
		d := x.Idom()
		if d == nil || len(x.Preds) != 1 || x.Preds[0] != d {
			continue
		}
		iff, ok := d.Instrs[len(d.Instrs)-1].(*ssa.If)
		if !ok || len(d.Succs) != 2 || d.Succs[0] == d.Succs[1] {
			continue
		}
		bo, ok := iff.Cond.(*ssa.BinOp)
		if !ok || (bo.Op != token.EQL && bo.Op != token.NEQ) {
			continue
		}
		other := bo.Y
		if bo.X != v {
			if bo.Y != v {
				continue
			}
			other = bo.X
		}
		if k, isK := other.(*ssa.Const); !isK || k.Value != nil {
			continue
		}
		ne := d.Succs[0]
		if bo.Op == token.EQL {
			ne = d.Succs[1]
		}
		if ne == x {
			return true
		}
	}
	return false
}

// c11RetBlocks: the blocks of fn whose Return can execute. The synthetic
// recover block of a function with a defer only runs after a deferred call
// recovered a panic; it is left out when no deferred call can do that (every
// defer is a static call of a function outside the module, or of an in-module
// function that does not call recover).
func c11RetBlocks(fn *ssa.Function) []*ssa.BasicBlock {
	if fn.Recover == nil {
		return fn.Blocks
	}
	var recovers func(f *ssa.Function, d int) bool
	recovers = func(f *ssa.Function, d int) bool {
		if f == nil || d > 3 {
			return true
		}
		for _, b := range f.Blocks {
			for _, in := range b.Instrs {
				if c, ok := in.(ssa.CallInstruction); ok {
					if bi, isB := c.Common().Value.(*ssa.Builtin); isB && bi.Name() == "recover" {
						return true
					}
				}
			}
		}
		for _, a := range f.AnonFuncs {
			if recovers(a, d+1) {
				return true
			}
		}
		return false
	}
	for _, b := range fn.Blocks {
		for _, in := range b.Instrs {
			df, ok := in.(*ssa.Defer)
			if !ok {
				continue
			}
			callee := df.Common().StaticCallee()
			if callee == nil {
				return fn.Blocks
			}
			if callee.Blocks != nil && callee.Pkg != nil && fn.Pkg != nil && callee.Pkg.Pkg.Path() != "sync" && recovers(callee, 0) {
				return fn.Blocks
			}
		}
	}
	var out []*ssa.BasicBlock
	for _, b := range fn.Blocks {
		if b != fn.Recover {
			out = append(out, b)
		}
	}
	return out
}

// arithAdjusted: v is `d ± k` or `d * k` with k a constant that changes the
// value and d built from header bits.
func (x *c11) arithAdjusted(root *lanes.Frame, v ssa.Value) (string, bool) {
	bo, ok := root.Origin(v).(*ssa.BinOp)
	if !ok {
		return "", false
	}
	switch bo.Op {
	case token.ADD, token.SUB, token.MUL:
	default:
		return "", false
	}
	for _, pr := range [][2]ssa.Value{{bo.X, bo.Y}, {bo.Y, bo.X}} {
		k, isK := pr[0].(*ssa.Const)
		if !isK || k.Value == nil || k.Value.Kind() != constant.Int {
			continue
		}
		n, exact := constant.Int64Val(k.Value)
		if !exact || (bo.Op == token.MUL && n == 1) || (bo.Op != token.MUL && n == 0) {
			continue
		}
		for _, b := range root.Lanes(pr[1]) {
			if b.K == lanes.Src && b.S == 0 {
				return fmt.Sprintf("%s %s %d", "decoded length", bo.Op, n), true
			}
		}
	}
	return "", false
}

func c11StripConv(v ssa.Value) ssa.Value {
	for {
		switch x := v.(type) {
		case *ssa.Convert:
			v = x.X
		case *ssa.ChangeType:
			v = x.X
		default:
			return v
		}
	}
}

// c11OnlyReadAll: the reader returned by call is used by exactly one
// io.ReadAll and nothing else.
func c11OnlyReadAll(call ssa.CallInstruction) ssa.CallInstruction {
	v := call.Value()
	if v == nil || v.Referrers() == nil {
		return nil
	}
	var ra ssa.CallInstruction
	for _, r := range *v.Referrers() {
		switch y := r.(type) {
		case *ssa.DebugRef:
		case ssa.CallInstruction:
			f := y.Common().StaticCallee()
			if f == nil || f.Pkg == nil || f.Pkg.Pkg.Path() != "io" || f.Name() != "ReadAll" || ra != nil {
				return nil
			}
			ra = y
		default:
			return nil
		}
	}
	return ra
}

// c11LenEdges: the successors of tests that compare len(buf) with size (or a
// conversion of it) on which len(buf) >= size holds (succ) / fails (fail).
func c11LenEdges(fn *ssa.Function, buf, size ssa.Value) (succ, fail []*ssa.BasicBlock) {
	if buf == nil || size == nil {
		return nil, nil
	}
	isLen := func(v ssa.Value) bool {
		c, ok := c11StripConv(v).(*ssa.Call)
		if !ok {
			return false
		}
		b, isB := c.Common().Value.(*ssa.Builtin)
		return isB && b.Name() == "len" && len(c.Common().Args) == 1 && c.Common().Args[0] == buf
	}
	isSize := func(v ssa.Value) bool { return c11StripConv(v) == size }
	for _, b := range fn.Blocks {
		iff, ok := b.Instrs[len(b.Instrs)-1].(*ssa.If)
		if !ok || len(b.Succs) != 2 || b.Succs[0] == b.Succs[1] {
			continue
		}
		bo, ok := iff.Cond.(*ssa.BinOp)
		if !ok {
			continue
		}
		op := bo.Op
		switch {
		case isLen(bo.X) && isSize(bo.Y):
		case isLen(bo.Y) && isSize(bo.X):
			// size OP len  ==  len OP' size
			switch op {
			case token.LSS:
				op = token.GTR
			case token.GTR:
				op = token.LSS
			case token.LEQ:
				op = token.GEQ
			case token.GEQ:
				op = token.LEQ
			}
		default:
			continue
		}
		// the LimitReader bounds len <= size, so len >= size and len == size coincide
		var okEdge, badEdge *ssa.BasicBlock
		switch op {
		case token.LSS, token.NEQ: // len < size / len != size: true = short
			okEdge, badEdge = b.Succs[1], b.Succs[0]
		case token.GEQ, token.EQL:
			okEdge, badEdge = b.Succs[0], b.Succs[1]
		default:
			continue
		}
		if len(okEdge.Preds) == 1 {
			succ = append(succ, okEdge)
		}
		if len(badEdge.Preds) == 1 {
			fail = append(fail, badEdge)
		}
	}
	return succ, fail
}
