package rules

import (
	"go/token"

	"golang.org/x/tools/go/ssa"

	"manticheck/internal/wire"
)

// C10 firstlevel, clause "FirstLevelDecode: trims exactly the pad byte", for
// decoders that do not call TrimRight. The clause is about WHICH byte value is
// dropped from the right end of the 16 decoded bytes, not about how:
//
//   - index form: the name is decoded[:end] where `end` is recorded while the
//     bytes are decoded — a variable of the decode loop that starts at 0 and
//     becomes i+1 exactly when the byte decoded at i differs from a constant K
//     (if c != K { end = i + 1 });
//   - scan form: the name is decoded[:n] where n starts at 16 and is decremented
//     by a loop that runs while decoded[n-1] == K;
//   - whole form: string(decoded) of all 16 bytes — nothing is trimmed. This is
//     a positive observation and the only one reported as "not trimmed".
//
// K is then compared with the encoder's pad byte. Anything else (the bytes
// leave through a helper, a closure, a slice whose bound is computed in a way
// not listed here) is NOT DECIDED.

type c10TrimForm struct {
	kind string // index | scan | whole | opaque
	k    int64  // the byte value dropped (index, scan)
	pos  token.Pos
	why  string // opaque: what was not understood
}

// c10BufferValues: the SSA values that denote the decoded buffer — every slice
// over the array the decode loop stores into, or the values of an append sink.
func c10BufferValues(fn *ssa.Function, st ssa.Instruction, sinkBuf map[ssa.Value]bool) map[ssa.Value]bool {
	out := map[ssa.Value]bool{}
	for v := range sinkBuf {
		out[v] = true
	}
	s, ok := st.(*ssa.Store)
	if !ok {
		return out
	}
	ia, ok := s.Addr.(*ssa.IndexAddr)
	if !ok {
		return out
	}
	var al *ssa.Alloc
	switch b := ia.X.(type) {
	case *ssa.Alloc:
		al = b
	case *ssa.Slice:
		al, _ = b.X.(*ssa.Alloc)
	}
	if al == nil {
		out[ia.X] = true
		return out
	}
	out[al] = true
	for _, r := range *al.Referrers() {
		if sl, ok := r.(*ssa.Slice); ok && sl.X == ssa.Value(al) {
			out[sl] = true
		}
	}
	return out
}

// c10NeqConst: cond compares v (conversions stripped, loads canonicalised)
// with a constant. Returns the constant and whether TRUE means "differs".
func c10NeqConst(dx *wire.X, cond ssa.Value, is func(ssa.Value) bool) (k int64, neqOnTrue bool, ok bool) {
	cmp, isB := cond.(*ssa.BinOp)
	if !isB || (cmp.Op != token.NEQ && cmp.Op != token.EQL) {
		return 0, false, false
	}
	for _, sd := range [][2]ssa.Value{{cmp.X, cmp.Y}, {cmp.Y, cmp.X}} {
		kk, isK := wConstOf(sd[1])
		if !isK || !is(sd[0]) {
			continue
		}
		return kk, cmp.Op == token.NEQ, true
	}
	return 0, false, false
}

// c10TrimForms looks at every way the decoded bytes are turned into the name.
func c10TrimForms(dx *wire.X, fn *ssa.Function, bufs map[ssa.Value]bool, sinkVal ssa.Value, sinkAt ssa.Instruction, it wire.LoopIter, nameLen int64) []c10TrimForm {
	var out []c10TrimForm
	sinkLoop := dx.LoopOf(sinkAt.Block())
	// the byte decoded at i: the value stored, or a load of decoded[i]
	isDecodedByte := func(v ssa.Value) bool {
		v = wire.StripConv(v)
		if v == wire.StripConv(sinkVal) || dx.Rep(v) == dx.Rep(sinkVal) {
			return true
		}
		if ld, ok := v.(*ssa.UnOp); ok && ld.Op == token.MUL {
			if ia, ok := ld.X.(*ssa.IndexAddr); ok && bufs[ia.X] {
				if a, b, ok := c10IndexIn(dx, ia.Index, it); ok && a == 1 && b == 0 {
					return true
				}
			}
		}
		return false
	}
	// reaches(b, target): target is reached from b without leaving through the
	// loop header (one iteration)
	indexForm := func(h ssa.Value) (int64, bool) {
		// h: header φ of the decode loop, or an exit φ / the same value seen
		// after the loop
		phi, ok := h.(*ssa.Phi)
		if !ok || sinkLoop == nil {
			return 0, false
		}
		if phi.Block() != sinkLoop.Header {
			// a φ outside the loop that only joins values of the header φ
			var inner *ssa.Phi
			for _, e := range phi.Edges {
				if p, isP := e.(*ssa.Phi); isP && p.Block() == sinkLoop.Header {
					if inner != nil && inner != p {
						return 0, false
					}
					inner = p
				} else if k, isK := wConstOf(e); !isK || k != 0 {
					return 0, false
				}
			}
			if inner == nil {
				return 0, false
			}
			phi = inner
		}
		hb := phi.Block()
		var k int64
		found := false
		for i, p := range hb.Preds {
			e := phi.Edges[i]
			if !hb.Dominates(p) {
				if k0, isK := wConstOf(e); !isK || k0 != 0 {
					return 0, false
				}
				continue
			}
			// back edge: φ2(N from the "equal" side, i+1 from the "differs" side)
			p2, isP := e.(*ssa.Phi)
			if !isP || len(p2.Edges) != 2 {
				return 0, false
			}
			for j := 0; j < 2; j++ {
				if p2.Edges[j] != ssa.Value(phi) {
					continue
				}
				set := p2.Edges[1-j]
				// the counter of this iteration + 1
				if a, b, ok := c10IndexIn(dx, set, it); !ok || a != 1 || b != 1 {
					return 0, false
				}
				keepPred, setPred := p2.Block().Preds[j], p2.Block().Preds[1-j]
				// the branch that decides: a block ending in If on (c != K)
				var br *ssa.BasicBlock
				for _, cand := range []*ssa.BasicBlock{keepPred, setPred.Idom(), setPred} {
					if cand == nil || len(cand.Succs) != 2 {
						continue
					}
					if _, isIf := cand.Instrs[len(cand.Instrs)-1].(*ssa.If); isIf {
						br = cand
						break
					}
				}
				if br == nil {
					return 0, false
				}
				iff := br.Instrs[len(br.Instrs)-1].(*ssa.If)
				kk, neqOnTrue, okc := c10NeqConst(dx, iff.Cond, isDecodedByte)
				if !okc {
					return 0, false
				}
				differs, same := br.Succs[0], br.Succs[1]
				if !neqOnTrue {
					differs, same = same, differs
				}
				// "differs" leads to the assignment, "same" keeps the old value
				if !(differs == setPred || (differs.Dominates(setPred) && len(differs.Preds) == 1)) {
					return 0, false
				}
				if !(same == p2.Block() && br == keepPred) && !(same == keepPred) {
					return 0, false
				}
				k, found = kk, true
			}
		}
		return k, found
	}
	scanForm := func(h ssa.Value) (int64, bool) {
		// n: header φ of a loop other than the decode loop, entry = nameLen, back edge n-1,
		// the loop continues while decoded[n-1] == K
		var phi *ssa.Phi
		switch t := h.(type) {
		case *ssa.Phi:
			phi = t
		default:
			return 0, false
		}
		l := dx.LoopOf(phi.Block())
		if l == nil || l.Header != phi.Block() || l == sinkLoop {
			return 0, false
		}
		hb := phi.Block()
		for i, p := range hb.Preds {
			e := phi.Edges[i]
			if !hb.Dominates(p) {
				if k0, isK := wConstOf(e); !isK || k0 != nameLen {
					return 0, false
				}
				continue
			}
			if !dx.Sym(e).Equal(dx.Sym(phi).AddK(-1)) {
				return 0, false
			}
		}
		for b := range l.Blocks {
			iff, ok := b.Instrs[len(b.Instrs)-1].(*ssa.If)
			if !ok {
				continue
			}
			isLast := func(v ssa.Value) bool {
				ld, ok := wire.StripConv(v).(*ssa.UnOp)
				if !ok || ld.Op != token.MUL {
					return false
				}
				ia, ok := ld.X.(*ssa.IndexAddr)
				return ok && bufs[ia.X] && dx.Sym(ia.Index).Equal(dx.Sym(phi).AddK(-1))
			}
			kk, neqOnTrue, okc := c10NeqConst(dx, iff.Cond, isLast)
			if !okc {
				continue
			}
			cont, exit := b.Succs[1], b.Succs[0]
			if !neqOnTrue {
				cont, exit = exit, cont
			}
			// equal → stay in the loop (decrement); different → leave
			if l.Blocks[cont] && !l.Blocks[exit] {
				return kk, true
			}
		}
		return 0, false
	}
	seen := map[ssa.Value]bool{}
	var visit func(v ssa.Value)
	visit = func(v ssa.Value) {
		if seen[v] || v.Referrers() == nil {
			return
		}
		seen[v] = true
		for _, r := range *v.Referrers() {
			switch y := r.(type) {
			case *ssa.Slice:
				if y.X != v {
					continue
				}
				if _, isAl := v.(*ssa.Alloc); isAl && y.Low == nil && y.High == nil {
					visit(y) // array[:] — the buffer itself
					continue
				}
				if y.Low != nil {
					if k, isK := wConstOf(y.Low); !isK || k != 0 {
						out = append(out, c10TrimForm{kind: "opaque", pos: y.Pos(), why: "the decoded bytes are re-sliced from a non-zero start"})
						continue
					}
				}
				if y.High == nil {
					visit(y)
					continue
				}
				if k, isK := wConstOf(y.High); isK {
					if k == nameLen {
						visit(y)
					} else {
						out = append(out, c10TrimForm{kind: "opaque", pos: y.Pos(), why: "the decoded bytes are cut at a constant"})
					}
					continue
				}
				h := wire.StripConv(y.High)
				if k, ok := indexForm(h); ok {
					out = append(out, c10TrimForm{kind: "index", k: k, pos: y.Pos()})
				} else if k, ok := scanForm(h); ok {
					out = append(out, c10TrimForm{kind: "scan", k: k, pos: y.Pos()})
				} else {
					out = append(out, c10TrimForm{kind: "opaque", pos: y.Pos(), why: "the name is decoded[:" + dx.Expr(y.High) + "], a bound this rule does not relate to a pad byte"})
				}
			case *ssa.Convert:
				// string(decoded): all the bytes of v
				if _, isAl := v.(*ssa.Alloc); !isAl {
					out = append(out, c10TrimForm{kind: "whole", pos: y.Pos()})
				}
			case *ssa.Phi:
				visit(y)
			case *ssa.ChangeType:
				visit(y)
			case *ssa.Call:
				cc := y.Common()
				if _, isB := cc.Value.(*ssa.Builtin); isB {
					continue
				}
				f := cc.StaticCallee()
				if f != nil && f.Pkg != nil {
					switch f.Pkg.Pkg.Path() + "." + f.Name() {
					case "bytes.TrimRight", "strings.TrimRight":
						continue // decided by the cutset clause
					}
				}
				name := "a function value"
				if f != nil {
					name = f.String()
				}
				out = append(out, c10TrimForm{kind: "opaque", pos: y.Pos(), why: "the decoded bytes are handed to " + name})
			}
		}
	}
	for v := range bufs {
		visit(v)
	}
	return out
}
