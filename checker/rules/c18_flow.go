package rules

// C18 R3 — transaction-id provenance on the SSA def-use graph (E5 rows C18.a/b).

import (
	"fmt"
	"go/constant"
	"go/types"
	"sort"
	"strings"

	"golang.org/x/tools/go/ssa"

	effects "manticheck/internal/srvfx"
)

// c18Loc is a memory location: a root object plus a field path.
type c18Loc struct {
	root ssa.Value
	path []*types.Var
}

func c18PathEq(a, b []*types.Var) bool {
	if len(a) != len(b) {
		return false
	}
	for i := range a {
		if a[i] != b[i] {
			return false
		}
	}
	return true
}

func c18IsPrefix(p, full []*types.Var) bool {
	if len(p) > len(full) {
		return false
	}
	for i := range p {
		if p[i] != full[i] {
			return false
		}
	}
	return true
}

func c18PathStr(p []*types.Var) string {
	var s []string
	for _, f := range p {
		s = append(s, f.Name())
	}
	return strings.Join(s, ".")
}

func c18StructField(t types.Type, i int) *types.Var {
	if p, ok := t.Underlying().(*types.Pointer); ok {
		t = p.Elem()
	}
	st, _ := t.Underlying().(*types.Struct)
	if st == nil || i >= st.NumFields() {
		return nil
	}
	return st.Field(i)
}

// addrLoc resolves an address (or pointer) to root + field path inside one function.
func (k *c18) addrLoc(v ssa.Value, depth int) (c18Loc, bool) {
	if depth > 30 {
		return c18Loc{}, false
	}
	switch x := v.(type) {
	case *ssa.FieldAddr:
		l, ok := k.addrLoc(x.X, depth+1)
		f := c18StructField(x.X.Type(), x.Field)
		if !ok || f == nil {
			return c18Loc{}, false
		}
		return c18Loc{l.root, append(append([]*types.Var{}, l.path...), f)}, true
	case *ssa.Alloc, *ssa.Parameter, *ssa.Call, *ssa.Extract, *ssa.FreeVar, *ssa.Global:
		return c18Loc{root: v}, true
	case *ssa.UnOp:
		if x.Op.String() != "*" {
			return c18Loc{}, false
		}
		// a pointer loaded from a variable cell holding one value
		if al, ok := x.X.(*ssa.Alloc); ok {
			var vals []ssa.Value
			if refs := al.Referrers(); refs != nil {
				for _, r := range *refs {
					if st, ok := r.(*ssa.Store); ok && st.Addr == al {
						vals = append(vals, st.Val)
					}
				}
			}
			if len(vals) == 1 {
				return k.addrLoc(vals[0], depth+1)
			}
		}
		return c18Loc{root: v}, true
	case *ssa.ChangeType:
		return k.addrLoc(x.X, depth+1)
	}
	return c18Loc{}, false
}

type c18Src struct {
	kind string // load | const | zero | other
	loc  c18Loc
	v    ssa.Value
	desc string
}

func (s c18Src) String() string {
	switch s.kind {
	case "load":
		return "load of " + s.loc.root.Name() + "." + c18PathStr(s.loc.path)
	case "const":
		return "constant " + s.desc
	case "zero":
		return "zero value (never assigned)"
	case "param":
		return "computed value " + s.desc
	}
	return "computed value " + s.desc
}

type c18Flow struct {
	k       *c18
	fn      *ssa.Function
	visited map[string]bool
	stores  []*ssa.Store // stores that matched the queried location at the outermost level
}

func (f *c18Flow) fieldSources(loc c18Loc, top bool) []c18Src {
	key := fmt.Sprintf("%p/%s", loc.root, c18PathStr(loc.path))
	if f.visited[key] {
		return nil
	}
	f.visited[key] = true
	var out []c18Src
	matched := false
	for _, b := range f.fn.Blocks {
		for _, in := range b.Instrs {
			st, ok := in.(*ssa.Store)
			if !ok {
				continue
			}
			l, ok := f.k.addrLoc(st.Addr, 0)
			if !ok || l.root != loc.root {
				continue
			}
			switch {
			case c18PathEq(l.path, loc.path):
				matched = true
				if top {
					f.stores = append(f.stores, st)
				}
				out = append(out, f.valueSources(st.Val)...)
			case c18IsPrefix(l.path, loc.path):
				matched = true
				if top {
					f.stores = append(f.stores, st)
				}
				rest := loc.path[len(l.path):]
				switch v := st.Val.(type) {
				case *ssa.UnOp:
					if l2, ok := f.k.addrLoc(v.X, 0); ok && v.Op.String() == "*" {
						out = append(out, f.fieldSources(c18Loc{l2.root, append(append([]*types.Var{}, l2.path...), rest...)}, false)...)
					} else {
						out = append(out, c18Src{kind: "other", v: v, desc: v.String()})
					}
				case *ssa.Const:
					out = append(out, c18Src{kind: "zero", v: v})
				default:
					out = append(out, c18Src{kind: "other", v: st.Val, desc: st.Val.String()})
				}
			}
		}
	}
	if !matched {
		switch a := loc.root.(type) {
		case *ssa.Alloc:
			// a local that is handed to a callee (packet.Unmarshal(data)) is filled there
			filled := false
			if refs := a.Referrers(); refs != nil && !top {
				for _, r := range *refs {
					if _, ok := r.(ssa.CallInstruction); ok {
						filled = true
					}
				}
			}
			if filled {
				out = append(out, c18Src{kind: "load", loc: loc})
			} else {
				out = append(out, c18Src{kind: "zero", loc: loc})
			}
		default:
			out = append(out, c18Src{kind: "load", loc: loc})
		}
	}
	return out
}

func (f *c18Flow) valueSources(v ssa.Value) []c18Src {
	switch x := v.(type) {
	case *ssa.Parameter:
		return []c18Src{{kind: "param", v: v, desc: "parameter " + x.Name()}}
	case *ssa.Const:
		d := "nil"
		if x.Value != nil {
			d = x.Value.ExactString()
		}
		return []c18Src{{kind: "const", v: v, desc: d}}
	case *ssa.Convert:
		return f.valueSources(x.X)
	case *ssa.ChangeType:
		return f.valueSources(x.X)
	case *ssa.MakeInterface:
		return f.valueSources(x.X)
	case *ssa.Phi:
		var out []c18Src
		for _, e := range x.Edges {
			out = append(out, f.valueSources(e)...)
		}
		return out
	case *ssa.UnOp:
		if x.Op.String() == "*" {
			if l, ok := f.k.addrLoc(x.X, 0); ok {
				if _, isAlloc := l.root.(*ssa.Alloc); isAlloc {
					return f.fieldSources(l, false)
				}
				return []c18Src{{kind: "load", loc: l, v: v}}
			}
		}
	case *ssa.Field:
		if u, ok := x.X.(*ssa.UnOp); ok && u.Op.String() == "*" {
			if l, ok := f.k.addrLoc(u.X, 0); ok {
				if fv := c18StructField(x.X.Type(), x.Field); fv != nil {
					l2 := c18Loc{l.root, append(append([]*types.Var{}, l.path...), fv)}
					if _, isAlloc := l.root.(*ssa.Alloc); isAlloc {
						return f.fieldSources(l2, false)
					}
					return []c18Src{{kind: "load", loc: l2, v: v}}
				}
			}
		}
	}
	return []c18Src{{kind: "other", v: v, desc: v.String()}}
}

func c18NamedField(pk *types.Package, typ, field string) *types.Var {
	tn, ok := pk.Scope().Lookup(typ).(*types.TypeName)
	if !ok {
		return nil
	}
	st, _ := tn.Type().Underlying().(*types.Struct)
	if st == nil {
		return nil
	}
	for i := 0; i < st.NumFields(); i++ {
		if st.Field(i).Name() == field {
			return st.Field(i)
		}
	}
	return nil
}

func c18Method(pk *types.Package, typ, name string) *types.Func {
	tn, ok := pk.Scope().Lookup(typ).(*types.TypeName)
	if !ok {
		return nil
	}
	nt, _ := tn.Type().(*types.Named)
	if nt == nil {
		return nil
	}
	for i := 0; i < nt.NumMethods(); i++ {
		if nt.Method(i).Name() == name {
			return nt.Method(i)
		}
	}
	return nil
}

// writesField: g stores to the location param.path (or a prefix of it: a whole
// struct overwrite), directly or through callees.
func (k *c18) writesField(g *ssa.Function, param int, path []*types.Var, depth int) (bool, string) {
	if depth > 3 || g.Blocks == nil || param >= len(g.Params) {
		return false, ""
	}
	p := g.Params[param]
	for _, b := range g.Blocks {
		for _, in := range b.Instrs {
			switch x := in.(type) {
			case *ssa.Store:
				if l, ok := k.addrLoc(x.Addr, 0); ok && l.root == p && c18IsPrefix(l.path, path) {
					return true, g.Name() + " at " + k.pos(in)
				}
			case ssa.CallInstruction:
				args := effects.AllArgs(x.Common())
				for _, h := range k.pg.Callees(x.Common()) {
					for i, a := range args {
						if l, ok := k.addrLoc(a, 0); ok && l.root == p && len(l.path) == 0 {
							if w, where := k.writesField(h, i, path, depth+1); w {
								return true, where
							}
						}
					}
				}
			}
		}
	}
	return false, ""
}

func (k *c18) r3() {
	k.r3nbtns()
	k.r3llmnr()
}

// ---- C18.a: NBNS responders echo the request's TransactionID

// c18Marshal is a point where a packet is encoded for sending: a Marshal call, or a call of
// a module function that Marshals the argument it is given (s.send(response, addr)).
type c18Marshal struct {
	in  *ssa.Call
	obj ssa.Value // the packet that is encoded
}

func (k *c18) r3nbtns() {
	const rule = "R3-id-echo"
	pk := k.p.Pkg(c18Nbtns)
	if pk == nil {
		k.r.Undecided(rule, "package "+c18Nbtns, "", "anchor package not found")
		return
	}
	hdr := c18NamedField(pk.Types, "NBTNSPacket", "Header")
	tid := c18NamedField(pk.Types, "NBTNSHeader", "TransactionID")
	unm := c18Method(pk.Types, "NBTNSPacket", "Unmarshal")
	mar := c18Method(pk.Types, "NBTNSPacket", "Marshal")
	if hdr == nil || tid == nil || unm == nil || mar == nil {
		k.r.Undecided(rule, "nbtns.NBTNSPacket{Header.TransactionID, Unmarshal, Marshal}", "", "anchor symbols not found")
		return
	}
	path := []*types.Var{hdr, tid}
	n := 0
	// pass 1: per function, the packets Unmarshal-ed from its input and its Marshal calls
	localReq := map[*ssa.Function][]ssa.Value{}
	marshalsOf := map[*ssa.Function][]c18Marshal{}
	unmarshals := map[*ssa.Function]bool{}
	var order []*ssa.Function
	for _, fn := range k.fns {
		if relPkg(k.p, fn) != c18Nbtns {
			continue
		}
		order = append(order, fn)
		for _, b := range fn.Blocks {
			for _, in := range b.Instrs {
				call, ok := in.(*ssa.Call)
				if !ok {
					continue
				}
				obj := effects.CalleeObj(&call.Call)
				args := effects.AllArgs(&call.Call)
				switch obj {
				case unm:
					unmarshals[fn] = true
					if len(args) < 2 {
						continue
					}
					fromParam := false
					for _, rt := range effects.Roots(args[1]) {
						if _, ok := rt.(*ssa.Parameter); ok {
							fromParam = true
						}
					}
					if l, ok := k.addrLoc(args[0], 0); ok && fromParam && len(l.path) == 0 {
						localReq[fn] = append(localReq[fn], l.root)
					}
				case mar:
					if len(args) > 0 {
						marshalsOf[fn] = append(marshalsOf[fn], c18Marshal{call, args[0]})
					}
				}
			}
		}
	}
	// pass 1b: the decode and the encode may each sit in a helper of their own
	// (packet, ok := decodeRequest(data) … s.send(s.answer(packet), addr)):
	//   - a declared function that returns the packet it Unmarshal-ed from its input hands a
	//     request to its caller when the caller feeds it from its own input;
	//   - a declared function that calls Marshal on one of its parameters is a marshal site of
	//     its callers, for the argument they pass.
	pktPtr := func(t types.Type) bool {
		pt, ok := t.Underlying().(*types.Pointer)
		if !ok {
			return false
		}
		rt := unm.Type().(*types.Signature).Recv().Type()
		if rp, ok := rt.(*types.Pointer); ok {
			rt = rp.Elem()
		}
		return types.Identical(pt.Elem(), rt)
	}
	for round := 0; round < 2; round++ {
		returnsReq := map[*ssa.Function]int{}
		for _, g := range order {
			if g.Parent() != nil || len(localReq[g]) == 0 {
				continue
			}
			res := g.Signature.Results()
			for idx := 0; idx < res.Len(); idx++ {
				if !pktPtr(res.At(idx).Type()) {
					continue
				}
				good, bad := 0, 0
				for _, b := range g.Blocks {
					for _, in := range b.Instrs {
						ret, ok := in.(*ssa.Return)
						if !ok || idx >= len(ret.Results) {
							continue
						}
						rv := ret.Results[idx]
						if c, isC := rv.(*ssa.Const); isC && c.Value == nil {
							continue
						}
						l, ok := k.addrLoc(rv, 0)
						isReq := false
						if ok && len(l.path) == 0 {
							for _, rr := range localReq[g] {
								if rr == l.root {
									isReq = true
								}
							}
						}
						if isReq {
							good++
						} else {
							bad++
						}
					}
				}
				if good > 0 && bad == 0 {
					returnsReq[g] = idx
				}
			}
		}
		for _, fn := range order {
			for _, b := range fn.Blocks {
				for _, in := range b.Instrs {
					call, ok := in.(*ssa.Call)
					if !ok {
						continue
					}
					g := call.Call.StaticCallee()
					idx, has := returnsReq[g]
					if g == nil || !has {
						continue
					}
					fromParam := false
					for _, a := range call.Call.Args {
						if sl, isSl := a.Type().Underlying().(*types.Slice); !isSl || !types.Identical(sl.Elem(), types.Typ[types.Byte]) {
							continue
						}
						for _, rt := range effects.Roots(a) {
							if _, ok := rt.(*ssa.Parameter); ok {
								fromParam = true
							}
						}
					}
					if !fromParam {
						continue
					}
					var val ssa.Value = call
					if g.Signature.Results().Len() > 1 {
						val = nil
						if refs := call.Referrers(); refs != nil {
							for _, r := range *refs {
								if ex, ok := r.(*ssa.Extract); ok && ex.Index == idx {
									val = ex
								}
							}
						}
					}
					if val == nil {
						continue
					}
					dup := false
					for _, rr := range localReq[fn] {
						if rr == val {
							dup = true
						}
					}
					if !dup {
						localReq[fn] = append(localReq[fn], val)
					}
				}
			}
		}
	}
	{
		marshalsParam := map[*ssa.Function][]int{}
		for _, g := range order {
			if g.Parent() != nil {
				continue
			}
			for _, m := range marshalsOf[g] {
				if l, ok := k.addrLoc(m.obj, 0); ok && len(l.path) == 0 {
					if prm, isP := l.root.(*ssa.Parameter); isP {
						for i, q := range g.Params {
							if q == prm {
								marshalsParam[g] = append(marshalsParam[g], i)
							}
						}
					}
				}
			}
		}
		for _, fn := range order {
			for _, b := range fn.Blocks {
				for _, in := range b.Instrs {
					call, ok := in.(*ssa.Call)
					if !ok {
						continue
					}
					g := call.Call.StaticCallee()
					if g == nil || g == fn {
						continue
					}
					for _, i := range marshalsParam[g] {
						if i < len(call.Call.Args) {
							marshalsOf[fn] = append(marshalsOf[fn], c18Marshal{call, call.Call.Args[i]})
						}
					}
				}
			}
		}
	}
	// pass 2: a function that builds and encodes the response for a request decoded by its
	// caller (decode in handlePacket, respond(&packet, …) does the rest): its packet parameter
	// is the request when every call site passes a packet the caller Unmarshal-ed from its input
	pktT := types.NewPointer(unm.Type().(*types.Signature).Recv().Type())
	if p, ok := unm.Type().(*types.Signature).Recv().Type().(*types.Pointer); ok {
		pktT = p
	}
	// notRequest: a function that encodes a response for its packet parameter, observed to be
	// called with a packet that is a plain local of the caller and NOT the one the caller
	// decoded from its input (positively wrong, as opposed to "could not be followed")
	notRequest := map[string]string{}
	paramReq := func(fn *ssa.Function) []ssa.Value {
		var out []ssa.Value
		for i, prm := range fn.Params {
			if !types.Identical(prm.Type(), pktT) {
				continue
			}
			sites, good := 0, 0
			for _, f := range order {
				for _, b := range f.Blocks {
					for _, in := range b.Instrs {
						ci, ok := in.(ssa.CallInstruction)
						if !ok || ci.Common().StaticCallee() != fn || i >= len(ci.Common().Args) {
							continue
						}
						sites++
						if l, ok := k.addrLoc(ci.Common().Args[i], 0); ok && len(l.path) == 0 {
							isReq := false
							for _, rr := range localReq[f] {
								if rr == l.root {
									good++
									isReq = true
								}
							}
							if al, isAlloc := l.root.(*ssa.Alloc); isAlloc && !isReq && len(localReq[f]) > 0 {
								notRequest[k.r2DeclName(fn)] = fmt.Sprintf("%s is called by %s with the local packet %s, which is not the packet %s decoded from its input", fn.Name(), f.Name(), al.Comment, f.Name())
							}
						}
					}
				}
			}
			if sites > 0 && sites == good {
				out = append(out, prm)
			}
		}
		return out
	}
	responders := map[string]bool{}
	for _, fn := range order {
		reqRoots := localReq[fn]
		marshals := marshalsOf[fn]
		if len(reqRoots) == 0 && len(marshals) > 0 && fn.Parent() == nil {
			reqRoots = paramReq(fn)
		}
		if len(reqRoots) == 0 || len(marshals) == 0 {
			continue
		}
		responders[k.r2DeclName(fn)] = true
		for _, m := range marshals {
			mm := m
			m := mm.in
			rl, ok := k.addrLoc(mm.obj, 0)
			construct := k.fname(fn) + ": response Header.TransactionID ← request Header.TransactionID"
			if !ok || len(rl.path) != 0 {
				n++
				k.r.Undecided(rule, construct, k.pos(m), "the object Marshal is called on could not be resolved")
				continue
			}
			isReq := false
			for _, rr := range reqRoots {
				if rr == rl.root {
					isReq = true
				}
			}
			if isReq {
				continue // re-encoding the decoded packet itself
			}
			n++
			k.c.guard(rule, construct, k.pos(m), func() {
				var srcs []c18Src
				var tops []*ssa.Store
				translate := func(s c18Src) c18Src { return s }
				switch root := rl.root.(type) {
				case *ssa.Alloc:
					fl := &c18Flow{k: k, fn: fn, visited: map[string]bool{}}
					srcs = fl.fieldSources(c18Loc{root, path}, true)
					tops = fl.stores
				case *ssa.Call:
					// response built by a helper: follow it one level
					ts := k.pg.Callees(&root.Call)
					if len(ts) != 1 {
						k.r.Undecided(rule, construct, k.pos(m), "response comes from a call that does not resolve to one module function")
						return
					}
					g := ts[0]
					gargs := effects.AllArgs(&root.Call)
					fl := &c18Flow{k: k, fn: g, visited: map[string]bool{}}
					for _, b := range g.Blocks {
						for _, in := range b.Instrs {
							if ret, ok := in.(*ssa.Return); ok && len(ret.Results) > 0 {
								if l, ok := k.addrLoc(ret.Results[0], 0); ok && len(l.path) == 0 {
									srcs = append(srcs, fl.fieldSources(c18Loc{l.root, path}, true)...)
								} else {
									srcs = append(srcs, c18Src{kind: "other", desc: "unresolved result of " + g.Name()})
								}
							}
						}
					}
					translate = func(s c18Src) c18Src {
						if s.kind != "load" {
							return s
						}
						for i, p := range g.Params {
							if p == s.loc.root && i < len(gargs) {
								if l, ok := k.addrLoc(gargs[i], 0); ok {
									return c18Src{kind: "load", loc: c18Loc{l.root, append(append([]*types.Var{}, l.path...), s.loc.path...)}}
								}
							}
						}
						return c18Src{kind: "other", desc: "value local to " + g.Name()}
					}
					// later stores in the caller on the returned object
					fl2 := &c18Flow{k: k, fn: fn, visited: map[string]bool{}}
					for _, s := range fl2.fieldSources(c18Loc{root, path}, true) {
						if s.kind == "load" && s.loc.root == ssa.Value(root) {
							continue // no store in the caller: value as returned
						}
						srcs = append(srcs, s)
					}
					tops = nil
				default:
					k.r.Undecided(rule, construct, k.pos(m), "response object is neither a local allocation nor the result of a module function")
					return
				}
				var bad []string
				good := 0
				for _, s := range srcs {
					s = translate(s)
					okSrc := false
					if s.kind == "load" && c18PathEq(s.loc.path, path) {
						for _, rr := range reqRoots {
							if rr == s.loc.root {
								okSrc = true
							}
						}
					}
					if okSrc {
						good++
					} else {
						bad = append(bad, s.String())
					}
				}
				if len(bad) > 0 || good == 0 {
					if good == 0 && len(bad) == 0 {
						bad = append(bad, "no assignment found")
					}
					k.r.Fail(rule, construct, k.pos(m), "the TransactionID of the packet passed to Marshal does not derive from the decoded request's Header.TransactionID on every path: "+strings.Join(uniqStrings(bad), "; ")+
						" — the client cannot match the response to its request")
					return
				}
				if tops != nil {
					pre := false
					for _, st := range tops {
						if effects.Precedes(st, m) {
							pre = true
						}
					}
					if !pre {
						k.r.Fail(rule, construct, k.pos(m), "no assignment of the response TransactionID precedes Marshal on every path")
						return
					}
				}
				// no callee that receives the response overwrites the id
				for _, b := range fn.Blocks {
					for _, in := range b.Instrs {
						ci, ok := in.(ssa.CallInstruction)
						if !ok || in == ssa.Instruction(m) {
							continue
						}
						cargs := effects.AllArgs(ci.Common())
						for _, g := range k.pg.Callees(ci.Common()) {
							for i, a := range cargs {
								if l, ok := k.addrLoc(a, 0); ok && l.root == rl.root && len(l.path) == 0 {
									if w, where := k.writesField(g, i, path, 0); w {
										k.r.Fail(rule, construct, k.pos(in), "callee given the response overwrites Header.TransactionID: "+where)
										return
									}
								}
							}
						}
					}
				}
				k.r.OK(rule, construct, k.pos(m), fmt.Sprintf("%d def-use path(s), all from the load of Header.TransactionID of the packet Unmarshal-ed from the input parameter; no callee rewrites it", good))
			})
		}
	}
	// The entities that must answer with the request's id are the server types; several of
	// them may share one responder function. Each server type must reach a judged responder.
	servers := k.r2ServerTypes(pk)
	for _, t := range servers {
		construct := "nbtns: server type " + t.Obj().Name() + " answers through a responder judged above"
		reach := k.r2Reach(k.methodsOf(t))
		if k.r2ReachesAny(reach, responders) {
			k.r.OK(rule, construct, k.p.Rel(t.Obj().Pos()), "reaches a function that decodes the request from its input and encodes a response whose TransactionID is judged")
		} else if why := func() string {
			for fn, w := range notRequest {
				if reach[fn] {
					return w
				}
			}
			return ""
		}(); why != "" {
			k.r.Fail(rule, construct, k.p.Rel(t.Obj().Pos()), "the response of "+t.Obj().Name()+" is built from a packet that is not the decoded request: "+why)
		} else if dec, enc := k.r3ReachesCodec(reach, unmarshals, marshalsOf); dec != "" && enc != "" {
			// the server still decodes and still encodes, but not in a pair of places the rule can
			// connect (decode and encode more than one helper apart, packets kept in fields, …)
			k.r.OK(rule, construct, k.p.Rel(t.Obj().Pos()), "NOT DECIDED — "+t.Obj().Name()+" reaches Unmarshal (in "+dec+") and Marshal (in "+enc+"), but no function both holds the decoded request and encodes a response, directly or through one level of decode/encode helpers; the id echo of this server was not read")
			k.r.Note("C18 R3-id-echo: %s NOT DECIDED — decode in %s and encode in %s are not connected by the rule", t.Obj().Name(), dec, enc)
		} else {
			k.r.Fail(rule, construct, k.p.Rel(t.Obj().Pos()), "no method of "+t.Obj().Name()+" reaches a function that Unmarshals a request from its input and Marshals a response: the id echo of this server is not decided (or the server no longer answers)")
		}
	}
	if len(servers) < 3 {
		k.r.Fail(rule, "nbtns: server types with Start/Stop", "", fmt.Sprintf("%d server types found, 3 confirmed by reading (Server, UDPServer, TCPServer)", len(servers)))
	}
	// 3 server types + at least one judged responder
	k.r.Floor(rule, 4)
	k.r.Extra["R3_nbns_responders"] = n
}

// ---- C18.b: LLMNR

func c18Strip(v ssa.Value) ssa.Value {
	for {
		switch x := v.(type) {
		case *ssa.MakeInterface:
			v = x.X
		case *ssa.ChangeType:
			v = x.X
		case *ssa.Convert:
			v = x.X
		case *ssa.ChangeInterface:
			v = x.X
		default:
			return v
		}
	}
}

func (k *c18) r3llmnr() {
	pk := k.p.Pkg(c18Llmnr)
	if pk == nil {
		k.r.Undecided("R3-llmnr-response-id", "package "+c18Llmnr, "", "anchor package not found")
		return
	}
	hdr := c18NamedField(pk.Types, "Message", "Header")
	id := c18NamedField(pk.Types, "Header", "ID")
	if hdr == nil || id == nil {
		k.r.Undecided("R3-llmnr-response-id", "llmnr.Message.Header.ID", "", "anchor fields not found")
		return
	}
	path := []*types.Var{hdr, id}

	// (1) CreateResponseFromMessage
	{
		const rule = "R3-llmnr-response-id"
		fn := k.p.Func(c18Llmnr, "", "CreateResponseFromMessage")
		construct := "network/llmnr.CreateResponseFromMessage: result Header.ID ← msg.Header.ID"
		if fn == nil || len(fn.Params) == 0 {
			k.r.Undecided(rule, construct, "", "anchor function not found")
		} else {
			k.c.guard(rule, construct, k.p.Rel(fn.Pos()), func() {
				var bad []string
				good := 0
				for _, b := range fn.Blocks {
					for _, in := range b.Instrs {
						ret, ok := in.(*ssa.Return)
						if !ok || len(ret.Results) == 0 {
							continue
						}
						l, ok := k.addrLoc(ret.Results[0], 0)
						if !ok || len(l.path) != 0 {
							bad = append(bad, "unresolved result")
							continue
						}
						fl := &c18Flow{k: k, fn: fn, visited: map[string]bool{}}
						for _, s := range k.r3ThroughCtor(fn, l.root, fl.fieldSources(c18Loc{l.root, path}, true), path, 0) {
							if s.kind == "load" && s.loc.root == ssa.Value(fn.Params[0]) && c18PathEq(s.loc.path, path) {
								good++
							} else if s.kind == "load" && s.loc.root == l.root {
								bad = append(bad, "the ID chosen by the constructor is kept (no assignment from msg)")
							} else {
								bad = append(bad, s.String())
							}
						}
						pre := false
						for _, st := range fl.stores {
							if effects.Precedes(st, in) {
								pre = true
							}
						}
						if !pre && len(fl.stores) > 0 {
							bad = append(bad, "the assignment does not precede the return on every path")
						}
					}
				}
				if len(bad) > 0 || good == 0 {
					k.r.Fail(rule, construct, k.p.Rel(fn.Pos()), "response ID does not derive from the query's ID on every path: "+strings.Join(uniqStrings(bad), "; "))
					return
				}
				k.r.OK(rule, construct, k.p.Rel(fn.Pos()), "the only assignments of the result's Header.ID load msg.Header.ID and precede the return")
			})
		}
	}

	// (2) client receive loop: lookup by the decoded message's ID, non-blocking delivery of that message
	nLookup := 0
	nStore := 0
	for _, fn := range k.fns {
		if relPkg(k.p, fn) != c18Llmnr {
			continue
		}
		fills := k.r3fills(fn)
		for _, b := range fn.Blocks {
			for _, in := range b.Instrs {
				call, ok := in.(*ssa.Call)
				if !ok {
					continue
				}
				obj := effects.CalleeObj(&call.Call)
				if obj == nil || obj.Pkg() == nil || obj.Pkg().Path() != "sync" {
					continue
				}
				sig, _ := obj.Type().(*types.Signature)
				if sig == nil || sig.Recv() == nil || !strings.HasSuffix(types.TypeString(sig.Recv().Type(), nil), "sync.Map") {
					continue
				}
				args := effects.AllArgs(&call.Call)
				switch obj.Name() {
				case "Load":
					if len(args) < 2 {
						continue
					}
					if len(fills) == 0 {
						// the lookup may have been moved into a helper of the receive loop
						// (deliver(msg), lookup(id)): judge it at the helper's call sites
						nLookup += k.r3lookupInHelper(fn, call, args[1], path, 0)
						continue
					}
					nLookup++
					k.r3lookup(fn, call, args[1], fills, path)
				case "Store":
					if len(args) < 3 {
						continue
					}
					nStore++
					k.r3register(fn, call, args[1], args[2], path, pk.Types)
				}
			}
		}
	}
	k.r.Floor("R3-llmnr-lookup-key", 1)
	k.r.Floor("R3-llmnr-nonblocking-delivery", 1)
	k.r.Floor("R3-llmnr-register", 1)
	k.r.Extra["R3_llmnr_lookups"] = nLookup
	k.r.Extra["R3_llmnr_registrations"] = nStore
}

// r3fills: the buffers of fn that hold freshly received bytes — filled by a read in fn itself,
// or (one level of extraction: readLoop → handle(buffer[:n])) a []byte parameter that every
// in-package caller with a receive loop feeds from the buffer it has just filled.
func (k *c18) r3fills(fn *ssa.Function) []c18Fill {
	if fl := k.fills(fn); len(fl) > 0 || fn.Parent() != nil {
		return fl
	}
	var out []c18Fill
	for i, prm := range fn.Params {
		if sl, ok := prm.Type().Underlying().(*types.Slice); !ok || !types.Identical(sl.Elem(), types.Typ[types.Byte]) {
			continue
		}
		sites, fed := 0, 0
		var at ssa.CallInstruction
		for _, g := range k.fns {
			if relPkg(k.p, g) != relPkg(k.p, fn) {
				continue
			}
			var gf []c18Fill
			for _, b := range g.Blocks {
				for _, in := range b.Instrs {
					ci, ok := in.(ssa.CallInstruction)
					if !ok || ci.Common().StaticCallee() != fn || i >= len(ci.Common().Args) {
						continue
					}
					if _, isCall := in.(*ssa.Call); !isCall {
						continue // go/defer: the bytes are used after the next read may have happened (R1's subject)
					}
					sites++
					if gf == nil {
						gf = k.fills(g)
					}
					ok2 := false
					for _, r1 := range effects.Roots(ci.Common().Args[i]) {
						for _, f := range gf {
							for _, r2 := range effects.Roots(f.buf) {
								if r1 == r2 {
									ok2 = true
								}
							}
						}
					}
					if ok2 {
						fed++
						at = ci
					}
				}
			}
		}
		if sites > 0 && sites == fed {
			out = append(out, c18Fill{call: at, buf: prm, name: "caller's read"})
		}
	}
	return out
}

// r3keyCheck: the lookup key evaluated in fn derives, on every def-use path, from
// the Header.ID of the message decoded from the bytes fn's loop has just read.
// Returns the message root and the reasons why not.
func (k *c18) r3keyCheck(fn *ssa.Function, key ssa.Value, fills []c18Fill, path []*types.Var) (msgRoot ssa.Value, bad []string) {
	fl := &c18Flow{k: k, fn: fn, visited: map[string]bool{}}
	for _, s := range fl.valueSources(key) {
		if s.kind != "load" || !c18PathEq(s.loc.path, path) {
			bad = append(bad, s.String())
			continue
		}
		if why := k.r3decoded(s.loc.root, fills); why != "" {
			bad = append(bad, why)
			continue
		}
		msgRoot = s.loc.root
	}
	return msgRoot, bad
}

// r3decoded: root is the result of a module decoder applied to the buffer filled by the read of this loop.
func (k *c18) r3decoded(root ssa.Value, fills []c18Fill) string {
	ex, _ := root.(*ssa.Extract)
	var dec *ssa.Call
	if ex != nil {
		dec, _ = ex.Tuple.(*ssa.Call)
	} else {
		dec, _ = root.(*ssa.Call)
	}
	if dec == nil || len(k.pg.Callees(&dec.Call)) == 0 {
		return "the message whose ID is used is not the result of a module decoder (" + root.String() + ")"
	}
	for _, a := range effects.AllArgs(&dec.Call) {
		for _, r1 := range effects.Roots(a) {
			for _, f := range fills {
				for _, r2 := range effects.Roots(f.buf) {
					if r1 == r2 {
						return ""
					}
				}
			}
		}
	}
	return "the decoded message does not come from the buffer filled by the read in this loop"
}

// r3sends judges the sends on channels for which isChan holds, in fn and in the
// module helpers such a channel is passed to (bounded depth): each must be a
// non-blocking select case sending the looked-up message.
func (k *c18) r3sends(fn *ssa.Function, isChan, isMsg func(ssa.Value) bool, depth int) (good int, bad []string) {
	for _, b := range fn.Blocks {
		for _, in := range b.Instrs {
			switch x := in.(type) {
			case *ssa.Send:
				if isChan(x.Chan) {
					bad = append(bad, "blocking channel send at "+k.pos(in)+": a query that is no longer receiving stalls the read loop for every other query")
				}
			case *ssa.Select:
				for _, st := range x.States {
					if st.Send == nil || !isChan(st.Chan) {
						continue
					}
					if x.Blocking {
						bad = append(bad, "select without default at "+k.pos(in)+": the send can block the read loop")
						continue
					}
					if isMsg != nil && !isMsg(c18Strip(st.Send)) {
						bad = append(bad, "the value sent at "+k.pos(in)+" is not the message whose ID was looked up")
						continue
					}
					good++
				}
			case ssa.CallInstruction:
				if depth >= 2 {
					continue
				}
				g := x.Common().StaticCallee()
				if g == nil || g.Blocks == nil || !k.p.InModule(g) || g.Parent() != nil {
					continue
				}
				args := x.Common().Args
				var chanPrm, msgPrm []ssa.Value
				for i, a := range args {
					if i >= len(g.Params) {
						break
					}
					if _, isCh := a.Type().Underlying().(*types.Chan); isCh && isChan(a) {
						chanPrm = append(chanPrm, g.Params[i])
					} else if _, isIf := a.Type().Underlying().(*types.Interface); isIf && isChan(a) {
						chanPrm = append(chanPrm, g.Params[i]) // the untyped value loaded from the sync.Map
					}
					if isMsg != nil && isMsg(c18Strip(a)) {
						msgPrm = append(msgPrm, g.Params[i])
					}
				}
				if len(chanPrm) == 0 {
					continue
				}
				subChan := func(v ssa.Value) bool {
					for _, r := range effects.Roots(v) {
						for _, p := range chanPrm {
							if r == p {
								return true
							}
						}
					}
					return false
				}
				subMsg := func(v ssa.Value) bool {
					for _, p := range msgPrm {
						if v == p {
							return true
						}
					}
					return false
				}
				g2, b2 := k.r3sends(g, subChan, subMsg, depth+1)
				good += g2
				bad = append(bad, b2...)
			}
		}
	}
	return good, bad
}

func (k *c18) r3delivery(construct2 string, at ssa.Instruction, fn *ssa.Function, isChan, isMsg func(ssa.Value) bool) {
	k.c.guard("R3-llmnr-nonblocking-delivery", construct2, k.pos(at), func() {
		good, bad := k.r3sends(fn, isChan, isMsg, 0)
		if len(bad) > 0 || good == 0 {
			if len(bad) == 0 {
				bad = append(bad, "no send on the looked-up channel found")
			}
			k.r.Fail("R3-llmnr-nonblocking-delivery", construct2, k.pos(at), strings.Join(bad, "; "))
			return
		}
		k.r.OK("R3-llmnr-nonblocking-delivery", construct2, k.pos(at), "select with default sends the message whose ID selected the channel")
	})
}

func c18RootsInclude(v ssa.Value, want ssa.Value) bool {
	for _, r := range effects.Roots(v) {
		if r == want {
			return true
		}
	}
	return false
}

func (k *c18) r3lookup(fn *ssa.Function, load *ssa.Call, key ssa.Value, fills []c18Fill, path []*types.Var) {
	construct := k.fname(fn) + ": pending-query lookup key ← ID of the message decoded from the received bytes"
	var msgRoot ssa.Value
	k.c.guard("R3-llmnr-lookup-key", construct, k.pos(load), func() {
		var bad []string
		msgRoot, bad = k.r3keyCheck(fn, key, fills, path)
		if len(bad) > 0 || msgRoot == nil {
			k.r.Fail("R3-llmnr-lookup-key", construct, k.pos(load), "the key passed to Queries.Load is not the received message's Header.ID: "+strings.Join(uniqStrings(bad), "; ")+" — responses would be handed to the wrong query or dropped")
			return
		}
		k.r.OK("R3-llmnr-lookup-key", construct, k.pos(load), "key = Header.ID of the message returned by the decoder applied to the bytes just read")
	})

	// delivery
	construct2 := k.fname(fn) + ": delivery of the response to the waiting query is a non-blocking send of the looked-up message"
	var isMsg func(ssa.Value) bool
	if msgRoot != nil {
		isMsg = func(v ssa.Value) bool { return v == msgRoot }
	}
	k.r3delivery(construct2, load, fn, func(ch ssa.Value) bool { return c18RootsInclude(ch, load) }, isMsg)
}

// r3lookupInHelper handles a Queries.Load that sits in a helper of the receive
// loop. Two shapes are decided: the helper takes the decoded message and looks
// up msg.Header.ID (deliver(msg)), or it takes the ID (lookup(id)) and may
// return the channel. The key is judged at every call site that lies in a
// function with a receive loop (directly, or one more helper level up); the
// delivery is judged where the send is: in the helper, or in the caller on the
// channel the helper returns. Returns the number of call sites judged.
func (k *c18) r3lookupInHelper(h *ssa.Function, load *ssa.Call, key ssa.Value, path []*types.Var, depth int) int {
	if h.Parent() != nil || depth > 1 {
		return 0
	}
	// which parameter of h feeds the key, and how
	msgPrm, idPrm := -1, -1
	var keyBad []string // the key is read from the message parameter, but not from Header.ID
	fl := &c18Flow{k: k, fn: h, visited: map[string]bool{}}
	if prm, ok := c18Strip(key).(*ssa.Parameter); ok {
		for i, q := range h.Params {
			if q == prm {
				idPrm = i
			}
		}
	} else {
		for _, s := range fl.valueSources(key) {
			prm, isPrm := s.loc.root.(*ssa.Parameter)
			if s.kind != "load" || !isPrm {
				return 0
			}
			if !c18PathEq(s.loc.path, path) {
				keyBad = append(keyBad, s.String())
			}
			for i, q := range h.Params {
				if q == prm {
					if msgPrm >= 0 && msgPrm != i {
						return 0
					}
					msgPrm = i
				}
			}
		}
	}
	if msgPrm < 0 && idPrm < 0 {
		return 0
	}
	// does h return the looked-up channel?
	returnsChan := false
	for _, b := range h.Blocks {
		if ret, ok := b.Instrs[len(b.Instrs)-1].(*ssa.Return); ok {
			for _, rv := range ret.Results {
				if c18RootsInclude(rv, load) {
					returnsChan = true
				}
			}
		}
	}
	n := 0
	for _, f := range k.fns {
		if relPkg(k.p, f) != c18Llmnr {
			continue
		}
		fills := k.r3fills(f)
		for _, b := range f.Blocks {
			for _, in := range b.Instrs {
				call, ok := in.(*ssa.Call)
				if !ok || call.Call.StaticCallee() != h {
					continue
				}
				args := call.Call.Args
				if len(fills) == 0 {
					continue // not a receive loop: this use of the helper is not the response path
				}
				n++
				construct := k.fname(f) + ": pending-query lookup key (in " + h.Name() + ") ← ID of the message decoded from the received bytes"
				var msgRoot ssa.Value
				k.c.guard("R3-llmnr-lookup-key", construct, k.pos(call), func() {
					bad := append([]string{}, keyBad...)
					switch {
					case msgPrm >= 0 && msgPrm < len(args):
						if l, ok := k.addrLoc(args[msgPrm], 0); ok && len(l.path) == 0 {
							if why := k.r3decoded(l.root, fills); why != "" {
								bad = append(bad, why)
							} else {
								msgRoot = l.root
							}
						} else {
							bad = append(bad, "the message handed to "+h.Name()+" could not be resolved")
						}
					case idPrm >= 0 && idPrm < len(args):
						msgRoot, bad = k.r3keyCheck(f, args[idPrm], fills, path)
					}
					if len(bad) > 0 || msgRoot == nil {
						k.r.Fail("R3-llmnr-lookup-key", construct, k.pos(call), "the key "+h.Name()+" passes to Queries.Load is not the received message's Header.ID: "+strings.Join(uniqStrings(bad), "; ")+" — responses would be handed to the wrong query or dropped")
						return
					}
					k.r.OK("R3-llmnr-lookup-key", construct, k.pos(call), "key = Header.ID of the message returned by the decoder applied to the bytes just read, looked up in "+h.Name())
				})
				construct2 := k.fname(f) + ": delivery of the response to the waiting query (through " + h.Name() + ") is a non-blocking send of the looked-up message"
				good, bad := 0, []string(nil)
				k.c.guard("R3-llmnr-nonblocking-delivery", construct2, k.pos(call), func() {
					// sends inside the helper, on the channel it looked up
					var hMsg func(ssa.Value) bool
					if msgPrm >= 0 {
						hMsg = func(v ssa.Value) bool { return v == ssa.Value(h.Params[msgPrm]) }
					} else {
						// lookup(id) does not have the message: a send inside it cannot be the looked-up message
						hMsg = func(ssa.Value) bool { return false }
					}
					g1, b1 := k.r3sends(h, func(ch ssa.Value) bool { return c18RootsInclude(ch, load) }, hMsg, 0)
					good, bad = good+g1, append(bad, b1...)
					// sends in the caller, on the channel the helper returned
					if returnsChan {
						var fMsg func(ssa.Value) bool
						if msgRoot != nil {
							fMsg = func(v ssa.Value) bool { return v == msgRoot }
						}
						g2, b2 := k.r3sends(f, func(ch ssa.Value) bool { return c18RootsInclude(ch, call) }, fMsg, 0)
						good, bad = good+g2, append(bad, b2...)
					}
					if len(bad) > 0 || good == 0 {
						if len(bad) == 0 {
							bad = append(bad, "no send on the looked-up channel found")
						}
						k.r.Fail("R3-llmnr-nonblocking-delivery", construct2, k.pos(call), strings.Join(bad, "; "))
						return
					}
					k.r.OK("R3-llmnr-nonblocking-delivery", construct2, k.pos(call), "select with default sends the message whose ID selected the channel")
				})
			}
		}
	}
	return n
}

func (k *c18) r3register(fn *ssa.Function, store *ssa.Call, key, val ssa.Value, path []*types.Var, lp *types.Package) {
	construct := k.fname(fn) + ": pending query registered under the ID of the message it sends, with a buffered channel"
	k.c.guard("R3-llmnr-register", construct, k.pos(store), func() {
		var bad []string
		// where the key is judged: in fn itself, or — when the registration sits in a helper
		// that receives the id as a parameter (c.await(msg.ID)) — at every call site of fn
		type keySite struct {
			fn  *ssa.Function
			key ssa.Value
		}
		sites := []keySite{{fn, key}}
		var prm *ssa.Parameter
		{
			// the key is (a copy of) one parameter of fn — directly, or through the variable cell
			// the builder makes when a function literal captures it
			kf := &c18Flow{k: k, fn: fn, visited: map[string]bool{}}
			ks := kf.valueSources(c18Strip(key))
			if len(ks) == 1 && ks[0].kind == "param" {
				prm, _ = ks[0].v.(*ssa.Parameter)
			}
		}
		if prm != nil && fn.Parent() == nil {
			idx := -1
			for i, q := range fn.Params {
				if q == prm {
					idx = i
				}
			}
			var at []keySite
			for _, f := range k.fns {
				for _, b := range f.Blocks {
					for _, in := range b.Instrs {
						if ci, ok := in.(ssa.CallInstruction); ok && ci.Common().StaticCallee() == fn && idx >= 0 && idx < len(ci.Common().Args) {
							at = append(at, keySite{f, ci.Common().Args[idx]})
						}
					}
				}
			}
			if len(at) > 0 {
				sites = at
			}
		}
		enc := c18Method(lp, "Message", "Encode")
		for _, ks := range sites {
			fl := &c18Flow{k: k, fn: ks.fn, visited: map[string]bool{}}
			var msgRoots []ssa.Value
			for _, s := range fl.valueSources(ks.key) {
				if s.kind == "load" && c18PathEq(s.loc.path, path) {
					msgRoots = append(msgRoots, s.loc.root)
				} else {
					bad = append(bad, "key: "+s.String())
				}
			}
			// the same message is encoded (and so sent)
			encoded := false
			for _, b := range ks.fn.Blocks {
				for _, in := range b.Instrs {
					if c, ok := in.(*ssa.Call); ok && enc != nil && effects.CalleeObj(&c.Call) == enc {
						if l, ok := k.addrLoc(effects.AllArgs(&c.Call)[0], 0); ok {
							for _, m := range msgRoots {
								if m == l.root {
									encoded = true
								}
							}
						}
					}
				}
			}
			if !encoded {
				bad = append(bad, "the message whose ID is the key is not the one encoded for sending")
			}
		}
		mc, _ := c18Strip(val).(*ssa.MakeChan)
		if mc == nil {
			bad = append(bad, "registered value is not a channel created here")
		} else {
			sz, isC := mc.Size.(*ssa.Const)
			if !isC || sz.Value == nil || constant.Sign(sz.Value) <= 0 {
				bad = append(bad, "the response channel is unbuffered: with the non-blocking delivery a response that arrives before the query reaches its select is dropped")
			}
		}
		if len(bad) > 0 {
			k.r.Fail("R3-llmnr-register", construct, k.pos(store), strings.Join(uniqStrings(bad), "; "))
			return
		}
		k.r.OK("R3-llmnr-register", construct, k.pos(store), "Queries.Store(msg.ID, make(chan, ≥1)) on the message passed to Encode")
	})
}

// r3ReachesCodec names one reached function that Unmarshals and one that Marshals.
func (k *c18) r3ReachesCodec(reach map[string]bool, unmarshals map[*ssa.Function]bool, marshalsOf map[*ssa.Function][]c18Marshal) (dec, enc string) {
	var ds, es []string
	for fn := range unmarshals {
		if reach[k.r2DeclName(fn)] {
			ds = append(ds, fn.Name())
		}
	}
	for fn, ms := range marshalsOf {
		if len(ms) > 0 && reach[k.r2DeclName(fn)] {
			es = append(es, fn.Name())
		}
	}
	sort.Strings(ds)
	sort.Strings(es)
	if len(ds) > 0 {
		dec = ds[0]
	}
	if len(es) > 0 {
		enc = es[0]
	}
	return dec, enc
}

// r3ThroughCtor refines "the field keeps the value its constructor gave it" when the
// constructor is a module function called with arguments (newResponse(msg.Header.ID, flags)):
// the sources of the field inside the constructor are translated to the caller — a parameter
// of the constructor becomes the sources of the argument passed for it.
func (k *c18) r3ThroughCtor(fn *ssa.Function, root ssa.Value, srcs []c18Src, path []*types.Var, depth int) []c18Src {
	call, isCall := root.(*ssa.Call)
	if !isCall || depth > 1 {
		return srcs
	}
	g := call.Call.StaticCallee()
	if g == nil || g.Blocks == nil || !k.p.InModule(g) || len(call.Call.Args) == 0 {
		return srcs
	}
	var out []c18Src
	for _, s := range srcs {
		if !(s.kind == "load" && s.loc.root == root && c18PathEq(s.loc.path, path)) {
			out = append(out, s)
			continue
		}
		// value as returned by g
		resolved := false
		for _, b := range g.Blocks {
			for _, in := range b.Instrs {
				ret, ok := in.(*ssa.Return)
				if !ok || len(ret.Results) == 0 {
					continue
				}
				gl, ok := k.addrLoc(ret.Results[0], 0)
				if !ok || len(gl.path) != 0 {
					continue
				}
				gf := &c18Flow{k: k, fn: g, visited: map[string]bool{}}
				for _, gs := range k.r3ThroughCtor(g, gl.root, gf.fieldSources(c18Loc{gl.root, path}, true), path, depth+1) {
					resolved = true
					switch {
					case gs.kind == "param":
						for i, q := range g.Params {
							if ssa.Value(q) == gs.v && i < len(call.Call.Args) {
								cf := &c18Flow{k: k, fn: fn, visited: map[string]bool{}}
								out = append(out, cf.valueSources(call.Call.Args[i])...)
							}
						}
					case gs.kind == "load" && gs.loc.root != gl.root:
						// a load rooted at a parameter of g: re-root at the argument
						translated := false
						for i, q := range g.Params {
							if ssa.Value(q) == gs.loc.root && i < len(call.Call.Args) {
								if al, ok := k.addrLoc(call.Call.Args[i], 0); ok {
									out = append(out, c18Src{kind: "load", loc: c18Loc{al.root, append(append([]*types.Var{}, al.path...), gs.loc.path...)}})
									translated = true
								}
							}
						}
						if !translated {
							out = append(out, c18Src{kind: "other", desc: "value local to " + g.Name()})
						}
					case gs.kind == "load":
						// kept from a constructor one level further down that was not followed
						out = append(out, s)
					default:
						out = append(out, gs)
					}
				}
			}
		}
		if !resolved {
			out = append(out, s)
		}
	}
	return out
}
