package rules

import (
	"fmt"
	"sort"
	"strings"

	"golang.org/x/tools/go/ssa"

	"manticheck/internal/codec"
	"manticheck/internal/load"
	"manticheck/internal/prove"
)

// encStreams extracts the encoder layout of fn per output stream. For SMB
// commands the streams are what is handed to Parameters.AddWordsFromBytesStream
// ("params") and Data.Add ("data"); for everything else the single stream
// "out" is the byte slice returned on the success path.
func encStreams(w *prove.World, fn *ssa.Function) map[string][]codec.Atom {
	e := codec.NewExt(w, fn)
	out := map[string][]codec.Atom{}
	for _, b := range fn.Blocks {
		for _, in := range b.Instrs {
			call, ok := in.(*ssa.Call)
			if !ok {
				continue
			}
			f := call.Common().StaticCallee()
			if f == nil {
				continue
			}
			switch f.Name() {
			case "AddWordsFromBytesStream":
				if strings.HasSuffix(f.String(), "parameters.Parameters).AddWordsFromBytesStream") {
					out["params"] = append(out["params"], e.Seq(call.Common().Args[1])...)
				}
			case "Add":
				if strings.HasSuffix(f.String(), "data.Data).Add") {
					out["data"] = append(out["data"], e.Seq(call.Common().Args[1])...)
				}
			}
		}
	}
	if len(out) > 0 {
		return out
	}
	// plain encoder: the returned slice on success returns
	var alts [][]codec.Atom
	for _, b := range fn.Blocks {
		ret, ok := b.Instrs[len(b.Instrs)-1].(*ssa.Return)
		if !ok || len(ret.Results) == 0 {
			continue
		}
		if len(ret.Results) >= 2 {
			errV := ret.Results[len(ret.Results)-1]
			if k, isK := errV.(*ssa.Const); !isK || k.Value != nil {
				// a non-nil error… unless the function delegates: `return x.Marshal()`
				ex0, ok0 := ret.Results[0].(*ssa.Extract)
				ex1, ok1 := errV.(*ssa.Extract)
				if !(ok0 && ok1 && ex0.Tuple == ex1.Tuple) {
					continue
				}
			}
		}
		if k, isK := ret.Results[0].(*ssa.Const); isK && k.Value == nil {
			continue
		}
		alts = append(alts, e.Seq(ret.Results[0]))
	}
	if len(alts) == 1 {
		out["out"] = alts[0]
	} else {
		for i, a := range alts {
			out[fmt.Sprintf("out#%d", i)] = a
		}
	}
	return out
}

// decStreams extracts the decoder layout of fn grouped by input stream.
func decStreams(w *prove.World, fn *ssa.Function) (map[string][]codec.Atom, []codec.Atom) {
	e := codec.NewExt(w, fn)
	all := e.Decoded()
	out := map[string][]codec.Atom{}
	for _, a := range all {
		s := a.Stream
		if a.Kind == "repeat" && len(a.Body) > 0 {
			s = a.Body[0].Stream
		}
		out[s] = append(out[s], a)
	}
	return out, all
}

func sortedKeys(m map[string][]codec.Atom) []string {
	var ks []string
	for k := range m {
		ks = append(ks, k)
	}
	sort.Strings(ks)
	return ks
}

// LayoutDump prints layouts for debugging: manticheck layout <pkgrel> <Recv> <Method>...
func LayoutDump(p *load.Program, rel, recv string, methods []string) {
	w := prove.NewWorld(p)
	for _, m := range methods {
		fn := p.Func(rel, recv, m)
		if fn == nil {
			fmt.Printf("%s.%s: not found\n", recv, m)
			continue
		}
		fmt.Printf("== %s\n", p.FuncName(fn))
		enc := encStreams(w, fn)
		for _, k := range sortedKeys(enc) {
			fmt.Printf("  enc[%s]: %s\n", k, codec.Render(enc[k]))
		}
		dec, _ := decStreams(w, fn)
		for _, k := range sortedKeys(dec) {
			fmt.Printf("  dec[%s]: %s\n", k, codec.Render(dec[k]))
		}
	}
}
