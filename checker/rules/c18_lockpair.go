package rules

import (
	"fmt"
	"strings"

	"golang.org/x/tools/go/ssa"
)

// C18 extension `R5b-lock-paired` (added after an independently seeded change —
// an early return slipped between logger.Lock() and `defer logger.Unlock()` in
// an LLMNR handler, which leaves the global logger mutex locked for good and
// blocks every later handler goroutine — was missed because the function is
// not one of the lock-state analysis' subjects): in every function of the
// server packages, every path from a Lock()/RLock() to a return passes the
// matching Unlock()/RUnlock() — as a call or as a registered defer — on the same
// lock. The lock is identified structurally: the receiver address of a
// sync.Mutex / sync.RWMutex method (same SSA value, or the same field of the
// same base), or the package of a parameterless in-module Lock()/Unlock() pair.
//
// Deliberate hand-overs (a function that returns with the lock held for its
// caller to release) would be reported; the server packages have none today,
// and the self-test keeps a positive example.
func init() {
	ck := registry["C18"]
	if ck == nil {
		return
	}
	orig := ck.Run
	ck.Run = func(c *Ctx) {
		orig(c)
		c18LockPaired(c)
		c.R.Explanation += " Extension R5b LOCK-PAIRED: in every function of network/llmnr and network/netbios/nbtns, every path from a Lock()/RLock() call to a return passes the matching Unlock()/RUnlock() (call or registered defer) on the same lock."
	}
}

func c18LockKey(call *ssa.CallCommon) (key, kind string) {
	f := call.StaticCallee()
	if f == nil {
		return "", ""
	}
	name := f.Name()
	switch name {
	case "Lock", "Unlock", "RLock", "RUnlock":
	default:
		return "", ""
	}
	kind = name
	if f.Signature.Recv() != nil {
		rt := f.Signature.Recv().Type().String()
		if !strings.Contains(rt, "sync.Mutex") && !strings.Contains(rt, "sync.RWMutex") {
			return "", ""
		}
		if len(call.Args) == 0 {
			return "", ""
		}
		return addrKeyOf(call.Args[0]), kind
	}
	if len(call.Args) == 0 && f.Pkg != nil {
		return "pkg:" + f.Pkg.Pkg.Path(), kind
	}
	return "", ""
}

func addrKeyOf(v ssa.Value) string {
	switch x := v.(type) {
	case *ssa.FieldAddr:
		return addrKeyOf(x.X) + fmt.Sprintf(".f%d", x.Field)
	case *ssa.UnOp:
		return "*" + addrKeyOf(x.X)
	case *ssa.Global:
		return "g:" + x.String()
	case *ssa.Parameter:
		return "p:" + x.Name()
	case *ssa.FreeVar:
		return "fv:" + x.Name()
	}
	return "v:" + v.Name()
}

func c18LockPaired(c *Ctx) {
	const rule = "R5b-lock-paired"
	p, r := c.P, c.R
	n := 0
	for _, fn := range p.SrcFuncs() {
		rp := relPkg(p, fn)
		if !(strings.HasSuffix(rp, "network/llmnr") || strings.HasSuffix(rp, "network/netbios/nbtns")) || fn.Blocks == nil {
			continue
		}
		inFn := 0
		for _, b := range fn.Blocks {
			for i, in := range b.Instrs {
				call, ok := in.(*ssa.Call)
				if !ok {
					continue
				}
				key, kind := c18LockKey(call.Common())
				if key == "" || (kind != "Lock" && kind != "RLock") {
					continue
				}
				want := "Unlock"
				if kind == "RLock" {
					want = "RUnlock"
				}
				n++
				inFn++
				construct := fmt.Sprintf("%s: %s #%d is released on every path", p.FuncName(fn), kind, inFn)
				// forward search for a return reached without the matching release
				releases := func(x ssa.Instruction) bool {
					var cc *ssa.CallCommon
					switch y := x.(type) {
					case *ssa.Call:
						cc = y.Common()
					case *ssa.Defer:
						cc = y.Common()
					}
					if cc == nil {
						return false
					}
					k2, kind2 := c18LockKey(cc)
					return k2 == key && kind2 == want
				}
				type pt struct {
					b *ssa.BasicBlock
					i int
				}
				seen := map[*ssa.BasicBlock]bool{}
				var bad ssa.Instruction
				work := []pt{{b, i + 1}}
				for len(work) > 0 && bad == nil {
					cur := work[len(work)-1]
					work = work[:len(work)-1]
					released := false
					for j := cur.i; j < len(cur.b.Instrs); j++ {
						x := cur.b.Instrs[j]
						if releases(x) {
							released = true
							break
						}
						if ret, isRet := x.(*ssa.Return); isRet {
							bad = ret
							break
						}
						if pn, isPanic := x.(*ssa.Panic); isPanic {
							_ = pn
							released = true // a panic is not a return; deferred releases still run, others are out of scope
							break
						}
					}
					if released || bad != nil {
						continue
					}
					for _, s := range cur.b.Succs {
						if !seen[s] {
							seen[s] = true
							work = append(work, pt{s, 0})
						}
					}
				}
				if bad != nil {
					r.Fail(rule, construct, p.Rel(call.Pos()), fmt.Sprintf("the return at %s is reachable from this %s() without passing %s() (neither as a call nor as a registered defer): the lock stays held and every later %s() on it blocks forever", p.Rel(bad.Pos()), kind, want, kind))
				} else {
					r.OK(rule, construct, p.Rel(call.Pos()), "every path to a return passes the matching "+want+"()")
				}
			}
		}
	}
	r.Extra["R5b_lock_sites"] = n
}
