package rules

import (
	"fmt"
	"go/token"
	"go/types"

	"golang.org/x/tools/go/ssa"
)

// C20 extension `R6-order-by-sub` (added after an independently seeded change —
// IPv6.IsInRange rebuilt on a helper that orders 64-bit words by the sign of
// their difference — was missed): in network/ip, the result of subtracting two
// unsigned integers is never reinterpreted as a signed integer. a-b on
// unsigned operands wraps, so the sign of int64(a-b) is the order of a and b
// only while they differ by less than half the range; range and subnet tests
// must agree with IP arithmetic for ALL addresses. The rule is exact about the
// construct (Convert to a signed integer type whose operand, through
// conversions, is an unsigned SUB); it does not decide the arithmetic itself.

const ipPkg = "network/ip"

func init() {
	ck := registry["C20"]
	if ck == nil {
		return
	}
	orig := ck.Run
	ck.Run = func(c *Ctx) {
		orig(c)
		c20OrderBySub(c)
		c.R.Explanation += " Extension R6 ORDER-BY-SUB: no function of network/ip reinterprets the (wrapping) difference of two unsigned integers as a signed integer; every function of the package is listed as one obligation."
	}
}

func c20OrderBySub(c *Ctx) {
	const rule = "R6-order-by-sub"
	p, r := c.P, c.R
	n := 0
	for _, fn := range p.SrcFuncs() {
		if relPkg(p, fn) != ipPkg || fn.Blocks == nil {
			continue
		}
		n++
		fname := p.FuncName(fn)
		var bad []string
		pos := p.Rel(fn.Pos())
		for _, b := range fn.Blocks {
			for _, in := range b.Instrs {
				cv, ok := in.(*ssa.Convert)
				if !ok {
					continue
				}
				tb, ok := cv.Type().Underlying().(*types.Basic)
				if !ok || tb.Info()&types.IsInteger == 0 || tb.Info()&types.IsUnsigned != 0 {
					continue
				}
				v := cv.X
				for {
					if c2, ok := v.(*ssa.Convert); ok {
						if sb, ok := c2.Type().Underlying().(*types.Basic); ok && sb.Info()&types.IsUnsigned != 0 {
							v = c2.X
							continue
						}
					}
					break
				}
				bo, ok := v.(*ssa.BinOp)
				if !ok || bo.Op != token.SUB {
					continue
				}
				sb, ok := bo.Type().Underlying().(*types.Basic)
				if !ok || sb.Info()&types.IsUnsigned == 0 {
					continue
				}
				if _, k := bo.Y.(*ssa.Const); k {
					continue // x - constant: an offset, not an ordering
				}
				if _, k := bo.X.(*ssa.Const); k {
					continue
				}
				bad = append(bad, fmt.Sprintf("%s at %s converts the unsigned difference %s to %s", cv.Name(), p.Rel(cv.Pos()), bo.String(), tb.Name()))
				pos = p.Rel(cv.Pos())
			}
		}
		construct := fname + ": no signed view of an unsigned difference"
		if len(bad) == 0 {
			r.OK(rule, construct, pos, "no Convert(signed) of an unsigned SUB")
		} else {
			r.Fail(rule, construct, pos, fmt.Sprintf("%v: the sign of a wrapped difference is not the order of its operands once they differ by half the range", bad))
		}
	}
	// The rule is bound to every function of the package, however many there are
	// (helpers come and go with refactoring). What must not happen is that it runs
	// on an empty or partial package: the order / membership predicates the
	// property names have to be among the functions examined.
	for _, a := range [][2]string{{"IPv4", "IsInSubnet"}, {"IPv4", "IsInRange"}, {"IPv6", "IsInSubnet"}, {"IPv6", "IsInRange"}, {"IPv4Range", "Contains"}, {"IPv6Range", "Contains"}} {
		if fn := p.Func(ipPkg, a[0], a[1]); fn == nil || fn.Blocks == nil {
			r.Undecided(rule, "("+a[0]+")."+a[1], "-", "anchored predicate does not resolve: the rule would pass vacuously on it")
		}
	}
	r.Floor(rule, 6)
	r.Extra["R6_functions"] = n
}
