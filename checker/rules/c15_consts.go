package rules

// Typed-AST collection of the integer constants a conversion function uses,
// with the role each one plays (C15 R2/R3). Everything is resolved through
// go/types constant VALUES (types.Info.Types[e].Value): 1e7, 10_000_000,
// int64(1e7), a named constant and 1000*10000 are the same constant.

import (
	"go/ast"
	"go/constant"
	"go/token"
	"go/types"
	"math/big"

	"manticheck/internal/tables"
)

func newBig(dec string) (*big.Int, bool) { return new(big.Int).SetString(dec, 10) }
func bigAdd(n *big.Int, d int64) *big.Int { return new(big.Int).Add(n, big.NewInt(d)) }
func bigIsPow2(n *big.Int) bool {
	return n.Sign() > 0 && new(big.Int).And(n, new(big.Int).Sub(n, big.NewInt(1))).Sign() == 0
}

// c15IntConst returns the exact integer value of a constant expression.
func c15IntConst(info *types.Info, e ast.Expr) (*big.Int, bool) {
	tv, ok := info.Types[e]
	if !ok || tv.Value == nil {
		return nil, false
	}
	v := tv.Value
	if v.Kind() != constant.Int && v.Kind() != constant.Float {
		return nil, false
	}
	iv := constant.ToInt(v)
	if iv.Kind() != constant.Int {
		return nil, false
	}
	return new(big.Int).SetString(iv.ExactString(), 10)
}

// c15ConstUses walks a function body. For every MAXIMAL constant
// sub-expression it records the role given by its non-constant parent
// (factor, divisor, addend, subtrahend, time.Date year, other); for the
// leaves of constant expressions used in any other role (guard limits such as
// (math.MaxInt64-epoch)/1e7) it records the leaves, so that a limit must be
// spelled as a derivation from the unit table.
func c15ConstUses(info *types.Info, body ast.Node) []c15Use {
	var out []c15Use
	big100, big1000 := big.NewInt(100), big.NewInt(1000)

	record := func(role string, e ast.Expr, negate bool) {
		v, ok := c15IntConst(info, e)
		if !ok {
			return
		}
		if negate {
			v = new(big.Int).Neg(v)
		}
		// x + (-k) is x - k ; x - (-k) is x + k
		if v.Sign() < 0 && (role == "add" || role == "sub") {
			v = new(big.Int).Neg(v)
			if role == "add" {
				role = "sub"
			} else {
				role = "add"
			}
		}
		abs := new(big.Int).Abs(v)
		switch role {
		case "mul", "div":
			if abs.Cmp(big100) < 0 {
				return
			}
		case "year":
		default:
			if abs.Cmp(big1000) < 0 {
				return
			}
		}
		out = append(out, c15Use{Role: role, Val: abs.String(), Pos: e.Pos(), Expr: types.ExprString(e)})
	}

	// leaves of a constant expression in a non-arithmetic role
	var leaves func(e ast.Expr)
	leaves = func(e ast.Expr) {
		switch x := e.(type) {
		case *ast.ParenExpr:
			leaves(x.X)
		case *ast.BinaryExpr:
			leaves(x.X)
			leaves(x.Y)
		case *ast.UnaryExpr:
			leaves(x.X)
		case *ast.CallExpr: // conversion of a constant
			for _, a := range x.Args {
				leaves(a)
			}
		case *ast.BasicLit, *ast.Ident, *ast.SelectorExpr:
			record("other", e, false)
		}
	}

	isConst := func(e ast.Expr) bool {
		tv, ok := info.Types[e]
		return ok && tv.Value != nil
	}

	var walk func(n ast.Node)
	// operand visits one operand of an arithmetic operator
	operand := func(e ast.Expr, role string) {
		if isConst(e) {
			if role == "other" {
				leaves(e)
			} else {
				record(role, e, false)
				// the leaves must still be unit constants
				inner := ast.Unparen(e)
				if _, lit := inner.(*ast.BasicLit); !lit {
					if _, id := inner.(*ast.Ident); !id {
						if _, sel := inner.(*ast.SelectorExpr); !sel {
							leaves(e)
						}
					}
				}
			}
			return
		}
		walk(e)
	}
	binRoles := func(op token.Token) (xr, yr string) {
		switch op {
		case token.MUL, token.MUL_ASSIGN:
			return "mul", "mul"
		case token.QUO, token.REM, token.QUO_ASSIGN, token.REM_ASSIGN:
			return "other", "div"
		case token.ADD, token.ADD_ASSIGN:
			return "add", "add"
		case token.SUB, token.SUB_ASSIGN:
			return "other", "sub"
		}
		return "other", "other"
	}
	walk = func(n ast.Node) {
		if n == nil {
			return
		}
		switch x := n.(type) {
		case *ast.FuncLit:
			return // analysed as its own function
		case *ast.BinaryExpr:
			if isConst(x) {
				leaves(x)
				return
			}
			xr, yr := binRoles(x.Op)
			operand(x.X, xr)
			operand(x.Y, yr)
			return
		case *ast.AssignStmt:
			if len(x.Lhs) == 1 && len(x.Rhs) == 1 && x.Tok != token.ASSIGN && x.Tok != token.DEFINE {
				_, yr := binRoles(x.Tok)
				walk(x.Lhs[0])
				operand(x.Rhs[0], yr)
				return
			}
		case *ast.CallExpr:
			if isConst(x) { // constant conversion outside arithmetic
				leaves(x)
				return
			}
			if fn := tables.StaticCallee(info, x); fn != nil && tables.IsPkgFunc(fn, "time", "Date") && len(x.Args) > 0 {
				if isConst(x.Args[0]) {
					record("year", x.Args[0], false)
				} else {
					walk(x.Args[0])
				}
				for _, a := range x.Args[1:] {
					operand(a, "other")
				}
				walk(x.Fun)
				return
			}
			walk(x.Fun)
			for _, a := range x.Args {
				operand(a, "other")
			}
			return
		case ast.Expr:
			if isConst(x) {
				leaves(x)
				return
			}
		}
		// generic descent
		ast.Inspect(n, func(m ast.Node) bool {
			if m == n || m == nil {
				return true
			}
			walk(m)
			return false
		})
	}
	walk(body)
	return out
}
