package rules

// Typed-AST collection of the integer constants a conversion function uses,
// with the role each one plays (C15 R2/R3). Everything is resolved through
// go/types constant VALUES (types.Info.Types[e].Value): 1e7, 10_000_000,
// int64(1e7), a named constant and 1000*10000 are the same constant.

import (
	"go/ast"
	"go/constant"
	"go/token"
	"go/types"
	"math/big"

	"golang.org/x/tools/go/packages"

	"manticheck/internal/tables"
)

func newBig(dec string) (*big.Int, bool) { return new(big.Int).SetString(dec, 10) }
func bigAdd(n *big.Int, d int64) *big.Int { return new(big.Int).Add(n, big.NewInt(d)) }
func bigIsPow2(n *big.Int) bool {
	return n.Sign() > 0 && new(big.Int).And(n, new(big.Int).Sub(n, big.NewInt(1))).Sign() == 0
}

// c15IntConst returns the exact integer value of a constant expression.
func c15IntConst(info *types.Info, e ast.Expr) (*big.Int, bool) {
	tv, ok := info.Types[e]
	if !ok || tv.Value == nil {
		return nil, false
	}
	v := tv.Value
	if v.Kind() != constant.Int && v.Kind() != constant.Float {
		return nil, false
	}
	iv := constant.ToInt(v)
	if iv.Kind() != constant.Int {
		return nil, false
	}
	return new(big.Int).SetString(iv.ExactString(), 10)
}

// c15ConstDefs resolves a declared constant to its defining expression (and
// the types.Info of the package that declares it). A guard limit that was
// hoisted into a named constant — maxUnixSeconds = int64((maxTimestamp -
// UUIDv1Epoch) / intervalsPerSecond) — is judged through that definition: its
// VALUE (103072857660) is in no table, its derivation is.
type c15ConstDefs func(obj *types.Const) (ast.Expr, *types.Info)

// c15BuildConstDefs indexes every constant declaration (package level and
// function local) of the module's packages. Specs that repeat the previous
// expression implicitly (iota lists) have no expression of their own and stay
// judged by value.
func c15BuildConstDefs(pkgs []*packages.Package) c15ConstDefs {
	type def struct {
		e    ast.Expr
		info *types.Info
	}
	idx := map[*types.Const]def{}
	for _, pk := range pkgs {
		if pk == nil || pk.TypesInfo == nil {
			continue
		}
		info := pk.TypesInfo
		for _, f := range pk.Syntax {
			ast.Inspect(f, func(n ast.Node) bool {
				gd, ok := n.(*ast.GenDecl)
				if !ok || gd.Tok != token.CONST {
					return true
				}
				for _, sp := range gd.Specs {
					vs, ok := sp.(*ast.ValueSpec)
					if !ok || len(vs.Values) != len(vs.Names) {
						continue
					}
					for i, nm := range vs.Names {
						if k, ok := info.Defs[nm].(*types.Const); ok {
							idx[k] = def{vs.Values[i], info}
						}
					}
				}
				return false
			})
		}
	}
	return func(obj *types.Const) (ast.Expr, *types.Info) {
		d := idx[obj]
		return d.e, d.info
	}
}

// c15ConstUses walks a function body. For every MAXIMAL constant
// sub-expression it records the role given by its non-constant parent
// (factor, divisor, addend, subtrahend, time.Date year, other); for the
// leaves of constant expressions used in any other role (guard limits such as
// (math.MaxInt64-epoch)/1e7) it records the leaves, so that a limit must be
// spelled as a derivation from the unit table. A leaf that is a NAMED constant
// whose value is not itself a table value is replaced by the leaves of its
// defining expression (defs; transitively), so hoisting a derived limit into a
// constant declaration changes nothing.
func c15ConstUses(info *types.Info, body ast.Node, defs c15ConstDefs) []c15Use {
	var out []c15Use
	big100, big1000 := big.NewInt(100), big.NewInt(1000)

	record := func(info *types.Info, role string, e ast.Expr, negate bool, via string) {
		v, ok := c15IntConst(info, e)
		if !ok {
			return
		}
		if negate {
			v = new(big.Int).Neg(v)
		}
		// x + (-k) is x - k ; x - (-k) is x + k
		if v.Sign() < 0 && (role == "add" || role == "sub") {
			v = new(big.Int).Neg(v)
			if role == "add" {
				role = "sub"
			} else {
				role = "add"
			}
		}
		abs := new(big.Int).Abs(v)
		switch role {
		case "mul", "div":
			if abs.Cmp(big100) < 0 {
				return
			}
		case "year":
		default:
			if abs.Cmp(big1000) < 0 {
				return
			}
		}
		out = append(out, c15Use{Role: role, Val: abs.String(), Pos: e.Pos(), Expr: via + types.ExprString(e)})
	}

	// namedDef: e names a declared constant whose defining expression is known
	constDef := func(info *types.Info, e ast.Expr) (ast.Expr, *types.Info) {
		if defs == nil {
			return nil, nil
		}
		var id *ast.Ident
		switch x := e.(type) {
		case *ast.Ident:
			id = x
		case *ast.SelectorExpr:
			id = x.Sel
		}
		if id == nil {
			return nil, nil
		}
		k, ok := info.Uses[id].(*types.Const)
		if !ok {
			return nil, nil
		}
		return defs(k)
	}

	// leaves of a constant expression in a non-arithmetic role
	var leavesIn func(info *types.Info, e ast.Expr, via string, depth int)
	leavesIn = func(info *types.Info, e ast.Expr, via string, depth int) {
		switch x := e.(type) {
		case *ast.ParenExpr:
			leavesIn(info, x.X, via, depth)
		case *ast.BinaryExpr:
			leavesIn(info, x.X, via, depth)
			leavesIn(info, x.Y, via, depth)
		case *ast.UnaryExpr:
			leavesIn(info, x.X, via, depth)
		case *ast.CallExpr: // conversion of a constant
			for _, a := range x.Args {
				leavesIn(info, a, via, depth)
			}
		case *ast.BasicLit:
			record(info, "other", e, false, via)
		case *ast.Ident, *ast.SelectorExpr:
			if v, ok := c15IntConst(info, e); ok && depth < 8 {
				abs := new(big.Int).Abs(v).String()
				if ok, _ := c15ValueAllowed(c15Use{Role: "other", Val: abs}); !ok {
					if d, dinfo := constDef(info, e); d != nil {
						leavesIn(dinfo, d, via+types.ExprString(e)+" = … ", depth+1)
						return
					}
				}
			}
			record(info, "other", e, false, via)
		}
	}
	leaves := func(e ast.Expr) { leavesIn(info, e, "", 0) }

	isConst := func(e ast.Expr) bool {
		tv, ok := info.Types[e]
		return ok && tv.Value != nil
	}

	var walk func(n ast.Node)
	// operand visits one operand of an arithmetic operator
	operand := func(e ast.Expr, role string) {
		if isConst(e) {
			if role == "other" {
				leaves(e)
			} else {
				record(info, role, e, false, "")
				// the leaves must still be unit constants
				inner := ast.Unparen(e)
				if _, lit := inner.(*ast.BasicLit); !lit {
					if _, id := inner.(*ast.Ident); !id {
						if _, sel := inner.(*ast.SelectorExpr); !sel {
							leaves(e)
						}
					}
				}
			}
			return
		}
		walk(e)
	}
	binRoles := func(op token.Token) (xr, yr string) {
		switch op {
		case token.MUL, token.MUL_ASSIGN:
			return "mul", "mul"
		case token.QUO, token.REM, token.QUO_ASSIGN, token.REM_ASSIGN:
			return "other", "div"
		case token.ADD, token.ADD_ASSIGN:
			return "add", "add"
		case token.SUB, token.SUB_ASSIGN:
			return "other", "sub"
		}
		return "other", "other"
	}
	walk = func(n ast.Node) {
		if n == nil {
			return
		}
		switch x := n.(type) {
		case *ast.FuncLit:
			return // analysed as its own function
		case *ast.BinaryExpr:
			if isConst(x) {
				leaves(x)
				return
			}
			xr, yr := binRoles(x.Op)
			operand(x.X, xr)
			operand(x.Y, yr)
			return
		case *ast.AssignStmt:
			if len(x.Lhs) == 1 && len(x.Rhs) == 1 && x.Tok != token.ASSIGN && x.Tok != token.DEFINE {
				_, yr := binRoles(x.Tok)
				walk(x.Lhs[0])
				operand(x.Rhs[0], yr)
				return
			}
		case *ast.CallExpr:
			if isConst(x) { // constant conversion outside arithmetic
				leaves(x)
				return
			}
			if fn := tables.StaticCallee(info, x); fn != nil && tables.IsPkgFunc(fn, "time", "Date") && len(x.Args) > 0 {
				if isConst(x.Args[0]) {
					record(info, "year", x.Args[0], false, "")
				} else {
					walk(x.Args[0])
				}
				for _, a := range x.Args[1:] {
					operand(a, "other")
				}
				walk(x.Fun)
				return
			}
			walk(x.Fun)
			// math/bits full-width arithmetic: the operands keep their arithmetic roles
			var roles []string
			if fn := tables.StaticCallee(info, x); fn != nil {
				switch {
				case tables.IsPkgFunc(fn, "math/bits", "Mul64"), tables.IsPkgFunc(fn, "math/bits", "Mul"):
					roles = []string{"mul", "mul"}
				case tables.IsPkgFunc(fn, "math/bits", "Add64"), tables.IsPkgFunc(fn, "math/bits", "Add"):
					roles = []string{"add", "add", "other"}
				case tables.IsPkgFunc(fn, "math/bits", "Sub64"), tables.IsPkgFunc(fn, "math/bits", "Sub"):
					roles = []string{"other", "sub", "other"}
				case tables.IsPkgFunc(fn, "math/bits", "Div64"), tables.IsPkgFunc(fn, "math/bits", "Div"):
					roles = []string{"other", "other", "div"}
				}
			}
			for i, a := range x.Args {
				role := "other"
				if i < len(roles) {
					role = roles[i]
				}
				operand(a, role)
			}
			return
		case ast.Expr:
			if isConst(x) {
				leaves(x)
				return
			}
		}
		// generic descent
		ast.Inspect(n, func(m ast.Node) bool {
			if m == n || m == nil {
				return true
			}
			walk(m)
			return false
		})
	}
	walk(body)
	return out
}
