package rules

import (
	"fmt"

	"golang.org/x/tools/go/ssa"

	"manticheck/internal/flow"
)

// C02 — groups settled by symbolic evaluation when the shape recognisers of
// c02.go report anything (see crypto_sx.go for the protocol).

// proof: R3 + R4 for the function whose result #ri is the NT response. The
// recogniser (proofSyn + layout) reads `append(proof, blob...)` in the function
// itself with the HMAC at most one helper away and the blob built by append or
// by fixed-offset writes. A response built by a method of a helper type, a
// blob accumulated in a bytes.Buffer, a proof computed in a second helper, the
// time passed in by the caller … are decided by evaluating the function.
func (x *c02) proof(fn *ssa.Function, ri int, id *idHMAC, roles map[int]string, sc func(flow.Source) bool, scW string, cc func(flow.Source) bool, ccW string) {
	g := x.begin()
	x.proofSyn(fn, ri, id, roles, sc, scW, cc, ccW)
	if g.clean() {
		return
	}
	fOwf := x.P.Func(cryNTLM, "", "ntowfv2")
	var more []*ssa.Function
	if roles != nil && fOwf != nil {
		more = append(more, fOwf) // the key is named as ntowfv2(…) — R2 judges ntowfv2 itself
	}
	x.bySx(g, fn, more, []*ssa.Function{fn}, map[string]int{c02R3: 4, c02R4: 4}, func(r sxRun) []specItem {
		return x.proofSpec(r, fn, ri, roles, fOwf)
	})
}

// proofSpec checks, on the evaluated NT response R:
//
//	R = proof ‖ B,  proof = HMAC-MD5(K, SC ‖ B),  K = NTOWFv2,
//	B = 01 01 00×6 ‖ LE64(·) ‖ client challenge (8) ‖ 00×4 ‖ …
func (x *c02) proofSpec(r sxRun, fn *ssa.Function, ri int, roles map[int]string, fOwf *ssa.Function) []specItem {
	name := x.P.FuncName(fn)
	sx := r.sx
	var out []specItem
	add := func(rule, construct string, ok bool, msg string, got *flow.Tm) {
		it := specItem{rule: rule, construct: construct, ok: ok, msg: msg}
		if !ok && got != nil && got.HasTop() {
			it.undecided, it.msg = true, "a value the evaluator does not describe ("+got.FirstTop()+") stands where "+construct+" is decided"
		}
		out = append(out, it)
	}
	pc := name + ": response = proof ‖ blob"
	if ri >= len(r.res) || r.res[ri] == nil {
		add(c02R3, pc, false, "the function returns no byte string as its NT response", nil)
		return out
	}
	R := r.res[ri]
	parts := R.Parts()
	var H *flow.Tm
	if len(parts) >= 2 {
		H = parts[0]
	}
	ctor, cargs, input, isHash := H.HashParts()
	if !isHash || ctor != "crypto/hmac.New" || len(cargs) != 2 || cargs[0].Key() != flow.TmFunc("crypto/md5.New").Key() {
		add(c02R3, pc, false, "the response is "+R.Short()+": its first 16 bytes are not the Sum of an hmac.New(md5.New, key) followed by a blob", R)
		return out
	}
	add(c02R3, pc, true, "the first 16 bytes are the Sum of an hmac.New(md5.New, key), the rest is the blob", nil)
	B := flow.TmCat(parts[1:]...)

	// the lay-out of the parameters / receiver on entry
	var SC, CC, wantK *flow.Tm
	var altK *flow.Tm
	ccIsRand := false
	if roles == nil {
		recv := fn.Params[0].Name()
		SC = flow.TmField(recv+".ServerChallenge", 0, 8)
		CC = flow.TmField(recv+".ClientChallenge", 0, 8)
		user := flow.TmField(recv+".Username", 0, -1)
		dom := flow.TmField(recv+".Domain", 0, -1)
		ident := flow.TmCat(sx.TmApp(x.lEnc, sx.TmApp("strings.ToUpper", user)), sx.TmApp(x.lEnc, dom))
		ntPw := sx.TmApp(x.lNT, flow.TmField(recv+".Password", 0, -1))
		wantK = flow.TmHash("crypto/hmac.New", []*flow.Tm{flow.TmFunc("crypto/md5.New"), ntPw}, ident)
		altK = flow.TmHash("crypto/hmac.New", []*flow.Tm{flow.TmFunc("crypto/md5.New"), flow.TmField(recv+".NTHash", 0, 16)}, ident)
	} else {
		cm := roleIdx(roles, "challengeMsg")
		if cm < 0 || fOwf == nil {
			add(c02R3, name+": proof key = NTOWFv2 result", false, "the challenge-message parameter does not resolve", nil)
			return out
		}
		SC = flow.TmField(fn.Params[cm].Name()+".ServerChallenge", cm, 8)
		ccIsRand = true
		owfRoles, _ := x.roles(fOwf)
		args := make([]*flow.Tm, len(fOwf.Params))
		for j := range fOwf.Params {
			pi := roleIdx(roles, owfRoles[j])
			if owfRoles[j] == "" || pi < 0 {
				add(c02R3, name+": proof key = NTOWFv2 result", false, "the roles of ntowfv2's parameters do not resolve", nil)
				return out
			}
			args[j] = paramTm(fn, pi)
		}
		wantK = sx.TmApp(x.e.Name(fOwf), args...)
		// the same value with ntowfv2's body written out in place (R2 judges that body)
		if inl, err := x.evalRef(sx, fOwf, args); err == nil {
			altK = inl
		}
	}
	kc := name + ": proof key = NTOWFv2 result"
	switch K := cargs[1]; {
	case K.Key() == wantK.Key() || (altK != nil && K.Key() == altK.Key()):
		add(c02R3, kc, true, "the proof is keyed by "+wantK.Short(), nil)
	default:
		add(c02R3, kc, false, "the proof is keyed by "+K.Short()+", not by the NTOWFv2 value "+wantK.Short()+" — "+tmDiff(K, wantK), K)
	}
	sc := name + ": proof input starts with the server challenge"
	if got := flow.TmSlice(input, 0, 8); got.Key() == SC.Key() {
		add(c02R3, sc, true, "the first 8 bytes the HMAC absorbs are "+SC.Short(), nil)
	} else {
		add(c02R3, sc, false, "the first 8 bytes the HMAC absorbs are "+got.Short()+", not the server challenge "+SC.Short(), got)
	}
	ic := name + ": proof input = server challenge ‖ the blob that is sent"
	if want := flow.TmCat(SC, B); input.Key() == want.Key() {
		add(c02R3, ic, true, "the HMAC absorbs the server challenge and then exactly the bytes that follow the proof in the response", nil)
	} else {
		add(c02R3, ic, false, "the bytes authenticated ("+input.Short()+") are not the server challenge followed by the bytes appended after the proof ("+B.Short()+"): the proof does not authenticate the blob that is sent — "+tmDiff(input, want), nil)
	}
	// R4: the blob
	lname := name
	hc := lname + ": blob[0:8] = 01 01 00 00 00 00 00 00"
	if got := flow.TmSlice(B, 0, 8); got.Op == "const" && got.S == "\x01\x01\x00\x00\x00\x00\x00\x00" {
		add(c02R4, hc, true, "RespType 1, HiRespType 1, six reserved zero bytes", nil)
	} else {
		add(c02R4, hc, false, "the blob starts with "+got.Short()+"; NTLMv2_CLIENT_CHALLENGE starts 01 01 00 00 00 00 00 00", got)
	}
	tc := lname + ": blob[8:16] = 8-byte little-endian timestamp"
	switch got := flow.TmSlice(B, 8, 16); {
	case got.Op == "le" && got.N == 8:
		add(c02R4, tc, true, "8 bytes, little-endian: "+got.A[0].Short(), nil)
	case got.Op == "be":
		add(c02R4, tc, false, "the timestamp is written big-endian; the TimeStamp is 8 bytes little-endian", nil)
	default:
		add(c02R4, tc, false, "after the 8-byte header comes "+got.Short()+"; the TimeStamp is 8 bytes little-endian", got)
	}
	ccC := lname + ": blob[16:24] = the client challenge"
	switch got := flow.TmSlice(B, 16, 24); {
	case !ccIsRand && got.Key() == CC.Key():
		add(c02R4, ccC, true, "the ClientChallenge field, unmodified", nil)
	case ccIsRand && got.Op == "fresh" && got.S == "crypto/rand.Read" && got.M == 8:
		add(c02R4, ccC, true, "an 8-byte buffer filled by crypto/rand.Read, unmodified", nil)
	default:
		what := "the client challenge"
		if CC != nil {
			what = CC.Short()
		}
		add(c02R4, ccC, false, "bytes 16..23 of the blob are "+got.Short()+", not "+what, got)
	}
	rc := lname + ": blob[24:28] = 00 00 00 00"
	if got := flow.TmSlice(B, 24, 28); got.Op == "const" && got.S == "\x00\x00\x00\x00" {
		add(c02R4, rc, true, "four reserved zero bytes, then the target information", nil)
	} else {
		add(c02R4, rc, false, "after the client challenge come "+got.Short()+"; Reserved3 is four zero bytes", got)
	}
	return out
}

// identityG: R2 at one site — the recogniser of c02.go, then evaluation.
// kind: "new" (NewNTLMv2: the ResponseKeyNT field of the result), "hash"
// ((*NTLMv2).Hash: the key of the proof HMAC), "owf" (ntlm.ntowfv2: the
// result). ui/di/pi: parameter indices of user / domain / password (kind new, owf).
func (x *c02) identityG(s v2site, kind string, ui, di, pi int) *idHMAC {
	g := x.begin()
	id := x.identity(s)
	if g.clean() {
		return id
	}
	fn := s.fn
	x.bySx(g, fn, nil, []*ssa.Function{fn}, map[string]int{c02R2: 5}, func(r sxRun) []specItem {
		return x.identitySpec(r, s, kind, ui, di, pi)
	})
	return id
}

func (x *c02) identitySpec(r sxRun, s v2site, kind string, ui, di, pi int) []specItem {
	fn := s.fn
	name := x.P.FuncName(fn)
	sx := r.sx
	var out []specItem
	add := func(construct string, ok bool, msg string, got *flow.Tm) {
		it := specItem{rule: c02R2, construct: construct, ok: ok, msg: msg}
		if !ok && got != nil && got.HasTop() {
			it.undecided, it.msg = true, "a value the evaluator does not describe ("+got.FirstTop()+") stands where "+construct+" is decided"
		}
		out = append(out, it)
	}
	ic := name + ": NTOWFv2 identity HMAC"
	// locate K
	var K, user, dom *flow.Tm
	var keys []*flow.Tm
	switch kind {
	case "new":
		if len(r.res) > 0 {
			K = r.res[0].Fld("ResponseKeyNT")
		}
		user, dom = paramTm(fn, ui), paramTm(fn, di)
		keys = []*flow.Tm{sx.TmApp(x.lNT, paramTm(fn, pi))}
	case "hash":
		if len(r.res) > 0 && r.res[0] != nil {
			if ps := r.res[0].Parts(); len(ps) >= 1 {
				if _, cargs, _, ok := ps[0].HashParts(); ok && len(cargs) == 2 {
					K = cargs[1]
				}
			}
		}
		recv := fn.Params[0].Name()
		user, dom = flow.TmField(recv+".Username", 0, -1), flow.TmField(recv+".Domain", 0, -1)
		keys = []*flow.Tm{sx.TmApp(x.lNT, flow.TmField(recv+".Password", 0, -1)), flow.TmField(recv+".NTHash", 0, 16)}
	case "owf":
		if len(r.res) > 0 {
			K = r.res[0]
		}
		user, dom = paramTm(fn, ui), paramTm(fn, di)
		keys = []*flow.Tm{sx.TmApp(x.lNT, paramTm(fn, pi))}
	}
	ctor, cargs, input, isHash := K.HashParts()
	if !isHash {
		it := specItem{rule: c02R2, construct: ic}
		if K == nil || K.HasTop() {
			it.undecided, it.msg = true, "the NTOWFv2 value cannot be located in the evaluated result"
		} else {
			it.msg = "the NTOWFv2 value is " + K.Short() + ", not the Sum of an HMAC computed here"
		}
		return append(out, it)
	}
	if ctor == "crypto/hmac.New" && len(cargs) == 2 && cargs[0].Key() == flow.TmFunc("crypto/md5.New").Key() {
		add(ic, true, "hmac.New(md5.New, key)", nil)
	} else {
		add(ic, false, "the identity MAC is "+ctor+", not hmac.New(md5.New, …)", nil)
		return out
	}
	kc := name + ": NTOWFv2 key = NT hash"
	okK := false
	for _, k := range keys {
		if cargs[1].Key() == k.Key() {
			okK = true
		}
	}
	if okK {
		add(kc, true, "keyed by "+cargs[1].Short(), nil)
	} else {
		add(kc, false, "the identity HMAC is keyed by "+cargs[1].Short()+", not by "+keys[0].Short(), cargs[1])
	}
	wantU := sx.TmApp(x.lEnc, sx.TmApp("strings.ToUpper", user))
	wantD := dom
	for _, l := range s.domCase {
		wantD = sx.TmApp(l, wantD)
	}
	wantD = sx.TmApp(x.lEnc, wantD)
	ps := input.Parts()
	oc := name + ": NTOWFv2 identity [user precedes domain, nothing else]"
	uc := name + ": NTOWFv2 identity [user ← ToUpper, EncodeUTF16LE]"
	dc := name + ": NTOWFv2 identity [domain ← " + s.domRule + "]"
	if input.Key() == flow.TmCat(wantU, wantD).Key() {
		add(oc, true, "two segments: "+wantU.Short()+" then "+wantD.Short(), nil)
		add(uc, true, wantU.Short(), nil)
		add(dc, true, wantD.Short(), nil)
		return out
	}
	if len(ps) == 2 {
		swapped := ps[0].Key() == wantD.Key() || ps[1].Key() == wantU.Key()
		add(oc, !swapped, "the identity HMAC absorbs "+input.Short()+"; NTOWFv2 hashes exactly Uppercase(user) followed by the domain", input)
		add(uc, ps[0].Key() == wantU.Key(), "the first hashed segment is "+ps[0].Short()+", not "+wantU.Short(), ps[0])
		add(dc, ps[1].Key() == wantD.Key(), "the second hashed segment is "+ps[1].Short()+", not "+wantD.Short()+s.domWhy, ps[1])
		return out
	}
	add(oc, false, "the identity HMAC absorbs "+input.Short()+"; NTOWFv2 hashes exactly "+wantU.Short()+" followed by "+wantD.Short(), input)
	return out
}

// ---- R1: DESL ------------------------------------------------------------------------------

const (
	deslNotDecided = "?"
	deslCanon      = "[0:7] [7:14] [14:21]"
)

// desl: the recogniser of c02.go (three chains written out, a counted loop over
// a table or over affine windows, one shared helper), then evaluation: the
// response of an entry point is
//
//	DES(PA(h[0:7]), SC) ‖ DES(PA(h[7:14]), SC) ‖ DES(PA(h[14:16] ‖ 00×5), SC)
//
// with PA = ParityAdjust (a label, judged separately), SC the 8-byte
// ServerChallenge field and h the entry point's 16-byte hash.
func (x *c02) desl(fn *ssa.Function, hashNeeds []need, hashWhat string) string {
	g := x.begin()
	d := x.deslSyn(fn, hashNeeds, hashWhat)
	if g.clean() {
		return d
	}
	recv := fn.Params[0].Name()
	kind := fn.Name()
	lens := func(nt int) func(*flow.Sx) {
		return func(sx *flow.Sx) {
			sx.FieldLen = func(path string) int {
				switch path {
				case recv + ".ServerChallenge":
					return 8
				case recv + ".NTHash":
					return nt
				}
				return -1
			}
		}
	}
	x.sxSetup = lens(16)
	defer func() { x.sxSetup = nil }()
	SC := flow.TmField(recv+".ServerChallenge", 0, 8)
	out := x.bySx(g, fn, nil, []*ssa.Function{fn}, map[string]int{c02R1: 11}, func(r sxRun) []specItem {
		var h *flow.Tm
		switch kind {
		case "LMResponse":
			h = r.sx.TmApp(x.lLM, flow.TmField(recv+".Password", 0, -1))
			h.M = 16
		default:
			h = flow.TmField(recv+".NTHash", 0, 16)
		}
		items := x.deslSpec(r, fn, h, SC, hashWhat)
		if kind == "Hash" {
			// the same entry point with no NT hash stored: the hash is nt.NTHash(Password)
			x.sxSetup = lens(0)
			runs, err := x.sxEval(x.sxConf(), fn, nil, []*ssa.Function{fn})
			x.sxSetup = lens(16)
			if err != nil {
				items = append(items, specItem{rule: c02R1, construct: x.P.FuncName(fn) + ": chain hash when no NT hash is stored = nt.NTHash(Password)", undecided: true,
					msg: "the evaluation with an empty NTHash field stopped: " + err.Error()})
			}
			for _, r2 := range runs {
				h2 := r2.sx.TmApp(x.lNT, flow.TmField(recv+".Password", 0, -1))
				h2.M = 16
				for _, it := range x.deslSpec(r2, fn, h2, SC, "nt.NTHash(Password) when no NT hash is stored") {
					if !it.ok {
						it.construct += " [no NT hash stored]"
						items = append(items, it)
					}
				}
			}
		}
		return items
	})
	switch out {
	case sxOK:
		return deslCanon
	case sxUndecided:
		return deslNotDecided
	}
	return d
}

func (x *c02) deslSpec(r sxRun, fn *ssa.Function, h, SC *flow.Tm, hashWhat string) []specItem {
	name := x.P.FuncName(fn)
	sx := r.sx
	var out []specItem
	add := func(construct string, ok bool, msg string, got *flow.Tm) {
		it := specItem{rule: c02R1, construct: construct, ok: ok, msg: msg}
		if !ok && got != nil && got.HasTop() {
			it.undecided, it.msg = true, "a value the evaluator does not describe ("+got.FirstTop()+") stands where "+construct+" is decided"
		}
		out = append(out, it)
	}
	cc := name + ": three ParityAdjust → des.NewCipher → Encrypt chains"
	rc := name + ": return = ct[0:7] ‖ ct[7:14] ‖ ct[14:21]"
	if len(r.res) == 0 || r.res[0] == nil {
		add(cc, false, "the function returns no byte string", nil)
		return out
	}
	R := r.res[0]
	parts := R.Parts()
	allDes := len(parts) == 3
	for _, p := range parts {
		if p.Op != "des" {
			allDes = false
		}
	}
	if !allDes {
		add(cc, false, "the response is "+R.Short()+", not three 8-byte DES ciphertexts one after the other (DESL has exactly three)", R)
		return out
	}
	add(cc, true, "three 8-byte DES ciphertexts", nil)
	pa := func(t *flow.Tm) *flow.Tm {
		a := sx.TmApp(x.lParity, t)
		a.M = 8
		return a
	}
	wins := [][2]int{{0, 7}, {7, 14}, {14, 21}}
	keys := []*flow.Tm{
		pa(flow.TmSlice(h, 0, 7)),
		pa(flow.TmSlice(h, 7, 14)),
		pa(flow.TmCat(flow.TmSlice(h, 14, 16), flow.TmConst("\x00\x00\x00\x00\x00"))),
	}
	order := true
	for i, p := range parts {
		w := wins[i]
		kc := fmt.Sprintf("%s: chain key = ParityAdjust(hash[%d:%d])", name, w[0], w[1])
		hc := fmt.Sprintf("%s: chain [%d:%d] hash = %s", name, w[0], w[1], hashWhat)
		ec := fmt.Sprintf("%s: chain [%d:%d] Encrypt(fresh 8 bytes, ServerChallenge)", name, w[0], w[1])
		got := p.A[0]
		switch {
		case got.Key() == keys[i].Key():
			add(kc, true, "key "+fmt.Sprint(i+1)+" is "+keys[i].Short(), nil)
			add(hc, true, "cut from "+h.Short(), nil)
		case got.Op != "app" || got.S != x.lParity:
			add(kc, false, "DES key "+fmt.Sprint(i+1)+" is "+got.Short()+", not the result of ParityAdjust (the 7→8 byte odd-parity expansion is skipped)", got)
		default:
			// which of the three windows is it, if any?
			other := -1
			for j := range keys {
				if got.Key() == keys[j].Key() {
					other = j
				}
			}
			if other >= 0 {
				order = false
				add(kc, true, "a DESL key window", nil)
			} else {
				add(kc, false, fmt.Sprintf("ciphertext %d is keyed by %s; DESL keys it with %s — %s", i+1, got.Short(), keys[i].Short(), tmDiff(got, keys[i])), got)
			}
		}
		if pl := p.A[1]; pl.Key() == SC.Key() {
			add(ec, true, "plaintext is the ServerChallenge field, the ciphertext is 8 bytes of the response", nil)
		} else {
			add(ec, false, "the plaintext is "+pl.Short()+", not the ServerChallenge field", pl)
		}
	}
	if order {
		add(rc, true, "three ciphertexts in window order", nil)
	} else {
		add(rc, false, "the response is not the three ciphertexts in the order of their key windows: "+R.Short(), nil)
	}
	return out
}

// ---- R5: hashcat line ----------------------------------------------------------------------

// r5: the recogniser (one Sprintf / one concatenation in ToHashcatString), then
// evaluation: the line is
//
//	Username "::" Domain ":" hex(ServerChallenge) ":" hex(R[:16]) ":" hex(R[16:])
//
// where R is what Hash() returns on the same receiver (evaluated on its own and
// inline; values of time.Now / rand.Read are identified by call site).
func (x *c02) r5() {
	g := x.begin()
	x.r5Syn()
	fn := x.P.Func(cryNTLMv2, "NTLMv2", "ToHashcatString")
	fHash := x.P.Func(cryNTLMv2, "NTLMv2", "Hash")
	if g.clean() || fn == nil || fHash == nil {
		return
	}
	name := x.P.FuncName(fn)
	x.bySx(g, fn, nil, []*ssa.Function{fn}, map[string]int{c02R5: 6}, func(r sxRun) []specItem {
		it := specItem{rule: c02R5, construct: name + ": format"}
		runs, err := x.sxEval(x.sxConf(), fHash, nil, []*ssa.Function{fHash})
		if err != nil || len(runs) != 1 || len(runs[0].res) == 0 || runs[0].res[0] == nil {
			it.undecided, it.msg = true, "Hash() itself could not be evaluated to one result term"
			return []specItem{it}
		}
		R := runs[0].res[0]
		recv := fn.Params[0].Name()
		hex := func(t *flow.Tm) *flow.Tm { return r.sx.TmApp("encoding/hex.EncodeToString", t) }
		want := flow.TmCat(
			flow.TmField(recv+".Username", 0, -1), flow.TmConst("::"),
			flow.TmField(recv+".Domain", 0, -1), flow.TmConst(":"),
			hex(flow.TmField(recv+".ServerChallenge", 0, 8)), flow.TmConst(":"),
			hex(flow.TmSlice(R, 0, 16)), flow.TmConst(":"),
			hex(flow.TmSlice(R, 16, -1)))
		switch got := r.res[0]; {
		case got == nil:
			it.msg = "the function returns no string"
		case got.Key() == want.Key():
			it.ok, it.msg = true, "user::domain:hex(ServerChallenge):hex(Hash()[:16]):hex(Hash()[16:])"
		case got.HasTop():
			it.undecided, it.msg = true, "the line holds a value the evaluator does not describe ("+got.FirstTop()+")"
		default:
			it.msg = "the line is " + got.Short() + " — " + tmDiff(got, want) + " — hashcat mode 5600 expects user::domain:challenge:NTProofStr:blob"
		}
		return []specItem{it}
	})
}

// v1RespBySx: ntlm.calculateNTLMv1Response(challenge, password) returns
// (DESL(lm.LMHash(password), challenge), DESL(nt.NTHash(password), challenge)),
// however the two responses are reached (through the NTLMv1 methods, or through
// a DESL routine called directly). The challenge is taken to be 8 bytes long
// (NewNTLMv1WithPassword refuses anything else).
func (x *c02) v1RespBySx(g *group, fn *ssa.Function, chal, pw int) {
	if chal < 0 || pw < 0 {
		return
	}
	name := x.P.FuncName(fn)
	cn := fn.Params[chal].Name()
	x.sxSetup = func(sx *flow.Sx) {
		sx.FieldLen = func(path string) int {
			if path == cn {
				return 8
			}
			return -1
		}
	}
	defer func() { x.sxSetup = nil }()
	x.bySx(g, fn, nil, []*ssa.Function{fn}, map[string]int{c02R1: 2}, func(r sxRun) []specItem {
		SC := flow.TmParam(cn, chal, 8)
		var out []specItem
		for i, w := range []struct{ label, what string }{{x.lLM, "LM response = DESL(lm.LMHash(password), challenge)"}, {x.lNT, "NT response = DESL(nt.NTHash(password), challenge)"}} {
			h := r.sx.TmApp(w.label, paramTm(fn, pw))
			h.M = 16
			sub := sxRun{sx: r.sx}
			if i < len(r.res) {
				sub.res = []*flow.Tm{r.res[i]}
			}
			ok, und, msg := true, false, ""
			for _, it := range x.deslSpec(sub, fn, h, SC, w.what) {
				if !it.ok && ok {
					ok, und, msg = false, it.undecided, it.msg
				}
			}
			if ok {
				msg = w.what
			}
			out = append(out, specItem{rule: c02R1, construct: fmt.Sprintf("%s: result #%d %s", name, i, w.what), ok: ok, undecided: und, msg: msg})
		}
		return out
	})
}

var _ = fmt.Sprintf
