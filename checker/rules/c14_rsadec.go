package rules

import (
	"fmt"
	"go/types"
	"strings"

	"golang.org/x/tools/go/ssa"

	"manticheck/internal/absint"
	"manticheck/internal/lanes"
)

// C14 R4 — the BCRYPT_RSAKEY_BLOB DECODER by lane interpretation.
//
// The shape recogniser of rsaBlob/rsaExponent reads today's spelling of
// (*RSAKeyMaterial).FromBytes: one binary.LittleEndian.Uint32(value[k:k+4])
// per header word, a running `offset`, value[offset : offset+size] per
// payload, an index loop for the exponent. A decoder that reads the header
// words in a loop into an array, consumes the body through a re-sliced tail
// (a `take` closure, a cursor type with methods, bytes.Cut-like helpers) or
// folds the exponent over a sub-slice leaves it without its pattern, and what
// it then says ("never decoded", "not a slice of the input") describes the
// recogniser, not the code. Every decoder clause is therefore ALSO decided
// from FromBytes's behaviour on blobs of concrete shape and symbolic content:
//
//	"RSA1" | KeySize (4 symbolic bytes) | cbPublicExp | cbModulus | cbPrime1 | cbPrime2
//	(constants, little-endian) | e + m + p + q symbolic bytes [+ stray bytes]
//
// for several (e, m, p, q) with pairwise different sizes, one of them above
// 255 in every position that can hold one (so a word read big-endian, from a
// neighbouring slot or through one byte only shows), an exponent of 5 bytes
// (uint32 wrap-around) and nil primes. A field must come back as exactly the
// bytes BCRYPT_RSAKEY_BLOB puts there; a field the decoder does not assign
// keeps its "stale" source and is reported as such. Each of the four magic
// bytes is altered in turn: the blob must be refused.
//
// The verdicts are combined with the recogniser's by c14.arbitrate (see
// c14_sem.go): an interpretation that aborts decides nothing.

var c14RsaDecClauses = []string{"magic", "KeySize", "Exponent", "Modulus", "Prime1", "Prime2"}

func (x *c14) semRsaDecoder(from *ssa.Function) (out map[string]c14V) {
	out = map[string]c14V{}
	all := func(v c14V) map[string]c14V {
		for _, s := range c14RsaDecClauses {
			out[s] = v
		}
		return out
	}
	defer func() {
		if e := recover(); e != nil {
			out = all(c14Na("internal error in the lane interpretation: %v", e))
		}
	}()
	nt, _ := c14Deref(from.Params[0].Type()).(*types.Named)
	if nt == nil || len(from.Params) != 2 || !isByteSliceType(from.Params[1].Type()) {
		return all(c14Na("(*RSAKeyMaterial).FromBytes(value []byte) does not resolve"))
	}
	st, _ := nt.Underlying().(*types.Struct)
	if st == nil {
		return all(c14Na("RSAKeyMaterial is not a struct"))
	}
	idx := map[string]int{}
	for _, f := range []string{"KeySize", "Exponent", "Modulus", "Prime1", "Prime2"} {
		idx[f] = c14FieldIdx(st, f)
		if idx[f] < 0 {
			return all(c14Na("field %s does not resolve", f))
		}
	}
	type shape struct{ e, m, p, q, stray int }
	shapes := []shape{{3, 300, 130, 129, 0}, {1, 5, 3, 2, 0}, {4, 7, 0, 0, 2}, {5, 2, 1, 0, 0}}
	bad := map[string][]string{}
	na := map[string]string{}
	type runOut struct {
		in    *absint.Interp
		back  *absint.Node
		arr   *absint.Node
		res   absint.Value
		abort string
	}
	run := func(sh shape, magic string, attach func(*absint.Interp)) runOut {
		in := absint.New(x.P.InModule)
		if attach != nil {
			attach(in)
		}
		total := 24 + sh.e + sh.m + sh.p + sh.q + sh.stray
		arr, _ := in.SymBytes("blob", total)
		for j := 0; j < 4; j++ {
			arr.Kids[j].Leaf = c14ConstByte(int(magic[j]))
		}
		for w, v := range []int{sh.e, sh.m, sh.p, sh.q} {
			for j := 0; j < 4; j++ {
				arr.Kids[8+4*w+j].Leaf = c14ConstByte((v >> (8 * j)) & 0xff)
			}
		}
		back := in.SymNode(nt, "stale", map[string]int{})
		res, err := in.Call(from, absint.Ptr{N: back}, absint.Slice{Arr: arr, Lo: 0, Hi: total, Cap: total})
		ro := runOut{in: in, back: back, arr: arr, res: res}
		if err != nil {
			ro.abort = err.Error()
		}
		return ro
	}
	blobByte := func(arr *absint.Node, i int) lanes.Vec {
		iv, _ := arr.Kids[i].Leaf.(absint.Int)
		return iv.V
	}
	for _, sh := range shapes {
		sh := sh
		desc := fmt.Sprintf("blob with cbPublicExp,cbModulus,cbPrime1,cbPrime2 = %d,%d,%d,%d", sh.e, sh.m, sh.p, sh.q)
		if sh.stray > 0 {
			desc += fmt.Sprintf(" and %d stray bytes", sh.stray)
		}
		sized := []string{"Exponent", "Modulus", "Prime1", "Prime2"}
		why := c14Paths(16, func(attach func(*absint.Interp)) string {
			ro := run(sh, "RSA1", attach)
			if ro.abort != "" {
				if len(ro.in.Unknown) > 0 {
					return ro.abort + " (after calls that are not modelled: " + strings.Join(ro.in.Unknown, ", ") + ")"
				}
				if strings.Contains(ro.abort, "is not determined by the lanes") {
					// the four size words are constants in this blob; only KeySize and the
					// payload bytes are symbolic: an index or bound that is not determined
					// was computed from bytes that are not size words
					for _, f := range sized {
						bad[f] = append(bad[f], fmt.Sprintf("%s: FromBytes computes an index or slice bound from bytes that are not the size words at blob[8:24] (%s)", desc, ro.abort))
					}
					return ""
				}
				if strings.Contains(ro.abort, "would panic") {
					// every header byte is a constant: an out-of-range access on a
					// well-formed blob means a size was taken from the wrong bytes
					for _, f := range sized {
						bad[f] = append(bad[f], fmt.Sprintf("%s: FromBytes reads out of range (%s) — a size word is taken from the wrong bytes or in the wrong byte order", desc, ro.abort))
					}
					return ""
				}
				return ro.abort
			}
			isNil, known := c13IfaceNil(ro.res)
			if !known {
				return "FromBytes does not return an error value"
			}
			if !isNil {
				for _, f := range sized {
					bad[f] = append(bad[f], fmt.Sprintf("%s: FromBytes refuses this well-formed %d-byte blob — a size word is taken from the wrong bytes or in the wrong byte order", desc, len(ro.arr.Kids)))
				}
				return ""
			}
			in, back, arr := ro.in, ro.back, ro.arr
			// KeySize
			if iv, ok := back.Kids[idx["KeySize"]].Leaf.(absint.Int); !ok || len(iv.V) != 32 {
				na["KeySize"] = "KeySize is not a 32-bit integer"
			} else {
				var want lanes.Vec
				for j := 0; j < 4; j++ {
					want = append(want, blobByte(arr, 4+j)...)
				}
				if !iv.V.Equal(want) {
					bad["KeySize"] = append(bad["KeySize"], fmt.Sprintf("%s: KeySize comes back as %s, BCRYPT_RSAKEY_BLOB.BitLength is the 4 bytes blob[4:8] little-endian", desc, iv.V.String(in.Name)))
				}
			}
			// Exponent: big-endian fold of the e bytes at 24 into a uint32
			if iv, ok := back.Kids[idx["Exponent"]].Leaf.(absint.Int); !ok || len(iv.V) != 32 {
				na["Exponent"] = "Exponent is not a 32-bit integer"
			} else {
				want := lanes.ZeroVec(32)
				for j := 0; j < 4 && sh.e-1-j >= 0; j++ {
					copy(want[8*j:8*j+8], blobByte(arr, 24+sh.e-1-j))
				}
				if !iv.V.Equal(want) {
					bad["Exponent"] = append(bad["Exponent"], fmt.Sprintf("%s: Exponent comes back as %s, required the %d bytes blob[24:%d] folded big-endian (Exponent<<8 | byte, uint32)", desc, iv.V.String(in.Name), sh.e, 24+sh.e))
				}
			}
			off := 24 + sh.e
			for _, fw := range []struct {
				f string
				n int
			}{{"Modulus", sh.m}, {"Prime1", sh.p}, {"Prime2", sh.q}} {
				sl, ok := back.Kids[idx[fw.f]].Leaf.(absint.Slice)
				switch {
				case !ok:
					bad[fw.f] = append(bad[fw.f], fmt.Sprintf("%s: %s is not assigned a byte slice of the input (it holds %T)", desc, fw.f, back.Kids[idx[fw.f]].Leaf))
				default:
					n := 0
					if !sl.Nil && sl.Arr != nil {
						n = sl.Len()
					}
					where := fmt.Sprintf("%d bytes", n)
					if n > 0 && sl.Arr == arr {
						where = fmt.Sprintf("blob[%d:%d]", sl.Lo, sl.Hi)
					}
					okF := n == fw.n
					for k := 0; okF && k < n; k++ {
						iv, isI := sl.Arr.Kids[sl.Lo+k].Leaf.(absint.Int)
						okF = isI && iv.V.Equal(blobByte(arr, off+k))
					}
					if !okF {
						bad[fw.f] = append(bad[fw.f], fmt.Sprintf("%s: %s comes back as %s, BCRYPT_RSAKEY_BLOB puts it at blob[%d:%d] (24 + the preceding sizes, its own size word little-endian)", desc, fw.f, where, off, off+fw.n))
					}
				}
				off += fw.n
			}
			return ""
		})
		if why != "" {
			return all(c14Na("%s: %s", desc, why))
		}
	}
	// magic: each of the four bytes altered in turn must be refused
	for j := 0; j < 4 && len(bad["magic"]) == 0; j++ {
		m := []byte("RSA1")
		m[j] ^= 0x03
		ro := run(shapes[1], string(m), nil)
		if ro.abort != "" {
			na["magic"] = fmt.Sprintf("blob type %q: %s", string(m), ro.abort)
			break
		}
		isNil, known := c13IfaceNil(ro.res)
		if !known {
			na["magic"] = "FromBytes does not return an error value"
			break
		}
		if isNil {
			bad["magic"] = append(bad["magic"], fmt.Sprintf("a blob whose first four bytes are %q is accepted: byte %d of the blob type is not compared with \"RSA1\"", string(m), j))
		}
	}
	for _, c := range c14RsaDecClauses {
		switch {
		case len(bad[c]) > 0:
			m := bad[c]
			if len(m) > 2 {
				m = append(m[:2], fmt.Sprintf("… (%d more shapes)", len(m)-2))
			}
			out[c] = c14Bad_("%s", strings.Join(m, "; "))
		case na[c] != "":
			out[c] = c14Na("%s", na[c])
		case c == "magic":
			out[c] = c14Ok("\"RSA1\" is accepted; a blob type that differs in any one of its four bytes is refused with an error")
		default:
			out[c] = c14Ok("on blobs with (cbPublicExp,cbModulus,cbPrime1,cbPrime2) ∈ {(3,300,130,129), (1,5,3,2), (4,7,0,0)+2 stray bytes, (5,2,1,0)} and symbolic content the field comes back as exactly the bytes BCRYPT_RSAKEY_BLOB puts there")
		}
	}
	return out
}

func c14RsaExpCons() string {
	return c14PkgCrypto + ".(*RSAKeyMaterial).FromBytes: Exponent accumulates value[24+i] big-endian for i < cbPublicExp (LE at offset 8)"
}

// ---------------------------------------------------------------------------
// the two header codecs (KeyCredentialEntryType, KeyCredentialVersion)

// semHeaderCodecs interprets the four tiny codec methods on symbolic values:
// KeyCredentialEntryType.ToBytes → one byte == Value, FromBytes(b) → Value == b;
// KeyCredentialVersion.ToBytes → the 4 bytes of Value little-endian, FromBytes
// on 4 and on 7 symbolic bytes → Value == the first 4 little-endian. Keys:
// "typeEnc", "typeDec", "version".
func (x *c14) semHeaderCodecs(etTo, etFrom, vTo, vFrom *ssa.Function) (out map[string]c14V) {
	out = map[string]c14V{}
	guard := func(key string, f func() c14V) {
		defer func() {
			if e := recover(); e != nil {
				out[key] = c14Na("internal error in the lane interpretation: %v", e)
			}
		}()
		out[key] = f()
	}
	recvOf := func(in *absint.Interp, fn *ssa.Function, prefix string) (*absint.Node, *types.Struct, int) {
		nt, _ := c14Deref(fn.Params[0].Type()).(*types.Named)
		if nt == nil {
			return nil, nil, -1
		}
		st, _ := nt.Underlying().(*types.Struct)
		if st == nil {
			return nil, nil, -1
		}
		return in.SymNode(nt, prefix, map[string]int{}), st, c14FieldIdx(st, "Value")
	}
	bytesOf := func(v absint.Value) ([]lanes.Vec, bool) {
		s, ok := v.(absint.Slice)
		if !ok {
			return nil, false
		}
		var cells []lanes.Vec
		if !s.Nil {
			for i := s.Lo; i < s.Hi; i++ {
				iv, ok := s.Arr.Kids[i].Leaf.(absint.Int)
				if !ok || len(iv.V) != 8 {
					return nil, false
				}
				cells = append(cells, iv.V)
			}
		}
		return cells, true
	}
	guard("typeEnc", func() c14V {
		in := absint.New(x.P.InModule)
		recv, _, vi := recvOf(in, etTo, "")
		if recv == nil || vi < 0 || len(etTo.Params) != 1 {
			return c14Na("KeyCredentialEntryType.ToBytes() / its Value field do not resolve")
		}
		val, ok := recv.Kids[vi].Leaf.(absint.Int)
		if !ok || len(val.V) != 8 {
			return c14Na("KeyCredentialEntryType.Value is not an 8-bit integer")
		}
		res, err := in.Call(etTo, absint.Ptr{N: recv})
		if err != nil {
			return c14Na("%s", err.Error())
		}
		cells, ok := bytesOf(res)
		if !ok {
			return c14Na("ToBytes does not return a byte slice of known content")
		}
		if len(cells) != 1 || !cells[0].Equal(val.V) {
			return c14Bad_("KeyCredentialEntryType.ToBytes returns %d byte(s); the entry header has exactly one type byte, equal to Value", len(cells))
		}
		return c14Ok("for a symbolic Value, ToBytes returns exactly one byte, Value bit for bit")
	})
	guard("typeDec", func() c14V {
		in := absint.New(x.P.InModule)
		recv, _, vi := recvOf(in, etFrom, "stale")
		if recv == nil || vi < 0 || len(etFrom.Params) != 2 {
			return c14Na("KeyCredentialEntryType.FromBytes(byte) / its Value field do not resolve")
		}
		if w, _, ok := lanes.IntWidth(etFrom.Params[1].Type()); !ok || w != 8 {
			return c14Na("KeyCredentialEntryType.FromBytes does not take one byte")
		}
		src := in.NewSrc("type byte")
		b := absint.SrcInt(src, 0, 8)
		if _, err := in.Call(etFrom, absint.Ptr{N: recv}, b); err != nil {
			return c14Na("%s", err.Error())
		}
		got, ok := recv.Kids[vi].Leaf.(absint.Int)
		if !ok || !got.V.Equal(b.V) {
			return c14Bad_("after KeyCredentialEntryType.FromBytes(b), Value is %s, not b: entries are dispatched on something other than their type byte", got.V.String(in.Name))
		}
		return c14Ok("after FromBytes(b) with a symbolic byte, Value == b bit for bit")
	})
	guard("version", func() c14V {
		in := absint.New(x.P.InModule)
		recv, _, vi := recvOf(in, vTo, "")
		if recv == nil || vi < 0 || len(vTo.Params) != 1 {
			return c14Na("KeyCredentialVersion.ToBytes() / its Value field do not resolve")
		}
		val, ok := recv.Kids[vi].Leaf.(absint.Int)
		if !ok || len(val.V) != 32 {
			return c14Na("KeyCredentialVersion.Value is not a 32-bit integer")
		}
		res, err := in.Call(vTo, absint.Ptr{N: recv})
		if err != nil {
			return c14Na("ToBytes: %s", err.Error())
		}
		cells, ok := bytesOf(res)
		if !ok {
			return c14Na("ToBytes does not return a byte slice of known content")
		}
		if len(cells) != 4 {
			return c14Bad_("KeyCredentialVersion.ToBytes returns %d bytes, the version prefix has 4", len(cells))
		}
		for j := 0; j < 4; j++ {
			if !cells[j].Equal(val.V[8*j : 8*j+8]) {
				return c14Bad_("KeyCredentialVersion.ToBytes: byte %d is %s, required byte %d of Value little-endian", j, cells[j].String(in.Name), j)
			}
		}
		if len(vFrom.Params) != 2 || !isByteSliceType(vFrom.Params[1].Type()) {
			return c14Na("KeyCredentialVersion.FromBytes([]byte) does not resolve")
		}
		for _, n := range []int{4, 7} {
			in := absint.New(x.P.InModule)
			back, _, bi := recvOf(in, vFrom, "stale")
			if back == nil || bi < 0 {
				return c14Na("KeyCredentialVersion.FromBytes receiver does not resolve")
			}
			arr, src := in.SymBytes("blob", n)
			if _, err := in.Call(vFrom, absint.Ptr{N: back}, absint.Slice{Arr: arr, Lo: 0, Hi: n, Cap: n}); err != nil {
				return c14Na("FromBytes on %d bytes: %s", n, err.Error())
			}
			got, ok := back.Kids[bi].Leaf.(absint.Int)
			var want lanes.Vec
			for j := 0; j < 4; j++ {
				want = append(want, lanes.SrcByte(src, j)...)
			}
			if !ok || !got.V.Equal(want) {
				return c14Bad_("KeyCredentialVersion.FromBytes on %d bytes: Value is %s, required blob[0:4] little-endian (what ToBytes emits)", n, got.V.String(in.Name))
			}
		}
		return c14Ok("ToBytes returns the 4 bytes of a symbolic Value little-endian; FromBytes on 4 and 7 symbolic bytes sets Value to the first 4 little-endian")
	})
	return out
}
