package rules

import (
	"fmt"
	"go/token"
	"go/types"
	"sort"

	"golang.org/x/tools/go/ssa"

	"manticheck/internal/lin"
	"manticheck/internal/prove"
)

// Shared rule `widen-after-wrap` (added after independently seeded changes —
// SMB_STRING computing its end offset as int(3 + s.Length) with a 16-bit sum,
// and the SPNEGO extractor accumulating a DER length in a uint16 — were
// missed): when the result of +, * or << on 8- or 16-bit unsigned integers is
// afterwards converted to a wider integer type, the author wanted the wide
// range; the narrow operation must therefore be proved not to wrap (E1: the
// exact result fits the narrow type under the dominating conditions), because a
// wrapped length, offset or count silently desynchronises a decoder without
// any bounds failure. Sites whose operands are both constants or that are
// masked before widening are not instances.

type narrowSite struct {
	fn  *ssa.Function
	op  *ssa.BinOp
	cv  *ssa.Convert
	key string
}

func narrowBits(t types.Type) (int, bool) {
	b, ok := t.Underlying().(*types.Basic)
	if !ok || b.Info()&types.IsInteger == 0 || b.Info()&types.IsUnsigned == 0 {
		return 0, false
	}
	switch b.Kind() {
	case types.Uint8:
		return 8, true
	case types.Uint16:
		return 16, true
	}
	return 0, false
}

func intBits(t types.Type) int {
	b, ok := t.Underlying().(*types.Basic)
	if !ok || b.Info()&types.IsInteger == 0 {
		return 0
	}
	switch b.Kind() {
	case types.Int8, types.Uint8:
		return 8
	case types.Int16, types.Uint16:
		return 16
	case types.Int32, types.Uint32:
		return 32
	}
	return 64
}

// narrowSites: BinOps (+, *, <<) of narrow unsigned type whose value reaches a
// widening Convert through φs only.
func narrowSites(c *Ctx, pkgs map[string]bool) []narrowSite {
	p := c.P
	var out []narrowSite
	for _, fn := range p.SrcFuncs() {
		if !pkgs[relPkg(p, fn)] || fn.Blocks == nil {
			continue
		}
		ord := map[string]int{}
		for _, b := range fn.Blocks {
			for _, in := range b.Instrs {
				bo, ok := in.(*ssa.BinOp)
				if !ok || (bo.Op != token.ADD && bo.Op != token.MUL && bo.Op != token.SHL) {
					continue
				}
				bits, ok := narrowBits(bo.Type())
				if !ok {
					continue
				}
				_, kx := bo.X.(*ssa.Const)
				_, ky := bo.Y.(*ssa.Const)
				if kx && ky {
					continue
				}
				// reaches a widening conversion?
				var cv *ssa.Convert
				seen := map[ssa.Value]bool{}
				var walk func(v ssa.Value)
				walk = func(v ssa.Value) {
					if seen[v] || cv != nil || v.Referrers() == nil {
						return
					}
					seen[v] = true
					for _, u := range *v.Referrers() {
						switch y := u.(type) {
						case *ssa.Convert:
							if intBits(y.Type()) > bits {
								cv = y
								return
							}
						case *ssa.Phi:
							walk(y)
						case *ssa.ChangeType:
							walk(y)
						case *ssa.BinOp:
							// still the same narrow quantity when combined bitwise / additively
							if _, narrow := narrowBits(y.Type()); narrow && (y.Op == token.OR || y.Op == token.XOR || y.Op == token.ADD || y.Op == token.SUB) {
								walk(y)
							}
						}
					}
				}
				walk(bo)
				if cv == nil {
					continue
				}
				k := fmt.Sprintf("%s: %s %s %s widened to %s", p.FuncName(fn), types.TypeString(bo.Type(), func(*types.Package) string { return "" }), bo.Op, exprShort(bo), types.TypeString(cv.Type(), func(*types.Package) string { return "" }))
				ord[k]++
				if ord[k] > 1 {
					k = fmt.Sprintf("%s #%d", k, ord[k])
				}
				out = append(out, narrowSite{fn, bo, cv, k})
			}
		}
	}
	sort.Slice(out, func(i, j int) bool { return out[i].key < out[j].key })
	return out
}

func exprShort(bo *ssa.BinOp) string {
	n := func(v ssa.Value) string {
		if k, ok := v.(*ssa.Const); ok {
			return k.Value.ExactString()
		}
		if fa, ok := stripLoad(v).(*ssa.FieldAddr); ok {
			if st, ok := derefType(fa.X.Type()).Underlying().(*types.Struct); ok {
				return "." + st.Field(fa.Field).Name()
			}
		}
		return "x"
	}
	return "(" + n(bo.X) + "," + n(bo.Y) + ")"
}

func stripLoad(v ssa.Value) ssa.Value {
	for {
		switch x := v.(type) {
		case *ssa.UnOp:
			if x.Op == token.MUL {
				return x.X
			}
			return v
		case *ssa.Convert:
			v = x.X
		case *ssa.ChangeType:
			v = x.X
		default:
			return v
		}
	}
}

func widenAfterWrap(c *Ctx, pkgs map[string]bool, floor int) {
	const rule = "widen-after-wrap"
	p, r := c.P, c.R
	sites := narrowSites(c, pkgs)
	var w *prove.World
	if len(sites) > 0 {
		w = sharedWorld(p)
	}
	for _, s := range sites {
		fi := w.Info(s.fn)
		ctx := fi.CtxBefore(s.op)
		bits, _ := narrowBits(s.op.Type())
		max := int64(1)<<uint(bits) - 1
		var exact lin.Form
		ok := true
		switch s.op.Op {
		case token.ADD:
			exact = ctx.Lin(s.op.X).Add(ctx.Lin(s.op.Y))
		case token.MUL:
			if k, isK := s.op.Y.(*ssa.Const); isK {
				n, _ := constantInt64(k)
				exact = ctx.Lin(s.op.X).ScaleI(n)
			} else if k, isK := s.op.X.(*ssa.Const); isK {
				n, _ := constantInt64(k)
				exact = ctx.Lin(s.op.Y).ScaleI(n)
			} else {
				ok = false
			}
		case token.SHL:
			if k, isK := s.op.Y.(*ssa.Const); isK {
				n, _ := constantInt64(k)
				if n >= 0 && n < 62 {
					exact = ctx.Lin(s.op.X).ScaleI(int64(1) << uint(n))
				} else {
					ok = false
				}
			} else {
				ok = false
			}
		}
		pos := p.Rel(s.op.Pos())
		if ok && ctx.Prove(lin.LE(exact, lin.K(max))) {
			r.OK(rule, s.key, pos, fmt.Sprintf("exact result proved <= %d: the %d-bit operation cannot wrap", max, bits))
		} else {
			r.Fail(rule, s.key, pos, fmt.Sprintf("the %d-bit %s can wrap (exact result not proved <= %d) and its wrapped value is then widened at %s: a length/offset/count computed this way is wrong by a multiple of %d for large inputs", bits, s.op.Op, max, p.Rel(s.cv.Pos()), max+1))
		}
	}
	r.Floor(rule, floor)
	r.Extra["widen_after_wrap_sites"] = len(sites)
}

// Scopes: the wire-codec packages each property is anchored in.
var widenScopes = map[string][]string{
	"C03": {"network/smb/smb_v10/message", "network/smb/smb_v10/message/parameters", "network/smb/smb_v10/message/data", "network/smb/smb_v10/message/header", "network/smb/smb_v10/message/securityfeatures"},
	"C04": {"network/smb/smb_v10/message/commands", "network/smb/smb_v10/message/commands/andx", "network/smb/smb_v10/message/commands/utils", "network/smb/smb_v10/message/commands/command_interface"},
	"C06": {"network/smb/smb_v10/types"},
	"C08": {"network/smb/smb_v10/spnego", "network/smb/smb_v10/spnego/ntlm"},
	"C09": {"network/llmnr"},
	"C10": {"network/netbios/nbtns"},
	"C11": {"network/netbios/nbt"},
	"C14": {"windows/keycredential", "windows/keycredential/crypto", "windows/keycredential/key", "windows/keycredential/utils"},
	"C16": {"network/ldap"},
}

func init() {
	for id, pk := range widenScopes {
		ck := registry[id]
		if ck == nil {
			continue
		}
		orig := ck.Run
		scope := map[string]bool{}
		for _, q := range pk {
			scope[q] = true
		}
		ck.Run = func(c *Ctx) {
			orig(c)
			widenAfterWrap(c, scope, 0)
			c.R.Explanation += " Shared rule `widen-after-wrap`: in this property's codec packages no +, * or << on 8/16-bit unsigned integers whose result is later widened may wrap (E1 proof of the exact result fitting the narrow type); on today's tree the rule has no instance in these packages (the lengths are widened before the arithmetic) — the self-test keeps positive examples."
		}
	}
}
