package rules

import (
	"fmt"
	"go/types"
	"sort"
	"strings"

	"golang.org/x/tools/go/ssa"
)

// Extension `identity` of C09 and C10 (added after an independently seeded
// change — a decoder that replaced TTLs with the top bit set by zero — was
// missed): a structural necessary condition of decode(encode(x)) == x. In a
// decoder, a struct field that is filled from an integer read of the wire
// (encoding/binary UintN, a byte of the input, shifts/ors of those) must hold
// that read on every path: it has no second store, and the stored value is not
// a φ that mixes the read with a constant. A decoder that rewrites a decoded
// integer is not injective, so some encodable value does not come back.
//
// What this does not cover: a decoder that rejects (returns an error for) an
// encodable value, and fields that are not integers read from the wire.

func init() {
	wrap := func(id string, fns [][3]string, floor int) {
		ck := registry[id]
		if ck == nil {
			return
		}
		orig := ck.Run
		ck.Run = func(c *Ctx) {
			orig(c)
			wDecodedIdentity(c, fns, floor)
			c.R.Explanation += " Extension `identity`: every struct field a decoder fills from an integer read of the wire holds exactly that read on every path (no second store, no φ with a constant) — a necessary condition of the round trip; rejecting decoders and non-integer fields are not covered."
		}
	}
	wrap("C09", [][3]string{
		{llmnrPkg, "", "DecodeQuestion"},
		{llmnrPkg, "", "DecodeResourceRecord"},
		{llmnrPkg, "", "DecodeMessage"},
	}, 8)
	wrap("C10", [][3]string{
		{nbtnsPkg, "NBTNSPacket", "Unmarshal"},
	}, 6)
}

// wireInt: v is computed only from integer reads of a byte-slice value.
// Returns (isWire, mixesConstant).
func wireInt(v ssa.Value, seen map[ssa.Value]bool) (bool, bool) {
	if seen[v] {
		return true, false
	}
	seen[v] = true
	switch x := v.(type) {
	case *ssa.Call:
		if f := x.Common().StaticCallee(); f != nil {
			n := f.String()
			if strings.HasPrefix(n, "(encoding/binary.") && strings.Contains(n, ").Uint") {
				return true, false
			}
		}
	case *ssa.UnOp:
		if ia, ok := x.X.(*ssa.IndexAddr); ok {
			if sl, ok := ia.X.Type().Underlying().(*types.Slice); ok {
				if b, ok := sl.Elem().Underlying().(*types.Basic); ok && b.Kind() == types.Uint8 {
					return true, false
				}
			}
		}
	case *ssa.Convert:
		return wireInt(x.X, seen)
	case *ssa.ChangeType:
		return wireInt(x.X, seen)
	case *ssa.BinOp:
		_, kx := x.X.(*ssa.Const)
		_, ky := x.Y.(*ssa.Const)
		switch {
		case ky && !kx:
			return wireInt(x.X, seen)
		case kx && !ky:
			return wireInt(x.Y, seen)
		case !kx && !ky:
			a, ma := wireInt(x.X, seen)
			b, mb := wireInt(x.Y, seen)
			return a && b, ma || mb
		}
	case *ssa.Phi:
		anyWire, mixes := false, false
		for _, e := range x.Edges {
			if _, isK := e.(*ssa.Const); isK {
				mixes = true
				continue
			}
			w, m := wireInt(e, seen)
			if w {
				anyWire = true
				mixes = mixes || m
			} else {
				mixes = true
			}
		}
		return anyWire, mixes
	}
	return false, false
}

func wDecodedIdentity(c *Ctx, fns [][3]string, floor int) {
	const rule = "identity"
	p, r := c.P, c.R
	for _, d := range fns {
		fn := p.Func(d[0], d[1], d[2])
		if fn == nil {
			r.Undecided(rule, d[2], "", "decoder not found")
			continue
		}
		all := []*ssa.Function{fn}
		all = append(all, fn.AnonFuncs...)
		// in-module helpers the decoder reads the wire through (an extracted "read
		// the fixed part" step), other decoders of the table excluded: they are
		// listed themselves
		listed := map[*ssa.Function]bool{}
		for _, o := range fns {
			if of := p.Func(o[0], o[1], o[2]); of != nil {
				listed[of] = true
			}
		}
		seenFn := map[*ssa.Function]bool{fn: true}
		for i, depth := 0, 0; i < len(all) && depth < 64; i, depth = i+1, depth+1 {
			for _, b := range all[i].Blocks {
				for _, in := range b.Instrs {
					call, ok := in.(ssa.CallInstruction)
					if !ok {
						continue
					}
					callee := call.Common().StaticCallee()
					if callee == nil || callee.Blocks == nil || seenFn[callee] || listed[callee] || wUnits[callee] || !p.InModule(callee) {
						continue
					}
					takesBytes := false
					for _, q := range callee.Params {
						if sl, ok := q.Type().Underlying().(*types.Slice); ok {
							if bt, ok := sl.Elem().Underlying().(*types.Basic); ok && bt.Kind() == types.Uint8 {
								takesBytes = true
							}
						}
					}
					if !takesBytes {
						continue
					}
					seenFn[callee] = true
					all = append(all, callee)
					all = append(all, callee.AnonFuncs...)
				}
			}
		}
		type slot struct {
			owner string
			field string
		}
		type st struct {
			in    *ssa.Store
			wire  bool
			mixes bool
		}
		stores := map[slot][]st{}
		// a composite literal is built in a temporary and copied whole into the
		// variable (*rr = *tmp): the temporary and the variable are one object
		alias := map[ssa.Value]ssa.Value{}
		for _, f := range all {
			for _, b := range f.Blocks {
				for _, in := range b.Instrs {
					s, ok := in.(*ssa.Store)
					if !ok {
						continue
					}
					ld, ok := s.Val.(*ssa.UnOp)
					if !ok {
						continue
					}
					tmp, isA := ld.X.(*ssa.Alloc)
					dst, isD := s.Addr.(*ssa.Alloc)
					if isA && isD && tmp != dst {
						if _, isStruct := derefType(tmp.Type()).Underlying().(*types.Struct); isStruct {
							alias[tmp] = dst
						}
					}
				}
			}
		}
		for _, f := range all {
			for _, b := range f.Blocks {
				for _, in := range b.Instrs {
					s, ok := in.(*ssa.Store)
					if !ok {
						continue
					}
					fa, ok := s.Addr.(*ssa.FieldAddr)
					if !ok {
						continue
					}
					bt, ok := s.Val.Type().Underlying().(*types.Basic)
					if !ok || bt.Info()&types.IsInteger == 0 {
						continue
					}
					stt, ok := derefType(fa.X.Type()).Underlying().(*types.Struct)
					if !ok {
						continue
					}
					owner := types.TypeString(derefType(fa.X.Type()), func(*types.Package) string { return "" })
					// distinguish distinct objects of the same type by their root value name
					root := ssa.Value(fa.X)
					for {
						if f2, ok := root.(*ssa.FieldAddr); ok {
							// nested: the enclosing field's name distinguishes c.A.QuadPart from c.B.QuadPart
							if st2, ok := derefType(f2.X.Type()).Underlying().(*types.Struct); ok {
								owner = st2.Field(f2.Field).Name() + "." + owner
							} else {
								owner = owner + "."
							}
							root = f2.X
							continue
						}
						break
					}
					if a, ok := alias[root]; ok {
						root = a
					}
					w, m := wireInt(s.Val, map[ssa.Value]bool{})
					k := slot{p.FuncName(f) + ": " + owner + "@" + root.Name(), stt.Field(fa.Field).Name()}
					stores[k] = append(stores[k], st{s, w, m})
				}
			}
		}
		var keys []slot
		for k := range stores {
			keys = append(keys, k)
		}
		sort.Slice(keys, func(i, j int) bool {
			if keys[i].owner != keys[j].owner {
				return keys[i].owner < keys[j].owner
			}
			return keys[i].field < keys[j].field
		})
		nWire := 0
		for _, k := range keys {
			for _, s := range stores[k] {
				if s.wire {
					nWire++
					break
				}
			}
		}
		if nWire == 0 {
			// the decoder does not store wire integers into struct fields directly
			// (a constructor, a generic reader, …): nothing was observed, nothing is claimed
			r.OK(rule, p.FuncName(fn)+": fields filled from the wire", p.Rel(fn.Pos()), "NOT DECIDED — no direct store of an integer read from the wire into a struct field was found in this decoder or the helpers it hands the buffer to (the fields are filled some other way)")
			r.Note("%s identity: NOT DECIDED for %s — no direct store of a wire integer into a struct field", r.Property, p.FuncName(fn))
		}
		for _, k := range keys {
			ss := stores[k]
			anyWire := false
			for _, s := range ss {
				if s.wire {
					anyWire = true
				}
			}
			if !anyWire {
				continue
			}
			// key without the SSA register name (stable under unrelated edits)
			own := k.owner[:strings.LastIndex(k.owner, "@")]
			construct := fmt.Sprintf("%s.%s filled from the wire", own, k.field)
			pos := p.Rel(ss[0].in.Pos())
			var bad []string
			for _, s := range ss {
				switch {
				case !s.wire:
					// only an OVERWRITE matters: the other store must be able to run after a wire store
					// (stores in mutually exclusive alternatives — another buffer format — are fine)
					follows := false
					for _, w := range ss {
						if w.wire && w.in.Parent() == s.in.Parent() && instrReaches(w.in, s.in) {
							follows = true
						}
					}
					if follows {
						bad = append(bad, "a second store at "+p.Rel(s.in.Pos())+" overwrites the decoded value with something not read from the wire")
					}
				case s.mixes:
					bad = append(bad, "the value stored at "+p.Rel(s.in.Pos())+" is the wire read on some paths and a constant on others")
				}
			}
			if len(bad) == 0 && len(ss) > 1 {
				// several wire stores: fine only when none can follow another
				for i := range ss {
					for j := range ss {
						if i != j && ss[i].in.Parent() == ss[j].in.Parent() && instrReaches(ss[i].in, ss[j].in) {
							bad = append(bad, "the store at "+p.Rel(ss[j].in.Pos())+" can follow the store at "+p.Rel(ss[i].in.Pos()))
						}
					}
				}
			}
			if len(bad) == 0 {
				r.OK(rule, construct, pos, "holds exactly the integer read from the wire on every path")
			} else {
				r.Fail(rule, construct, pos, strings.Join(bad, "; ")+": some encodable value does not decode to itself")
			}
		}
	}
	// floor: every listed decoder contributes at least one instance (a field it
	// fills from the wire, or the NOT DECIDED entry above) — keyed to the
	// decoders of the property, not to how many stores today's code happens to make
	_ = floor
	r.Floor(rule, len(fns))
}

// instrReaches: b can execute after a within one function activation.
func instrReaches(a, b ssa.Instruction) bool {
	if a.Block() == b.Block() {
		ia, ib := -1, -1
		for i, in := range a.Block().Instrs {
			if in == a {
				ia = i
			}
			if in == b {
				ib = i
			}
		}
		if ia < ib {
			return true
		}
	}
	seen := map[*ssa.BasicBlock]bool{}
	var walk func(x *ssa.BasicBlock) bool
	walk = func(x *ssa.BasicBlock) bool {
		for _, s := range x.Succs {
			if s == b.Block() {
				return true
			}
			if !seen[s] {
				seen[s] = true
				if walk(s) {
					return true
				}
			}
		}
		return false
	}
	return walk(a.Block())
}
