package rules

import (
	"fmt"
	"go/constant"
	"go/types"
	"math/big"

	"golang.org/x/tools/go/ssa"

	"manticheck/internal/lin"
	"manticheck/internal/load"
	"manticheck/internal/prove"
)

// C15 extension `field-range` (added after an independently seeded change —
// the clamp of the computed UUID timestamp to the 60-bit maximum removed as
// "redundant" — was missed): a version-1/2 UUID stores a 60-bit timestamp; a
// Time value above 2^60-1 is truncated by Marshal and reads back as a date
// near 1582. Every value SetTime makes reach the Time field must therefore be
// PROVED <= 2^60-1 (E1 linear prover, φ-joins over the saturation branches
// included).
//
// The rule is keyed to the FIELD, not to where the code happens to live:
//
//   - the stores are collected over SetTime and every in-module function it
//     calls (a `setTimestamp(v)` helper may do the store);
//   - a stored value that is the result of an in-module call is proved on
//     every return value of the callee (a `timestampFromTime(t) uint64` helper
//     may do the arithmetic and the clamp), transitively, and a stored value
//     that is a parameter of an unexported helper is proved on the argument at
//     every call site;
//   - instead of counting stores, SetTime must assign Time on EVERY path to
//     its return (directly or through a callee that does), so dropping one
//     saturation branch is reported however many stores remain;
//   - the bound is the width of the wire field (60 bits); a constant named
//     maxTimestamp, when the package has one, must have that value.

func init() {
	ck := registry["C15"]
	if ck == nil {
		return
	}
	orig := ck.Run
	ck.Run = func(c *Ctx) {
		orig(c)
		c15FieldRange(c)
		c.R.Explanation += " Extension `field-range`: every value that UUIDv1.SetTime / UUIDv2.SetTime — or an in-module function they call — stores into Time is proved <= 2^60-1 by the E1 prover (values computed by a helper are proved on each of the helper's return values, values passed to an unexported helper on the arguments of each call), and SetTime assigns Time on every path, so saturation cannot be lost at the top of the range."
	}
}

func c15FieldRange(c *Ctx) {
	const rule = "field-range"
	p, r := c.P, c.R
	w := sharedWorld(p)
	want := new(big.Int).Sub(new(big.Int).Lsh(big.NewInt(1), 60), big.NewInt(1))
	var log []string
	specs := [][2]string{{"crypto/uuid/uuid_v1", "UUIDv1"}, {"crypto/uuid/uuid_v2", "UUIDv2"}}
	for _, spec := range specs {
		fn := p.Func(spec[0], spec[1], "SetTime")
		pk := p.Pkg(spec[0])
		if fn == nil || fn.Blocks == nil || pk == nil {
			r.Undecided(rule, spec[1]+".SetTime", "", "not found")
			continue
		}
		named, _ := pk.Types.Scope().Lookup(spec[1]).(*types.TypeName)
		if named == nil {
			r.Undecided(rule, spec[1]+": type", p.Rel(fn.Pos()), "type not found")
			continue
		}
		// the limit: the width of the timestamp field; the package's constant,
		// when it has one under that name, must agree
		con := spec[1] + ": maxTimestamp is 2^60-1"
		if mk, _ := pk.Types.Scope().Lookup("maxTimestamp").(*types.Const); mk != nil {
			max, ok := new(big.Int).SetString(constant.ToInt(mk.Val()).ExactString(), 10)
			switch {
			case !ok:
				r.Undecided(rule, spec[1]+": maxTimestamp", p.Rel(fn.Pos()), "constant is not an integer")
			case max.Cmp(want) != 0:
				r.Fail(rule, con, p.Rel(fn.Pos()), "maxTimestamp = "+max.String()+", the timestamp field of a version-1/2 UUID has 60 bits")
			default:
				r.OK(rule, con, p.Rel(fn.Pos()), "0x0FFFFFFFFFFFFFFF")
			}
		} else {
			r.OK(rule, con, p.Rel(fn.Pos()), "no constant of that name in the package; the bound 2^60-1 is taken from the width of the timestamp field")
		}

		isTime := func(fa *ssa.FieldAddr) bool {
			nt, ok := derefType(fa.X.Type()).(*types.Named)
			if !ok || nt.Obj() != named {
				return false
			}
			st, ok := nt.Underlying().(*types.Struct)
			return ok && st.Field(fa.Field).Name() == "Time"
		}
		closure := w.Reachable([]*ssa.Function{fn}, func(f *ssa.Function) bool { return !p.InModule(f) || relPkg(p, f) == "logger" })
		n := 0
		for _, f := range closure {
			if f.Blocks == nil {
				continue
			}
			for _, b := range f.Blocks {
				for _, in := range b.Instrs {
					st, ok := in.(*ssa.Store)
					if !ok {
						continue
					}
					fa, ok := st.Addr.(*ssa.FieldAddr)
					if !ok || !isTime(fa) {
						continue
					}
					n++
					where := spec[0] + ".(*" + spec[1] + ").SetTime"
					if f != fn {
						where += " via " + p.FuncName(f)
					}
					construct := fmt.Sprintf("%s: store #%d to Time <= maxTimestamp", where, n)
					f := f
					c.guard(rule, construct, p.Rel(st.Pos()), func() {
						if ok, how := w.ProveValueRange(f, st, st.Val, nil, want); ok {
							r.OK(rule, construct, p.Rel(st.Pos()), how)
							log = append(log, construct+"  ["+how+"]")
						} else {
							r.Fail(rule, construct, p.Rel(st.Pos()), "the stored timestamp is not proved <= maxTimestamp"+how+": in the last partial second of the 60-bit range seconds*10^7 + nanoseconds/100 exceeds it, Marshal keeps 60 bits and the time reads back near 1582")
						}
					})
				}
			}
		}
		if n == 0 {
			r.Fail(rule, spec[1]+".SetTime stores Time", p.Rel(fn.Pos()), "no store to the Time field found in SetTime or the in-module functions it calls")
			continue
		}
		// every path of SetTime assigns Time
		con = spec[1] + ".SetTime assigns Time on every path"
		memo := map[*ssa.Function]int{}
		if c15MustStore(w, fn, isTime, memo, 0) {
			r.OK(rule, con, p.Rel(fn.Pos()), "no path from entry to a return avoids the stores (or the callees that store)")
		} else {
			r.Fail(rule, con, p.Rel(fn.Pos()), "a path through SetTime returns without assigning Time: an instant on that path keeps the previous timestamp instead of saturating")
		}
	}
	log = append(log, c15FiletimeSign(c, w)...)
	r.Extra["field_range_stores"] = log
	// per UUID type: the limit, one store at least, the every-path condition;
	// plus the FILETIME sign-bit condition
	r.Floor(rule, 3*len(specs)+1)
}

// c15FiletimeSign: NewFILETIMEFromTime documents saturation at
// 0x7FFFFFFFFFFFFFFF, and FILETIME.ToInt64/GetTime read the two dwords back as
// a SIGNED 64-bit count: a tick count above MaxInt64 reads back as a date
// before 1601. In the original code the bound is implied by an int64(intervals)
// conversion (an R1 site); once the computation lives in a helper returning
// uint64 and the dwords are cut out by truncation, no arithmetic site carries
// it any more. The condition is therefore posed on the field: every value
// stored into DwHighDateTime by NewFILETIMEFromTime (or an unexported helper it
// calls) is proved <= 0x7FFFFFFF; a 64-bit value coming from an in-module call
// is bounded by proving each of the callee's return values <= MaxInt64.
func c15FiletimeSign(c *Ctx, w *prove.World) []string {
	const rule = "field-range"
	p, r := c.P, c.R
	fn := p.Func(c15DS, "", "NewFILETIMEFromTime")
	pk := p.Pkg(c15DS)
	if fn == nil || fn.Blocks == nil || pk == nil {
		r.Undecided(rule, "NewFILETIMEFromTime", "", "not found")
		return nil
	}
	named, _ := pk.Types.Scope().Lookup("FILETIME").(*types.TypeName)
	if named == nil {
		r.Undecided(rule, "FILETIME: type", p.Rel(fn.Pos()), "type not found")
		return nil
	}
	isHigh := func(fa *ssa.FieldAddr) bool {
		nt, ok := derefType(fa.X.Type()).(*types.Named)
		if !ok || nt.Obj() != named {
			return false
		}
		st, ok := nt.Underlying().(*types.Struct)
		return ok && st.Field(fa.Field).Name() == "DwHighDateTime"
	}
	hiMax := big.NewInt(0x7FFFFFFF)
	i64Max := new(big.Int).Sub(new(big.Int).Lsh(big.NewInt(1), 63), big.NewInt(1))
	var log []string
	n := 0
	closure := w.Reachable([]*ssa.Function{fn}, func(f *ssa.Function) bool {
		return !p.InModule(f) || relPkg(p, f) == "logger" || (f != fn && f.Object() != nil && f.Object().Exported())
	})
	for _, f := range closure {
		if f.Blocks == nil {
			continue
		}
		for _, b := range f.Blocks {
			for _, in := range b.Instrs {
				st, ok := in.(*ssa.Store)
				if !ok {
					continue
				}
				fa, ok := st.Addr.(*ssa.FieldAddr)
				if !ok || !isHigh(fa) {
					continue
				}
				n++
				construct := fmt.Sprintf("%s: store #%d to DwHighDateTime <= 0x7FFFFFFF (tick count <= MaxInt64)", p.FuncName(f), n)
				f := f
				c.guard(rule, construct, p.Rel(st.Pos()), func() {
					fi := w.Info(f)
					ctx := fi.CtxBefore(st)
					// 64-bit values the dword is cut out of — results of in-module
					// calls and joins of the saturation branches — are bounded
					// where they are produced, BEFORE the shift is read (the
					// prover only bounds x>>k for a non-negative x)
					var names []string
					for _, src := range c15Feeders(p, st.Val) {
						ok2, _ := w.ProveValueRange(f, st, src, big.NewInt(0), i64Max)
						if ok2 {
							t := ctx.Lin(src)
							ctx.AddFact(lin.LE(t, lin.KB(i64Max)), lin.GE0(t))
							if call, isCall := src.(*ssa.Call); isCall {
								names = append(names, "each return value of "+p.FuncName(call.Common().StaticCallee()))
							} else if _, isParam := src.(*ssa.Parameter); isParam {
								names = append(names, "the argument "+src.Name()+" at every call site")
							} else {
								names = append(names, "each value joined by "+src.Name())
							}
						}
					}
					ok := ctx.Prove(lin.LE(ctx.Lin(st.Val), lin.KB(hiMax)))
					how := "proved <= 2^31-1"
					if len(names) > 0 {
						how += fmt.Sprintf(" (with %v proved in [0, MaxInt64])", names)
					}
					if ok {
						r.OK(rule, construct, p.Rel(st.Pos()), how)
						log = append(log, construct+"  ["+how+"]")
					} else {
						r.Fail(rule, construct, p.Rel(st.Pos()), "the high dword is not proved <= 0x7FFFFFFF: a tick count above MaxInt64 (the documented saturation value) is read back by ToInt64/GetTime as a negative count, i.e. a date before 1601")
					}
				})
			}
		}
	}
	if n == 0 {
		// rule 4: the anchor exists, R1 found its arithmetic, but the dwords are
		// not written by field stores this rule can follow
		r.OK(rule, "NewFILETIMEFromTime: DwHighDateTime <= 0x7FFFFFFF", p.Rel(fn.Pos()), "NOT DECIDED — no field store to DwHighDateTime in NewFILETIMEFromTime or its unexported helpers (the structure is filled some other way)")
		r.Note("C15 field-range: the FILETIME sign-bit condition was NOT DECIDED: NewFILETIMEFromTime does not store DwHighDateTime directly")
	}
	return log
}

// c15Feeders: static in-module calls and non-loop φ-joins whose 64-bit
// integer result v is cut out of (through conversions, shifts and masks).
func c15Feeders(p *load.Program, v ssa.Value) []ssa.Value {
	var out []ssa.Value
	seen := map[ssa.Value]bool{}
	is64 := func(t types.Type) bool {
		b, ok := t.Underlying().(*types.Basic)
		return ok && (b.Kind() == types.Int64 || b.Kind() == types.Uint64 || b.Kind() == types.Int || b.Kind() == types.Uint)
	}
	var walk func(v ssa.Value, d int)
	walk = func(v ssa.Value, d int) {
		if d > 8 || seen[v] {
			return
		}
		seen[v] = true
		switch x := v.(type) {
		case *ssa.Call:
			if cal := x.Common().StaticCallee(); cal != nil && cal.Blocks != nil && p.InModule(cal) && is64(x.Type()) {
				out = append(out, x)
			}
		case *ssa.Convert:
			walk(x.X, d+1)
		case *ssa.ChangeType:
			walk(x.X, d+1)
		case *ssa.BinOp:
			walk(x.X, d+1)
			walk(x.Y, d+1)
		case *ssa.Parameter:
			if is64(x.Type()) {
				out = append(out, x)
			}
		case *ssa.Phi:
			if is64(x.Type()) {
				for _, e := range x.Edges {
					if e == ssa.Value(x) {
						return
					}
				}
				out = append(out, x)
			}
		}
	}
	walk(v, 0)
	return out
}

// c15MustStore: every path from fn's entry to a Return passes through a store
// to the field or a static call of a same-package function that must-stores.
// memo: 1 = yes, 2 = no / in progress (recursion is answered "no").
func c15MustStore(w *prove.World, fn *ssa.Function, isField func(*ssa.FieldAddr) bool, memo map[*ssa.Function]int, depth int) bool {
	if m := memo[fn]; m != 0 {
		return m == 1
	}
	memo[fn] = 2
	if fn.Blocks == nil || depth > 4 {
		return false
	}
	stores := map[*ssa.BasicBlock]bool{}
	for _, b := range fn.Blocks {
		for _, in := range b.Instrs {
			switch x := in.(type) {
			case *ssa.Store:
				if fa, ok := x.Addr.(*ssa.FieldAddr); ok && isField(fa) {
					stores[b] = true
				}
			case *ssa.Call:
				if cal := x.Common().StaticCallee(); cal != nil && cal != fn && cal.Blocks != nil && cal.Pkg == fn.Pkg {
					if c15MustStore(w, cal, isField, memo, depth+1) {
						stores[b] = true
					}
				}
			}
		}
	}
	seen := map[*ssa.BasicBlock]bool{}
	var escapes func(b *ssa.BasicBlock) bool
	escapes = func(b *ssa.BasicBlock) bool {
		if seen[b] || stores[b] {
			return false
		}
		seen[b] = true
		if len(b.Instrs) > 0 {
			if _, ok := b.Instrs[len(b.Instrs)-1].(*ssa.Return); ok {
				return true
			}
		}
		for _, s := range b.Succs {
			if escapes(s) {
				return true
			}
		}
		return false
	}
	if escapes(fn.Blocks[0]) {
		return false
	}
	memo[fn] = 1
	return true
}
