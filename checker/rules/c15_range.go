package rules

import (
	"fmt"
	"go/constant"
	"go/types"
	"math/big"

	"golang.org/x/tools/go/ssa"

	"manticheck/internal/lin"
	"manticheck/internal/prove"
)

// C15 extension `field-range` (added after an independently seeded change —
// the clamp of the computed UUID timestamp to the 60-bit maximum removed as
// "redundant" — was missed): a version-1/2 UUID stores a 60-bit timestamp; a
// Time value above maxTimestamp is truncated by Marshal and reads back as a
// date near 1582. Every store to the Time field in SetTime must therefore be
// PROVED <= maxTimestamp (E1 linear prover, φ-joins over the saturation
// branches included).

func init() {
	ck := registry["C15"]
	if ck == nil {
		return
	}
	orig := ck.Run
	ck.Run = func(c *Ctx) {
		orig(c)
		c15FieldRange(c)
		c.R.Explanation += " Extension `field-range`: every value UUIDv1.SetTime / UUIDv2.SetTime stores into Time is proved <= maxTimestamp (2^60-1) by the E1 prover, so saturation cannot be lost at the top of the range."
	}
}

func c15FieldRange(c *Ctx) {
	const rule = "field-range"
	p, r := c.P, c.R
	w := prove.NewWorld(p)
	for _, spec := range [][2]string{{"crypto/uuid/uuid_v1", "UUIDv1"}, {"crypto/uuid/uuid_v2", "UUIDv2"}} {
		fn := p.Func(spec[0], spec[1], "SetTime")
		pk := p.Pkg(spec[0])
		if fn == nil || fn.Blocks == nil || pk == nil {
			r.Undecided(rule, spec[1]+".SetTime", "", "not found")
			continue
		}
		mk, _ := pk.Types.Scope().Lookup("maxTimestamp").(*types.Const)
		if mk == nil {
			r.Undecided(rule, spec[1]+": maxTimestamp", p.Rel(fn.Pos()), "constant not found")
			continue
		}
		max, ok := new(big.Int).SetString(constant.ToInt(mk.Val()).ExactString(), 10)
		if !ok {
			r.Undecided(rule, spec[1]+": maxTimestamp", p.Rel(fn.Pos()), "constant is not an integer")
			continue
		}
		want := new(big.Int).Sub(new(big.Int).Lsh(big.NewInt(1), 60), big.NewInt(1))
		if max.Cmp(want) != 0 {
			r.Fail(rule, spec[1]+": maxTimestamp is 2^60-1", p.Rel(fn.Pos()), "maxTimestamp = "+max.String()+", the timestamp field of a version-1/2 UUID has 60 bits")
		} else {
			r.OK(rule, spec[1]+": maxTimestamp is 2^60-1", p.Rel(fn.Pos()), "0x0FFFFFFFFFFFFFFF")
		}
		fi := w.Info(fn)
		n := 0
		for _, b := range fn.Blocks {
			for _, in := range b.Instrs {
				st, ok := in.(*ssa.Store)
				if !ok {
					continue
				}
				fa, ok := st.Addr.(*ssa.FieldAddr)
				if !ok {
					continue
				}
				stt, ok := derefType(fa.X.Type()).Underlying().(*types.Struct)
				if !ok || stt.Field(fa.Field).Name() != "Time" {
					continue
				}
				n++
				construct := fmt.Sprintf("%s.(*%s).SetTime: store #%d to Time <= maxTimestamp", spec[0], spec[1], n)
				ctx := fi.CtxBefore(st)
				if ctx.Prove(lin.LE(ctx.Lin(st.Val), lin.KB(max))) {
					r.OK(rule, construct, p.Rel(st.Pos()), "proved <= 2^60-1")
				} else {
					r.Fail(rule, construct, p.Rel(st.Pos()), "the stored timestamp is not proved <= maxTimestamp: in the last partial second of the 60-bit range seconds*10^7 + nanoseconds/100 exceeds it, Marshal keeps 60 bits and the time reads back near 1582")
				}
			}
		}
		if n == 0 {
			r.Fail(rule, spec[1]+".SetTime stores Time", p.Rel(fn.Pos()), "no store to the Time field found")
		}
	}
	r.Floor(rule, 8)
}
