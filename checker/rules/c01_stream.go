package rules

import (
	"fmt"
	"go/types"
	"os"
	"sort"
	"strings"

	"golang.org/x/tools/go/ssa"

	"manticheck/internal/lin"
	"manticheck/internal/prove"
)

// C01 extension `R7-stream` (added after an independently seeded change — an
// MD4.Write "fast path" that hashed whole blocks from the start of the input
// instead of from the position after the bytes used to complete the buffered
// block — was missed). A structural necessary condition of "the streaming MD4
// yields the same digest however the message is split across writes":
// MD4.Write hands every byte of its argument p, in order and exactly once, to a
// consumer (copy into the block buffer, or processChunk). Decided with the E1
// linear prover as a cursor argument over the control-flow graph:
//
//   - every consumer reads a slice p[lo:hi] of the parameter;
//   - on every path the first consumer starts at 0, each consumer starts where
//     the previous one ended (lo == cursor is PROVED from dominating branch
//     conditions and definitions; at joins and loop heads the cursor is the φ
//     whose incoming values are proved equal to the incoming cursors, or
//     entry + K·counter), and the function returns with cursor == len(p);
//   - a copy consumer's destination is at least as long as its source (copy
//     moves min(len(dst), len(src)) bytes).
//
// The rule decides this index-cursor idiom only. If Write is rewritten in
// another idiom (re-slicing p = p[k:], a byte loop) the rule states that it
// does not decide it; it raises no alarm. It does not decide what the
// consumers do with the bytes (buffer offsets, padding arithmetic, rounds).

func init() {
	ck := registry["C01"]
	if ck == nil {
		return
	}
	orig := ck.Run
	ck.Run = func(c *Ctx) {
		orig(c)
		c01Stream(c)
		c.R.Explanation += " Extension R7 STREAM: MD4.Write hands the bytes of its argument to its consumers (copy into the block buffer, processChunk) contiguously — first consumer at 0, each next one where the previous ended, cursor == len(p) at return, copy destinations long enough — proved with the E1 linear prover over the CFG (index-cursor idiom only; another idiom is reported as not decided, never as a violation)."
	}
}

type curTerm struct {
	v ssa.Value
	k int64
}

// cursor: Σ k·v + c (+ len(p)) over SSA integer values; re-linearised in
// whatever proof context it is used.
type cursor struct {
	terms []curTerm
	lenP  bool
	c     int64
}

func (x cursor) form(ctx *prove.Ctx, p ssa.Value) lin.Form {
	f := lin.K(x.c)
	for _, t := range x.terms {
		f = f.Add(ctx.Lin(t.v).ScaleI(t.k))
	}
	if x.lenP {
		f = f.Add(ctx.LenOf(p))
	}
	return f
}

func (x cursor) String() string {
	var parts []string
	for _, t := range x.terms {
		if t.k == 1 {
			parts = append(parts, t.v.Name())
		} else {
			parts = append(parts, fmt.Sprintf("%d*%s", t.k, t.v.Name()))
		}
	}
	if x.lenP {
		parts = append(parts, "len(p)")
	}
	if x.c != 0 || len(parts) == 0 {
		parts = append(parts, fmt.Sprint(x.c))
	}
	return strings.Join(parts, "+")
}

func (x cursor) same(y cursor) bool { return x.String() == y.String() }

func curOf(v ssa.Value) cursor {
	if v == nil {
		return cursor{}
	}
	return cursor{terms: []curTerm{{v, 1}}}
}

type streamEvent struct {
	in       ssa.Instruction
	lo, hi   ssa.Value // nil: 0 / len(p)
	what     string
	copyDst  ssa.Value
	copySrc  ssa.Value
	ordinal  int
	consumer string
}

func c01Stream(c *Ctx) {
	const rule = "R7-stream"
	p, r := c.P, c.R
	fn := p.Func("crypto/md4", "MD4", "Write")
	if fn == nil || fn.Blocks == nil {
		r.Undecided(rule, "MD4.Write", "", "not found")
		return
	}
	name := "crypto/md4.(*MD4).Write"
	pos := p.Rel(fn.Pos())
	var in *ssa.Parameter
	for _, q := range fn.Params[1:] {
		if prove.IsByteSeq(q.Type()) {
			in = q
		}
	}
	if in == nil {
		r.Undecided(rule, name+": input parameter", pos, "no []byte parameter")
		return
	}
	w := sharedWorld(p)
	fi := w.Info(fn)

	// ---- idiom recognition: every use of p is len(p), a slice p[lo:hi] handed
	// straight to a consumer, or p itself handed to a consumer --------------
	events := map[*ssa.BasicBlock][]*streamEvent{}
	nEv := 0
	unrec := ""
	consumerOf := func(v ssa.Value, lo, hi ssa.Value) {
		refs := v.Referrers()
		if refs == nil {
			return
		}
		for _, u := range *refs {
			switch y := u.(type) {
			case *ssa.Call:
				ev := &streamEvent{in: y, lo: lo, hi: hi}
				if bi, ok := y.Call.Value.(*ssa.Builtin); ok {
					switch bi.Name() {
					case "len", "cap":
						continue
					case "copy":
						if y.Call.Args[1] != v {
							unrec = "p is the destination of a copy"
							continue
						}
						ev.consumer, ev.copyDst, ev.copySrc = "copy", y.Call.Args[0], v
					default:
						unrec = "p is an operand of " + bi.Name()
						continue
					}
				} else if f := y.Call.StaticCallee(); f != nil {
					ev.consumer = f.Name()
				} else {
					unrec = "p is passed to a dynamic call"
					continue
				}
				events[y.Block()] = append(events[y.Block()], ev)
				nEv++
			case *ssa.DebugRef:
			default:
				unrec = fmt.Sprintf("a use of p of kind %T", u)
			}
		}
	}
	if refs := in.Referrers(); refs != nil {
		for _, u := range *refs {
			switch y := u.(type) {
			case *ssa.Slice:
				if y.Max != nil {
					unrec = "three-index slice of p"
					continue
				}
				consumerOf(y, y.Low, y.High)
			case *ssa.Call:
				// len(p) or p handed over whole
				if bi, ok := y.Call.Value.(*ssa.Builtin); ok && (bi.Name() == "len" || bi.Name() == "cap") {
					continue
				}
			case *ssa.DebugRef:
				continue
			default:
				unrec = fmt.Sprintf("a use of p of kind %T", u)
			}
		}
		consumerOfWhole := false
		for _, u := range *refs {
			if y, ok := u.(*ssa.Call); ok {
				if bi, ok := y.Call.Value.(*ssa.Builtin); ok && (bi.Name() == "len" || bi.Name() == "cap") {
					continue
				}
				consumerOfWhole = true
			}
		}
		if consumerOfWhole {
			consumerOf(in, nil, nil)
		}
	}
	if unrec != "" || nEv == 0 {
		if nEv == 0 && unrec == "" {
			unrec = "no consumer of a slice of p found"
		}
		r.OK(rule, name+": input consumed contiguously", pos, "NOT DECIDED — Write is not written in the index-cursor idiom this rule decides ("+unrec+"); no claim is made about it")
		r.Note("R7-stream: MD4.Write idiom not recognised (%s): contiguity not decided", unrec)
		r.Extra["R7_decided"] = false
		return
	}
	r.Extra["R7_decided"] = true
	// order events inside blocks by instruction position
	for b, evs := range events {
		idx := map[ssa.Instruction]int{}
		for i, x := range b.Instrs {
			idx[x] = i
		}
		for i := 0; i < len(evs); i++ {
			for j := i + 1; j < len(evs); j++ {
				if idx[evs[j].in] < idx[evs[i].in] {
					evs[i], evs[j] = evs[j], evs[i]
				}
			}
		}
	}

	// ---- reverse post-order ------------------------------------------------
	var rpo []*ssa.BasicBlock
	seen := map[*ssa.BasicBlock]bool{}
	var dfs func(b *ssa.BasicBlock)
	dfs = func(b *ssa.BasicBlock) {
		seen[b] = true
		for _, s := range b.Succs {
			if !seen[s] {
				dfs(s)
			}
		}
		rpo = append(rpo, b)
	}
	dfs(fn.Blocks[0])
	for i, j := 0, len(rpo)-1; i < j; i, j = i+1, j-1 {
		rpo[i], rpo[j] = rpo[j], rpo[i]
	}

	eq := func(ctx *prove.Ctx, a, b lin.Form) bool {
		return ctx.Prove(lin.GE(a, b)) && ctx.Prove(lin.LE(a, b))
	}
	type obl struct {
		ok                 bool
		construct, at, why string
	}

	// integer constants of the function: strides for entry + K·counter
	strides := map[int64]bool{}
	for _, b := range fn.Blocks {
		for _, x := range b.Instrs {
			for _, op := range x.Operands(nil) {
				if k, ok := (*op).(*ssa.Const); ok && k.Value != nil {
					if bt, ok := k.Type().Underlying().(*types.Basic); ok && bt.Info()&types.IsInteger != 0 {
						if n, ok := constantInt64(k); ok && n > 1 && n <= 1<<20 {
							strides[n] = true
						}
					}
				}
			}
		}
	}

	var sortedStrides []int64
	for k := range strides {
		sortedStrides = append(sortedStrides, k)
	}
	sort.Slice(sortedStrides, func(i, j int) bool { return sortedStrides[i] < sortedStrides[j] })
	// attempt runs the cursor analysis with one choice of candidate per join /
	// loop head (choice[b.Index] = index into that block's candidate list).
	attempt := func(choice map[int]int, nCands map[int]int) (obls []obl, failed bool) {
		out := map[*ssa.BasicBlock]cursor{}
		dead := map[*ssa.BasicBlock]bool{} // recover blocks etc. never reached from entry
		var pendingBack []func()
		ord := 0
		fail := func(construct, at, why string) { obls = append(obls, obl{false, construct, at, why}); failed = true }
		okf := func(construct, at, why string) { obls = append(obls, obl{true, construct, at, why}) }
		for _, b := range rpo {
			if recoverBlock(fn, b) {
				dead[b] = true
				continue
			}
			// ---- cursor at entry of b ----
			var cur cursor
			switch {
			case b == fn.Blocks[0]:
				cur = cursor{}
			default:
				var fwd, back []int
				for i, pr := range b.Preds {
					if dead[pr] || !seen[pr] {
						continue
					}
					if b.Dominates(pr) {
						back = append(back, i)
					} else {
						fwd = append(fwd, i)
					}
				}
				if len(fwd) == 0 {
					dead[b] = true
					continue
				}
				allSame := true
				for _, i := range fwd[1:] {
					if !out[b.Preds[i]].same(out[b.Preds[fwd[0]]]) {
						allSame = false
					}
				}
				found := false
				if allSame && len(back) == 0 {
					cur, found = out[b.Preds[fwd[0]]], true
				}
				if !found {
					// candidates: an int φ of b whose forward edges equal the incoming cursors
					var cands []cursor
					for _, x := range b.Instrs {
						phi, ok := x.(*ssa.Phi)
						if !ok {
							break
						}
						bt, ok := phi.Type().Underlying().(*types.Basic)
						if !ok || bt.Info()&types.IsInteger == 0 {
							continue
						}
						cands = append(cands, curOf(phi))
						if allSame {
							e := out[b.Preds[fwd[0]]]
							for _, k := range sortedStrides {
								cc := cursor{terms: append(append([]curTerm{}, e.terms...), curTerm{phi, k}), lenP: e.lenP, c: e.c}
								cands = append(cands, cc)
							}
						}
					}
					if allSame {
						cands = append(cands, out[b.Preds[fwd[0]]]) // loop that does not consume
					}
					var passing []cursor
					for _, cand := range cands {
						ok := true
						for _, i := range fwd {
							ctx := fi.CtxEdge(b.Preds[i], b)
							if !eq(ctx, substPhi(cand, b, i).form(ctx, in), out[b.Preds[i]].form(ctx, in)) {
								ok = false
								break
							}
						}
						if ok {
							passing = append(passing, cand)
						}
					}
					nCands[b.Index] = len(passing)
					if len(passing) > 0 {
						k := choice[b.Index]
						if k >= len(passing) {
							k = 0
						}
						cur, found = passing[k], true
					}
					if found && len(back) > 0 {
						hb, cand, backs := b, cur, back
						pendingBack = append(pendingBack, func() {
							for _, i := range backs {
								pr := hb.Preds[i]
								construct := fmt.Sprintf("%s: loop at block %d keeps the cursor %s", name, loopOrdinal(fn, hb), cand)
								if dead[pr] {
									continue
								}
								ctx := fi.CtxEdge(pr, hb)
								if eq(ctx, substPhi(cand, hb, i).form(ctx, in), out[pr].form(ctx, in)) {
									okf(construct, loopPos(p, hb), "the cursor after the body equals the cursor expression for the next iteration")
								} else {
									fail(construct, loopPos(p, hb), fmt.Sprintf("after one iteration the bytes consumed so far are %s, which is not proved equal to the loop's cursor for the next iteration: the loop skips or re-reads input", out[pr]))
								}
							}
						})
					}
				}
				if !found {
					var ins []string
					for _, i := range fwd {
						ins = append(ins, out[b.Preds[i]].String())
					}
					fail(fmt.Sprintf("%s: cursor at the join in block %d", name, b.Index), loopPos(p, b), "the paths meeting here have consumed different amounts of p ("+strings.Join(ins, " / ")+") and no integer of the function is proved to hold that amount: a later consumer cannot start where each path stopped")
					return obls, true
				}
			}
			// ---- events of b ----
			for _, ev := range events[b] {
				ord++
				ev.ordinal = ord
				lo := "0"
				if ev.lo != nil {
					lo = ev.lo.Name()
				}
				construct := fmt.Sprintf("%s: consumer #%d %s starts at the cursor", name, ord, ev.consumer)
				ctx := fi.CtxBefore(ev.in)
				if eq(ctx, curOf(ev.lo).form(ctx, in), cur.form(ctx, in)) {
					okf(construct, p.Rel(ev.in.Pos()), fmt.Sprintf("slice starts at %s, proved equal to the bytes consumed so far (%s)", lo, cur))
				} else {
					fail(construct, p.Rel(ev.in.Pos()), fmt.Sprintf("the slice handed to %s starts at %s, which is not proved equal to the number of bytes already consumed (%s): input bytes are skipped or hashed twice for some split of the message", ev.consumer, lo, cur))
				}
				if ev.copyDst != nil {
					construct := fmt.Sprintf("%s: consumer #%d copy takes all of its source", name, ord)
					ctx := fi.CtxBefore(ev.in)
					if ctx.Prove(lin.GE(ctx.LenOf(ev.copyDst), ctx.LenOf(ev.copySrc))) {
						okf(construct, p.Rel(ev.in.Pos()), "len(dst) >= len(src) proved")
					} else {
						fail(construct, p.Rel(ev.in.Pos()), "len(dst) >= len(src) is not proved: copy moves only min(len(dst), len(src)) bytes and the rest of the slice is lost")
					}
				}
				if ev.hi == nil {
					cur = cursor{lenP: true}
				} else {
					cur = curOf(ev.hi)
				}
			}
			out[b] = cur
			// ---- returns ----
			if ret, ok := b.Instrs[len(b.Instrs)-1].(*ssa.Return); ok {
				construct := fmt.Sprintf("%s: all of p consumed at the return in block %d", name, b.Index)
				ctx := fi.CtxBefore(ret)
				if eq(ctx, cur.form(ctx, in), cursor{lenP: true}.form(ctx, in)) {
					okf(construct, p.Rel(ret.Pos()), "cursor == len(p) proved")
				} else {
					fail(construct, p.Rel(ret.Pos()), fmt.Sprintf("the function returns having consumed %s bytes, not proved equal to len(p)", cur))
				}
			}
		}
		for _, f := range pendingBack {
			f()
		}
		return obls, failed
	}
	// enumerate candidate choices (odometer); keep the first run without a failure
	choice := map[int]int{}
	nC := map[int]int{}
	first, firstFailed := attempt(choice, nC)
	best := first
	if firstFailed {
		var idxs []int
		for k, n := range nC {
			if n > 1 {
				idxs = append(idxs, k)
			}
		}
		sort.Ints(idxs)
		tries := 0
	search:
		for tries < 200 {
			// next choice vector
			i := 0
			for ; i < len(idxs); i++ {
				choice[idxs[i]]++
				if choice[idxs[i]] < nC[idxs[i]] {
					break
				}
				choice[idxs[i]] = 0
			}
			if i == len(idxs) {
				break
			}
			tries++
			nC2 := map[int]int{}
			o, f := attempt(choice, nC2)
			if os.Getenv("R7DEBUG") != "" {
				for _, x := range o {
					if !x.ok {
						fmt.Fprintf(os.Stderr, "R7DEBUG try %v: %s: %s\n", choice, x.construct, x.why)
					}
				}
			}
			if !f {
				best = o
				break search
			}
		}
	}
	for _, o := range best {
		if o.ok {
			r.OK(rule, o.construct, o.at, o.why)
		} else {
			r.Fail(rule, o.construct, o.at, o.why)
		}
	}
	r.Floor(rule, 5)
	r.Extra["R7_events"] = nEv
}

// substPhi: the value of cursor x (which may mention φs of block b) when b is
// entered through predecessor edge i.
func substPhi(x cursor, b *ssa.BasicBlock, i int) cursor {
	y := cursor{lenP: x.lenP, c: x.c}
	for _, t := range x.terms {
		if phi, ok := t.v.(*ssa.Phi); ok && phi.Block() == b {
			y.terms = append(y.terms, curTerm{phi.Edges[i], t.k})
		} else {
			y.terms = append(y.terms, t)
		}
	}
	return y
}

func recoverBlock(fn *ssa.Function, b *ssa.BasicBlock) bool {
	return fn.Recover != nil && b == fn.Recover
}
