package rules

import (
	"go/constant"
	"go/token"
	"strings"

	"golang.org/x/tools/go/ssa"

	"manticheck/internal/lin"
	"manticheck/internal/prove"
)

// Conditional axioms (E1 fact 11): the only hand-asserted facts. Each has a
// machine-checked side condition; when the side condition stops holding the
// fact is not added and the site is reported.

type axiomUse struct {
	Name, Site, Fact, SideCondition string
}

var axiomUses []axiomUse

// regexPartsPrefix: after `regexp.MatchString(R, s)` is known true, where R is
// a constant anchored regex in which every comma-separated piece starts with
// the literal "0x" once brace escapes are removed, every element of
// strings.Split(replace*(s), ",") has length >= 2. The derivation chain from s
// to the Split argument may only consist of strings.Replace calls that remove
// "{" or "}".
func axiomRegexParts(p *prove.World) func(c *prove.Ctx, in ssa.Instruction) {
	return func(c *prove.Ctx, in ssa.Instruction) {
		sl, ok := in.(*ssa.Slice)
		if !ok {
			return
		}
		ld, ok := sl.X.(*ssa.UnOp)
		if !ok || ld.Op != token.MUL {
			return
		}
		ia, ok := ld.X.(*ssa.IndexAddr)
		if !ok {
			return
		}
		split, ok := ia.X.(*ssa.Call)
		if !ok || prove.StaticName(split.Common()) != "strings.Split" {
			return
		}
		sep, ok := split.Common().Args[1].(*ssa.Const)
		if !ok || sep.Value == nil || sep.Value.Kind() != constant.String || constant.StringVal(sep.Value) != "," {
			return
		}
		// walk back through brace-removing Replace calls
		src := split.Common().Args[0]
		for {
			call, ok := src.(*ssa.Call)
			if !ok {
				break
			}
			n := prove.StaticName(call.Common())
			if n != "strings.Replace" && n != "strings.ReplaceAll" {
				break
			}
			a := call.Common().Args
			old, ok1 := a[1].(*ssa.Const)
			nw, ok2 := a[2].(*ssa.Const)
			if !ok1 || !ok2 || old.Value == nil || nw.Value == nil {
				return
			}
			o := constant.StringVal(old.Value)
			if (o != "{" && o != "}") || constant.StringVal(nw.Value) != "" {
				return
			}
			src = a[0]
		}
		// a dominating successful regexp.MatchString(R, src)
		found := false
		for _, b := range in.Parent().Blocks {
			for _, x := range b.Instrs {
				call, ok := x.(*ssa.Call)
				if !ok {
					continue
				}
				switch prove.StaticName(call.Common()) {
				case "regexp.MatchString":
					if call.Common().Args[1] != src {
						continue
					}
					rk, ok := call.Common().Args[0].(*ssa.Const)
					if !ok || rk.Value == nil || rk.Value.Kind() != constant.String {
						continue
					}
					if !everyPieceHasPrefix(constant.StringVal(rk.Value), "0x") {
						continue
					}
					for _, r := range *call.Referrers() {
						if ex, ok := r.(*ssa.Extract); ok && ex.Index == 0 {
							if t, known := c.BoolKnown(ex); known && t {
								found = true
							}
						}
					}
				case "(*regexp.Regexp).MatchString":
					// the same test through a pattern compiled once (package-level variable or local)
					if call.Common().Args[1] != src {
						continue
					}
					pat, ok := p.RegexpPattern(call.Common().Args[0])
					if !ok || !everyPieceHasPrefix(pat, "0x") {
						continue
					}
					if t, known := c.BoolKnown(call); known && t {
						found = true
					}
				}
			}
		}
		if !found {
			return
		}
		c.AddFact(lin.GE(c.LenOf(ld), lin.K(2)))
		axiomUses = append(axiomUses, axiomUse{"regex-parts-prefix", p.P.Rel(in.Pos()),
			"len(parts[k]) >= 2", "dominating true branch of regexp.MatchString(R, s) on the value that is split; every comma-separated piece of the anchored constant R starts with the literal 0x; only brace-removing Replace calls in between"})
	}
}

func everyPieceHasPrefix(re, prefix string) bool {
	if !strings.HasPrefix(re, "^") || !strings.HasSuffix(re, "$") {
		return false
	}
	re = strings.TrimSuffix(strings.TrimPrefix(re, "^"), "$")
	re = strings.ReplaceAll(re, `\{`, "")
	re = strings.ReplaceAll(re, `\}`, "")
	for _, piece := range strings.Split(re, ",") {
		if !strings.HasPrefix(piece, prefix) {
			return false
		}
		// the remainder must not be able to match the separator or be optional as a whole
		rest := piece[len(prefix):]
		if strings.ContainsAny(rest, "|?*,") {
			return false
		}
	}
	return true
}
