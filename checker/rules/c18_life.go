package rules

// C18 R4 — stop protocol structure of the serve loops.
//
// A serve loop is a loop that blocks in Read*/Accept* (directly or in a helper,
// two levels) and is either `for { … }` or `for [!]f(…) { … }` with f a module
// function (serveKind). Its stop test may be an in-loop select on a receiver
// channel field, a quit helper (non-blocking select returning a constant bool,
// on the receiver's field or on a channel parameter; one or two wrappers; a
// channel accessor) tested by an `if` or by the loop condition. When nothing
// wrong is observed but the exit of the loop is decided by code the rule does not
// read (unreadExitTests: atomic flag, context, an unknown bool helper, a blocking
// helper that makes its own stop test and reports it through its result), the
// loop and the obligations that depend on its quit channel are NOT DECIDED.
// Floors are keyed on the lifecycle types (lifecycleTypes / r4Coverage), R4-once
// on the types that carry a sync.Once, independent of how the loops are written.

import (
	"fmt"
	"go/ast"
	"go/constant"
	"go/token"
	"go/types"
	"sort"
	"strings"

	"golang.org/x/tools/go/ssa"

	effects "manticheck/internal/srvfx"
)

type c18Blocking struct {
	in   ssa.CallInstruction // the call in the loop: the blocking call itself, or the call of the helper that blocks
	conn effects.FPath
	name string
	// the blocking call sits in a helper that sets a read deadline on the same connection before it
	deadlineInHelper bool
}

// c18HelperBlock: a blocking call inside a helper, with its connection in the helper's terms.
type c18HelperBlock struct {
	conn     effects.FPath
	name     string
	deadline bool
}

func c18IsDeadlineCall(c *ssa.CallCommon) bool {
	obj := effects.CalleeObj(c)
	return obj != nil && obj.Pkg() != nil && obj.Pkg().Path() == "net" && (obj.Name() == "SetReadDeadline" || obj.Name() == "SetDeadline")
}

// translatePath re-roots a path expressed in callee g's terms (receiver / parameter of g)
// at the arguments of the call c.
func (k *c18) translatePath(p effects.FPath, g *ssa.Function, c *ssa.CallCommon) effects.FPath {
	if !p.OK || p.Global != nil || p.Fresh != nil {
		return p
	}
	if p.Fn != g {
		return effects.FPath{}
	}
	idx := p.Param
	if p.RecvType != nil {
		idx = 0
	}
	args := effects.AllArgs(c)
	if idx < 0 || idx >= len(args) {
		return effects.FPath{}
	}
	base := k.pg.PathOf(args[idx])
	if !base.OK {
		return base
	}
	base.Fields = append(append([]*types.Var{}, base.Fields...), p.Fields...)
	return base
}

// blockingInside lists the blocking Read*/Accept* calls a helper performs (in its own body
// and, two levels deep, in the module functions it calls synchronously). A function whose
// blocking call sits in an unbounded loop of its own is a serve loop itself, not a helper.
func (k *c18) blockingInside(g *ssa.Function, depth int) []c18HelperBlock {
	if g == nil || g.Blocks == nil || depth > 2 {
		return nil
	}
	loops := effects.Loops(g)
	var out []c18HelperBlock
	for _, b := range g.Blocks {
		for _, in := range b.Instrs {
			call, ok := in.(*ssa.Call)
			if !ok {
				continue
			}
			if conn, name, ok := effects.BlockingCall(&call.Call); ok {
				for _, l := range loops {
					if l.Blocks[b] && k.serveKind(g, l) != "" {
						return nil
					}
				}
				pth := k.pg.PathOf(conn)
				hb := c18HelperBlock{conn: pth, name: name}
				for _, b2 := range g.Blocks {
					for _, in2 := range b2.Instrs {
						ci, ok := in2.(ssa.CallInstruction)
						if !ok || !c18IsDeadlineCall(ci.Common()) {
							continue
						}
						if a := effects.AllArgs(ci.Common()); len(a) > 0 && k.pg.PathOf(a[0]).Same(pth) && effects.Precedes(in2, in) {
							hb.deadline = true
						}
					}
				}
				out = append(out, hb)
				continue
			}
			if h := call.Call.StaticCallee(); h != nil && h != g && h.Blocks != nil && k.p.InModule(h) {
				for _, hb := range k.blockingInside(h, depth+1) {
					hb.conn = k.translatePath(hb.conn, h, &call.Call)
					hb.name = h.Name() + "→" + hb.name
					if !hb.deadline && hb.conn.OK {
						// a deadline set in g before calling h covers the call
						for _, b2 := range g.Blocks {
							for _, in2 := range b2.Instrs {
								ci, ok := in2.(ssa.CallInstruction)
								if !ok || !c18IsDeadlineCall(ci.Common()) {
									continue
								}
								if a := effects.AllArgs(ci.Common()); len(a) > 0 && k.pg.PathOf(a[0]).Same(hb.conn) && effects.Precedes(in2, in) {
									hb.deadline = true
								}
							}
						}
					}
					out = append(out, hb)
				}
			}
		}
	}
	return out
}

type c18ServeLoop struct {
	fn       *ssa.Function
	loop     *effects.Loop
	blocking []c18Blocking
	recvT    *types.Named
	quit     effects.FPath // decided by R4-quit-test
	quitOK   bool
	kind     string // unbounded | conditional
	// notDecided: the loop's stop test runs through code the rule does not read (rule 4
	// of the hardening policy: reported as NOT DECIDED, never as a violation)
	notDecided  string
	unreadChans []string
}

// loopStmt returns the smallest for/range statement of fn's syntax that encloses
// every positioned instruction of the loop.
func (k *c18) loopStmt(fn *ssa.Function, l *effects.Loop) ast.Node {
	syn := fn.Syntax()
	if syn == nil {
		return nil
	}
	lo, hi := token.Pos(0), token.Pos(0)
	for b := range l.Blocks {
		for _, in := range b.Instrs {
			if _, isPhi := in.(*ssa.Phi); isPhi {
				continue // a φ carries the position of the variable's declaration, outside the loop
			}
			if p := in.Pos(); p.IsValid() {
				if lo == 0 || p < lo {
					lo = p
				}
				if p > hi {
					hi = p
				}
			}
		}
	}
	if lo == 0 {
		return nil
	}
	var best ast.Node
	ast.Inspect(syn, func(n ast.Node) bool {
		if n == nil {
			return false
		}
		if fl, ok := n.(*ast.FuncLit); ok && ast.Node(fl) != syn {
			return false
		}
		switch n.(type) {
		case *ast.ForStmt, *ast.RangeStmt:
			if n.Pos() <= lo && hi <= n.End() {
				if best == nil || (n.End()-n.Pos()) < (best.End()-best.Pos()) {
					best = n
				}
			}
		}
		return true
	})
	return best
}

// unboundedFor reports whether the loop is a `for` without condition.
func (k *c18) unboundedFor(fn *ssa.Function, l *effects.Loop) bool {
	return k.serveKind(fn, l) == "unbounded"
}

// serveKind classifies a loop as a candidate serve loop:
//
//	"unbounded"    for { … }
//	"conditional"  for [!]f(…) { … }   — the condition is (the negation of) one call of a
//	               module function: the shape of `for !s.stopping() { … }`; whether f really
//	               is a quit test is decided by R4-quit-test
//	""             anything else (counted / range loops, conditions on data): bounded work
func (k *c18) serveKind(fn *ssa.Function, l *effects.Loop) string {
	fs, ok := k.loopStmt(fn, l).(*ast.ForStmt)
	if !ok {
		return ""
	}
	if fs.Cond == nil {
		return "unbounded"
	}
	if k.loopCondCall(l) != nil {
		return "conditional"
	}
	return ""
}

// loopCondCall: the loop header ends in `if [!]call(…)` with one edge leaving the loop and
// the callee is a function of the module; returns the call.
func (k *c18) loopCondCall(l *effects.Loop) *ssa.Call {
	h := l.Header
	if len(h.Instrs) == 0 {
		return nil
	}
	ifi, ok := h.Instrs[len(h.Instrs)-1].(*ssa.If)
	if !ok || len(h.Succs) != 2 || (l.Blocks[h.Succs[0]] == l.Blocks[h.Succs[1]]) {
		return nil
	}
	cond := ifi.Cond
	if u, ok := cond.(*ssa.UnOp); ok && u.Op == token.NOT {
		cond = u.X
	}
	call, ok := cond.(*ssa.Call)
	if !ok {
		return nil
	}
	for _, g := range k.pg.Callees(&call.Call) {
		if g.Blocks != nil && k.p.InModule(g) {
			return call
		}
	}
	return nil
}

func (k *c18) serveLoops() []*c18ServeLoop {
	var out []*c18ServeLoop
	for _, fn := range k.fns {
		loops := effects.Loops(fn)
		if len(loops) == 0 {
			continue
		}
		byLoop := map[*effects.Loop]*c18ServeLoop{}
		for _, b := range fn.Blocks {
			for _, in := range b.Instrs {
				ci, ok := in.(ssa.CallInstruction)
				if !ok {
					continue
				}
				var found []c18Blocking
				if conn, name, ok := effects.BlockingCall(ci.Common()); ok {
					found = append(found, c18Blocking{in: ci, conn: k.pg.PathOf(conn), name: name})
				} else if call, isCall := in.(*ssa.Call); isCall {
					// the read may have been moved into a helper (readPacket(buf), readMessage(conn))
					if h := call.Call.StaticCallee(); h != nil && h.Blocks != nil && k.p.InModule(h) {
						for _, hb := range k.blockingInside(h, 0) {
							found = append(found, c18Blocking{in: ci, conn: k.translatePath(hb.conn, h, &call.Call), name: h.Name() + "→" + hb.name, deadlineInHelper: hb.deadline})
						}
					}
				}
				if len(found) == 0 {
					continue
				}
				// outermost unbounded (or stop-conditioned) loop containing the call
				var L *effects.Loop
				kind := ""
				for _, l := range loops {
					if !l.Blocks[b] {
						continue
					}
					if sk := k.serveKind(fn, l); sk != "" && (L == nil || len(l.Blocks) > len(L.Blocks)) {
						L, kind = l, sk
					}
				}
				if L == nil {
					continue
				}
				sl := byLoop[L]
				if sl == nil {
					sl = &c18ServeLoop{fn: fn, loop: L, kind: kind}
					if fn.Signature.Recv() != nil {
						sl.recvT, _ = deref2(fn.Signature.Recv().Type()).(*types.Named)
					}
					byLoop[L] = sl
					out = append(out, sl)
				}
				sl.blocking = append(sl.blocking, found...)
			}
		}
	}
	return out
}

// quitHelper recognises a loop-free, non-blocking method whose only job is
// `select { case <-recv.q: return B; default: }; return !B`.
func (k *c18) quitHelper(g *ssa.Function) (effects.FPath, bool, bool) {
	return k.quitHelperD(g, 0)
}

// quitHelperD also reads one or two levels of wrapping: `func (s *S) stopping() bool {
// return isDone(s.quit) }` / `return !s.running()`. The path is in g's terms (receiver
// field, or a channel parameter of g); callers re-root it at the call site.
func (k *c18) quitHelperD(g *ssa.Function, depth int) (effects.FPath, bool, bool) {
	if g.Blocks == nil || len(effects.Loops(g)) > 0 || g.Signature.Results().Len() != 1 {
		return effects.FPath{}, false, false
	}
	if len(g.Blocks) == 1 && depth < 2 {
		// wrapper: a single block that returns the (negated) result of one module call
		var call *ssa.Call
		simple := true
		for _, in := range g.Blocks[0].Instrs {
			switch x := in.(type) {
			case *ssa.Call:
				if call != nil {
					simple = false
				}
				call = x
			case *ssa.FieldAddr, *ssa.UnOp, *ssa.Return, *ssa.DebugRef:
			default:
				simple = false
			}
		}
		if simple && call != nil {
			if ret, ok := g.Blocks[0].Instrs[len(g.Blocks[0].Instrs)-1].(*ssa.Return); ok && len(ret.Results) == 1 {
				v, neg := ret.Results[0], false
				if u, ok := v.(*ssa.UnOp); ok && u.Op == token.NOT {
					v, neg = u.X, true
				}
				if v == ssa.Value(call) {
					if h := call.Call.StaticCallee(); h != nil && h != g && k.p.InModule(h) {
						if pth, whenClosed, ok := k.quitHelperD(h, depth+1); ok {
							if tp := k.translatePath(pth, h, &call.Call); tp.OK {
								return tp, whenClosed != neg, true
							}
						}
					}
				}
			}
		}
	}
	var sel *ssa.Select
	for _, b := range g.Blocks {
		for _, in := range b.Instrs {
			switch x := in.(type) {
			case *ssa.Select:
				if sel != nil || x.Blocking {
					return effects.FPath{}, false, false
				}
				sel = x
			case ssa.CallInstruction:
				if _, _, blk := effects.BlockingCall(x.Common()); blk {
					return effects.FPath{}, false, false
				}
			}
		}
	}
	if sel == nil {
		return effects.FPath{}, false, false
	}
	for idx, st := range sel.States {
		if st.Dir != types.RecvOnly {
			continue
		}
		pth := k.pg.PathOf(st.Chan)
		if !pth.OK || pth.Global != nil || pth.Fresh != nil {
			continue
		}
		if !(pth.RecvType != nil && len(pth.Fields) == 1) && !(pth.RecvType == nil && pth.Fn == g) {
			continue
		}
		for _, fb := range g.Blocks {
			if len(fb.Instrs) == 0 {
				continue
			}
			ifi, ok := fb.Instrs[len(fb.Instrs)-1].(*ssa.If)
			if !ok {
				continue
			}
			bo, ok := ifi.Cond.(*ssa.BinOp)
			if !ok || bo.Op != token.EQL {
				continue
			}
			ex, ok := bo.X.(*ssa.Extract)
			cst, ok2 := bo.Y.(*ssa.Const)
			if !ok || !ok2 || ex.Tuple != ssa.Value(sel) || ex.Index != 0 || cst.Value == nil {
				continue
			}
			if v, exact := constant.Int64Val(cst.Value); !exact || int(v) != idx {
				continue
			}
			tb := fb.Succs[0]
			if len(tb.Instrs) == 0 {
				continue
			}
			ret, ok := tb.Instrs[len(tb.Instrs)-1].(*ssa.Return)
			if !ok || len(ret.Results) != 1 {
				continue
			}
			c, ok := ret.Results[0].(*ssa.Const)
			if !ok || c.Value == nil || c.Value.Kind() != constant.Bool {
				continue
			}
			return pth, constant.BoolVal(c.Value), true
		}
	}
	return effects.FPath{}, false, false
}

// chanPath resolves the channel a select receives from. A channel handed out by a one-line
// accessor of the module (`func (s *S) done() <-chan struct{} { return s.quit }`) is the
// field it returns; a channel produced by any other call (ctx.Done(), a function value) is
// not read by this rule: unread names it.
func (k *c18) chanPath(ch ssa.Value) (pth effects.FPath, unread string) {
	pth = k.pg.PathOf(ch)
	call, isCall := c18Strip(ch).(*ssa.Call)
	if !isCall {
		if ut, ok := ch.(*ssa.UnOp); ok {
			call, isCall = c18Strip(ut.X).(*ssa.Call)
		}
	}
	if !isCall {
		return pth, ""
	}
	if h := call.Call.StaticCallee(); h != nil && h.Blocks != nil && k.p.InModule(h) {
		var rets []ssa.Value
		for _, b := range h.Blocks {
			for _, in := range b.Instrs {
				if r, ok := in.(*ssa.Return); ok && len(r.Results) == 1 {
					rets = append(rets, r.Results[0])
				}
			}
		}
		if len(rets) == 1 {
			hp := k.pg.PathOf(c18Strip(rets[0]))
			if hp.OK && hp.Global == nil && hp.Fresh == nil {
				if tp := k.translatePath(hp, h, &call.Call); tp.OK {
					return tp, ""
				}
			}
		}
	}
	return effects.FPath{}, "the channel returned by " + effects.CalleeName(&call.Call)
}

// unreadExitTests lists the calls whose result decides an exit of the loop and that the
// rule cannot read as a quit test: module functions that are not quit helpers, methods of
// sync/atomic values and of context.Context, function values; and channels obtained from
// calls in a select of the loop. Exits on the error of the blocking call itself are not
// stop tests and are not listed.
func (k *c18) unreadExitTests(sl *c18ServeLoop) []string {
	out := append([]string{}, sl.unreadChans...)
	var calls func(v ssa.Value, d int, acc *[]*ssa.Call)
	calls = func(v ssa.Value, d int, acc *[]*ssa.Call) {
		if v == nil || d > 4 {
			return
		}
		switch x := v.(type) {
		case *ssa.Call:
			*acc = append(*acc, x)
		case *ssa.UnOp:
			calls(x.X, d+1, acc)
		case *ssa.BinOp:
			calls(x.X, d+1, acc)
			calls(x.Y, d+1, acc)
		case *ssa.Extract:
			calls(x.Tuple, d+1, acc)
		case *ssa.Phi:
			for _, e := range x.Edges {
				calls(e, d+1, acc)
			}
		case *ssa.ChangeInterface:
			calls(x.X, d+1, acc)
		case *ssa.MakeInterface:
			calls(x.X, d+1, acc)
		}
	}
	for b := range sl.loop.Blocks {
		if len(b.Instrs) == 0 || len(b.Succs) != 2 {
			continue
		}
		ifi, ok := b.Instrs[len(b.Instrs)-1].(*ssa.If)
		if !ok {
			continue
		}
		// an exit: one successor outside the loop, or a block that only returns
		leaves := false
		for _, sc := range b.Succs {
			if !sl.loop.Blocks[sc] {
				leaves = true
			}
		}
		if !leaves {
			continue
		}
		var cs []*ssa.Call
		calls(ifi.Cond, 0, &cs)
		for _, c := range cs {
			if _, _, blocking := effects.BlockingCall(&c.Call); blocking {
				continue
			}
			isBlockingHelper := false
			for _, bc := range sl.blocking {
				if ssa.Instruction(c) == ssa.Instruction(bc.in) {
					isBlockingHelper = true
				}
			}
			if isBlockingHelper {
				// serveOne(conn) that tests the quit channel itself and reports it through
				// its result (a sentinel error): the helper's own stop test decides the exit
				if g := c.Call.StaticCallee(); g != nil && k.hasStopTest(g, 0) {
					out = append(out, g.Name()+"() (the helper that blocks also makes a stop test of its own and reports it through its result)")
				}
				continue
			}
			switch {
			case c.Call.IsInvoke():
				if t := types.TypeString(c.Call.Value.Type(), nil); t == "context.Context" {
					out = append(out, "context.Context."+c.Call.Method.Name())
				}
			case c.Call.StaticCallee() == nil:
				if _, isB := c.Call.Value.(*ssa.Builtin); !isB {
					out = append(out, "a function value")
				}
			default:
				g := c.Call.StaticCallee()
				if g.Blocks != nil && k.p.InModule(g) {
					if rt := g.Signature.Results(); rt.Len() == 1 {
						if bt, ok := rt.At(0).Type().Underlying().(*types.Basic); ok && bt.Kind() == types.Bool {
							if _, _, isQuit := k.quitHelper(g); !isQuit {
								out = append(out, g.Name()+"()")
							}
						}
					}
				} else if o := effects.CalleeObj(&c.Call); o != nil && o.Pkg() != nil && o.Pkg().Path() == "sync/atomic" {
					out = append(out, "sync/atomic "+o.Name())
				}
			}
		}
	}
	sort.Strings(out)
	return uniqStrings(out)
}

// hasStopTest: g (or a module function it calls synchronously, two levels) contains a select
// that receives from a channel, or calls a quit helper.
func (k *c18) hasStopTest(g *ssa.Function, depth int) bool {
	if g == nil || g.Blocks == nil || depth > 2 {
		return false
	}
	for _, b := range g.Blocks {
		for _, in := range b.Instrs {
			switch x := in.(type) {
			case *ssa.Select:
				for _, st := range x.States {
					if st.Dir == types.RecvOnly {
						return true
					}
				}
			case *ssa.Call:
				h := x.Call.StaticCallee()
				if h == nil || h == g || h.Blocks == nil || !k.p.InModule(h) {
					continue
				}
				if _, _, isQuit := k.quitHelper(h); isQuit || k.hasStopTest(h, depth+1) {
					return true
				}
			}
		}
	}
	return false
}

// methodsOf returns the source functions (methods and the closures inside
// them) of the named type.
func (k *c18) methodsOf(nt *types.Named) []*ssa.Function {
	var out []*ssa.Function
	for _, fn := range k.fns {
		root := fn
		for root.Parent() != nil {
			root = root.Parent()
		}
		if root.Signature.Recv() == nil {
			continue
		}
		if t, ok := deref2(root.Signature.Recv().Type()).(*types.Named); ok && t.Obj() == nt.Obj() {
			out = append(out, fn)
		}
	}
	return out
}

func c18IsSyncMethod(c *ssa.CallCommon, typ, name string) bool {
	obj := effects.CalleeObj(c)
	if obj == nil || obj.Pkg() == nil || obj.Pkg().Path() != "sync" || obj.Name() != name {
		return false
	}
	sig, _ := obj.Type().(*types.Signature)
	if sig == nil || sig.Recv() == nil {
		return false
	}
	return strings.HasSuffix(types.TypeString(sig.Recv().Type(), nil), "sync."+typ)
}

func (k *c18) r4() {
	loops := k.serveLoops()
	k.r.Extra["R4_serve_loops"] = len(loops)
	sort.Slice(loops, func(i, j int) bool { return loops[i].fn.String() < loops[j].fn.String() })

	// ---- R4-quit-test
	for _, sl := range loops {
		sl := sl
		construct := k.fname(sl.fn) + ": serve loop tests a quit channel on every iteration"
		pos := k.pos(sl.blocking[0].in)
		k.c.guard("R4-quit-test", construct, pos, func() {
			var why []string
			for b := range sl.loop.Blocks {
				for _, in := range b.Instrs {
					sel, ok := in.(*ssa.Select)
					if !ok {
						continue
					}
					for idx, st := range sel.States {
						if st.Dir != types.RecvOnly {
							continue
						}
						pth, unread := k.chanPath(st.Chan)
						if unread != "" {
							sl.unreadChans = append(sl.unreadChans, unread)
							continue
						}
						if !pth.OK || pth.RecvType == nil || len(pth.Fields) != 1 {
							why = append(why, "select receives from a channel that is not a field of the receiver")
							continue
						}
						// the case must leave the loop
						leaves := false
						for _, fb := range sl.fn.Blocks {
							if len(fb.Instrs) == 0 {
								continue
							}
							ifi, ok := fb.Instrs[len(fb.Instrs)-1].(*ssa.If)
							if !ok {
								continue
							}
							bo, ok := ifi.Cond.(*ssa.BinOp)
							if !ok || bo.Op != token.EQL {
								continue
							}
							ex, ok := bo.X.(*ssa.Extract)
							cst, ok2 := bo.Y.(*ssa.Const)
							if !ok || !ok2 || ex.Tuple != ssa.Value(sel) || ex.Index != 0 || cst.Value == nil {
								continue
							}
							if v, exact := constant.Int64Val(cst.Value); exact && int(v) == idx {
								if !sl.loop.Blocks[fb.Succs[0]] {
									leaves = true
								}
							}
						}
						if !leaves {
							why = append(why, "the case receiving from "+pth.String()+" does not leave the loop")
							continue
						}
						// every cycle through a blocking call passes the select
						cut := map[*ssa.BasicBlock]bool{b: true}
						every := true
						for _, bc := range sl.blocking {
							if sl.loop.InCycleWithout(bc.in.Block(), cut) {
								every = false
								why = append(why, "an iteration can reach "+bc.name+" again without passing the select on "+pth.String())
							}
						}
						if every && !sl.quitOK {
							sl.quit, sl.quitOK = pth, true
						}
					}
				}
			}
			// the test may live in a helper: `if s.stopped() { return }`
			if !sl.quitOK {
				for b := range sl.loop.Blocks {
					if len(b.Instrs) == 0 {
						continue
					}
					ifi, ok := b.Instrs[len(b.Instrs)-1].(*ssa.If)
					if !ok {
						continue
					}
					cond, flip := ifi.Cond, false
					if u, ok := cond.(*ssa.UnOp); ok && u.Op == token.NOT {
						cond, flip = u.X, true
					}
					call, ok := cond.(*ssa.Call)
					if !ok {
						continue
					}
					for _, g := range k.pg.Callees(&call.Call) {
						pth, whenClosed, ok := k.quitHelper(g)
						if !ok {
							continue
						}
						pth = k.translatePath(pth, g, &call.Call)
						if !pth.OK || pth.RecvType == nil || len(pth.Fields) != 1 {
							why = append(why, g.Name()+" tests a channel that is not a field of the receiver")
							continue
						}
						leave := 1
						if whenClosed != flip {
							leave = 0
						}
						if sl.loop.Blocks[ifi.Block().Succs[leave]] {
							why = append(why, "the result of "+g.Name()+" (tests "+pth.String()+") does not make the loop exit")
							continue
						}
						cut := map[*ssa.BasicBlock]bool{b: true}
						every := true
						for _, bc := range sl.blocking {
							if sl.loop.InCycleWithout(bc.in.Block(), cut) {
								every = false
								why = append(why, "an iteration can reach "+bc.name+" again without passing the test of "+pth.String())
							}
						}
						if every && !sl.quitOK {
							sl.quit, sl.quitOK = pth, true
						}
					}
				}
			}
			if sl.quitOK {
				k.r.OK("R4-quit-test", construct, pos, "every cycle through the blocking call(s) passes `select { case <-"+sl.quit.String()+": (leave loop) }`")
				return
			}
			if len(why) == 0 {
				// Nothing wrong was observed; was the whole loop read? An exit of the loop that
				// is taken on the result of a module call the rule could not read as a quit test
				// (for !s.done() { … } with done() built on an atomic flag, a context, a helper
				// chain deeper than two levels, a function value) is an incomplete extraction.
				if un := k.unreadExitTests(sl); len(un) > 0 {
					sl.notDecided = "the loop leaves on the result of " + strings.Join(un, ", ") + ", which is not a non-blocking receive from a quit channel field that this rule can read"
					k.r.OK("R4-quit-test", construct, pos, "NOT DECIDED — "+sl.notDecided)
					k.r.Note("C18 R4-quit-test: %s NOT DECIDED — %s", k.fname(sl.fn), sl.notDecided)
					return
				}
				why = append(why, "no select receiving from a receiver-field channel inside the loop")
			}
			k.r.Fail("R4-quit-test", construct, pos, "the loop cannot observe a stop request: "+strings.Join(uniqStrings(why), "; "))
		})
	}

	// ---- closers: functions that close(recv.<quit field>)
	type closer struct {
		fn   *ssa.Function
		call ssa.CallInstruction
	}
	closersOf := func(q effects.FPath) []closer {
		var out []closer
		for _, fn := range k.methodsOf(q.RecvType) {
			for _, b := range fn.Blocks {
				for _, in := range b.Instrs {
					ci, ok := in.(ssa.CallInstruction)
					if !ok {
						continue
					}
					if bi, ok := ci.Common().Value.(*ssa.Builtin); ok && bi.Name() == "close" && len(ci.Common().Args) == 1 {
						if k.pg.PathOf(ci.Common().Args[0]).Same(q) {
							out = append(out, closer{fn, ci})
						}
					}
				}
			}
		}
		return out
	}
	// calls reachable in the stop function (its closures and the outer method)
	stopScope := func(c closer) []*ssa.Function {
		root := c.fn
		for root.Parent() != nil {
			root = root.Parent()
		}
		var out []*ssa.Function
		for _, fn := range k.fns {
			r := fn
			for r.Parent() != nil {
				r = r.Parent()
			}
			if r == root {
				out = append(out, fn)
			}
		}
		return out
	}

	nStop := 0
	for _, sl := range loops {
		sl := sl
		if !sl.quitOK {
			if sl.notDecided != "" {
				// the entity exists; the rules that depend on knowing its quit channel make no claim
				for _, rl := range []string{"R4-stop-closes-quit", "R4-quit-created", "R4-unblock"} {
					k.r.OK(rl, k.fname(sl.fn)+": serve loop whose stop test was not read", k.p.Rel(sl.fn.Pos()), "NOT DECIDED — depends on the quit channel of the loop, which R4-quit-test could not determine ("+sl.notDecided+")")
				}
			}
			continue
		}
		cl := closersOf(sl.quit)
		construct := k.fname(sl.fn) + ": some method closes " + sl.quit.String()
		nStop++
		if len(cl) == 0 {
			k.r.Fail("R4-stop-closes-quit", construct, k.p.Rel(sl.fn.Pos()), "no method of "+sl.quit.RecvType.Obj().Name()+" closes the channel field "+sl.quit.String()+" that the loop in "+sl.fn.Name()+" selects on: stopping never makes the loop exit")
		} else {
			var ns []string
			for _, c := range cl {
				ns = append(ns, k.fname(c.fn))
			}
			k.r.OK("R4-stop-closes-quit", construct, k.pos(cl[0].call), "closed by "+strings.Join(uniqStrings(ns), ", "))
		}
		// the channel is created
		made := false
		for _, fn := range k.fns {
			for _, b := range fn.Blocks {
				for _, in := range b.Instrs {
					st, ok := in.(*ssa.Store)
					if !ok {
						continue
					}
					if _, isMk := c18Strip(st.Val).(*ssa.MakeChan); !isMk {
						continue
					}
					fa, ok := st.Addr.(*ssa.FieldAddr)
					if !ok {
						continue
					}
					if f := c18StructField(fa.X.Type(), fa.Field); f != nil && len(sl.quit.Fields) == 1 && f == sl.quit.Fields[0] {
						made = true
					}
				}
			}
		}
		c2 := k.fname(sl.fn) + ": " + sl.quit.String() + " is created by a constructor"
		if made {
			k.r.OK("R4-quit-created", c2, "", "a make(chan) is stored into the field")
		} else {
			k.r.Fail("R4-quit-created", c2, "", "no function stores a make(chan …) into "+sl.quit.String()+": receiving from a nil channel never fires and close(nil) panics")
		}

		// ---- blocking calls are released: deadline in the iteration, or the closer closes the same conn
		for _, bc := range sl.blocking {
			bc := bc
			c3 := fmt.Sprintf("%s: blocked %s on %s is released on stop", k.fname(sl.fn), bc.name, bc.conn.String())
			k.c.guard("R4-unblock", c3, k.pos(bc.in), func() {
				if !bc.conn.OK {
					k.r.Undecided("R4-unblock", c3, k.pos(bc.in), "the connection operand could not be resolved to a field or parameter")
					return
				}
				if bc.deadlineInHelper {
					k.r.OK("R4-unblock", c3, k.pos(bc.in), "the helper sets a Set(Read)Deadline on the same connection before the blocking call, so the loop returns to its quit test")
					return
				}
				// deadline before the call, inside the loop
				for b := range sl.loop.Blocks {
					for _, in := range b.Instrs {
						ci, ok := in.(ssa.CallInstruction)
						if !ok {
							continue
						}
						obj := effects.CalleeObj(ci.Common())
						if obj == nil || obj.Pkg() == nil || obj.Pkg().Path() != "net" {
							continue
						}
						if obj.Name() != "SetReadDeadline" && obj.Name() != "SetDeadline" {
							continue
						}
						args := effects.AllArgs(ci.Common())
						if len(args) == 0 || !k.pg.PathOf(args[0]).Same(bc.conn) {
							continue
						}
						if ssa.Instruction(in) != ssa.Instruction(bc.in) && effects.Precedes(in, bc.in) {
							k.r.OK("R4-unblock", c3, k.pos(bc.in), obj.Name()+" on the same connection precedes the call in every iteration, so the loop returns to its quit test")
							return
						}
					}
				}
				// otherwise a closer must close the same object
				for _, c := range cl {
					for _, fn := range stopScope(c) {
						for _, b := range fn.Blocks {
							for _, in := range b.Instrs {
								ci, ok := in.(ssa.CallInstruction)
								if !ok {
									continue
								}
								obj := effects.CalleeObj(ci.Common())
								if obj == nil || obj.Name() != "Close" {
									continue
								}
								args := effects.AllArgs(ci.Common())
								if len(args) > 0 && k.pg.PathOf(args[0]).Same(bc.conn) {
									k.r.OK("R4-unblock", c3, k.pos(bc.in), "no deadline, but "+k.fname(c.fn)+" closes "+bc.conn.String()+", which makes the blocked call return")
									return
								}
							}
						}
					}
				}
				k.r.Fail("R4-unblock", c3, k.pos(bc.in), "neither a Set(Read)Deadline on "+bc.conn.String()+" precedes the call in the iteration nor does the function that closes "+sl.quit.String()+" close "+bc.conn.String()+": the goroutine stays blocked after stop")
			})
		}
	}
	// Floors are keyed on the lifecycle TYPES (structs of the two packages one of whose
	// methods closes a channel field of the receiver: nbtns.Server, UDPServer, TCPServer,
	// llmnr.Server, llmnr.Client), not on the number of loops the code happens to be written
	// with: two servers sharing one serve function, or a per-connection loop folded into a
	// helper, keep every type covered (R4-serve-loop below) while the count of loops drops.
	lts := k.lifecycleTypes()
	nLT := len(lts)
	if nLT < 5 {
		nLT = 5
	}
	k.r.Floor("R4-quit-test", nLT)
	k.r.Floor("R4-stop-closes-quit", nLT)
	k.r.Floor("R4-unblock", nLT)
	k.r4Coverage(lts, loops)

	// ---- R4-wg: goroutines the stop function waits for
	type tinfo struct {
		nt   *types.Named
		wait effects.FPath
		has  bool
	}
	tinfos := map[*types.TypeName]*tinfo{}
	for _, sl := range loops {
		if sl.recvT == nil || tinfos[sl.recvT.Obj()] != nil {
			continue
		}
		ti := &tinfo{nt: sl.recvT}
		tinfos[sl.recvT.Obj()] = ti
		for _, fn := range k.methodsOf(sl.recvT) {
			for _, b := range fn.Blocks {
				for _, in := range b.Instrs {
					if ci, ok := in.(ssa.CallInstruction); ok && c18IsSyncMethod(ci.Common(), "WaitGroup", "Wait") {
						p := k.pg.PathOf(effects.AllArgs(ci.Common())[0])
						if p.OK && p.RecvType != nil {
							ti.wait, ti.has = p, true
						}
					}
				}
			}
		}
	}
	nWg := 0
	var notWaited []string
	for _, sl := range loops {
		if sl.recvT == nil {
			continue
		}
		ti := tinfos[sl.recvT.Obj()]
		sites := k.pg.GoSites[sl.fn]
		// `go func() { defer s.wg.Done(); s.serve() }()`: the loop function is called
		// synchronously by the function the go statement starts
		wrapper := map[*ssa.Go]*ssa.Function{}
		if len(sites) == 0 {
			for _, cf := range k.fns {
				if len(k.pg.GoSites[cf]) == 0 {
					continue
				}
				for _, cb := range cf.Blocks {
					for _, cin := range cb.Instrs {
						if call, ok := cin.(*ssa.Call); ok && call.Call.StaticCallee() == sl.fn {
							for _, g := range k.pg.GoSites[cf] {
								if wrapper[g] == nil {
									wrapper[g] = cf
									sites = append(sites, g)
								}
							}
						}
					}
				}
			}
		}
		if !ti.has {
			if len(sites) > 0 {
				notWaited = append(notWaited, k.fname(sl.fn))
			}
			continue
		}
		for _, g := range sites {
			g := g
			nWg++
			construct := fmt.Sprintf("%s: go %s is counted in %s", k.fname(g.Parent()), sl.fn.Name(), ti.wait.String())
			k.c.guard("R4-wg", construct, k.pos(g), func() {
				var bad []string
				// Add before go
				added := false
				for _, b := range g.Parent().Blocks {
					for _, in := range b.Instrs {
						ci, ok := in.(ssa.CallInstruction)
						if !ok || !c18IsSyncMethod(ci.Common(), "WaitGroup", "Add") {
							continue
						}
						args := effects.AllArgs(ci.Common())
						if len(args) < 2 || !k.pg.PathOf(args[0]).Same(ti.wait) {
							continue
						}
						if c, ok := args[1].(*ssa.Const); ok && c.Value != nil && constant.Sign(c.Value) > 0 && effects.Precedes(in, g) {
							added = true
						}
					}
				}
				if !added {
					bad = append(bad, "no "+ti.wait.String()+".Add(n>0) precedes the go statement: Wait can return while the goroutine runs, or Done drives the counter negative")
				}
				// target defers Done (directly or in a deferred closure)
				done := false
				doneFns := []*ssa.Function{sl.fn}
				if w := wrapper[g]; w != nil {
					doneFns = append(doneFns, w)
				}
				for _, dfn := range doneFns {
					for _, b := range dfn.Blocks {
						for _, in := range b.Instrs {
							d, ok := in.(*ssa.Defer)
							if !ok {
								continue
							}
							if c18IsSyncMethod(&d.Call, "WaitGroup", "Done") && k.pg.PathOf(effects.AllArgs(&d.Call)[0]).Same(ti.wait) {
								done = true
							}
							for _, f := range k.pg.Callees(&d.Call) {
								for _, fb := range f.Blocks {
									for _, fin := range fb.Instrs {
										if ci, ok := fin.(ssa.CallInstruction); ok && c18IsSyncMethod(ci.Common(), "WaitGroup", "Done") &&
											k.pg.PathOf(effects.AllArgs(ci.Common())[0]).Same(ti.wait) {
											done = true
										}
									}
								}
							}
						}
					}
				}
				if !done {
					bad = append(bad, sl.fn.Name()+" does not defer "+ti.wait.String()+".Done(): the stop function waits forever")
				}
				if len(bad) > 0 {
					k.r.Fail("R4-wg", construct, k.pos(g), strings.Join(bad, "; "))
					return
				}
				k.r.OK("R4-wg", construct, k.pos(g), "Add(n>0) precedes the go statement and the target defers Done on the same WaitGroup field")
			})
		}
	}
	// one per type whose stop function waits on a WaitGroup (Server, UDPServer, TCPServer);
	// the per-connection loop of TCPServer adds a fourth obligation today, but whether that
	// loop is a function of its own is the author's choice
	{
		nWait := 0
		for _, ti := range tinfos {
			if ti.has {
				nWait++
			}
		}
		if nWait < 3 {
			nWait = 3
		}
		// loops whose stop test was NOT DECIDED still count as present
		for _, sl := range loops {
			if sl.notDecided != "" && sl.recvT != nil && tinfos[sl.recvT.Obj()] != nil && tinfos[sl.recvT.Obj()].has {
				k.r.OK("R4-wg", k.fname(sl.fn)+": serve loop whose stop test was not read", k.p.Rel(sl.fn.Pos()), "NOT DECIDED — see R4-quit-test")
			}
		}
		k.r.Floor("R4-wg", nWait)
	}
	if len(notWaited) > 0 {
		k.r.Note("R4: the closer of these loops does not wait for them (no WaitGroup on the type); their exit rests on R4-quit-test/R4-unblock only: %s", strings.Join(notWaited, ", "))
	}

	// ---- R4-once: types that carry a sync.Once close their channel only inside Once.Do.
	// Keyed on the lifecycle types themselves (not on their serve loops): however the loop is
	// written, every close of a channel field of such a type must run under Once.Do.
	nOnce := 0
	for _, lt := range lts {
		st, _ := lt.nt.Underlying().(*types.Struct)
		if st == nil {
			continue
		}
		var onceF *types.Var
		for i := 0; i < st.NumFields(); i++ {
			if strings.HasSuffix(types.TypeString(st.Field(i).Type(), nil), "sync.Once") {
				onceF = st.Field(i)
			}
		}
		if onceF == nil {
			k.r.Note("R4-once: %s has no sync.Once field; a second Stop would close its quit channel twice (outside the property's statement, not checked)", lt.nt.Obj().Name())
			continue
		}
		for _, c := range lt.closers {
			c := c
			nOnce++
			construct := fmt.Sprintf("%s: close(%s) runs under %s.Do", k.fname(c.fn), c.path.String(), onceF.Name())
			guarded := false
			if mc := k.pg.Closures[c.fn]; mc != nil {
				if refs := mc.Referrers(); refs != nil {
					for _, r := range *refs {
						ci, ok := r.(ssa.CallInstruction)
						if !ok || !c18IsSyncMethod(ci.Common(), "Once", "Do") {
							continue
						}
						p := k.pg.PathOf(effects.AllArgs(ci.Common())[0])
						if p.OK && len(p.Fields) == 1 && p.Fields[0] == onceF {
							guarded = true
						}
					}
				}
			}
			if !guarded {
				// s.once.Do(s.shutdown): the closing method itself is handed to Once.Do as a method value
				guarded = k.onlyUnderOnce(c.fn, onceF)
			}
			if guarded {
				k.r.OK("R4-once", construct, k.pos(c.call), "the closing function is only run through Once.Do on the receiver's Once field")
			} else {
				k.r.Fail("R4-once", construct, k.pos(c.call), "the type carries "+onceF.Name()+" (documented: closed only once) but this close is not inside "+onceF.Name()+".Do: a second Close panics with `close of closed channel`")
			}
		}
	}
	k.r.Floor("R4-once", 2)
	k.r.Extra["R4_wg_go_sites"] = nWg
	k.r.Extra["R4_once_closers"] = nOnce
	k.r.Extra["R4_stop_checks"] = nStop
}

// ------------------------------------------------------------------ lifecycle types

type c18Closer struct {
	fn   *ssa.Function
	call ssa.CallInstruction
	path effects.FPath
}

type c18LifeType struct {
	nt      *types.Named
	closers []c18Closer
}

// lifecycleTypes: the named struct types of the two packages one of whose methods (or a
// function literal inside one) closes a channel field of the receiver.
func (k *c18) lifecycleTypes() []*c18LifeType {
	by := map[*types.TypeName]*c18LifeType{}
	var out []*c18LifeType
	for _, fn := range k.fns {
		for _, b := range fn.Blocks {
			for _, in := range b.Instrs {
				ci, ok := in.(ssa.CallInstruction)
				if !ok {
					continue
				}
				bi, ok := ci.Common().Value.(*ssa.Builtin)
				if !ok || bi.Name() != "close" || len(ci.Common().Args) != 1 {
					continue
				}
				pth := k.pg.PathOf(ci.Common().Args[0])
				if !pth.OK || pth.RecvType == nil || len(pth.Fields) != 1 {
					continue
				}
				lt := by[pth.RecvType.Obj()]
				if lt == nil {
					lt = &c18LifeType{nt: pth.RecvType}
					by[pth.RecvType.Obj()] = lt
					out = append(out, lt)
				}
				lt.closers = append(lt.closers, c18Closer{fn, ci, pth})
			}
		}
	}
	sort.Slice(out, func(i, j int) bool {
		a, b := out[i].nt.Obj(), out[j].nt.Obj()
		if a.Pkg().Path() != b.Pkg().Path() {
			return a.Pkg().Path() < b.Pkg().Path()
		}
		return a.Name() < b.Name()
	})
	return out
}

// reachFns: the functions of the anchored packages reached from roots through calls,
// go/defer statements and function literals (bounded depth).
func (k *c18) reachFns(roots []*ssa.Function) map[*ssa.Function]bool {
	seen := map[*ssa.Function]bool{}
	var visit func(fn *ssa.Function, d int)
	visit = func(fn *ssa.Function, d int) {
		if fn == nil || fn.Blocks == nil || seen[fn] || d > 8 {
			return
		}
		seen[fn] = true
		for _, a := range fn.AnonFuncs {
			visit(a, d)
		}
		for _, b := range fn.Blocks {
			for _, in := range b.Instrs {
				ci, ok := in.(ssa.CallInstruction)
				if !ok {
					continue
				}
				for _, g := range k.pg.Callees(ci.Common()) {
					if rp := relPkg(k.p, g); rp == c18Nbtns || rp == c18Llmnr {
						visit(g, d+1)
					}
				}
			}
		}
	}
	for _, r := range roots {
		visit(r, 0)
	}
	return seen
}

// c18LifeAnchors: the lifecycle types confirmed by reading (package → type names).
var c18LifeAnchors = [][2]string{
	{c18Nbtns, "Server"}, {c18Nbtns, "UDPServer"}, {c18Nbtns, "TCPServer"},
	{c18Llmnr, "Server"}, {c18Llmnr, "Client"},
}

// r4Coverage (rule R4-serve-loop): every lifecycle type reaches, from its methods, at
// least one serve loop that R4-quit-test judged (or reported NOT DECIDED). This is what
// the instance floors of the R4 rules stand for.
func (k *c18) r4Coverage(lts []*c18LifeType, loops []*c18ServeLoop) {
	const rule = "R4-serve-loop"
	have := map[string]bool{}
	for _, lt := range lts {
		have[lt.nt.Obj().Pkg().Path()+"."+lt.nt.Obj().Name()] = true
	}
	for _, a := range c18LifeAnchors {
		if !have[k.p.ModPath+"/"+a[0]+"."+a[1]] {
			k.r.Fail(rule, fmt.Sprintf("%s.%s: closes a quit channel field", a[0], a[1]), "", "no method of this type closes a channel field of its receiver any more: the stop signal of its loops is gone (or the type no longer resolves)")
		}
	}
	for _, lt := range lts {
		name := relPkgOfObj(k, lt.nt.Obj()) + "." + lt.nt.Obj().Name()
		construct := name + ": reaches a judged serve loop"
		pos := k.p.Rel(lt.nt.Obj().Pos())
		reach := k.reachFns(k.methodsOf(lt.nt))
		var judged, undecided []string
		for _, sl := range loops {
			if !(sl.recvT != nil && sl.recvT.Obj() == lt.nt.Obj()) && !reach[sl.fn] {
				continue
			}
			if sl.notDecided != "" {
				undecided = append(undecided, sl.fn.Name())
			} else {
				judged = append(judged, sl.fn.Name())
			}
		}
		switch {
		case len(judged) > 0:
			k.r.OK(rule, construct, pos, "loops: "+strings.Join(uniqStrings(append(judged, undecided...)), ", "))
		case len(undecided) > 0:
			k.r.OK(rule, construct, pos, "NOT DECIDED — the only loops of this type ("+strings.Join(uniqStrings(undecided), ", ")+") have a stop test the rule does not read")
		default:
			// no loop in a recognised shape: is a blocking call reached at all?
			var blk []string
			for fn := range reach {
				for _, b := range fn.Blocks {
					for _, in := range b.Instrs {
						if ci, ok := in.(ssa.CallInstruction); ok {
							if _, nm, is := effects.BlockingCall(ci.Common()); is {
								blk = append(blk, fn.Name()+": "+nm)
							}
						}
					}
				}
			}
			sort.Strings(blk)
			if len(blk) > 0 {
				k.r.OK(rule, construct, pos, "NOT DECIDED — blocking receive calls are reached ("+strings.Join(uniqStrings(blk), ", ")+") but none sits in an unbounded or stop-conditioned loop this rule reads (the loop may be driven by an iterator, a callback or recursion)")
				k.r.Note("C18 R4: %s NOT DECIDED — its blocking calls are not inside a loop shape the rule reads", name)
				// the entity exists: count it for the floors of the dependent rules
				for _, rl := range []string{"R4-quit-test", "R4-stop-closes-quit", "R4-unblock"} {
					k.r.OK(rl, name+": receive loop in a shape that is not read", pos, "NOT DECIDED — see R4-serve-loop")
				}
			} else {
				k.r.Fail(rule, construct, pos, "the type closes a quit channel but none of its methods reaches a Read*/Accept* call: the receive loop the property names is gone")
			}
		}
	}
	k.r.Floor(rule, 5)
}

func relPkgOfObj(p interface{ relName(string) string }, o types.Object) string {
	if o.Pkg() == nil {
		return ""
	}
	return p.relName(o.Pkg().Path())
}

// onlyUnderOnce: fn (a declared method) is referenced only as the argument of Once.Do on
// the receiver's Once field.
func (k *c18) onlyUnderOnce(fn *ssa.Function, onceF *types.Var) bool {
	if fn.Parent() != nil {
		return false
	}
	uses, under := 0, 0
	for _, g := range k.fns {
		for _, b := range g.Blocks {
			for _, in := range b.Instrs {
				var rands []*ssa.Value
				rands = in.Operands(rands)
				for _, r := range rands {
					if *r == nil {
						continue
					}
					refers := *r == ssa.Value(fn)
					if mc, ok := (*r).(*ssa.MakeClosure); ok && !refers {
						// bound method value s.shutdown: a synthetic closure over fn
						if bf, ok := mc.Fn.(*ssa.Function); ok && bf.Synthetic != "" && bf.Object() == fn.Object() && fn.Object() != nil {
							refers = true
						}
					}
					if !refers {
						continue
					}
					if _, isMC := in.(*ssa.MakeClosure); isMC {
						continue
					}
					uses++
					if ci, ok := in.(ssa.CallInstruction); ok && c18IsSyncMethod(ci.Common(), "Once", "Do") {
						p := k.pg.PathOf(effects.AllArgs(ci.Common())[0])
						if p.OK && len(p.Fields) == 1 && p.Fields[0] == onceF {
							under++
						}
					}
				}
			}
		}
	}
	return uses > 0 && uses == under
}
