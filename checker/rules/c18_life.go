package rules

// C18 R4 — stop protocol structure of the serve loops.

import (
	"fmt"
	"go/ast"
	"go/constant"
	"go/token"
	"go/types"
	"sort"
	"strings"

	"golang.org/x/tools/go/ssa"

	effects "manticheck/internal/srvfx"
)

type c18Blocking struct {
	in   ssa.CallInstruction // the call in the loop: the blocking call itself, or the call of the helper that blocks
	conn effects.FPath
	name string
	// the blocking call sits in a helper that sets a read deadline on the same connection before it
	deadlineInHelper bool
}

// c18HelperBlock: a blocking call inside a helper, with its connection in the helper's terms.
type c18HelperBlock struct {
	conn     effects.FPath
	name     string
	deadline bool
}

func c18IsDeadlineCall(c *ssa.CallCommon) bool {
	obj := effects.CalleeObj(c)
	return obj != nil && obj.Pkg() != nil && obj.Pkg().Path() == "net" && (obj.Name() == "SetReadDeadline" || obj.Name() == "SetDeadline")
}

// translatePath re-roots a path expressed in callee g's terms (receiver / parameter of g)
// at the arguments of the call c.
func (k *c18) translatePath(p effects.FPath, g *ssa.Function, c *ssa.CallCommon) effects.FPath {
	if !p.OK || p.Global != nil || p.Fresh != nil {
		return p
	}
	if p.Fn != g {
		return effects.FPath{}
	}
	idx := p.Param
	if p.RecvType != nil {
		idx = 0
	}
	args := effects.AllArgs(c)
	if idx < 0 || idx >= len(args) {
		return effects.FPath{}
	}
	base := k.pg.PathOf(args[idx])
	if !base.OK {
		return base
	}
	base.Fields = append(append([]*types.Var{}, base.Fields...), p.Fields...)
	return base
}

// blockingInside lists the blocking Read*/Accept* calls a helper performs (in its own body
// and, two levels deep, in the module functions it calls synchronously). A function whose
// blocking call sits in an unbounded loop of its own is a serve loop itself, not a helper.
func (k *c18) blockingInside(g *ssa.Function, depth int) []c18HelperBlock {
	if g == nil || g.Blocks == nil || depth > 2 {
		return nil
	}
	loops := effects.Loops(g)
	var out []c18HelperBlock
	for _, b := range g.Blocks {
		for _, in := range b.Instrs {
			call, ok := in.(*ssa.Call)
			if !ok {
				continue
			}
			if conn, name, ok := effects.BlockingCall(&call.Call); ok {
				for _, l := range loops {
					if l.Blocks[b] && k.unboundedFor(g, l) {
						return nil
					}
				}
				pth := k.pg.PathOf(conn)
				hb := c18HelperBlock{conn: pth, name: name}
				for _, b2 := range g.Blocks {
					for _, in2 := range b2.Instrs {
						ci, ok := in2.(ssa.CallInstruction)
						if !ok || !c18IsDeadlineCall(ci.Common()) {
							continue
						}
						if a := effects.AllArgs(ci.Common()); len(a) > 0 && k.pg.PathOf(a[0]).Same(pth) && effects.Precedes(in2, in) {
							hb.deadline = true
						}
					}
				}
				out = append(out, hb)
				continue
			}
			if h := call.Call.StaticCallee(); h != nil && h != g && h.Blocks != nil && k.p.InModule(h) {
				for _, hb := range k.blockingInside(h, depth+1) {
					hb.conn = k.translatePath(hb.conn, h, &call.Call)
					hb.name = h.Name() + "→" + hb.name
					if !hb.deadline && hb.conn.OK {
						// a deadline set in g before calling h covers the call
						for _, b2 := range g.Blocks {
							for _, in2 := range b2.Instrs {
								ci, ok := in2.(ssa.CallInstruction)
								if !ok || !c18IsDeadlineCall(ci.Common()) {
									continue
								}
								if a := effects.AllArgs(ci.Common()); len(a) > 0 && k.pg.PathOf(a[0]).Same(hb.conn) && effects.Precedes(in2, in) {
									hb.deadline = true
								}
							}
						}
					}
					out = append(out, hb)
				}
			}
		}
	}
	return out
}

type c18ServeLoop struct {
	fn       *ssa.Function
	loop     *effects.Loop
	blocking []c18Blocking
	recvT    *types.Named
	quit     effects.FPath // decided by R4-quit-test
	quitOK   bool
}

// unboundedFor reports whether the smallest for/range statement of fn's syntax
// that encloses every positioned instruction of the loop is a `for` without
// condition.
func (k *c18) unboundedFor(fn *ssa.Function, l *effects.Loop) bool {
	syn := fn.Syntax()
	if syn == nil {
		return false
	}
	lo, hi := token.Pos(0), token.Pos(0)
	for b := range l.Blocks {
		for _, in := range b.Instrs {
			if p := in.Pos(); p.IsValid() {
				if lo == 0 || p < lo {
					lo = p
				}
				if p > hi {
					hi = p
				}
			}
		}
	}
	if lo == 0 {
		return false
	}
	var best ast.Node
	ast.Inspect(syn, func(n ast.Node) bool {
		if n == nil {
			return false
		}
		if fl, ok := n.(*ast.FuncLit); ok && ast.Node(fl) != syn {
			return false
		}
		switch n.(type) {
		case *ast.ForStmt, *ast.RangeStmt:
			if n.Pos() <= lo && hi <= n.End() {
				if best == nil || (n.End()-n.Pos()) < (best.End()-best.Pos()) {
					best = n
				}
			}
		}
		return true
	})
	fs, ok := best.(*ast.ForStmt)
	return ok && fs.Cond == nil
}

func (k *c18) serveLoops() []*c18ServeLoop {
	var out []*c18ServeLoop
	for _, fn := range k.fns {
		loops := effects.Loops(fn)
		if len(loops) == 0 {
			continue
		}
		byLoop := map[*effects.Loop]*c18ServeLoop{}
		for _, b := range fn.Blocks {
			for _, in := range b.Instrs {
				ci, ok := in.(ssa.CallInstruction)
				if !ok {
					continue
				}
				var found []c18Blocking
				if conn, name, ok := effects.BlockingCall(ci.Common()); ok {
					found = append(found, c18Blocking{in: ci, conn: k.pg.PathOf(conn), name: name})
				} else if call, isCall := in.(*ssa.Call); isCall {
					// the read may have been moved into a helper (readPacket(buf), readMessage(conn))
					if h := call.Call.StaticCallee(); h != nil && h.Blocks != nil && k.p.InModule(h) {
						for _, hb := range k.blockingInside(h, 0) {
							found = append(found, c18Blocking{in: ci, conn: k.translatePath(hb.conn, h, &call.Call), name: h.Name() + "→" + hb.name, deadlineInHelper: hb.deadline})
						}
					}
				}
				if len(found) == 0 {
					continue
				}
				// outermost unbounded loop containing the call
				var L *effects.Loop
				for _, l := range loops {
					if l.Blocks[b] && k.unboundedFor(fn, l) && (L == nil || len(l.Blocks) > len(L.Blocks)) {
						L = l
					}
				}
				if L == nil {
					continue
				}
				sl := byLoop[L]
				if sl == nil {
					sl = &c18ServeLoop{fn: fn, loop: L}
					if fn.Signature.Recv() != nil {
						sl.recvT, _ = deref2(fn.Signature.Recv().Type()).(*types.Named)
					}
					byLoop[L] = sl
					out = append(out, sl)
				}
				sl.blocking = append(sl.blocking, found...)
			}
		}
	}
	return out
}

// quitHelper recognises a loop-free, non-blocking method whose only job is
// `select { case <-recv.q: return B; default: }; return !B`.
func (k *c18) quitHelper(g *ssa.Function) (effects.FPath, bool, bool) {
	if g.Blocks == nil || len(effects.Loops(g)) > 0 || g.Signature.Results().Len() != 1 {
		return effects.FPath{}, false, false
	}
	var sel *ssa.Select
	for _, b := range g.Blocks {
		for _, in := range b.Instrs {
			switch x := in.(type) {
			case *ssa.Select:
				if sel != nil || x.Blocking {
					return effects.FPath{}, false, false
				}
				sel = x
			case ssa.CallInstruction:
				if _, _, blk := effects.BlockingCall(x.Common()); blk {
					return effects.FPath{}, false, false
				}
			}
		}
	}
	if sel == nil {
		return effects.FPath{}, false, false
	}
	for idx, st := range sel.States {
		if st.Dir != types.RecvOnly {
			continue
		}
		pth := k.pg.PathOf(st.Chan)
		if !pth.OK || pth.RecvType == nil || len(pth.Fields) != 1 {
			continue
		}
		for _, fb := range g.Blocks {
			if len(fb.Instrs) == 0 {
				continue
			}
			ifi, ok := fb.Instrs[len(fb.Instrs)-1].(*ssa.If)
			if !ok {
				continue
			}
			bo, ok := ifi.Cond.(*ssa.BinOp)
			if !ok || bo.Op != token.EQL {
				continue
			}
			ex, ok := bo.X.(*ssa.Extract)
			cst, ok2 := bo.Y.(*ssa.Const)
			if !ok || !ok2 || ex.Tuple != ssa.Value(sel) || ex.Index != 0 || cst.Value == nil {
				continue
			}
			if v, exact := constant.Int64Val(cst.Value); !exact || int(v) != idx {
				continue
			}
			tb := fb.Succs[0]
			if len(tb.Instrs) == 0 {
				continue
			}
			ret, ok := tb.Instrs[len(tb.Instrs)-1].(*ssa.Return)
			if !ok || len(ret.Results) != 1 {
				continue
			}
			c, ok := ret.Results[0].(*ssa.Const)
			if !ok || c.Value == nil || c.Value.Kind() != constant.Bool {
				continue
			}
			return pth, constant.BoolVal(c.Value), true
		}
	}
	return effects.FPath{}, false, false
}

// methodsOf returns the source functions (methods and the closures inside
// them) of the named type.
func (k *c18) methodsOf(nt *types.Named) []*ssa.Function {
	var out []*ssa.Function
	for _, fn := range k.fns {
		root := fn
		for root.Parent() != nil {
			root = root.Parent()
		}
		if root.Signature.Recv() == nil {
			continue
		}
		if t, ok := deref2(root.Signature.Recv().Type()).(*types.Named); ok && t.Obj() == nt.Obj() {
			out = append(out, fn)
		}
	}
	return out
}

func c18IsSyncMethod(c *ssa.CallCommon, typ, name string) bool {
	obj := effects.CalleeObj(c)
	if obj == nil || obj.Pkg() == nil || obj.Pkg().Path() != "sync" || obj.Name() != name {
		return false
	}
	sig, _ := obj.Type().(*types.Signature)
	if sig == nil || sig.Recv() == nil {
		return false
	}
	return strings.HasSuffix(types.TypeString(sig.Recv().Type(), nil), "sync."+typ)
}

func (k *c18) r4() {
	loops := k.serveLoops()
	k.r.Extra["R4_serve_loops"] = len(loops)
	sort.Slice(loops, func(i, j int) bool { return loops[i].fn.String() < loops[j].fn.String() })

	// ---- R4-quit-test
	for _, sl := range loops {
		sl := sl
		construct := k.fname(sl.fn) + ": serve loop tests a quit channel on every iteration"
		pos := k.pos(sl.blocking[0].in)
		k.c.guard("R4-quit-test", construct, pos, func() {
			var why []string
			for b := range sl.loop.Blocks {
				for _, in := range b.Instrs {
					sel, ok := in.(*ssa.Select)
					if !ok {
						continue
					}
					for idx, st := range sel.States {
						if st.Dir != types.RecvOnly {
							continue
						}
						pth := k.pg.PathOf(st.Chan)
						if !pth.OK || pth.RecvType == nil || len(pth.Fields) != 1 {
							why = append(why, "select receives from a channel that is not a field of the receiver")
							continue
						}
						// the case must leave the loop
						leaves := false
						for _, fb := range sl.fn.Blocks {
							if len(fb.Instrs) == 0 {
								continue
							}
							ifi, ok := fb.Instrs[len(fb.Instrs)-1].(*ssa.If)
							if !ok {
								continue
							}
							bo, ok := ifi.Cond.(*ssa.BinOp)
							if !ok || bo.Op != token.EQL {
								continue
							}
							ex, ok := bo.X.(*ssa.Extract)
							cst, ok2 := bo.Y.(*ssa.Const)
							if !ok || !ok2 || ex.Tuple != ssa.Value(sel) || ex.Index != 0 || cst.Value == nil {
								continue
							}
							if v, exact := constant.Int64Val(cst.Value); exact && int(v) == idx {
								if !sl.loop.Blocks[fb.Succs[0]] {
									leaves = true
								}
							}
						}
						if !leaves {
							why = append(why, "the case receiving from "+pth.String()+" does not leave the loop")
							continue
						}
						// every cycle through a blocking call passes the select
						cut := map[*ssa.BasicBlock]bool{b: true}
						every := true
						for _, bc := range sl.blocking {
							if sl.loop.InCycleWithout(bc.in.Block(), cut) {
								every = false
								why = append(why, "an iteration can reach "+bc.name+" again without passing the select on "+pth.String())
							}
						}
						if every && !sl.quitOK {
							sl.quit, sl.quitOK = pth, true
						}
					}
				}
			}
			// the test may live in a helper: `if s.stopped() { return }`
			if !sl.quitOK {
				for b := range sl.loop.Blocks {
					if len(b.Instrs) == 0 {
						continue
					}
					ifi, ok := b.Instrs[len(b.Instrs)-1].(*ssa.If)
					if !ok {
						continue
					}
					cond, flip := ifi.Cond, false
					if u, ok := cond.(*ssa.UnOp); ok && u.Op == token.NOT {
						cond, flip = u.X, true
					}
					call, ok := cond.(*ssa.Call)
					if !ok {
						continue
					}
					for _, g := range k.pg.Callees(&call.Call) {
						pth, whenClosed, ok := k.quitHelper(g)
						if !ok {
							continue
						}
						leave := 1
						if whenClosed != flip {
							leave = 0
						}
						if sl.loop.Blocks[ifi.Block().Succs[leave]] {
							why = append(why, "the result of "+g.Name()+" (tests "+pth.String()+") does not make the loop exit")
							continue
						}
						cut := map[*ssa.BasicBlock]bool{b: true}
						every := true
						for _, bc := range sl.blocking {
							if sl.loop.InCycleWithout(bc.in.Block(), cut) {
								every = false
								why = append(why, "an iteration can reach "+bc.name+" again without passing the test of "+pth.String())
							}
						}
						if every && !sl.quitOK {
							sl.quit, sl.quitOK = pth, true
						}
					}
				}
			}
			if sl.quitOK {
				k.r.OK("R4-quit-test", construct, pos, "every cycle through the blocking call(s) passes `select { case <-"+sl.quit.String()+": (leave loop) }`")
				return
			}
			if len(why) == 0 {
				why = append(why, "no select receiving from a receiver-field channel inside the loop")
			}
			k.r.Fail("R4-quit-test", construct, pos, "the loop cannot observe a stop request: "+strings.Join(uniqStrings(why), "; "))
		})
	}
	k.r.Floor("R4-quit-test", 6)

	// ---- closers: functions that close(recv.<quit field>)
	type closer struct {
		fn   *ssa.Function
		call ssa.CallInstruction
	}
	closersOf := func(q effects.FPath) []closer {
		var out []closer
		for _, fn := range k.methodsOf(q.RecvType) {
			for _, b := range fn.Blocks {
				for _, in := range b.Instrs {
					ci, ok := in.(ssa.CallInstruction)
					if !ok {
						continue
					}
					if bi, ok := ci.Common().Value.(*ssa.Builtin); ok && bi.Name() == "close" && len(ci.Common().Args) == 1 {
						if k.pg.PathOf(ci.Common().Args[0]).Same(q) {
							out = append(out, closer{fn, ci})
						}
					}
				}
			}
		}
		return out
	}
	// calls reachable in the stop function (its closures and the outer method)
	stopScope := func(c closer) []*ssa.Function {
		root := c.fn
		for root.Parent() != nil {
			root = root.Parent()
		}
		var out []*ssa.Function
		for _, fn := range k.fns {
			r := fn
			for r.Parent() != nil {
				r = r.Parent()
			}
			if r == root {
				out = append(out, fn)
			}
		}
		return out
	}

	nStop := 0
	for _, sl := range loops {
		sl := sl
		if !sl.quitOK {
			continue
		}
		cl := closersOf(sl.quit)
		construct := k.fname(sl.fn) + ": some method closes " + sl.quit.String()
		nStop++
		if len(cl) == 0 {
			k.r.Fail("R4-stop-closes-quit", construct, k.p.Rel(sl.fn.Pos()), "no method of "+sl.quit.RecvType.Obj().Name()+" closes the channel field "+sl.quit.String()+" that the loop in "+sl.fn.Name()+" selects on: stopping never makes the loop exit")
		} else {
			var ns []string
			for _, c := range cl {
				ns = append(ns, k.fname(c.fn))
			}
			k.r.OK("R4-stop-closes-quit", construct, k.pos(cl[0].call), "closed by "+strings.Join(uniqStrings(ns), ", "))
		}
		// the channel is created
		made := false
		for _, fn := range k.fns {
			for _, b := range fn.Blocks {
				for _, in := range b.Instrs {
					st, ok := in.(*ssa.Store)
					if !ok {
						continue
					}
					if _, isMk := c18Strip(st.Val).(*ssa.MakeChan); !isMk {
						continue
					}
					fa, ok := st.Addr.(*ssa.FieldAddr)
					if !ok {
						continue
					}
					if f := c18StructField(fa.X.Type(), fa.Field); f != nil && len(sl.quit.Fields) == 1 && f == sl.quit.Fields[0] {
						made = true
					}
				}
			}
		}
		c2 := k.fname(sl.fn) + ": " + sl.quit.String() + " is created by a constructor"
		if made {
			k.r.OK("R4-quit-created", c2, "", "a make(chan) is stored into the field")
		} else {
			k.r.Fail("R4-quit-created", c2, "", "no function stores a make(chan …) into "+sl.quit.String()+": receiving from a nil channel never fires and close(nil) panics")
		}

		// ---- blocking calls are released: deadline in the iteration, or the closer closes the same conn
		for _, bc := range sl.blocking {
			bc := bc
			c3 := fmt.Sprintf("%s: blocked %s on %s is released on stop", k.fname(sl.fn), bc.name, bc.conn.String())
			k.c.guard("R4-unblock", c3, k.pos(bc.in), func() {
				if !bc.conn.OK {
					k.r.Undecided("R4-unblock", c3, k.pos(bc.in), "the connection operand could not be resolved to a field or parameter")
					return
				}
				if bc.deadlineInHelper {
					k.r.OK("R4-unblock", c3, k.pos(bc.in), "the helper sets a Set(Read)Deadline on the same connection before the blocking call, so the loop returns to its quit test")
					return
				}
				// deadline before the call, inside the loop
				for b := range sl.loop.Blocks {
					for _, in := range b.Instrs {
						ci, ok := in.(ssa.CallInstruction)
						if !ok {
							continue
						}
						obj := effects.CalleeObj(ci.Common())
						if obj == nil || obj.Pkg() == nil || obj.Pkg().Path() != "net" {
							continue
						}
						if obj.Name() != "SetReadDeadline" && obj.Name() != "SetDeadline" {
							continue
						}
						args := effects.AllArgs(ci.Common())
						if len(args) == 0 || !k.pg.PathOf(args[0]).Same(bc.conn) {
							continue
						}
						if ssa.Instruction(in) != ssa.Instruction(bc.in) && effects.Precedes(in, bc.in) {
							k.r.OK("R4-unblock", c3, k.pos(bc.in), obj.Name()+" on the same connection precedes the call in every iteration, so the loop returns to its quit test")
							return
						}
					}
				}
				// otherwise a closer must close the same object
				for _, c := range cl {
					for _, fn := range stopScope(c) {
						for _, b := range fn.Blocks {
							for _, in := range b.Instrs {
								ci, ok := in.(ssa.CallInstruction)
								if !ok {
									continue
								}
								obj := effects.CalleeObj(ci.Common())
								if obj == nil || obj.Name() != "Close" {
									continue
								}
								args := effects.AllArgs(ci.Common())
								if len(args) > 0 && k.pg.PathOf(args[0]).Same(bc.conn) {
									k.r.OK("R4-unblock", c3, k.pos(bc.in), "no deadline, but "+k.fname(c.fn)+" closes "+bc.conn.String()+", which makes the blocked call return")
									return
								}
							}
						}
					}
				}
				k.r.Fail("R4-unblock", c3, k.pos(bc.in), "neither a Set(Read)Deadline on "+bc.conn.String()+" precedes the call in the iteration nor does the function that closes "+sl.quit.String()+" close "+bc.conn.String()+": the goroutine stays blocked after stop")
			})
		}
	}
	k.r.Floor("R4-stop-closes-quit", 6)
	// every blocking call of every serve loop is judged; the floor is one per serve loop (6),
	// not the number of read statements a loop happens to be written with
	k.r.Floor("R4-unblock", 6)

	// ---- R4-wg: goroutines the stop function waits for
	type tinfo struct {
		nt   *types.Named
		wait effects.FPath
		has  bool
	}
	tinfos := map[*types.TypeName]*tinfo{}
	for _, sl := range loops {
		if sl.recvT == nil || tinfos[sl.recvT.Obj()] != nil {
			continue
		}
		ti := &tinfo{nt: sl.recvT}
		tinfos[sl.recvT.Obj()] = ti
		for _, fn := range k.methodsOf(sl.recvT) {
			for _, b := range fn.Blocks {
				for _, in := range b.Instrs {
					if ci, ok := in.(ssa.CallInstruction); ok && c18IsSyncMethod(ci.Common(), "WaitGroup", "Wait") {
						p := k.pg.PathOf(effects.AllArgs(ci.Common())[0])
						if p.OK && p.RecvType != nil {
							ti.wait, ti.has = p, true
						}
					}
				}
			}
		}
	}
	nWg := 0
	var notWaited []string
	for _, sl := range loops {
		if sl.recvT == nil {
			continue
		}
		ti := tinfos[sl.recvT.Obj()]
		sites := k.pg.GoSites[sl.fn]
		if !ti.has {
			if len(sites) > 0 {
				notWaited = append(notWaited, k.fname(sl.fn))
			}
			continue
		}
		for _, g := range sites {
			g := g
			nWg++
			construct := fmt.Sprintf("%s: go %s is counted in %s", k.fname(g.Parent()), sl.fn.Name(), ti.wait.String())
			k.c.guard("R4-wg", construct, k.pos(g), func() {
				var bad []string
				// Add before go
				added := false
				for _, b := range g.Parent().Blocks {
					for _, in := range b.Instrs {
						ci, ok := in.(ssa.CallInstruction)
						if !ok || !c18IsSyncMethod(ci.Common(), "WaitGroup", "Add") {
							continue
						}
						args := effects.AllArgs(ci.Common())
						if len(args) < 2 || !k.pg.PathOf(args[0]).Same(ti.wait) {
							continue
						}
						if c, ok := args[1].(*ssa.Const); ok && c.Value != nil && constant.Sign(c.Value) > 0 && effects.Precedes(in, g) {
							added = true
						}
					}
				}
				if !added {
					bad = append(bad, "no "+ti.wait.String()+".Add(n>0) precedes the go statement: Wait can return while the goroutine runs, or Done drives the counter negative")
				}
				// target defers Done (directly or in a deferred closure)
				done := false
				for _, b := range sl.fn.Blocks {
					for _, in := range b.Instrs {
						d, ok := in.(*ssa.Defer)
						if !ok {
							continue
						}
						if c18IsSyncMethod(&d.Call, "WaitGroup", "Done") && k.pg.PathOf(effects.AllArgs(&d.Call)[0]).Same(ti.wait) {
							done = true
						}
						for _, f := range k.pg.Callees(&d.Call) {
							for _, fb := range f.Blocks {
								for _, fin := range fb.Instrs {
									if ci, ok := fin.(ssa.CallInstruction); ok && c18IsSyncMethod(ci.Common(), "WaitGroup", "Done") &&
										k.pg.PathOf(effects.AllArgs(ci.Common())[0]).Same(ti.wait) {
										done = true
									}
								}
							}
						}
					}
				}
				if !done {
					bad = append(bad, sl.fn.Name()+" does not defer "+ti.wait.String()+".Done(): the stop function waits forever")
				}
				if len(bad) > 0 {
					k.r.Fail("R4-wg", construct, k.pos(g), strings.Join(bad, "; "))
					return
				}
				k.r.OK("R4-wg", construct, k.pos(g), "Add(n>0) precedes the go statement and the target defers Done on the same WaitGroup field")
			})
		}
	}
	k.r.Floor("R4-wg", 4)
	if len(notWaited) > 0 {
		k.r.Note("R4: the closer of these loops does not wait for them (no WaitGroup on the type); their exit rests on R4-quit-test/R4-unblock only: %s", strings.Join(notWaited, ", "))
	}

	// ---- R4-once: types that carry a sync.Once close their channel only inside Once.Do
	nOnce := 0
	seenT := map[*types.TypeName]bool{}
	for _, sl := range loops {
		if sl.recvT == nil || !sl.quitOK || seenT[sl.recvT.Obj()] {
			continue
		}
		seenT[sl.recvT.Obj()] = true
		st, _ := sl.recvT.Underlying().(*types.Struct)
		if st == nil {
			continue
		}
		var onceF *types.Var
		for i := 0; i < st.NumFields(); i++ {
			if strings.HasSuffix(types.TypeString(st.Field(i).Type(), nil), "sync.Once") {
				onceF = st.Field(i)
			}
		}
		if onceF == nil {
			k.r.Note("R4-once: %s has no sync.Once field; a second Stop would close %s twice (outside the property's statement, not checked)", sl.recvT.Obj().Name(), sl.quit.String())
			continue
		}
		for _, c := range closersOf(sl.quit) {
			c := c
			nOnce++
			construct := fmt.Sprintf("%s: close(%s) runs under %s.Do", k.fname(c.fn), sl.quit.String(), onceF.Name())
			guarded := false
			if mc := k.pg.Closures[c.fn]; mc != nil {
				if refs := mc.Referrers(); refs != nil {
					for _, r := range *refs {
						ci, ok := r.(ssa.CallInstruction)
						if !ok || !c18IsSyncMethod(ci.Common(), "Once", "Do") {
							continue
						}
						p := k.pg.PathOf(effects.AllArgs(ci.Common())[0])
						if p.OK && len(p.Fields) == 1 && p.Fields[0] == onceF {
							guarded = true
						}
					}
				}
			}
			if guarded {
				k.r.OK("R4-once", construct, k.pos(c.call), "the closing function literal is only passed to Once.Do on the receiver's Once field")
			} else {
				k.r.Fail("R4-once", construct, k.pos(c.call), "the type carries "+onceF.Name()+" (documented: closed only once) but this close is not inside "+onceF.Name()+".Do: a second Close panics with `close of closed channel`")
			}
		}
	}
	k.r.Floor("R4-once", 2)
	k.r.Extra["R4_wg_go_sites"] = nWg
	k.r.Extra["R4_once_closers"] = nOnce
	k.r.Extra["R4_stop_checks"] = nStop
}
