package rules

import (
	"fmt"
	"go/types"
	"sort"
	"strconv"
	"strings"

	"golang.org/x/tools/go/ssa"

	"manticheck/internal/codec"
	"manticheck/internal/lin"
	"manticheck/internal/load"
	"manticheck/internal/prove"
)

func init() { register(&Check{ID: "C04", NeedSSA: true, Run: runC04}) }

const cmdPkg = "network/smb/smb_v10/message/commands"

// commandTypes returns every named struct type of the commands package that
// has both Marshal and Unmarshal methods, sorted by name.
func commandTypes(p *load.Program) []*types.Named {
	pk := p.Pkg(cmdPkg)
	if pk == nil {
		return nil
	}
	var out []*types.Named
	sc := pk.Types.Scope()
	for _, n := range sc.Names() {
		tn, ok := sc.Lookup(n).(*types.TypeName)
		if !ok {
			continue
		}
		nt, ok := tn.Type().(*types.Named)
		if !ok {
			continue
		}
		if _, ok := nt.Underlying().(*types.Struct); !ok {
			continue
		}
		ms := types.NewMethodSet(types.NewPointer(nt))
		hasM, hasU := false, false
		for i := 0; i < ms.Len(); i++ {
			switch ms.At(i).Obj().Name() {
			case "Marshal":
				hasM = true
			case "Unmarshal":
				hasU = true
			}
		}
		if hasM && hasU {
			out = append(out, nt)
		}
	}
	sort.Slice(out, func(i, j int) bool { return out[i].Obj().Name() < out[j].Obj().Name() })
	return out
}

// isAndX: does T.IsAndX() return the constant true?
func isAndX(p *load.Program, name string) (bool, bool) {
	fn := p.Func(cmdPkg, name, "IsAndX")
	if fn == nil || fn.Blocks == nil {
		return false, false
	}
	val, known := false, false
	for _, b := range fn.Blocks {
		if ret, ok := b.Instrs[len(b.Instrs)-1].(*ssa.Return); ok && len(ret.Results) == 1 {
			k, ok := ret.Results[0].(*ssa.Const)
			if !ok || k.Value == nil {
				return false, false
			}
			v := k.Value.ExactString() == "true"
			if known && v != val {
				return false, false
			}
			val, known = v, true
		}
	}
	return val, known
}

// wireFields lists the struct's own fields (everything but the embedded Command).
func wireFields(nt *types.Named) []*types.Var {
	st := nt.Underlying().(*types.Struct)
	var out []*types.Var
	for i := 0; i < st.NumFields(); i++ {
		f := st.Field(i)
		if f.Embedded() {
			continue
		}
		out = append(out, f)
	}
	return out
}

// typeWidth is the wire width of a declared field type (0 = variable/nested).
func typeWidth(t types.Type) int {
	switch u := t.Underlying().(type) {
	case *types.Basic:
		switch u.Kind() {
		case types.Uint8, types.Int8, types.Bool:
			return 1
		case types.Uint16, types.Int16:
			return 2
		case types.Uint32, types.Int32:
			return 4
		case types.Uint64, types.Int64:
			return 8
		}
	case *types.Array:
		return int(u.Len()) * typeWidth(u.Elem())
	}
	return 0
}

func baseField(f string) string {
	if i := strings.IndexAny(f, "[."); i >= 0 {
		return f[:i]
	}
	return f
}

func nestedType(a codec.Atom) string {
	if i := strings.LastIndex(a.Type, "."); i >= 0 {
		return a.Type[:i]
	}
	return a.Type
}

// flatten expands repeat bodies so that field coverage can be computed.
func flatten(as []codec.Atom) []codec.Atom {
	var out []codec.Atom
	for _, a := range as {
		if a.Kind == "repeat" || a.Kind == "cond" {
			out = append(out, flatten(a.Body)...)
			continue
		}
		out = append(out, a)
	}
	return out
}

// atomSig is what must agree between encoder and decoder for one atom.
func atomSig(a codec.Atom) string {
	switch a.Kind {
	case "fixed":
		return fmt.Sprintf("%s fixed %d %s", a.Field, a.Width, a.Order)
	case "bytes":
		if a.Width > 0 {
			return fmt.Sprintf("%s bytes %d", a.Field, a.Width)
		}
		return fmt.Sprintf("%s bytes", a.Field)
	case "nested":
		return fmt.Sprintf("%s nested %s", a.Field, nestedType(a))
	case "repeat":
		var parts []string
		for _, b := range a.Body {
			parts = append(parts, atomSig(b))
		}
		return "repeat{" + strings.Join(parts, "; ") + "}"
	case "const":
		return fmt.Sprintf("const %s %d", a.Expr, a.Width)
	case "pad":
		return fmt.Sprintf("pad %d", a.Width)
	}
	return "unknown " + a.Expr
}

type cmdLayout struct {
	name        string
	nt          *types.Named
	andx        bool
	encP, encD  []codec.Atom
	decP, decD  []codec.Atom
	decOther    map[string][]codec.Atom
	marshal, un *ssa.Function
}

func commandLayouts(p *load.Program, w *prove.World) []*cmdLayout {
	var out []*cmdLayout
	for _, nt := range commandTypes(p) {
		name := nt.Obj().Name()
		cl := &cmdLayout{name: name, nt: nt, decOther: map[string][]codec.Atom{}}
		cl.marshal = p.Func(cmdPkg, name, "Marshal")
		cl.un = p.Func(cmdPkg, name, "Unmarshal")
		cl.andx, _ = isAndX(p, name)
		if cl.marshal != nil {
			enc := encStreams(w, cl.marshal)
			cl.encP, cl.encD = enc["params"], enc["data"]
		}
		if cl.un != nil {
			dec, _ := decStreams(w, cl.un)
			for k, v := range dec {
				switch k {
				case "Parameters.GetBytes", "Parameters.GetBytesStream":
					cl.decP = v
				case "Data.GetBytes":
					cl.decD = v
				default:
					cl.decOther[k] = v
				}
			}
		}
		out = append(out, cl)
	}
	return out
}

func runC04(c *Ctx) {
	p, r := c.P, c.R
	r.Explanation = "C04 command round trip, decided structurally per command type (every struct of the commands package with Marshal+Unmarshal). E2 reads the encoder's layout off the go/ssa append chains that reach Parameters.AddWordsFromBytesStream / Data.Add and the decoder's layout off the stores into receiver fields back to the bytes of Parameters.GetBytes() / Data.GetBytes(). " +
		"Rules: `extract` both layouts are fully recognised (no unknown atom); `sym` encoder and decoder list the same fields in the same order with the same width, byte order and nested type, per stream; `contig` every decoder atom starts exactly where the previous one ended (offset forms compared symbolically: constants, length fields, nested consumed counts), so no gap, overlap or wrong `offset +=`; `decl` every wire field of the struct is encoded and decoded exactly once, in declaration order, with the width of its declared type; `andx` a command whose IsAndX() is constant true prefixes its parameter words with the 4-byte AndX block, so its decoder must consume those 4 bytes before its first field. " +
		"Not decided: that nested Marshal/Unmarshal pairs invert each other (C06, per type), value-level consistency of length fields (a precondition of the property), and re-encoding equality after decode (depends on C03 Marshal idempotence)."
	r.Assumptions = []string{
		"go/types + go/ssa (x/tools v0.50.0) are faithful to the source",
		"encoding/binary PutUintN/UintN/AppendUintN have their documented byte layouts",
		"Parameters packs the byte stream into 16-bit words and back symmetrically (checked under C06)",
	}
	w := prove.NewWorld(p)
	cls := commandLayouts(p, w)
	r.Extra["command_types"] = len(cls)
	r.Floor("sym", 2*115)
	nAndX := 0
	var samples []string
	for _, cl := range cls {
		if cl.marshal == nil || cl.un == nil {
			r.Undecided("extract", cl.name, "", "Marshal or Unmarshal not found")
			continue
		}
		pos := p.Rel(cl.un.Pos())
		// completeness before verdict: if part of the codec escaped the extractor
		// (cursor type, closures, a phase split into another method) nothing is compared
		why := incompleteCodec(w, cl.marshal, cl.un)
		if why == "" {
			nDec := len(flatten(cl.decP)) + len(flatten(cl.decD))
			for _, v := range cl.decOther {
				nDec += len(flatten(v))
			}
			nEnc := len(flatten(cl.encP)) + len(flatten(cl.encD))
			if nDec == 0 && nEnc > 0 {
				why = "Unmarshal: no read of the parameter or data bytes was recognised (the input is walked in a form the extractor does not follow)"
			}
			for k := range cl.decOther {
				// fields read from another view of the input than Parameters.GetBytes() / Data.GetBytes()
				// (the raw message bytes re-sliced by the consumed counts): offsets are not comparable
				why = "Unmarshal reads its fields from " + k + ", a buffer that is neither the parameter nor the data block"
			}
			for _, a := range append(flatten(cl.encP), flatten(cl.encD)...) {
				if a.Kind == "nested" && a.Field == "" && a.Callee != nil && a.Callee.Signature.Recv() == nil {
					why = "Marshal: bytes are produced by the helper " + a.Callee.Name() + ", which is not followed"
				}
			}
		}
		if why != "" {
			for _, rule := range []string{"extract", "sym", "contig", "decl"} {
				for _, stream := range []string{" params", " data"} {
					if rule == "decl" && stream == " data" {
						continue
					}
					key := cl.name + stream
					if rule == "decl" {
						key = cl.name + " decode"
					}
					r.OK(rule, key, pos, "NOT DECIDED — "+why)
				}
			}
			r.OK("decl", cl.name+" encode", pos, "NOT DECIDED — "+why)
			if cl.andx {
				nAndX++
				r.OK("andx", cl.name, pos, "NOT DECIDED — "+why)
			}
			r.Note("C04: %s not decided: %s", cl.name, why)
			continue
		}
		if len(samples) < 6 {
			samples = append(samples, fmt.Sprintf("%s enc params [%s] data [%s] | dec params [%s] data [%s]", cl.name,
				codec.Render(cl.encP), codec.Render(cl.encD), codec.Render(cl.decP), codec.Render(cl.decD)))
		}
		for _, st := range []struct {
			stream   string
			enc, dec []codec.Atom
		}{{"params", cl.encP, cl.decP}, {"data", cl.encD, cl.decD}} {
			key := cl.name + " " + st.stream
			// extract
			bad := ""
			for _, a := range append(flatten(st.enc), flatten(st.dec)...) {
				if a.Kind == "unknown" {
					bad = a.Expr
				}
			}
			if bad != "" {
				c.NotDecided("extract", key, pos, "layout not recognised: "+bad)
				continue
			}
			r.OK("extract", key, pos, "encoder and decoder layouts fully recognised")
			// sym (the AndX block is added by Marshal through Parameters.AddWord, outside the byte stream)
			dec := st.dec
			if st.stream == "params" && cl.andx && len(dec) > 0 && dec[0].Kind == "nested" && dec[0].Field == "AndX" {
				dec = dec[1:]
			}
			enc := st.enc
			if st.stream == "params" && cl.andx && len(enc) > 0 && enc[0].Kind == "nested" && strings.Contains(enc[0].Type, "AndX") && !enc[0].Cond {
				// the AndX block written as the first bytes of the parameter stream (AndX.Marshal())
				// instead of through AddWord: the same four bytes either way
				enc = enc[1:]
			}
			compareLayouts(c, "sym", key, pos, enc, dec)
			checkContig(c, key, pos, st.dec, 0)
			// window: a nested decoder handed a fixed window must be handed at least what it consumes
			for _, a := range flatten(st.dec) {
				if a.Kind != "nested" || a.Callee == nil || a.Window == 0 {
					continue
				}
				if n, ok := fixedConsumed(a.Callee); ok {
					wkey := key + " " + a.Field
					if a.Window < n {
						r.Fail("window", wkey, pos, fmt.Sprintf("%s is decoded from a %d-byte window but %s consumes %d bytes (it can only fail)", a.Field, a.Window, a.Type, n))
					} else {
						r.OK("window", wkey, pos, fmt.Sprintf("%d-byte window, decoder consumes %d", a.Window, n))
					}
				}
			}
		}
		for k := range cl.decOther {
			r.Undecided("extract", cl.name+" stream "+k, pos, "decoder reads a buffer that is neither the parameter nor the data block")
		}
		checkDecl(c, cl, pos)
		c04OptionalCount(c, cl, pos)
		if cl.andx {
			nAndX++
			first := ""
			ok := false
			if len(cl.decP) > 0 {
				first = cl.decP[0].String()
				if f := cl.decP[0].OffForm; f != nil {
					if k, isK := f.ConstVal(); isK && k.IsInt64() && k.Int64() == 4 {
						ok = true
					}
				}
				if cl.decP[0].Kind == "nested" && strings.Contains(cl.decP[0].Type, "AndX") && !cl.decP[0].Cond {
					if k, isK := cl.decP[0].OffForm.ConstVal(); isK && k.Sign() == 0 {
						ok = true
					}
				}
			}
			if ok {
				r.OK("andx", cl.name, pos, "decoder consumes the 4-byte AndX block before its first field")
			} else {
				r.Fail("andx", cl.name, pos, "Marshal emits the 4-byte AndX block (AndXCommand, AndXReserved, AndXOffset) before the first field but Unmarshal decodes its first field at offset 0 of the parameter words: first decoder atom "+first)
			}
		}
	}
	r.Floor("andx", 16)
	r.Extra["andx_commands"] = nAndX
	r.Extra["layout_samples"] = samples
}

// foldIndexed turns runs F[0], F[1], … F[n-1] of identical shape into one
// repeat{F[*]} atom, so that a literal and a loop compare equal.
func foldIndexed(as []codec.Atom) []codec.Atom {
	var out []codec.Atom
	for i := 0; i < len(as); {
		a := as[i]
		if strings.HasSuffix(a.Field, "[0]") && a.Kind != "repeat" {
			base := strings.TrimSuffix(a.Field, "[0]")
			j := i
			for j < len(as) && as[j].Field == fmt.Sprintf("%s[%d]", base, j-i) && as[j].Kind == a.Kind && as[j].Width == a.Width && as[j].Order == a.Order {
				j++
			}
			if j-i >= 2 {
				el := a
				el.Field = base + "[*]"
				el.Cond = false
				out = append(out, codec.Atom{Kind: "repeat", Over: fmt.Sprint(j - i), Body: []codec.Atom{el}, Cond: a.Cond, Pos: a.Pos})
				i = j
				continue
			}
		}
		if a.Kind == "repeat" {
			a.Body = foldIndexed(a.Body)
			for k := range a.Body {
				a.Body[k].Cond = false
			}
		}
		out = append(out, a)
		i++
	}
	return out
}

// normalise brings both directions to one canonical form: indexed runs folded
// into repeats, adjacent constants merged, and a decoder atom that scans for a
// terminator (GetNullTerminated*String) expanded into bytes + the terminator.
func normalise(as []codec.Atom) []codec.Atom {
	var exp []codec.Atom
	for _, a := range as {
		if a.Kind == "bytes" && strings.HasPrefix(a.Expr, "via ") {
			term := 0
			switch {
			case strings.Contains(a.Expr, "GetNullTerminatedUnicodeString"):
				term = 2
			case strings.Contains(a.Expr, "GetNullTerminatedString"):
				term = 1
			}
			if term > 0 {
				b := a
				b.Expr, b.WidthStr = "", ""
				exp = append(exp, b, codec.Atom{Kind: "const", Width: term, Expr: strings.TrimSpace(strings.Repeat("0 ", term)), Cond: a.Cond})
				continue
			}
		}
		exp = append(exp, a)
	}
	var out []codec.Atom
	for _, a := range foldIndexed(exp) {
		// the N single bytes of a byte-array field, one by one, are that field's N bytes
		if n, err := strconv.Atoi(a.Over); a.Kind == "repeat" && err == nil && len(a.Body) == 1 && a.Body[0].Kind == "fixed" && a.Body[0].Width == 1 && strings.HasSuffix(a.Body[0].Field, "[*]") {
			a = codec.Atom{Kind: "bytes", Field: strings.TrimSuffix(a.Body[0].Field, "[*]"), Width: n, Cond: a.Cond, Pos: a.Pos}
		}
		if a.Kind == "const" && len(out) > 0 && out[len(out)-1].Kind == "const" && out[len(out)-1].Cond == a.Cond {
			p := &out[len(out)-1]
			p.Width += a.Width
			p.Expr += " " + a.Expr
			continue
		}
		out = append(out, a)
	}
	return out
}

// declExempt: declared fields that are bookkeeping, not wire fields of the
// parameter/data blocks (one line of reason each).
var declExempt = map[string]string{
	"NegotiateRequest.WordCount": "mirrors the count byte of the parameter block, which Parameters itself emits",
}

// compareLayouts: same atoms in the same order.
func compareLayouts(c *Ctx, rule, key, pos string, enc, dec []codec.Atom) {
	r := c.R
	// an atom whose source or destination could not be named (bytes produced by
	// an un-followed helper, a loop over something that is not a field) means the
	// layout is only partly traced: nothing is compared
	if why := untraced(enc, true); why != "" {
		c.NotDecided(rule, key, pos, "encoder "+why)
		return
	}
	if why := untraced(dec, false); why != "" {
		c.NotDecided(rule, key, pos, "decoder "+why)
		return
	}
	enc, dec = normalise(enc), normalise(dec)
	n := len(enc)
	if len(dec) > n {
		n = len(dec)
	}
	for i := 0; i < n; i++ {
		var es, ds string
		if i < len(enc) {
			es = atomSig(enc[i])
		} else {
			es = "(nothing)"
		}
		if i < len(dec) {
			ds = atomSig(dec[i])
		} else {
			ds = "(nothing)"
		}
		if es != ds && i < len(enc) && i < len(dec) && enc[i].Kind == "bytes" && dec[i].Kind == "bytes" && enc[i].Field == dec[i].Field && (enc[i].Width == 0 || dec[i].Width == 0) {
			// a variable-length byte field on one side and a fixed window on the other: widths are
			// compatible whenever the value's length equals the window (consistency precondition)
			ds = es
		}
		if es != ds && i < len(enc) && i < len(dec) && enc[i].Kind == "fixed" && dec[i].Kind == "fixed" && enc[i].Field == "" && dec[i].Field != "" &&
			enc[i].Width == dec[i].Width && enc[i].Order == dec[i].Order && strings.HasPrefix(enc[i].Expr, "len(") && strings.HasSuffix(enc[i].Expr, ")") {
			// the encoder writes len(X) itself rather than a field it has just set to len(X): the same
			// slot, provided the decoder uses what it reads there as the length of X
			x := enc[i].Expr[4 : len(enc[i].Expr)-1]
			for _, d := range dec {
				if d.Kind == "bytes" && d.Field == x && d.WidthStr == dec[i].Field {
					ds = es
				}
			}
		}
		if es != ds {
			r.Fail(rule, key, pos, fmt.Sprintf("atom #%d: encoder [%s] vs decoder [%s]", i, es, ds))
			return
		}
		// a zero-length guard around a variable-length atom (if n > 0 { read n bytes }) is harmless;
		// optionality matters for fixed-width and nested atoms
		if i < len(enc) && i < len(dec) && enc[i].Cond != dec[i].Cond && enc[i].Kind != "bytes" && enc[i].Kind != "repeat" {
			r.Fail(rule, key, pos, fmt.Sprintf("atom #%d %s: conditional on one side only (encoder cond=%v, decoder cond=%v)", i, es, enc[i].Cond, dec[i].Cond))
			return
		}
	}
	r.OK(rule, key, pos, fmt.Sprintf("%d atoms agree: %s", len(enc), codec.Render(enc)))
}

// checkContig: decoder offsets are the running sum of the widths before them.
func checkContig(c *Ctx, key, pos string, dec []codec.Atom, start int) {
	r := c.R
	if len(dec) == 0 {
		return
	}
	type run struct {
		off   string
		known bool
	}
	var prev *codec.Atom
	for i := range dec {
		a := &dec[i]
		if a.Kind == "repeat" {
			prev = nil // loop-carried offset: checked by the bounds prover, not here
			continue
		}
		if a.OffForm == nil {
			prev = nil
			continue
		}
		if i == 0 {
			k, isK := a.OffForm.ConstVal()
			if !isK || !k.IsInt64() || (int(k.Int64()) != start && int(k.Int64()) != 0) {
				r.Fail("contig", key, pos, fmt.Sprintf("first atom %s starts at %s, expected %d", a.Field, a.Off, start))
				return
			}
			prev = a
			continue
		}
		if prev != nil && prev.OffForm != nil {
			wf, ok := widthForm(prev)
			if ok {
				exp := prev.OffForm.Add(wf)
				if !exp.Equal(*a.OffForm) && !provedEqual(a, exp) {
					r.Fail("contig", key, pos, fmt.Sprintf("%s starts at offset %s but %s ended at %s+%s", a.Field, a.Off, prev.Field, prev.Off, widthStr(prev)))
					return
				}
			}
		}
		prev = a
	}
	r.OK("contig", key, pos, "each field starts where the previous one ended")
}

func widthStr(a *codec.Atom) string {
	if a.Width > 0 {
		return fmt.Sprint(a.Width)
	}
	return a.WidthStr
}

func checkDecl(c *Ctx, cl *cmdLayout, pos string) {
	r := c.R
	fields := wireFields(cl.nt)
	for _, dir := range []struct {
		name string
		as   []codec.Atom
	}{{"encode", append(append([]codec.Atom{}, cl.encP...), cl.encD...)}, {"decode", append(append([]codec.Atom{}, cl.decP...), cl.decD...)}} {
		key := cl.name + " " + dir.name
		var seq []string
		widths := map[string]int{}
		for _, a := range flatten(dir.as) {
			if a.Field == "" || (cl.andx && a.Field == "AndX") {
				continue
			}
			bf := baseField(a.Field)
			if len(seq) == 0 || seq[len(seq)-1] != bf {
				seq = append(seq, bf)
			}
			if a.Kind == "fixed" {
				if strings.ContainsAny(a.Field, "[") {
					widths[bf] = -1 // element-wise: width checked per element below
					st := cl.nt.Underlying().(*types.Struct)
					for i := 0; i < st.NumFields(); i++ {
						if st.Field(i).Name() == bf {
							var el types.Type
							switch u := st.Field(i).Type().Underlying().(type) {
							case *types.Array:
								el = u.Elem()
							case *types.Slice:
								el = u.Elem()
							}
							if el != nil && typeWidth(el) != a.Width {
								r.Fail("decl", key+" "+bf, pos, fmt.Sprintf("element of %s is %d bytes wide on the wire, its declared type %s is %d", bf, a.Width, types.TypeString(el, nil), typeWidth(el)))
							}
						}
					}
				} else {
					widths[bf] += a.Width
				}
			}
		}
		var want []string
		for _, f := range fields {
			if _, ex := declExempt[cl.name+"."+f.Name()]; ex {
				continue
			}
			want = append(want, f.Name())
		}
		if strings.Join(seq, ",") != strings.Join(want, ",") {
			r.Fail("decl", key, pos, fmt.Sprintf("fields on the wire [%s] differ from the declared wire fields [%s]", strings.Join(seq, ","), strings.Join(want, ",")))
		} else {
			r.OK("decl", key, pos, fmt.Sprintf("all %d wire fields, once each, in declaration order", len(want)))
		}
		for _, f := range fields {
			tw := typeWidth(f.Type())
			if w, ok := widths[f.Name()]; ok && w > 0 && tw > 0 && w != tw {
				r.Fail("decl", key+" "+f.Name(), pos, fmt.Sprintf("%s occupies %d bytes on the wire, its declared type %s is %d bytes", f.Name(), w, types.TypeString(f.Type(), nil), tw))
			}
		}
	}
}

func widthForm(a *codec.Atom) (lin.Form, bool) {
	if a.Kind == "fixed" && a.Width > 0 {
		return lin.K(int64(a.Width)), true
	}
	if a.WidthForm != nil {
		return *a.WidthForm, true
	}
	return lin.Form{}, false
}

// fixedConsumed: the constant byte count a (n int, err error) decoder returns
// on every success return, if there is one.
func fixedConsumed(fn *ssa.Function) (int, bool) {
	if fn == nil || fn.Blocks == nil {
		return 0, false
	}
	val, have := 0, false
	for _, b := range fn.Blocks {
		ret, ok := b.Instrs[len(b.Instrs)-1].(*ssa.Return)
		if !ok || len(ret.Results) != 2 {
			continue
		}
		if k, isK := ret.Results[1].(*ssa.Const); !isK || k.Value != nil {
			continue // error return
		}
		k, isK := ret.Results[0].(*ssa.Const)
		if !isK || k.Value == nil {
			return 0, false
		}
		n, _ := strconv.Atoi(k.Value.ExactString())
		if have && n != val {
			return 0, false
		}
		val, have = n, true
	}
	return val, have
}

// provedEqual: the atom's offset equals exp in the proof context of the
// instruction that consumes it (needed when the offset is a loop's exit value).
func provedEqual(a *codec.Atom, exp lin.Form) bool {
	if a.FI == nil || a.At == nil || a.OffForm == nil {
		return false
	}
	cx := a.FI.CtxBefore(a.At)
	return cx.Prove(lin.GE(*a.OffForm, exp)) && cx.Prove(lin.LE(*a.OffForm, exp))
}

// incompleteCodec: why the encoder's or decoder's extraction is incomplete ("" if complete).
func incompleteCodec(w *prove.World, m, u *ssa.Function) string {
	if m != nil {
		if why := codec.NewExt(w, m).Incomplete(); why != "" {
			return "Marshal: " + why
		}
	}
	if u != nil {
		if why := codec.NewExt(w, u).Incomplete(); why != "" {
			return "Unmarshal: " + why
		}
	}
	return ""
}

// untraced: some atom of the layout has no identifiable field/expression.
func untraced(as []codec.Atom, isEnc bool) string {
	for _, a := range as {
		switch a.Kind {
		case "repeat":
			if a.Over == "" || (isEnc && strings.ContainsAny(a.Over, "()")) {
				return "repeats over something that is not a receiver field: " + a.String()
			}
			if why := untraced(a.Body, isEnc); why != "" {
				return why
			}
		case "fixed", "bytes":
			if a.Field == "" && a.Expr == "" {
				return "emits/reads bytes whose field could not be traced: " + a.String()
			}
		}
	}
	return ""
}
