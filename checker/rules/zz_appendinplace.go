package rules

import (
	"fmt"
	"go/types"
	"strings"

	"golang.org/x/tools/go/ssa"
)

// Shared rule `append-in-place` (added after an independently seeded change —
// SMB_STRING.Marshal producing its NUL terminator with append(s.Buffer, 0x00) —
// was missed): an encoder must not append onto a slice FIELD of its receiver
// unless it stores the result back into that field. append writes into the
// field's backing array when it has spare capacity; the array may be shared
// with the caller (adjacent sub-slices of one buffer), so encoding one value
// silently overwrites its neighbour, and the emitted bytes of the neighbour
// change. Applies to the Marshal/ToBytes/GetBytes* methods of the wire types
// and commands (C04, C05 via the shared types, C06).
var appendScopes = map[string][]string{
	"C04": {"network/smb/smb_v10/message/commands", "network/smb/smb_v10/message/commands/andx"},
	"C05": {"network/smb/smb_v10/types", "network/smb/smb_v10/dialects", "network/smb/smb_v10/message/commands/andx"},
	"C06": {"network/smb/smb_v10/types", "network/smb/smb_v10/message/parameters", "network/smb/smb_v10/message/data", "network/smb/smb_v10/message/commands/andx", "network/smb/smb_v10/spnego/ntlm/version", "windows/ms_dtyp/common/data_structures"},
}

func init() {
	for id, pk := range appendScopes {
		ck := registry[id]
		if ck == nil {
			continue
		}
		orig := ck.Run
		scope := map[string]bool{}
		for _, q := range pk {
			scope[q] = true
		}
		ck.Run = func(c *Ctx) {
			orig(c)
			appendInPlace(c, scope)
			c.R.Explanation += " Shared rule `append-in-place`: no encoder method (Marshal/ToBytes/GetBytes*) of this property's packages appends onto a slice field of its receiver without storing the result back into that field (append may write into a backing array shared with the caller)."
		}
	}
}

func appendInPlace(c *Ctx, scope map[string]bool) {
	const rule = "append-in-place"
	p, r := c.P, c.R
	n := 0
	for _, fn := range p.SrcFuncs() {
		if !scope[relPkg(p, fn)] || fn.Blocks == nil || fn.Signature.Recv() == nil || len(fn.Params) == 0 {
			continue
		}
		nm := fn.Name()
		if !(nm == "Marshal" || nm == "ToBytes" || strings.HasPrefix(nm, "GetBytes") || nm == "GetParameters" || nm == "GetData") {
			continue
		}
		recv := fn.Params[0]
		var bad []string
		sites := 0
		for _, b := range fn.Blocks {
			for _, in := range b.Instrs {
				call, ok := in.(*ssa.Call)
				if !ok {
					continue
				}
				bi, ok := call.Call.Value.(*ssa.Builtin)
				if !ok || bi.Name() != "append" || len(call.Call.Args) < 2 {
					continue
				}
				base := call.Call.Args[0]
				for {
					if cv, isC := base.(*ssa.ChangeType); isC {
						base = cv.X
						continue
					}
					break
				}
				ld, ok := base.(*ssa.UnOp)
				if !ok {
					continue
				}
				fa, ok := ld.X.(*ssa.FieldAddr)
				if !ok || !derivesFromRecv(fa.X, recv) {
					continue
				}
				if _, isSlice := ld.Type().Underlying().(*types.Slice); !isSlice {
					continue
				}
				sites++
				// stored back into the same field?
				back := false
				if call.Referrers() != nil {
					for _, rr := range *call.Referrers() {
						if st, isSt := rr.(*ssa.Store); isSt && st.Val == ssa.Value(call) {
							if fa2, isFA := st.Addr.(*ssa.FieldAddr); isFA && fa2.Field == fa.Field && addrKeyOf(fa2.X) == addrKeyOf(fa.X) {
								back = true
							}
						}
					}
				}
				if !back {
					stt, _ := derefType(fa.X.Type()).Underlying().(*types.Struct)
					fname := "?"
					if stt != nil {
						fname = stt.Field(fa.Field).Name()
					}
					bad = append(bad, fmt.Sprintf("append(%s, …) at %s is not stored back into %s", fname, p.Rel(call.Pos()), fname))
				}
			}
		}
		n++
		construct := p.FuncName(fn) + ": no append onto a receiver field's backing array"
		if len(bad) > 0 {
			r.Fail(rule, construct, p.Rel(fn.Pos()), strings.Join(bad, "; ")+": when the field has spare capacity the appended bytes land in its backing array, which the caller may share with other values")
		} else {
			r.OK(rule, construct, p.Rel(fn.Pos()), fmt.Sprintf("%d append(s) onto receiver fields, all stored back", sites))
		}
	}
	r.Extra["append_in_place_encoders"] = n
}

func derivesFromRecv(v ssa.Value, recv ssa.Value) bool {
	for d := 0; d < 6; d++ {
		if v == recv {
			return true
		}
		switch x := v.(type) {
		case *ssa.FieldAddr:
			v = x.X
		case *ssa.UnOp:
			v = x.X
		case *ssa.Alloc:
			// a value receiver spilled into a local
			if x.Referrers() != nil {
				for _, r := range *x.Referrers() {
					if st, ok := r.(*ssa.Store); ok && st.Addr == ssa.Value(x) && st.Val == recv {
						return true
					}
				}
			}
			return false
		default:
			return false
		}
	}
	return false
}
