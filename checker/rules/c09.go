package rules

import (
	"fmt"
	"strings"

	"golang.org/x/tools/go/ssa"

	"manticheck/internal/prove"
	"manticheck/internal/wire"
)

func init() { register(&Check{ID: "C09", NeedSSA: true, Run: runC09}) }

const llmnrPkg = "network/llmnr"

// llmnrSections: (count field of Header, section slice of Message, element codec pair).
var llmnrSections = []struct{ count, sec, enc, dec string }{
	{"QDCount", "Questions", "EncodeQuestion", "DecodeQuestion"},
	{"ANCount", "Answers", "EncodeResourceRecord", "DecodeResourceRecord"},
	{"NSCount", "Authority", "EncodeResourceRecord", "DecodeResourceRecord"},
	{"ARCount", "Additional", "EncodeResourceRecord", "DecodeResourceRecord"},
}

// RFC 1035 §4.1.1 header order (LLMNR re-uses it, RFC 4795 §2.1.1).
var dnsHeaderOrder = []string{"ID", "Flags", "QDCount", "ANCount", "NSCount", "ARCount"}

var c09RTSpec = wRTSpec{
	prop: "C09", pkg: llmnrPkg, msgType: "Message", hdrField: "Header", hdrType: "Header",
	hdrWords: dnsHeaderOrder, counts: []string{"QDCount", "ANCount", "NSCount", "ARCount"},
	secs:  []string{"Questions", "Answers", "Authority", "Additional"},
	qType: "Question", rrType: "ResourceRecord", rdata: "RData", rdlen: "RDLength", nameFld: "Name",
	encRecv: "Message", encName: "Encode", decRecv: "", decName: "DecodeMessage", decIsMethod: false,
	nameEnc: [2]string{"", "EncodeDomainName"}, nameDec: [2]string{"", "DecodeDomainName"}, nameIsPtr: false,
}

func runC09(c *Ctx) {
	p, r := c.P, c.R
	r.Explanation = "C09 LLMNR codec, decided structurally on go/ssa with internal/wire (encoder layouts read backwards from the returned slice with flow-sensitive scratch-buffer contents; decoder layouts read forwards from every read of the input buffer, with symbolic [start,end) extents over the cursor). " +
		"R1 `sym`: EncodeQuestion⇄DecodeQuestion, EncodeResourceRecord⇄DecodeResourceRecord and Message.Encode⇄DecodeMessage list the same fields in the same order with the same widths and helper pairs (one obligation per atom); `order`: every multi-byte integer is big-endian on both sides; `count`: each decoder consumes its fields contiguously from the cursor it is given, loop cursors advance by exactly what the body read, sections follow the 12-byte header and each other without gap, and the returned new offset is the end of the last read; `guard`: every length check on the success path establishes exactly the end of the reads it protects (offset+4, offset+10, offset+RDLENGTH, HeaderSize); `spec`: the header is the six 16-bit words of RFC 1035 §4.1.1 in order; `length`: RDLENGTH on the wire is len(RData) in the encoder and the width of the RData read in the decoder. " +
		"R2 `sections`: for (QDCount,Questions), (ANCount,Answers), (NSCount,Authority), (ARCount,Additional): Encode derives the count from len(section) AND ranges over that section emitting each element with the element encoder; DecodeMessage stores the count AND has a loop bounded by it that appends the element decoder's result to that section; sections appear in RFC order. " +
		"R3 `names`: the byte(len(label)) narrowing in EncodeDomainName is dominated by a guard that admits exactly lengths <= MaxLabelLength (E1 proof of <= 63, and 62 must not be provable); MaxLabelLength=63, labelPointer=0xC0 and the pointer mask 0x3FFF are mutually consistent (mask = 0xFFFF ^ tag<<8, no legal length carries tag bits) and used in the tag test ((b & tag) == tag), the mask, ValidateDomainName and the encoder; the decoder's label read starts after its length byte and is as long as it says, the cursor advances to its end, the terminator consumes 1 byte and a pointer 2 bytes (big-endian, read at the length byte's position); the recursive call through a compression pointer is guarded so that pointer < start (E1), i.e. strictly backwards. " +
		"COMPLETENESS BEFORE VERDICT: a layout is compared only when it was read completely. When the output buffer, the input buffer (or a re-slice of it) or the bytes of a field pass through code internal/wire did not read — an in-module helper or closure it could not analyse at the call site, a method of a cursor type that keeps more state than the unread tail, a value returned through variables (range-over-func bodies), an SSA shape it does not parse — the clauses that depend on that layout are reported NOT DECIDED (discharged, with a note), never as a mismatch, and count as present for the floors; then the whole-message pair is decided instead by `roundtrip`: Encode and DecodeMessage are interpreted over the bit-lane domain (internal/absint, nothing is executed) on one message with 2/1/3/4 entries whose integer fields are symbolic, and every field must come back bit for bit, the header words must be the RFC words in order and every multi-byte field big-endian. A violation is only reported for a construct that was positively observed. " +
		"R3 decoder shapes: a compression pointer may be followed by a call of DecodeDomainName (in the function or in a helper such as decodeNamePointer(data, at, start), proved `pointer < offset` through the chain of calls) or by a jump of the label loop's cursor (proved by a lexicographic ranking: a loop variable that strictly decreases and stays >= 0 at every jump and is unchanged while labels are read, the cursor advancing there); the offset returned after a pointer may be kept in a set-once variable (`if end < 0 { end = curr + 2 }`). " +
		"NOT decided: agreement with an independent RFC 1035 codec (total name length <= 255 on decode, label types 0x40/0x80, text form of the root name, empty labels in the encoder), value-level round trip of names (strings.Split/Join), and that the element codecs are applied to equal values (only the structure is compared)."
	r.Assumptions = []string{
		"go/types + go/ssa (x/tools v0.50.0) are faithful to the source",
		"encoding/binary PutUintN/UintN/AppendUintN have their documented byte layouts",
		"decoder offset arithmetic does not overflow int (proved separately by C07)",
		"append(s, b...) appends exactly the bytes of b",
	}
	w := prove.NewWorld(p)
	wSetUnits(c, llmnrPkg, [2]string{"", "EncodeQuestion"}, [2]string{"", "DecodeQuestion"}, [2]string{"", "EncodeResourceRecord"}, [2]string{"", "DecodeResourceRecord"},
		[2]string{"Message", "Encode"}, [2]string{"", "DecodeMessage"}, [2]string{"", "EncodeDomainName"}, [2]string{"", "DecodeDomainName"}, [2]string{"", "ValidateDomainName"})

	encQ := wEncoder(c, w, llmnrPkg, "", "EncodeQuestion")
	decQ := wDecoder(c, w, llmnrPkg, "", "DecodeQuestion")
	encRR := wEncoder(c, w, llmnrPkg, "", "EncodeResourceRecord")
	decRR := wDecoder(c, w, llmnrPkg, "", "DecodeResourceRecord")
	encM := wEncoder(c, w, llmnrPkg, "Message", "Encode")
	decM := wDecoder(c, w, llmnrPkg, "", "DecodeMessage")
	encN := wEncoder(c, w, llmnrPkg, "", "EncodeDomainName")
	decN := wAnchor(c, w, llmnrPkg, "", "DecodeDomainName")
	valN := wAnchor(c, w, llmnrPkg, "", "ValidateDomainName")
	r.Floor("anchor", 9)
	r.Floor("extract", 7)

	pairs := wPairs{}
	addPair := func(e, d *wcodec) {
		if e != nil && d != nil {
			pairs[e.fn] = d.fn
		}
	}
	addPair(encQ, decQ)
	addPair(encRR, decRR)
	addPair(encN, decN)

	layouts := map[string]string{}
	// ---- R1 ----------------------------------------------------------------
	for _, pr := range []struct {
		what       string
		e, d       *wcodec
		nSym, nOrd int // instances the pair contributes to `sym` / each side to `order`
	}{{"EncodeQuestion⇄DecodeQuestion", encQ, decQ, 3, 2}, {"EncodeResourceRecord⇄DecodeResourceRecord", encRR, decRR, 6, 4}, {"Message.Encode⇄DecodeMessage", encM, decM, 8, 6}} {
		if pr.e == nil || pr.d == nil {
			r.Undecided("sym", pr.what, "", "one side could not be extracted")
			continue
		}
		layouts[pr.e.label()] = wire.Render(pr.e.enc)
		layouts[pr.d.label()] = wire.Render(pr.d.dec.Atoms)
		c.guard("sym", pr.what, pr.d.pos, func() {
			if why := wPairIncomplete(pr.e, pr.d); why != "" {
				wND(c, "sym", pr.what, pr.d.pos, why, pr.nSym)
			} else {
				wCompare(c, "sym", pr.what, pr.d.pos, pr.e, pr.d, pr.e.enc, pr.d.dec.Atoms, pairs)
			}
			if pr.e.incomplete != "" {
				wND(c, "order", pr.e.label()+" encoder", pr.e.pos, pr.e.incomplete, pr.nOrd)
			} else {
				wOrder(c, pr.e, pr.e.enc, "encoder")
			}
			if pr.d.incomplete != "" {
				wND(c, "order", pr.d.label()+" decoder", pr.d.pos, pr.d.incomplete, pr.nOrd)
				wND(c, "count", pr.d.label()+": reads are contiguous and the cursor ends at the last read", pr.d.pos, pr.d.incomplete, 1)
				wND(c, "guard", pr.d.label()+": each length check establishes exactly the end of the reads it protects", pr.d.pos, pr.d.incomplete, 1)
			} else {
				wCheckDec(c, pr.d)
				wOrder(c, pr.d, pr.d.dec.Atoms, "decoder")
			}
		})
	}
	if encM != nil && decM != nil {
		// the lane round trip of a whole message goes through the element codecs
		// too: it stands in for any of the three pairs that was not decided
		var whys []string
		for _, pr := range [][2]*wcodec{{encQ, decQ}, {encRR, decRR}, {encM, decM}} {
			if pr[0] != nil && pr[1] != nil {
				if w := wPairIncomplete(pr[0], pr[1]); w != "" {
					whys = append(whys, w)
				}
			}
		}
		if why := wRTWanted(strings.Join(whys, "; ")); why != "" {
			c.guard(wRTRule, "Message", decM.pos, func() { wRoundTrip(c, c09RTSpec, why) })
		}
	}
	r.Floor("sym", 3+6+8) // 3+6+10 once Authority/Additional are encoded and decoded
	r.Floor("order", 2*(2+4+6))
	r.Floor("count", 3)
	r.Floor("guard", 3)

	// length: RDLENGTH
	if encRR != nil && decRR != nil {
		c.guard("length", "RDLength", encRR.pos, func() { c09Length(c, encRR, decRR) })
	}
	r.Floor("length", 2)

	// spec: header order and HeaderSize
	if encM != nil && decM != nil {
		c.guard("spec", "header", encM.pos, func() { c09Header(c, encM, decM) })
	}
	r.Floor("spec", 13)

	// ---- R2 ----------------------------------------------------------------
	if encM != nil && decM != nil {
		c.guard("sections", "Message", encM.pos, func() { c09Sections(c, encM, decM) })
	}
	r.Floor("sections", 18)

	// ---- R3 ----------------------------------------------------------------
	if encN != nil && decN != nil && valN != nil {
		layouts["EncodeDomainName"] = wire.Render(encN.enc)
		c.guard("names", "domain names", encN.pos, func() { c09Names(c, w, encN, decN, valN, layouts) })
	}
	// 4 constants, 3 encoder clauses, 8 decoder clauses; the length-limit guards
	// found in ValidateDomainName / EncodeDomainName come on top (they may be
	// merged into one shared check, so they are not part of the floor)
	r.Floor("names", 15)

	r.Extra["layouts"] = layouts
	r.Extra["functions_analysed"] = []string{"EncodeQuestion", "DecodeQuestion", "EncodeResourceRecord", "DecodeResourceRecord", "Message.Encode", "DecodeMessage", "EncodeDomainName", "DecodeDomainName", "ValidateDomainName"}
	r.Extra["codec_pairs"] = 4
	r.Extra["sections_table"] = []string{"QDCount↔Questions (EncodeQuestion/DecodeQuestion)", "ANCount↔Answers", "NSCount↔Authority", "ARCount↔Additional (EncodeResourceRecord/DecodeResourceRecord)"}
	r.Extra["idioms_round2"] = "encoders: one pre-sized header written by PutUintN(buf[2*i:], w) in a loop over a constant table (unrolled writes), strings.Builder / bytes.Buffer accumulation (Write, WriteByte, WriteString), single bytes byte(v>>8), byte(v) merged into one big-/little-endian field; decoders: re-sliced tails (len(data[off:]) guards, copy(dst, tail) extents), (T, error) peek helpers, cursor types whose only state is the unread tail (take/name/records methods analysed at their call sites, windows returned by take), bytes assembled with shifts and ors; names: iterative pointer following, pointer resolution in a helper"
	r.Extra["idioms"] = "encoders: append chains, AppendUintN, scratch buffers re-used across PutUintN/append (flow-sensitive), fixed-offset writes into a make, by-value subjects, range loops, in-module `put` helpers and section helpers func(buf, records) ([]byte, error) analysed at their call sites, loops over constant tables of fields/sections (unrolled), one run-time-sized buffer filled at computed offsets, slices.Concat; decoders: UintN(data[off:]) / data[i] / data[a:b] / copy / bytes.Clone, (value, newOffset, err) helpers (codec units compared as a whole, other helpers — including loops over a section — analysed at their call sites), loop φ cursors (header- or latch-tested, range-over-int), cursors captured by closures, per-section closures, in-module `get` helpers"
}

// c09Length: the length field that frames RData.
func c09Length(c *Ctx, enc, dec *wcodec) {
	r := c.R
	// encoder: the atom before RData carries len(RData)
	ea := enc.enc
	okE := false
	if enc.incomplete != "" {
		wND(c, "length", "EncodeResourceRecord: RDLENGTH = len(RData)", enc.pos, enc.incomplete, 1)
		okE, ea = true, nil
	}
	for i := 0; i+1 < len(ea); i++ {
		if ea[i+1].Kind == "bytes" && ea[i+1].Field == "RData" {
			if ea[i].Kind == "fixed" && ea[i].Expr == "len(RData)" {
				okE = true
				r.OK("length", "EncodeResourceRecord: RDLENGTH = len(RData)", enc.pos, fmt.Sprintf("the %d-byte field before RData carries len(RData)", ea[i].Width))
			} else {
				r.Fail("length", "EncodeResourceRecord: RDLENGTH = len(RData)", enc.pos, fmt.Sprintf("the field emitted before RData is [%s], not len(RData): a record whose RDLength field disagrees with its data is framed wrongly", ea[i].String()))
				okE = true
			}
		}
	}
	if !okE {
		r.Undecided("length", "EncodeResourceRecord: RDLENGTH = len(RData)", enc.pos, "no RData atom preceded by a length field in the encoder layout")
	}
	da := dec.dec.Atoms
	okD := false
	if dec.incomplete != "" {
		wND(c, "length", "DecodeResourceRecord: RData is RDLENGTH bytes", dec.pos, dec.incomplete, 1)
		okD, da = true, nil
	}
	for i := 0; i < len(da); i++ {
		if da[i].Kind != "bytes" || da[i].Field != "RData" || da[i].Off == nil || da[i].End == nil {
			continue
		}
		okD = true
		wv, single := da[i].End.Sub(*da[i].Off).Single()
		var src *wire.Atom
		for j := 0; j < i; j++ {
			if single && da[j].Val == wv {
				src = &da[j]
			}
		}
		if src != nil && src.Field == "RDLength" {
			r.OK("length", "DecodeResourceRecord: RData is RDLENGTH bytes", dec.pos, "width of the RData read is the value read into RDLength")
		} else {
			r.Fail("length", "DecodeResourceRecord: RData is RDLENGTH bytes", dec.pos, "the RData read has width "+dec.x.SymString(da[i].End.Sub(*da[i].Off))+", which is not the value read into RDLength")
		}
	}
	if !okD {
		r.Undecided("length", "DecodeResourceRecord: RData is RDLENGTH bytes", dec.pos, "no RData read with a determinable extent")
	}
}

// c09Header: six 16-bit words in RFC order on both sides; HeaderSize = 12.
func c09Header(c *Ctx, enc, dec *wcodec) {
	r := c.R
	hs, okHS := wConst(c, llmnrPkg, "HeaderSize")
	for _, side := range []struct {
		k     *wcodec
		atoms []wire.Atom
		name  string
	}{{enc, enc.enc, "Message.Encode"}, {dec, dec.dec.Atoms, "DecodeMessage"}} {
		sum := 0
		if side.k.incomplete != "" {
			wND(c, "spec", side.name+": header words", side.k.pos, side.k.incomplete, len(dnsHeaderOrder))
			continue
		}
		for i, f := range dnsHeaderOrder {
			key := fmt.Sprintf("%s: header word %d is %s", side.name, i, f)
			if i >= len(side.atoms) {
				r.Fail("spec", key, side.k.pos, "the layout has fewer than six header fields")
				continue
			}
			a := side.atoms[i]
			if a.Kind == "fixed" && a.Width == 2 && a.Field == "Header."+f {
				r.OK("spec", key, c.P.Rel(a.Pos), "16-bit "+f)
				sum += 2
			} else {
				r.Fail("spec", key, c.P.Rel(a.Pos), fmt.Sprintf("RFC 1035 §4.1.1 has the 16-bit %s as header word %d; %s has [%s] there", f, i, side.name, a.String()))
				sum += a.Width
			}
		}
		_ = sum
	}
	if !okHS {
		r.Undecided("spec", "HeaderSize", "", "constant HeaderSize does not resolve")
	} else if hs == int64(2*len(dnsHeaderOrder)) {
		r.OK("spec", "HeaderSize = 12", "", "HeaderSize equals the six 16-bit header words")
	} else {
		r.Fail("spec", "HeaderSize = 12", "", fmt.Sprintf("HeaderSize is %d; the header is six 16-bit words = 12 bytes (DecodeMessage starts the question section at HeaderSize)", hs))
	}
}

// c09Sections: R2.
func c09Sections(c *Ctx, enc, dec *wcodec) {
	r := c.R
	msg := wStructFields(c, llmnrPkg, "Message")
	hdr := wStructFields(c, llmnrPkg, "Header")
	var encOrder, decOrder []string
	for _, a := range enc.enc {
		if a.Kind == "repeat" {
			encOrder = append(encOrder, a.Over)
		}
	}
	for _, a := range dec.dec.Atoms {
		if a.Kind == "repeat" {
			decOrder = append(decOrder, a.Over)
		}
	}
	var want []string
	for _, s := range llmnrSections {
		want = append(want, s.sec)
		if msg == nil || hdr == nil || msg[s.sec] == nil || hdr[s.count] == nil {
			r.Undecided("sections", "Message."+s.sec+" / Header."+s.count, "", "section or count field does not resolve in the struct declarations")
			continue
		}
		cf := "Header." + s.count
		// Encode: count from len(section)
		key := fmt.Sprintf("Message.Encode: %s = len(%s)", s.count, s.sec)
		found := false
		if enc.incomplete != "" {
			wND(c, "sections", "Message.Encode: "+s.sec+" (count and elements)", enc.pos, enc.incomplete, 2)
		}
		if dec.incomplete != "" {
			wND(c, "sections", "DecodeMessage: "+s.sec+" (count and elements)", dec.pos, dec.incomplete, 2)
		}
		if enc.incomplete == "" {
			for _, a := range enc.enc {
				if a.Kind == "fixed" && (a.Field == cf || (a.Field == "" && a.Expr == "len("+s.sec+")")) {
					found = true
					if a.Expr == "len("+s.sec+")" {
						r.OK("sections", key, c.P.Rel(a.Pos), "the emitted count is len("+s.sec+")")
					} else {
						r.Fail("sections", key, c.P.Rel(a.Pos), fmt.Sprintf("the emitted %s is [%s], not len(%s): the count on the wire can disagree with the records that follow", s.count, a.String(), s.sec))
					}
				}
			}
			if !found {
				r.Fail("sections", key, enc.pos, "Encode does not emit "+s.count)
			}
			// Encode: ranges over the section and emits each element
			key = fmt.Sprintf("Message.Encode: emits every element of %s", s.sec)
			found = false
			for _, a := range enc.enc {
				if a.Kind != "repeat" || a.Over != s.sec {
					continue
				}
				found = true
				if len(a.Body) == 1 && a.Body[0].Kind == "nested" && a.Body[0].Field == s.sec+"[*]" && a.Body[0].Callee != nil && a.Body[0].Callee == c.P.Func(llmnrPkg, "", s.enc) && !a.Body[0].Cond {
					r.OK("sections", key, c.P.Rel(a.Pos), "range over "+s.sec+" appending "+s.enc+"(element)")
				} else {
					r.Fail("sections", key, c.P.Rel(a.Pos), "the loop over "+s.sec+" does not append exactly "+s.enc+"(element): "+a.String())
				}
			}
			if !found {
				r.Fail("sections", key, enc.pos, fmt.Sprintf("Encode sets %s from len(%s) in the header but never emits the %s records: a message with one %s record is encoded with %s=1 and no record (any parser, including DecodeMessage after repair, runs off the end)", s.count, s.sec, s.sec, s.sec, s.count))
			}
		}
		if dec.incomplete != "" {
			continue
		}
		// Decode: reads the count
		key = fmt.Sprintf("DecodeMessage: reads %s", s.count)
		found = false
		for _, a := range dec.dec.Atoms {
			if a.Kind == "fixed" && a.Field == cf {
				found = true
			}
		}
		if found {
			r.OK("sections", key, dec.pos, "stored into "+cf)
		} else {
			r.Fail("sections", key, dec.pos, "DecodeMessage does not read "+s.count+" into the header")
		}
		// Decode: loop bounded by the count appending to the section
		key = fmt.Sprintf("DecodeMessage: decodes %s elements into %s", s.count, s.sec)
		found = false
		for _, a := range dec.dec.Atoms {
			if a.Kind != "repeat" || a.Over != s.sec {
				continue
			}
			found = true
			switch {
			case a.Count != cf:
				r.Fail("sections", key, c.P.Rel(a.Pos), fmt.Sprintf("the loop that fills %s is bounded by %s, not by %s", s.sec, a.Count, cf))
			case len(a.Body) == 1 && a.Body[0].Kind == "nested" && a.Body[0].Field == s.sec+"[*]" && a.Body[0].Callee != nil && a.Body[0].Callee == c.P.Func(llmnrPkg, "", s.dec) && !a.Body[0].Cond:
				r.OK("sections", key, c.P.Rel(a.Pos), "loop bounded by "+cf+" appending "+s.dec+"(…) to "+s.sec)
			default:
				r.Fail("sections", key, c.P.Rel(a.Pos), "the loop bounded by "+cf+" does not append exactly one "+s.dec+" result to "+s.sec+": "+a.String())
			}
		}
		if !found {
			// a loop bounded by the right count that fills another section?
			for _, a := range dec.dec.Atoms {
				if a.Kind == "repeat" && a.Count == cf {
					found = true
					r.Fail("sections", key, c.P.Rel(a.Pos), fmt.Sprintf("the loop bounded by %s fills %s instead of %s", cf, a.Over, s.sec))
				}
			}
		}
		if !found {
			r.Fail("sections", key, dec.pos, fmt.Sprintf("DecodeMessage reads %s but has no loop bounded by it: the %s records of a received message are silently dropped (and Validate() then rejects the decoded message because len(%s) != %s)", s.count, s.sec, s.sec, s.count))
		}
	}
	// order of the sections present
	inOrder := func(got []string) bool {
		j := 0
		for _, g := range got {
			for j < len(want) && want[j] != g {
				j++
			}
			if j == len(want) {
				return false
			}
			j++
		}
		return true
	}
	for _, o := range []struct {
		name string
		got  []string
		pos  string
	}{{"Message.Encode", encOrder, enc.pos}, {"DecodeMessage", decOrder, dec.pos}} {
		key := o.name + ": sections in RFC order"
		if (o.name == "Message.Encode" && enc.incomplete != "") || (o.name == "DecodeMessage" && dec.incomplete != "") {
			wND(c, "sections", key, o.pos, "layout not read completely", 1)
			continue
		}
		if inOrder(o.got) {
			r.OK("sections", key, o.pos, strings.Join(o.got, ", "))
		} else {
			r.Fail("sections", key, o.pos, "sections are processed in the order "+strings.Join(o.got, ", ")+"; the wire order is "+strings.Join(want, ", "))
		}
	}
}

// c09Names: R3.
func c09Names(c *Ctx, w *prove.World, enc, decA, val *wcodec, layouts map[string]string) {
	r := c.R
	maxLabel, ok1 := wConst(c, llmnrPkg, "MaxLabelLength")
	maxName, ok2 := wConst(c, llmnrPkg, "MaxDomainLength")
	tag, ok3 := wConst(c, llmnrPkg, "labelPointer")
	if !ok1 || !ok2 || !ok3 {
		r.Undecided("names", "constants", "", "MaxLabelLength / MaxDomainLength / labelPointer do not resolve")
		return
	}
	// constants table
	if maxLabel == 63 {
		r.OK("names", "MaxLabelLength = 63", "", "RFC 1035 §2.3.4")
	} else {
		r.Fail("names", "MaxLabelLength = 63", "", fmt.Sprintf("MaxLabelLength is %d; labels are 1..63 bytes (RFC 1035 §2.3.4): a 6-bit length, the two top bits of the length byte being the label type", maxLabel))
	}
	if tag == 0xC0 {
		r.OK("names", "labelPointer = 0xC0", "", "RFC 1035 §4.1.4")
	} else {
		r.Fail("names", "labelPointer = 0xC0", "", fmt.Sprintf("labelPointer is %#x; a compression pointer is a length byte whose two top bits are set (0xC0)", tag))
	}
	if maxLabel&tag == 0 && maxLabel < 0x40 {
		r.OK("names", "no legal label length carries label-type bits", "", fmt.Sprintf("%d & %#x == 0", maxLabel, tag))
	} else {
		r.Fail("names", "no legal label length carries label-type bits", "", fmt.Sprintf("a label of MaxLabelLength=%d bytes gets a length byte that the decoder's tag test (b&%#x) treats as a pointer or extended label", maxLabel, tag))
	}
	if maxName == 255 {
		r.OK("names", "MaxDomainLength = 255", "", "RFC 1035 §2.3.4")
	} else {
		r.Fail("names", "MaxDomainLength = 255", "", fmt.Sprintf("MaxDomainLength is %d, RFC 1035 limits names to 255 bytes", maxName))
	}

	// --- encoder: narrowing byte(len(label)) is lossless and admits exactly <= 63
	var lenAtom *wire.Atom
	var labelAtom *wire.Atom
	if enc.incomplete != "" {
		wND(c, "names", "EncodeDomainName: byte(len(label)) is guarded by len(label) <= MaxLabelLength", enc.pos, enc.incomplete, 1)
		wND(c, "names", "EncodeDomainName: the length byte is followed by exactly that label", enc.pos, enc.incomplete, 1)
		wND(c, "names", "EncodeDomainName: terminated by a zero length byte", enc.pos, enc.incomplete, 1)
	}
	for _, a := range enc.enc {
		if a.Kind != "repeat" {
			continue
		}
		for i := range a.Body {
			if a.Body[i].Kind == "fixed" && a.Body[i].Width == 1 && a.Body[i].LenOf != nil && i+1 < len(a.Body) {
				lenAtom, labelAtom = &a.Body[i], &a.Body[i+1]
			}
		}
	}
	key := "EncodeDomainName: byte(len(label)) is guarded by len(label) <= MaxLabelLength"
	if enc.incomplete != "" {
	} else if lenAtom == nil {
		r.Undecided("names", key, enc.pos, "no length byte followed by the label bytes in the encoder's loop: "+wire.Render(enc.enc))
	} else {
		at := lenAtom.At
		conv := c09NarrowingOf(lenAtom.Val)
		if ci, ok := conv.(ssa.Instruction); ok {
			at = ci
		}
		le := wProveLenLEDeep(c, w, at, lenAtom.LenOf, maxLabel)
		tooStrict := wProveLE(w, at, lenAtom.LenOf, maxLabel-1, true)
		var whole ssa.Value
		if len(enc.fn.Params) > 0 {
			whole = enc.fn.Params[0] // the name the labels are cut from
		}
		helper := wGuardingHelper(c, at, lenAtom.LenOf, whole)
		switch {
		case !le && helper != nil:
			// the inline check is gone but a validation step runs first: the bound
			// may be established there (value-level reasoning this rule does not do)
			wND(c, "names", key, c.P.Rel(lenAtom.Pos), fmt.Sprintf("len(label) <= %d is not established by the guards of EncodeDomainName itself, but %s is called first and its result decides an early exit: the bound may be established there", maxLabel, helper.Name()), 1)
			r.Note("C09 names: label-length bound NOT DECIDED — validation delegated to %s", helper.Name())
		case !le:
			r.Fail("names", key, c.P.Rel(lenAtom.Pos), fmt.Sprintf("len(label) <= %d is not established where the length is narrowed to one byte: a label of %d bytes (or more) is emitted with a length byte that carries label-type bits / wraps", maxLabel, maxLabel+1))
		case tooStrict:
			r.Fail("names", key, c.P.Rel(lenAtom.Pos), fmt.Sprintf("the guard rejects labels of %d bytes, which are valid", maxLabel))
		default:
			r.OK("names", key, c.P.Rel(lenAtom.Pos), fmt.Sprintf("E1: len(label) <= %d at the conversion; %d not provable", maxLabel, maxLabel-1))
		}
		key = "EncodeDomainName: the length byte is followed by exactly that label"
		if wIsLenPrefix([]wire.Atom{*lenAtom, *labelAtom}, 0, enc.x, false) && labelAtom.Kind == "bytes" {
			r.OK("names", key, c.P.Rel(lenAtom.Pos), "len(label) then label...")
		} else {
			r.Fail("names", key, c.P.Rel(lenAtom.Pos), "the byte emitted before the label bytes is not the length of that label: "+wire.Render(enc.enc))
		}
	}
	// terminator on every success return
	key = "EncodeDomainName: terminated by a zero length byte"
	okTerm := len(enc.encAlts) > 0
	for _, alt := range enc.encAlts {
		n := len(alt.Atoms)
		if n == 0 || alt.Atoms[n-1].Kind != "const" || alt.Atoms[n-1].Expr != "0" || alt.Atoms[n-1].Width != 1 {
			okTerm = false
		}
	}
	if enc.incomplete != "" {
	} else if okTerm {
		r.OK("names", key, enc.pos, fmt.Sprintf("%d success returns end in const 0", len(enc.encAlts)))
	} else {
		r.Fail("names", key, enc.pos, "a success return of EncodeDomainName does not end with the root label (a single zero byte)")
	}

	// guard constants used by ValidateDomainName and EncodeDomainName
	for _, f := range []*wcodec{val, enc} {
		for _, g := range wLenGuards(f.fn) {
			_, isParam := g.of.(*ssa.Parameter)
			want, what := maxLabel, "label"
			if isParam {
				want, what = maxName, "name"
			}
			key := fmt.Sprintf("%s: %s length limit", f.label(), what)
			if g.max == want && g.min == 0 {
				r.OK("names", key, c.P.Rel(g.at.Pos()), fmt.Sprintf("admits lengths <= %d", g.max))
			} else {
				r.Fail("names", key, c.P.Rel(g.at.Pos()), fmt.Sprintf("%s admits %s lengths %d..%d; the limit used everywhere else is %d", f.label(), what, g.min, g.max, want))
			}
		}
	}

	// --- decoder (c09_names.go)
	c09NamesDecoder(c, w, decA, tag, layouts)
}

func symOr(x *wire.X, s *wire.Sym) string {
	if s == nil {
		return "?"
	}
	return x.SymString(*s)
}

// c09NarrowingOf returns the narrowing conversion inside v, if any.
func c09NarrowingOf(v ssa.Value) ssa.Value {
	for {
		cv, ok := v.(*ssa.Convert)
		if !ok {
			return nil
		}
		if _, isCall := cv.X.(*ssa.Call); isCall {
			return cv
		}
		v = cv.X
	}
}
