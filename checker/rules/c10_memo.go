package rules

import (
	"fmt"
	"go/token"
	"go/types"
	"sort"
	"strings"

	"golang.org/x/tools/go/ssa"
)

// C10 extension `memo-key` (added after an independently seeded change — a
// per-packet cache of first-level encoded names keyed by Name alone, so that a
// second record with the same name in another scope is written with the first
// record's scope — stopped being reported once an unreadable encoder shape was
// no longer a violation): a map that memoises the result of an in-module call
// on an object must be keyed by every field of the object the callee reads.
// Positive observation only: the store `m[obj.F] = callee(obj)` is reported
// when the callee (followed two levels through in-module calls on the same
// object) provably reads a field of obj other than F; a callee that hands the
// object to code that is not followed is NOT DECIDED.
func init() {
	ck := registry["C10"]
	if ck == nil {
		return
	}
	orig := ck.Run
	ck.Run = func(c *Ctx) {
		orig(c)
		c10MemoKey(c)
		c.R.Explanation += " Extension MEMO-KEY: in network/netbios no map store m[obj.F] = f(obj) memoises a result of an in-module callee that reads a field of obj other than the key field F (a cache keyed by part of what the cached value depends on)."
	}
}

func c10MemoKey(c *Ctx) {
	const rule = "memo-key"
	p, r := c.P, c.R
	for _, fn := range p.SrcFuncs() {
		if !strings.Contains(relPkg(p, fn), "network/netbios") || fn.Blocks == nil {
			continue
		}
		ord := 0
		for _, b := range fn.Blocks {
			for _, in := range b.Instrs {
				mu, ok := in.(*ssa.MapUpdate)
				if !ok {
					continue
				}
				obj, keyField, ok := c10FieldOf(mu.Key)
				if !ok {
					continue
				}
				call, argIdx := c10CallOn(mu.Value, obj)
				if call == nil {
					continue
				}
				callee := call.Common().StaticCallee()
				if callee == nil || !p.InModule(callee) || callee.Blocks == nil {
					continue
				}
				ord++
				st := c10StructOf(obj.Type())
				construct := fmt.Sprintf("%s: memo store #%d keyed by .%s caches %s", p.FuncName(fn), ord, c10FieldName(st, keyField), callee.Name())
				pos := p.Rel(mu.Pos())
				reads, unknown := map[int]bool{}, ""
				c10FieldsRead(p.InModule, callee, argIdx, reads, &unknown, 0, map[*ssa.Function]bool{})
				var others []string
				for f := range reads {
					if f != keyField {
						others = append(others, c10FieldName(st, f))
					}
				}
				sort.Strings(others)
				switch {
				case len(others) > 0:
					r.Fail(rule, construct, pos, fmt.Sprintf("the cached value is computed by %s, which also reads .%s of the same object, but the map is keyed by .%s alone: a second object with the same .%s and another .%s is given the first one's result", callee.Name(), strings.Join(others, ", ."), c10FieldName(st, keyField), c10FieldName(st, keyField), others[0]))
				case unknown != "":
					c.NotDecided(rule, construct, pos, "the callee hands the object to code that is not followed ("+unknown+")")
				default:
					r.OK(rule, construct, pos, "the callee reads only the key field of the object")
				}
			}
		}
	}
}

// c10FieldOf: v is a load of obj.F (possibly converted).
func c10FieldOf(v ssa.Value) (ssa.Value, int, bool) {
	for d := 0; d < 4; d++ {
		switch x := v.(type) {
		case *ssa.Convert:
			v = x.X
			continue
		case *ssa.ChangeType:
			v = x.X
			continue
		case *ssa.UnOp:
			if x.Op != token.MUL {
				return nil, 0, false
			}
			if fa, ok := x.X.(*ssa.FieldAddr); ok {
				return c10Root(fa.X), fa.Field, true
			}
			return nil, 0, false
		case *ssa.Field:
			return c10Root(x.X), x.Field, true
		}
		break
	}
	return nil, 0, false
}

// c10Root strips loads of a spilled cell holding the object pointer.
func c10Root(v ssa.Value) ssa.Value {
	if ld, ok := v.(*ssa.UnOp); ok && ld.Op == token.MUL {
		if al, ok := ld.X.(*ssa.Alloc); ok {
			var only ssa.Value
			n := 0
			if al.Referrers() != nil {
				for _, r := range *al.Referrers() {
					if st, ok := r.(*ssa.Store); ok && st.Addr == ssa.Value(al) {
						only = st.Val
						n++
					}
				}
			}
			if n == 1 {
				return only
			}
		}
	}
	return v
}

// c10CallOn: v is (a result of) a static call that receives obj.
func c10CallOn(v ssa.Value, obj ssa.Value) (*ssa.Call, int) {
	for d := 0; d < 4; d++ {
		switch x := v.(type) {
		case *ssa.Extract:
			v = x.Tuple
			continue
		case *ssa.Convert:
			v = x.X
			continue
		case *ssa.Phi:
			// `encoded, err := f(n); if err == nil { m[k] = encoded }`: no φ; a φ is not followed
			return nil, 0
		case *ssa.Call:
			for i, a := range x.Common().Args {
				if c10Root(a) == obj {
					return x, i
				}
			}
			return nil, 0
		}
		break
	}
	return nil, 0
}

func c10StructOf(t types.Type) *types.Struct {
	if pt, ok := t.Underlying().(*types.Pointer); ok {
		t = pt.Elem()
	}
	st, _ := t.Underlying().(*types.Struct)
	return st
}

func c10FieldName(st *types.Struct, i int) string {
	if st != nil && i < st.NumFields() {
		return st.Field(i).Name()
	}
	return fmt.Sprintf("field#%d", i)
}

// c10FieldsRead collects the fields of parameter #pi of fn that fn reads,
// following in-module static calls that receive the same parameter.
func c10FieldsRead(inModule func(*ssa.Function) bool, fn *ssa.Function, pi int, reads map[int]bool, unknown *string, depth int, seen map[*ssa.Function]bool) {
	if seen[fn] || pi >= len(fn.Params) {
		return
	}
	seen[fn] = true
	par := ssa.Value(fn.Params[pi])
	if par.Referrers() == nil {
		return
	}
	for _, r := range *par.Referrers() {
		switch x := r.(type) {
		case *ssa.DebugRef:
		case *ssa.FieldAddr:
			reads[x.Field] = true
		case *ssa.Field:
			reads[x.Field] = true
		case *ssa.BinOp: // n == nil
		case ssa.CallInstruction:
			callee := x.Common().StaticCallee()
			if callee == nil || !inModule(callee) || callee.Blocks == nil || depth >= 2 {
				if *unknown == "" {
					*unknown = "call of " + calleeName(x.Common())
				}
				continue
			}
			for i, a := range x.Common().Args {
				if a == par {
					c10FieldsRead(inModule, callee, i, reads, unknown, depth+1, seen)
				}
			}
		case *ssa.UnOp:
			// *n: the whole value is copied
			if x.Op == token.MUL && *unknown == "" {
				*unknown = "the whole object is copied"
			}
		case *ssa.Store:
			if x.Val == par && *unknown == "" {
				*unknown = "the object pointer is stored"
			}
		default:
			if *unknown == "" {
				*unknown = fmt.Sprintf("%T", r)
			}
		}
	}
}

func calleeName(cc *ssa.CallCommon) string {
	if f := cc.StaticCallee(); f != nil {
		return f.Name()
	}
	if cc.IsInvoke() {
		return cc.Method.Name()
	}
	return "a function value"
}
